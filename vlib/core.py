"""Check driver: context, classification against known findings, evidence."""
import hashlib, json, os, random, shutil, sys, time, traceback

from . import runner, tlc

ROOT = os.path.dirname(os.path.dirname(os.path.abspath(__file__)))
# evidence is only ever written for /repo itself; runs against a scratch tree (VERIF_REPO, development
# and mutation testing) write theirs under work/ so that they cannot clobber the committed evidence
EVID = os.path.join(ROOT, "evidence") if os.path.abspath(runner.REPO) == "/repo" else os.path.join(ROOT, "work", "evidence-scratch")
if os.environ.get("VERIF_EVIDENCE_DIR"):      # rehearsal runs (e.g. a thorough sweep next to a quick pass) that must not replace the committed evidence
    EVID = os.environ["VERIF_EVIDENCE_DIR"]
FINDINGS = os.path.join(ROOT, "findings.d")   # known findings: one committed jsonl file per property


def load_findings():
    out = []
    if os.path.isdir(FINDINGS):
        for fn in sorted(os.listdir(FINDINGS)):
            if not fn.endswith(".jsonl"):
                continue
            for line in open(os.path.join(FINDINGS, fn)):
                line = line.strip()
                if line and not line.startswith("#"):
                    out.append(json.loads(line))
    return out


def jdump(x):
    return json.dumps(x, sort_keys=True, separators=(",", ":"), ensure_ascii=False)


class Ctx:
    """Everything one run of one property's check needs."""

    def __init__(self, prop, tier, seed, level):
        self.prop, self.tier, self.seed, self.level = prop, tier, seed, level
        self.rng = random.Random(seed)
        self.work = os.path.join(ROOT, "work", f"{prop}-{tier}-{os.getpid()}")
        shutil.rmtree(self.work, ignore_errors=True)
        os.makedirs(self.work)
        self.t0 = time.time()
        self.findings = [f for f in load_findings() if f.get("property") == prop]
        self.open = [f for f in self.findings if f.get("status") == "open"]
        self.known_hit = {}          # finding key -> count
        self.background = set()      # deviations that are OPEN findings of other properties, visible in this check's traces
        self.violations = []         # replay paths
        self.states = 0
        self.transitions = 0
        self.traces = 0              # behaviours / events validated against the implementation
        self.evaluations = 0
        self.distinct = set()
        self.samples = []
        self.exhaustive = None
        self.cmds = []
        self.notes = []
        self.extra = {}

    # ---- model checking -------------------------------------------------
    def mc(self, module, cfg, *, workers=10, timeout=900, simulate=None, depth=None, env=None,
           expect_violation=False, xmx="5g"):
        vec_out = os.path.join(self.work, f"{module}.{len(self.cmds)}.vec.ndjson")
        r = tlc.run_tlc(module, cfg, self.work, workers=workers, timeout=timeout, simulate=simulate,
                        depth=depth, seed=self.seed if simulate else None, env=env, vec_out=vec_out, xmx=xmx)
        self.cmds.append(r["cmd"])
        if r["violated"] and not expect_violation:
            # the *model* violates its own invariant: a specification error, not a finding
            raise tlc.ToolError(f"model {module}/{cfg} violates an invariant (spec bug):\n" + r["out"][-3000:])
        self.states += r["distinct"]
        self.transitions += r["states"]
        if simulate:
            self.exhaustive = False
        elif self.exhaustive is None:
            self.exhaustive = True
        r["vec_path"] = vec_out
        return r

    def vectors(self, r):
        with open(r["vec_path"]) as f:
            for line in f:
                line = line.strip()
                if line:
                    yield json.loads(line)

    # ---- implementation -------------------------------------------------
    def execute(self, cases, **kw):
        return runner.run_cases(cases, os.path.join(self.work, "exec"), **kw)

    # ---- verdicts ---------------------------------------------------------
    def note_case(self, key, sample=None, nontrivial=True):
        self.evaluations += 1
        if nontrivial:
            self.distinct.add(hashlib.md5(jdump(key).encode()).hexdigest()[:12])
        if sample is not None and len(self.samples) < 6:
            self.samples.append(sample)

    def classify(self, *, case_id, inp, rendered, expect, obs, devs=None, spec_op="", raw=None, dev_matches=None):
        """expect: ideal-spec observable; devs: {deviation: observable under that deviation}.
        Returns 'ok' | 'known' | 'violation'."""
        if obs == expect:
            return "ok"
        eq = dev_matches or (lambda p, o: p == o)
        if isinstance(devs, list):
            # [{d: [deviation names], o: predicted observable}]: any subset of the OPEN deviations explains it
            od = set(self.open_devs())
            cands = [e["d"] for e in devs if e.get("d") and set(e["d"]) <= od and eq(e["o"], obs)]
            if cands:
                for d in min(cands, key=len):
                    self.known_hit[d] = self.known_hit.get(d, 0) + 1
                return "known"
            devs_single = None
        else:
            devs_single = devs
        for f in self.open:
            d = f.get("deviation")
            if d and devs_single and d in devs_single and eq(devs_single[d], obs):
                self.known_hit[d] = self.known_hit.get(d, 0) + 1
                return "known"
            m = f.get("match")
            if m and raw is not None and self._match_raw(m, raw):
                k = f.get("key", jdump(m))
                self.known_hit[k] = self.known_hit.get(k, 0) + 1
                return "known"
        self.violation(case_id, dict(input=inp, rendered=rendered, expected=expect, actual=obs,
                                     devs=devs, spec_operator=spec_op, raw=raw))
        return "violation"

    @staticmethod
    def _match_raw(m, raw):
        for k, v in m.items():
            if k.endswith("_contains"):
                if v not in str(raw.get(k[:-9], "")):
                    return False
            elif raw.get(k) != v:
                return False
        return True

    def match_raw_finding(self, raw):
        """For outcome-class findings (panics/aborts): is this raw result a listed open finding?"""
        for f in self.open:
            m = f.get("match")
            if m and self._match_raw(m, raw):
                k = f.get("key", jdump(m))
                self.known_hit[k] = self.known_hit.get(k, 0) + 1
                return True
        return False

    def violation(self, case_id, replay):
        if len(self.violations) >= 25:
            self.violations.append(None)
            return
        os.makedirs(os.path.join(EVID, "replay"), exist_ok=True)
        h = hashlib.md5(jdump(replay).encode()).hexdigest()[:10]
        path = os.path.join(EVID, "replay", f"{self.prop}-{h}.json")
        replay = dict(replay, property=self.prop, case=case_id)
        with open(path, "w") as f:
            json.dump(replay, f, indent=1, ensure_ascii=False, default=str)
        self.violations.append(path)
        print(f"VIOLATION property={self.prop} replay={path}", flush=True)

    # ---- trace validation -------------------------------------------------
    def validate(self, module, cfg, events, *, on_reject, max_rejects=20, timeout=900, tag="t", env=None):
        """Validate a recorded trace against a trace spec.  When an event is
        rejected, on_reject(event) records the violation, the event is dropped
        and validation restarts so that the rest of the trace is still checked."""
        events = list(events)
        rejects = 0
        total = len(events)
        while True:
            path = os.path.join(self.work, f"{tag}.{module}.{rejects}.ndjson")
            with open(path, "w") as f:
                for e in events:
                    f.write(jdump(e) + "\n")
            r = tlc.validate_trace(module, cfg, path, self.work, timeout=timeout, env=env)
            self.cmds.append(r["cmd"] + "  # TRACE=<recorded ndjson>")
            for m in r["msgs"]:
                self._known_from_msg(m)
            if r["accepted"]:
                self.states += r["distinct"]
                self.transitions += r["states"]
                self.traces += len(events)
                return total - rejects
            i = r["unmatched"]
            if i is None or i < 1 or i > len(events):
                raise tlc.ToolError("trace rejected without a usable index:\n" + r["out"][-2000:])
            on_reject(events[i - 1])
            del events[i - 1]
            rejects += 1
            if rejects >= max_rejects:
                self.notes.append(f"trace validation stopped after {rejects} rejections")
                return total - rejects

    def validate_cases(self, module, cfg, runs, *, on_reject, timeout=1800, tag="tc", max_rejects=20):
        """Trace validation for multi-event cases.  runs: list of (case_id, [events]); the first event of a
        run gets `devs` = the open deviations and the trace spec may explain the run under any subset of
        them, printing <<"MSG","EXPL",case,Dev>> for every explanation.  A run explained by Dev = {} is
        fine; one explained only by non-empty sets is a known finding (smallest set credited); a run no
        set explains is rejected: on_reject(case_id, index_in_run), the run is dropped, the rest re-validated."""
        import re as _re
        runs = list(runs)
        od = self.open_devs()
        rejects = 0
        expl = {}
        while runs:
            evs, owner = [], []
            for (cid, es) in runs:
                for j, e in enumerate(es):
                    if j == 0:
                        e = dict(e, devs=od, case=cid)
                    evs.append(e)
                    owner.append((cid, j))
            path = os.path.join(self.work, f"{tag}.{module}.{rejects}.ndjson")
            with open(path, "w") as f:
                for e in evs:
                    f.write(jdump(e) + "\n")
            r = tlc.validate_trace(module, cfg, path, self.work, timeout=timeout)
            if len(self.cmds) < 8:
                self.cmds.append(r["cmd"] + "  # TRACE=<recorded ndjson>")
            for m in r["msgs"]:
                mm = _re.match(r'<<"MSG", "EXPL", (-?\d+), \{(.*)\}>>', m)
                if mm:
                    expl.setdefault(int(mm.group(1)), []).append(sorted(_re.findall(r'"([^"]+)"', mm.group(2))))
            if r["accepted"]:
                self.states += r["distinct"]
                self.transitions += r["states"]
                self.traces += len(runs)
                break
            i = r["unmatched"]
            if i is None or i < 1 or i > len(evs):
                raise tlc.ToolError("trace rejected without a usable index:\n" + r["out"][-2000:])
            cid, j = owner[i - 1]
            on_reject(cid, j)
            runs = [(c, es) for (c, es) in runs if c != cid]
            rejects += 1
            if rejects >= max_rejects:
                self.notes.append(f"trace validation stopped after {rejects} rejected runs")
                break
        for cid, sets in expl.items():
            if [] in sets or not sets:
                continue
            for d in min(sets, key=len):
                self.known_hit[d] = self.known_hit.get(d, 0) + 1

    def _known_from_msg(self, m):
        # <<"MSG", "KNOWN", "deviation" | {"dev1", "dev2"}, case>>
        import re as _re
        if '"KNOWN"' not in m:
            return
        opn = set(self.open_devs())
        for d in _re.findall(r'"([A-Za-z0-9_]+)"', m):
            if d in opn:
                self.known_hit[d] = self.known_hit.get(d, 0) + 1

    def enough(self):
        """fail fast: with 25 violations on record further exploration of a broken tree only costs time"""
        if len(self.violations) >= 25:
            if not any("stopped early" in n for n in self.notes):
                self.notes.append("stopped early after 25 violations (fail fast): the remaining inputs were not explored")
            return True
        return False

    def open_devs(self):
        return sorted({f["deviation"] for f in self.open if f.get("deviation")} | self.background)

    def add_background(self, other_prop):
        """Deviations listed as OPEN findings of another property also show in this check's step-level traces;
        they are accepted here without being findings of this property (they vanish when that finding is fixed)."""
        for f in load_findings():
            if f.get("property") == other_prop and f.get("status") == "open" and f.get("deviation"):
                self.background.add(f["deviation"])

    # ---- evidence -----------------------------------------------------------
    def finish(self, rule, trusted_base, assumptions, explanation=None):
        for f in self.open:
            k = f.get("deviation") or f.get("key") or jdump(f.get("match"))
            if self.known_hit.get(k):
                print(f"KNOWN-FINDING: property={self.prop} {f.get('what', k)} [{k}; {self.known_hit[k]} case(s)]", flush=True)
        nviol = len(self.violations)
        own = {f.get("deviation") or f.get("key") for f in self.open}
        bg_hits = {k: v for k, v in self.known_hit.items() if k in self.background and k not in own}
        if bg_hits:
            self.extra["background_deviation_hits"] = bg_hits
            self.notes.append("deviations that are open findings of another property were met in the traces and accepted: " + ", ".join(sorted(bg_hits)))
        cov = dict(
            evaluations=self.evaluations,
            distinct_nontrivial=len(self.distinct),
            rule=rule,
            samples=self.samples[:6] or ["(none)"],
            states=self.states,
            transitions=self.transitions,
            traces_validated_against_impl=self.traces,
            exhaustive=bool(self.exhaustive),
            checker_cmd=" ; ".join(self.cmds[:6]),
            trusted_base=trusted_base,
            known_findings_hit=self.known_hit,
            notes=self.notes,
        )
        if explanation:
            cov["explanation"] = explanation
        cov.update(self.extra)
        ev = dict(property_id=self.prop, tier=self.tier, seed=self.seed, level=self.level, coverage=cov,
                  assumptions=assumptions, wall_s=round(time.time() - self.t0, 2), violations=nviol)
        os.makedirs(EVID, exist_ok=True)
        with open(os.path.join(EVID, f"{self.prop}.json"), "w") as f:
            json.dump(ev, f, indent=1, ensure_ascii=False, default=str)
            f.write("\n")
        shutil.rmtree(self.work, ignore_errors=True)
        return 1 if nviol else 0


class Engine:
    """Base class; subclasses set prop/level and implement run(ctx) and replay(ctx, replay)."""
    prop = None
    level = "model_checking"
    trusted_base = ["TLC 1.8.0 + CommunityModules Json/IOUtils", "vh executor + in-memory loader (/verif/harness)",
                    "Python renderer/observer (/verif/vlib, /verif/engines)"]
    assumptions = []
    rule = ""
    needs_cli = False

    def run(self, ctx):
        raise NotImplementedError

    def replay(self, ctx, rep):
        raise NotImplementedError


def main(engine_for, argv):
    if len(argv) < 3:
        print("usage: check <ID> quick|thorough | check <ID> --replay <path>", file=sys.stderr)
        return 2
    prop = argv[1]
    eng = engine_for(prop)
    if eng is None:
        print(f"no engine for {prop}", file=sys.stderr)
        return 2
    seed = int(os.environ.get("VERIF_SEED", "1") or 1)
    if argv[2] == "--replay":
        tier = "quick"
    else:
        tier = os.environ.get("VERIF_TIER") or argv[2]
        if tier not in ("quick", "thorough"):
            tier = argv[2]
    ctx = Ctx(prop, tier, seed, eng.level)
    try:
        runner.build(cli=eng.needs_cli)
        if argv[2] == "--replay":
            rep = json.load(open(argv[3]))
            ok = eng.replay(ctx, rep)
            shutil.rmtree(ctx.work, ignore_errors=True)
            if not ok:
                print(f"VIOLATION property={prop} replay={argv[3]}")
                return 1
            print("replay: no violation")
            return 0
        eng.run(ctx)
        return ctx.finish(eng.rule, eng.trusted_base, eng.assumptions)
    except (tlc.ToolError, runner.ToolError) as e:
        print(f"TOOL-ERROR property={prop}: {e}", file=sys.stderr)
        shutil.rmtree(ctx.work, ignore_errors=True)
        return 2
    except Exception:
        traceback.print_exc()
        shutil.rmtree(ctx.work, ignore_errors=True)
        return 2


class VectorEngine(Engine):
    """Flow A: TLC-generated vectors replayed into rsass; Flow B: recorded
    rsass executions on inputs the spec did not choose, validated by a trace spec."""
    mc_runs = {"quick": [], "thorough": []}     # [(module, cfg, kwargs)]
    trace = None                                  # (module, cfg)
    random_n = {"quick": 300, "thorough": 5000}
    exec_kw = {}
    spec_op = ""

    # -- to implement ------------------------------------------------------
    def render(self, inp):
        raise NotImplementedError

    def project(self, inp, res):
        raise NotImplementedError

    def random_inputs(self, ctx, n):
        return []

    def key(self, inp):
        return inp

    def nontrivial(self, vec):
        return True

    def dev_matches(self, predicted, obs):
        """does the observation match what a named deviation predicts?"""
        return predicted == obs

    def sample(self, inp, case, obs):
        return dict(input=inp, rendered=case.get("src") or case.get("files"), observed=obs)

    def expect_of(self, vec):
        return vec["expect"]

    def strip(self, vec):
        """the input part of a vector (what goes into events / replay files)"""
        return {k: v for k, v in vec.items() if k not in ("expect", "dev")}

    # -- driver --------------------------------------------------------------
    def run(self, ctx):
        for (module, cfg, kw) in self.mc_runs[ctx.tier]:
            r = ctx.mc(module, cfg, **kw)
            vecs = list(ctx.vectors(r))
            if not vecs:
                raise tlc.ToolError(f"{module}/{cfg} produced no vectors (vacuous model run)")
            self.flow_a(ctx, vecs, f"{cfg}")
            if ctx.enough():
                return
        n = self.random_n.get(ctx.tier, 0)
        if self.trace and n and not (getattr(self, "fail_fast", False) and ctx.violations):
            self.flow_b(ctx, n)

    def flow_a(self, ctx, vecs, tag):
        cases = []
        for i, v in enumerate(vecs):
            c = self.render(self.strip(v))
            c["id"] = f"{tag}#{i}"
            cases.append(c)
        res = ctx.execute(cases, **self.exec_kw)
        for i, v in enumerate(vecs):
            inp = self.strip(v)
            c = cases[i]
            r = res[c["id"]]
            obs = self.project(inp, r)
            devs = v.get("dev") or {}
            ctx.note_case(self.key(inp), nontrivial=self.nontrivial(v),
                          sample=self.sample(inp, c, obs) if i % max(1, len(vecs) // 3) == 0 else None)
            ctx.traces += 1
            ctx.classify(case_id=c["id"], inp=inp, rendered=c, expect=v["expect"], obs=obs, devs=devs,
                         spec_op=self.spec_op, raw=r, dev_matches=self.dev_matches)

    def flow_b(self, ctx, n):
        inputs = self.random_inputs(ctx, n)
        if not inputs:
            return
        cases = []
        for i, inp in enumerate(inputs):
            c = self.render(inp)
            c["id"] = f"rnd#{i}"
            cases.append(c)
        res = ctx.execute(cases, **self.exec_kw)
        devs = ctx.open_devs()
        events = []
        for i, inp in enumerate(inputs):
            r = res[cases[i]["id"]]
            obs = self.project(inp, r)
            e = dict(inp, obs=obs, case=i, devs=devs)
            events.append(e)
            ctx.note_case(self.key(inp), sample=self.sample(inp, cases[i], obs) if i < 2 else None)

        def on_reject(e):
            i = e["case"]
            ctx.violation(f"rnd#{i}", dict(input=inputs[i], rendered=cases[i], actual=e["obs"], raw=res[cases[i]["id"]],
                                           expected="(rejected by trace spec %s)" % self.trace[0], flow="B"))
        ctx.validate(self.trace[0], self.trace[1], events, on_reject=on_reject)

    def replay(self, ctx, rep):
        c = dict(rep["rendered"])
        c["id"] = "replay"
        r = ctx.execute([c], **self.exec_kw)["replay"]
        obs = self.project(rep["input"], r)
        print("replay observed:", jdump(obs))
        if rep.get("flow") == "B":
            ok = []
            ev = dict(rep["input"], obs=obs, case=0, devs=[])
            ctx.validate(self.trace[0], self.trace[1], [ev], on_reject=lambda e: ok.append(e))
            return not ok
        print("replay expected:", jdump(rep["expected"]))
        return obs == rep["expected"]
