"""Build the harness from /repo's working tree and run cases through it."""
import json, os, subprocess, sys, time, shutil
from concurrent.futures import ThreadPoolExecutor

ROOT = os.path.dirname(os.path.dirname(os.path.abspath(__file__)))
HARNESS = os.path.join(ROOT, "harness")
VH = os.path.join(HARNESS, "target", "release", "vh")
REPO = os.environ.get("VERIF_REPO", "/repo")

class ToolError(Exception):
    pass

def _harness_dir():
    """The harness crate used for this run: /verif/harness for /repo itself; for a scratch tree
    (env VERIF_REPO, development/mutation testing only) a private copy whose path dependency
    points at that tree, so that concurrent experiments never touch /repo."""
    global VH
    if os.path.abspath(REPO) == "/repo":
        return HARNESS
    import hashlib
    h = hashlib.md5(os.path.abspath(REPO).encode()).hexdigest()[:8]
    d = os.path.join(ROOT, "work", "harness-" + h)
    os.makedirs(os.path.join(d, "src"), exist_ok=True)
    os.makedirs(os.path.join(d, ".cargo"), exist_ok=True)
    for fn in ("Cargo.lock", "src/main.rs", "src/history.rs", ".cargo/config.toml"):
        shutil.copyfile(os.path.join(HARNESS, fn), os.path.join(d, fn))
    toml = open(os.path.join(HARNESS, "Cargo.toml")).read().replace('path = "/repo/rsass"', f'path = "{os.path.abspath(REPO)}/rsass"')
    with open(os.path.join(d, "Cargo.toml"), "w") as f:
        f.write(toml)
    VH = os.path.join(d, "target", "release", "vh")
    return d

def build(cli=False):
    """cargo build --offline of the harness (path dependency on /repo/rsass, cfg kaj_rsass_verif)."""
    env = dict(os.environ, CARGO_NET_OFFLINE="true")
    hd = _harness_dir()
    p = subprocess.run(["cargo", "build", "--release", "--offline"], cwd=hd, env=env,
                       capture_output=True, text=True)
    if p.returncode != 0:
        raise ToolError("harness build failed (does the rsass tree still compile?):\n" + p.stderr[-4000:])
    if cli:
        tgt = os.path.join(hd, "target", "cli")
        p = subprocess.run(["cargo", "build", "--release", "--offline", "-p", "rsass-cli",
                            "--target-dir", tgt], cwd=REPO, env=env, capture_output=True, text=True)
        if p.returncode != 0:
            raise ToolError("rsass-cli build failed:\n" + p.stderr[-4000:])
        return os.path.join(tgt, "release", "rsass")
    return VH

def _run_shard(cases, workdir, idx, timeout_ms):
    """Run one shard; on a crash attribute it to the in-flight case and restart with the rest."""
    results = {}
    todo = list(cases)
    round_ = 0
    while todo:
        round_ += 1
        inp = os.path.join(workdir, f"shard{idx}.{round_}.in")
        outp = os.path.join(workdir, f"shard{idx}.{round_}.out")
        with open(inp, "w") as f:
            for c in todo:
                f.write(json.dumps(c) + "\n")
        if os.path.exists(outp):
            os.remove(outp)
        p = subprocess.run([VH, "exec", inp, outp, "--timeout-ms", str(timeout_ms)],
                           capture_output=True, text=True)
        started = None
        done = set()
        if os.path.exists(outp):
            with open(outp, errors="replace") as f:
                for line in f:
                    line = line.strip()
                    if not line:
                        continue
                    try:
                        r = json.loads(line)
                    except Exception:
                        continue
                    if "start" in r:
                        started = r["start"]
                    elif "id" in r:
                        results[r["id"]] = r
                        done.add(r["id"])
                        if started == r["id"]:
                            started = None
        if p.returncode == 0:
            missing = [c for c in todo if c["id"] not in done]
            if missing:
                raise ToolError(f"executor exited 0 but {len(missing)} cases have no result")
            break
        if p.returncode == 2:
            raise ToolError("executor tool error: " + p.stderr[-2000:])
        # crash (abort/segv/overflow) or timeout(3): blame the in-flight case
        if started is not None and started not in done:
            so = "overflowed its stack" in p.stderr
            results[started] = {"id": started, "status": "abort", "rc": p.returncode,
                                "stack_overflow": so, "stderr": p.stderr[-600:]}
            done.add(started)
        elif p.returncode != 3:
            raise ToolError(f"executor died rc={p.returncode} with no case in flight: {p.stderr[-1000:]}")
        todo = [c for c in todo if c["id"] not in done]
        for fn in (inp, outp):
            try:
                os.remove(fn)
            except OSError:
                pass
    return results

def run_cases(cases, workdir, *, nproc=12, timeout_ms=10000):
    """cases: list of dicts with unique 'id'.  Returns dict id -> result."""
    os.makedirs(workdir, exist_ok=True)
    if not cases:
        return {}
    nproc = max(1, min(nproc, (len(cases) + 199) // 200))
    shards = [cases[i::nproc] for i in range(nproc)]
    results = {}
    with ThreadPoolExecutor(max_workers=nproc) as ex:
        futs = [ex.submit(_run_shard, sh, workdir, i, timeout_ms) for i, sh in enumerate(shards)]
        for f in futs:
            results.update(f.result())
    return results

def run_history(spec, workdir, tag="h", timeout=600):
    os.makedirs(workdir, exist_ok=True)
    sp = os.path.join(workdir, f"{tag}.spec.json")
    outp = os.path.join(workdir, f"{tag}.out.ndjson")
    with open(sp, "w") as f:
        json.dump(spec, f)
    p = subprocess.run(["timeout", str(timeout), VH, "history", sp, outp], capture_output=True, text=True)
    res = []
    if os.path.exists(outp):
        with open(outp, errors="replace") as f:
            for line in f:
                line = line.strip()
                if line:
                    res.append(json.loads(line))
    return p.returncode, res, p.stderr
