"""Thin wrappers around TLC: model checking with vector capture, trace validation."""
import json, os, re, shutil, subprocess, time

SPEC = os.path.join(os.path.dirname(os.path.dirname(os.path.abspath(__file__))), "spec")

class ToolError(Exception):
    pass

_sum = re.compile(r"(\d+) states generated, (\d+) distinct states found, (\d+) states left on queue")

def _java_opts(xss="1g", deque=False):
    o = f"-Xss{xss}"
    if deque:
        o += " -Dtlc2.tool.queue.IStateQueue=StateDeque"
    return o

def run_tlc(module, cfg, workdir, *, workers=8, timeout=600, simulate=None, seed=None,
            env=None, deque=False, xmx="8g", vec_out=None, extra=None, depth=None):
    """Run TLC on spec/<module>.tla with spec/<cfg>.  Lines printed by
    PrintT(<<"VEC", json>>) are decoded and streamed to vec_out (ndjson).
    Returns dict(states, distinct, left, vecs, out, rc, wall_s, violated)."""
    os.makedirs(workdir, exist_ok=True)
    meta = os.path.join(workdir, "tlcmeta_" + module + "_" + str(os.getpid()))
    shutil.rmtree(meta, ignore_errors=True)
    cmd = ["timeout", str(timeout), "tlc", "-workers", str(workers), "-metadir", meta,
           "-cleanup", "-noGenerateSpecTE", "-config", cfg]
    if simulate:
        cmd += ["-simulate", simulate]
        if depth:
            cmd += ["-depth", str(depth)]
    if seed is not None and simulate:
        cmd += ["-seed", str(seed)]
    if extra:
        cmd += extra
    cmd += [module + ".tla"]
    e = dict(os.environ)
    e["JAVA_TOOL_OPTIONS"] = _java_opts(deque=deque) + f" -Xmx{xmx}"
    if env:
        e.update(env)
    t0 = time.time()
    p = subprocess.Popen(cmd, cwd=SPEC, env=e, stdout=subprocess.PIPE, stderr=subprocess.STDOUT,
                         text=True, errors="replace")
    nvec = 0
    other = []
    vf = open(vec_out, "w") if vec_out else None
    msgs = []
    for line in p.stdout:
        if line.startswith('<<"VEC", "') and line.rstrip().endswith('">>'):
            inner = line.rstrip()[len('<<"VEC", '):-2]
            try:
                s = json.loads(inner)
            except Exception:
                other.append(line)
                continue
            if vf:
                vf.write(s + "\n")
            nvec += 1
        elif line.startswith('<<"MSG", '):
            msgs.append(line.rstrip())
        else:
            if len(other) < 4000:
                other.append(line)
    p.wait()
    if vf:
        vf.close()
    shutil.rmtree(meta, ignore_errors=True)
    out = "".join(other)
    res = dict(rc=p.returncode, out=out, vecs=nvec, wall_s=time.time() - t0, msgs=msgs,
               states=0, distinct=0, left=0, cmd=" ".join(cmd))
    m = None
    for m in _sum.finditer(out):
        pass
    if m:
        res["states"], res["distinct"], res["left"] = int(m.group(1)), int(m.group(2)), int(m.group(3))
    res["post_false"] = bool(re.search(r"Postcondition .* is false", out))
    res["violated"] = res["post_false"] or ("is violated" in out) or ("Error: Deadlock" in out) or ("Temporal properties were violated" in out)
    res["completed"] = ("Model checking completed. No error has been found." in out) or (simulate is not None and p.returncode in (0, 124) and not res["violated"])
    if p.returncode == 124 and not simulate:
        raise ToolError(f"TLC timed out after {timeout}s: {' '.join(cmd)}")
    if not res["violated"] and not res["completed"]:
        first = [ln for ln in out.splitlines() if ln.startswith("Error:") or "Exception" in ln or "overflow" in ln.lower()][:6]
        raise ToolError("TLC failed:\n" + "\n".join(first) + "\n...\n" + out[-3000:])
    return res

_unm = re.compile(r'<<"UNMATCHED", (\d+)')

def validate_trace(module, cfg, trace_path, workdir, *, timeout=600, env=None, xmx="4g"):
    """Trace validation: TLC with the depth-first queue on a trace spec that
    reads IOEnv.TRACE; the spec's POSTCONDITION prints <<"UNMATCHED", i>> for
    the first event that no action explains.  Returns dict(accepted, unmatched, states, ...)."""
    e = {"TRACE": os.path.abspath(trace_path)}
    if env:
        e.update(env)
    r = run_tlc(module, cfg, workdir, workers=1, timeout=timeout, env=e, deque=True, xmx=xmx)
    m = _unm.search(r["out"])
    r["unmatched"] = int(m.group(1)) if m else None
    r["accepted"] = r["completed"] and not r["violated"] and m is None
    if not r["accepted"] and m is None:
        raise ToolError("trace validation failed without verdict:\n" + r["out"][-3000:])
    return r

def sany(module):
    p = subprocess.run(["tla-sany", module + ".tla"], cwd=SPEC, capture_output=True, text=True)
    ok = p.returncode == 0 and "Semantic errors" not in p.stdout and "*** Errors" not in p.stdout and "Parse Error" not in p.stdout
    return ok, p.stdout + p.stderr
