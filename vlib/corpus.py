"""The sass-spec corpus as converted into /repo/rsass/tests/spec/**/*.rs: extract the SCSS input of every
`runner().ok("...")` / `runner().err("...")` call (Rust string literals with \\-newline continuations)."""
import glob, os, re

REPO = os.environ.get("VERIF_REPO", "/repo")


def _rust_str(src, i):
    """src[i] == '"': parse a Rust string literal, return (text, index after the closing quote)."""
    assert src[i] == '"'
    out = []
    i += 1
    n = len(src)
    while i < n:
        c = src[i]
        if c == '"':
            return "".join(out), i + 1
        if c == "\\":
            d = src[i + 1]
            if d == "n":
                out.append("\n"); i += 2
            elif d == "t":
                out.append("\t"); i += 2
            elif d == "r":
                out.append("\r"); i += 2
            elif d == "0":
                out.append("\0"); i += 2
            elif d in "\\\"'":
                out.append(d); i += 2
            elif d == "\n":
                i += 2
                while i < n and src[i] in " \t\n\r":
                    i += 1
            elif d == "u":
                m = re.match(r"\\u\{([0-9a-fA-F_]+)\}", src[i:])
                out.append(chr(int(m.group(1).replace("_", ""), 16))); i += m.end()
            elif d == "x":
                out.append(chr(int(src[i + 2:i + 4], 16))); i += 4
            else:
                out.append(d); i += 2
        else:
            out.append(c); i += 1
    raise ValueError("unterminated string")


_call = re.compile(r"\.(ok|err)\(\s*\"")


def inputs(limit=None, only_plain=True):
    """Yield (id, scss_text, kind) for every test input. only_plain: skip tests whose runner mocks files or sets options."""
    files = sorted(glob.glob(os.path.join(REPO, "rsass/tests/spec/**/*.rs"), recursive=True))
    n = 0
    for fn in files:
        try:
            src = open(fn, encoding="utf-8").read()
        except Exception:
            continue
        rel = os.path.relpath(fn, os.path.join(REPO, "rsass/tests/spec"))
        for k, m in enumerate(_call.finditer(src)):
            try:
                text, _ = _rust_str(src, m.end() - 1)
            except Exception:
                continue
            yield (f"{rel}#{k}", text, m.group(1))
            n += 1
            if limit and n >= limit:
                return
