"""C19 / C22: selector nesting and placeholder removal (spec/Selectors.tla)."""
from vlib.core import VectorEngine
from . import cssobs

COMBS = ("sp", ">", "+", "~")
FNS = (":not(", ":is(", ":where(", ":matches(", ":has(", ":any(", ":host(", ":-moz-any(")


def render_level(toks):
    out = []
    for t in toks:
        if t == "sp":
            out.append(" ")
        elif t in COMBS:
            out.append(" " + t + " ")
        elif t == ",":
            out.append(", ")
        else:
            out.append(t)
    return "".join(out).strip()


def split_levels(toks):
    levels, cur = [], []
    for t in toks:
        if t == "{":
            levels.append(cur); cur = []
        else:
            cur.append(t)
    levels.append(cur)
    return levels


def render_nest(toks):
    levels = [render_level(l) for l in split_levels(toks)]
    src = ""
    for i, l in enumerate(levels):
        src += f"{l} {{ p{i + 1}: v; "
    src += "} " * len(levels)
    return src.strip() + "\n"


def observe_rules(res):
    """executor result -> {"st": .., "rules": [{"sel": [..], "d": name}]} (flat style rules only)"""
    st = res.get("status")
    if st != "ok":
        return {"st": "err" if st == "err" else str(st), "rules": []}
    try:
        tree = cssobs.parse(res.get("out") or "")
    except cssobs.CssSyntaxError as e:
        return {"st": "badcss:" + str(e), "rules": []}
    rules = []
    for node in tree:
        if node["t"] == "block" and not node["head"].startswith("@"):
            decls = [k for k in node["kids"] if k["t"] == "decl"]
            other = [k for k in node["kids"] if k["t"] != "decl"]
            if other or len(decls) != 1:
                rules.append({"sel": cssobs.selector_list(node["head"]), "d": "?" + ",".join(k.get("name", k["t"]) for k in node["kids"])})
            else:
                rules.append({"sel": cssobs.selector_list(node["head"]), "d": decls[0]["name"]})
        else:
            rules.append({"sel": ["?" + node["t"]], "d": "?"})
    return {"st": "ok", "rules": rules}


class SelectorsEngine(VectorEngine):
    level = "model_checking"
    trace = ("Trace_Selectors", "Trace_Selectors.cfg")
    spec_op = "Selectors!Observe"
    style = "expanded"
    # Flow B shape
    rnd = dict(levels=(2, 4), maxlist=3, maxcomps=3, simples=("a", "b", ".c", ".d", "#i", "[x]", ":hover", "%p"),
               fns=(":not(", ":is("), pfn=0.15, pamp=0.4)

    def render(self, inp):
        return dict(api="compile_scss", src=render_nest(inp["toks"]), style=self.style)

    def project(self, inp, res):
        return observe_rules(res)

    def key(self, inp):
        return inp["toks"]

    def nontrivial(self, vec):
        return "{" in vec["toks"] or "," in vec["toks"] or any(t in FNS for t in vec["toks"])

    # ---- Flow B: random deeper nests from the same token grammar -------------------------------
    def random_inputs(self, ctx, n):
        rng = ctx.rng
        return [{"toks": self.gen_nest(rng)} for _ in range(n)]

    def gen_nest(self, rng):
        cfg = self.rnd
        nlev = rng.randint(*cfg["levels"])
        toks = []
        for lv in range(1, nlev + 1):
            if lv > 1:
                toks.append("{")
            toks += self.gen_list(rng, lv, 0, rng.randint(1, cfg["maxlist"]))
        return toks

    def gen_list(self, rng, lv, depth, n, allow_amp=True):
        out = []
        for i in range(n):
            if i:
                out.append(",")
            out += self.gen_complex(rng, lv, depth, allow_amp)
        return out

    def gen_complex(self, rng, lv, depth, allow_amp=True):
        cfg = self.rnd
        ncomp = rng.randint(1, cfg["maxcomps"] if depth == 0 else 2)
        lead = lv > 1 and depth == 0 and rng.random() < 0.12
        allow_amp = allow_amp and lv > 1 and not lead      # a selector with a leading combinator has no &
        amp_at = rng.randrange(ncomp) if (allow_amp and rng.random() < cfg["pamp"]) else -1
        out = []
        if lead:
            out.append(rng.choice(COMBS[1:]))
        for k in range(ncomp):
            if k:
                out.append(rng.choice(COMBS))
            out += self.gen_compound(rng, lv, depth, k == amp_at, allow_amp)
        return out

    def gen_compound(self, rng, lv, depth, amp, allow_amp):
        cfg = self.rnd
        out = []
        pool = list(cfg["simples"])
        if amp:
            out.append("&")
            if rng.random() < 0.35:
                out.append(rng.choice(("-x", "-y")))
            pool = [t for t in pool if not t[0].isalpha()]
            k = rng.randint(0, 2)
        else:
            k = rng.randint(1, 2)
        chosen = rng.sample(pool, min(k, len(pool)))
        chosen.sort(key=lambda t: 0 if t[0].isalpha() else 1)     # a type selector can only come first
        while sum(1 for t in chosen if t[0].isalpha()) > 1:
            chosen = chosen[1:]
        out += chosen
        if depth < 2 and rng.random() < cfg["pfn"]:
            out.append(rng.choice(cfg["fns"]))
            out += self.gen_list(rng, lv, depth + 1, rng.randint(1, 2), allow_amp)
            out.append(")")
        return out


class C19(SelectorsEngine):
    prop = "C19"
    rule = ("Selector nests generated as token strings by the builder actions of MC_Selectors.tla (levels separated by `{`, lists, "
            "combinators, leading combinators, `&` at the start of a compound / after a combinator / with a suffix / inside pseudo-class "
            "arguments), bounded-exhaustive per configuration; every nest is rendered as L1 { p1: v; L2 { p2: v; L3 { p3: v } } } and the "
            "emitted rules (selector texts in order, declaration held) are compared with Selectors!Observe. non-trivial = more than one "
            "level, list or pseudo-class; distinct = distinct token string. Flow B: seeded random nests of 2-4 levels x <=3 selectors "
            "validated by Trace_Selectors.tla. Last clause: trees of nested rules with declarations before/between/after them "
            "(MC_Emit_C19_e.cfg) compared with Emit!Expected (order and selector association).")
    assumptions = ["a suffix (`&-x`) on a parent whose last simple selector is an attribute or a pseudo-class with arguments is an error in Sass and not compared",
                   "several `&` in one complex selector and `&` after other simple selectors are outside the generated space",
                   "selector text is compared after whitespace normalisation (single spaces around combinators, `, ` between arguments)"]
    mc_runs = {
        "quick": [("MC_Selectors", "MC_Selectors_C19_a.cfg", {"workers": 4}), ("MC_Selectors", "MC_Selectors_C19_b.cfg", {"workers": 4}),
                  ("MC_Selectors", "MC_Selectors_C19_c.cfg", {"workers": 4}), ("MC_Selectors", "MC_Selectors_C19_d.cfg", {"workers": 4})],
        "thorough": [("MC_Selectors", "MC_Selectors_C19_a.cfg", {"workers": 4}), ("MC_Selectors", "MC_Selectors_C19_b.cfg", {"workers": 4}),
                     ("MC_Selectors", "MC_Selectors_C19_c.cfg", {"workers": 4}), ("MC_Selectors", "MC_Selectors_C19_d.cfg", {"workers": 4}),
                     ("MC_Selectors", "MC_Selectors_C19_t.cfg", {"workers": 4, "timeout": 1500})],
    }
    random_n = {"quick": 1000, "thorough": 10000}

    def run(self, ctx):
        super().run(ctx)
        # last clause of C19 (declarations under the innermost resolved selector, in source order):
        # trees of nested rules and declarations from MC_Emit, compared with Emit!Expected
        from . import emit
        e = emit.EmitEngine()
        r = ctx.mc("MC_Emit", "MC_Emit_C19_e.cfg", workers=4)
        vecs = list(ctx.vectors(r))
        if not vecs:
            from vlib import tlc
            raise tlc.ToolError("MC_Emit/MC_Emit_C19_e.cfg produced no vectors")
        e.flow_a(ctx, vecs, "MC_Emit_C19_e.cfg")


class C22(SelectorsEngine):
    prop = "C22"
    rule = ("Selector lists over normal and placeholder selectors with :not()/:is()/:where()/:matches()/:has() arguments (nested), "
            "alone and nested under a (placeholder) parent, generated by MC_Selectors.tla; the emitted selector lists are compared with "
            "Selectors!Observe (NoPlaceholder). non-trivial = contains a list, a level or a pseudo-class; distinct = distinct token string. "
            "Flow B: random nests with placeholders and selector pseudo-classes validated by Trace_Selectors.tla.")
    assumptions = ["selector pseudo-classes are those named in Selectors!FnToks; other functional pseudo-classes are not generated",
                   "selector text is compared after whitespace normalisation"]
    rnd = dict(levels=(1, 3), maxlist=3, maxcomps=2, simples=("a", ".b", "%p", "%q", ".c"),
               fns=(":not(", ":is(", ":where(", ":matches(", ":has("), pfn=0.45, pamp=0.3)
    mc_runs = {
        "quick": [("MC_Selectors", "MC_Selectors_C22_a.cfg", {"workers": 4}), ("MC_Selectors", "MC_Selectors_C22_b.cfg", {"workers": 4}),
                  ("MC_Selectors", "MC_Selectors_C22_c.cfg", {"workers": 4})],
        "thorough": [("MC_Selectors", "MC_Selectors_C22_c.cfg", {"workers": 4}),
                     ("MC_Selectors", "MC_Selectors_C22_t.cfg", {"workers": 4, "timeout": 1500}),
                     ("MC_Selectors", "MC_Selectors_C22_u.cfg", {"workers": 4, "timeout": 1500})],
    }
    random_n = {"quick": 1000, "thorough": 10000}
