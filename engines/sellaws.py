"""C23 / C24 / C25: laws of the selector functions (spec/SelLaws.tla, SelRT.tla).

Law engines: TLC emits the QUERY LIST (MC_SelLaws / MC_SelRT: a universe of selector lists, all pairs, all Derive
pairs, operand triples, selector source texts); this module renders every query to SCSS (many probes per
stylesheet), lets rsass answer, reads the answers back (booleans, selector texts split into tokens) and hands them
as a trace to Trace_SelLaws / Trace_SelRT, whose monitors evaluate the laws on the OBSERVED values.  Nothing is
decided here; no reference is-superselector / unify / extend exists on this side."""
import re
import time

from vlib import tlc
from vlib.core import VectorEngine, jdump
from . import cssobs
from .selectors import render_level

SELECTOR_PSEUDOS = ("not", "is", "where", "matches", "has", "any", "host", "host-context", "-moz-any", "-webkit-any", "slotted", "current")
BATCH = 250


def sq(s):
    """a selector text as a double-quoted Sass string (generated alphabets contain neither quotes nor backslashes)"""
    assert '"' not in s and "\\" not in s, s
    return '"' + s + '"'


# ---- observer: selector text -> tokens in the format of Selectors.tla ---------------------------------------

def _name_end(t, i):
    n = len(t)
    while i < n:
        ch = t[i]
        if ch == "\\" and i + 1 < n:
            i += 2
        elif ch.isalnum() or ch in "-_|%*" or ord(ch) >= 128:
            i += 1
        else:
            break
    return i


def _close(t, i, op, cl):
    """index just after the bracket that closes t[i] (== op)"""
    depth, n = 0, len(t)
    while i < n:
        ch = t[i]
        if ch in "\"'":
            j = i + 1
            while j < n and t[j] != ch:
                j += 2 if t[j] == "\\" else 1
            i = j
        elif ch == "\\":
            i += 1
        elif ch == op:
            depth += 1
        elif ch == cl:
            depth -= 1
            if depth == 0:
                return i + 1
        i += 1
    return n


def complex_tokens(text):
    """one complex selector -> ["a", ">", "b", ".c", "sp", ":not(", ".d", ",", "e", ")"]"""
    t = text.strip()
    out, i, n = [], 0, len(t)
    pending_space = False
    while i < n:
        ch = t[i]
        if ch.isspace():
            pending_space = True
            i += 1
            continue
        if ch in ">+~":
            out.append(ch)
            pending_space = False
            i += 1
            continue
        if pending_space and out and out[-1] not in (">", "+", "~"):
            out.append("sp")
        pending_space = False
        if ch == "[":
            j = _close(t, i, "[", "]")
            out.append(t[i:j])
            i = j
        elif ch == ":":
            j = i + 1
            if j < n and t[j] == ":":
                j += 1
            k = _name_end(t, j)
            name = t[j:k]
            if k < n and t[k] == "(":
                e = _close(t, k, "(", ")")
                if name in SELECTOR_PSEUDOS:
                    out.append(t[i:k + 1])
                    out += list_tokens_flat(t[k + 1:e - 1])
                    out.append(")")
                else:
                    out.append(t[i:e])
                i = e
            else:
                out.append(t[i:k])
                i = k
        else:
            j = i + 1 if ch in ".#%" else i
            k = _name_end(t, j)
            if k == i:          # a character this reader does not know: keep it as a token of its own
                k = i + 1
            out.append(t[i:k])
            i = k
    return out


def list_tokens_flat(text):
    out = []
    for n, part in enumerate(cssobs.split_top(text, ",")):
        if n:
            out.append(",")
        out += complex_tokens(part)
    return out


def members(text):
    """selector list text -> [tokens of each complex selector]; "" -> []"""
    text = text.strip()
    if not text:
        return []
    return [complex_tokens(p) for p in cssobs.split_top(text, ",")]


def unq(v):
    v = v.strip()
    return v[1:-1] if len(v) >= 2 and v[0] == '"' and v[-1] == '"' else v


# ---- rendering of the queries -------------------------------------------------------------------------------

PRELUDE = ('@use "sass:selector";\n'
           '@function sup($x, $u) { $s: ""; @if $u == null { @return "-"; } '
           '@each $c in $u { $s: $s + if(selector.is-superselector($x, "#{$c}"), "1", "0"); } @return $s; }\n')


def arg(toks, form):
    s = sq(render_level(toks))
    return "selector.parse(%s)" % s if form == "list" else s


def probe(q, i):
    """-> (declarations inside `r{}`, rules after it) for query q as probe number i"""
    k = q["k"]
    if k == "super":
        return ["q%d: selector.is-superselector(%s, %s)" % (i, arg(q["a"], q["fa"]), arg(q["b"], q["fb"]))], []
    if k == "unify":
        a, b = sq(render_level(q["a"])), sq(render_level(q["b"]))
        return ["$u: selector.unify(%s, %s)" % (a, b), 'q%d-u: "#{$u}"' % i, "q%d-sa: sup(%s, $u)" % (i, a), "q%d-sb: sup(%s, $u)" % (i, b)], []
    if k in ("extend", "replace"):
        s, x, y = (sq(render_level(q[f])) for f in ("a", "x", "y"))
        return ['q%d-ps: "#{selector.parse(%s)}"' % (i, s), 'q%d-e: "#{selector.%s(%s, %s, %s)}"' % (i, k, s, x, y)], []
    if k == "nest":
        a, b = render_level(q["a"]), render_level(q["b"])
        return ['q%d-n: "#{selector.nest(%s, %s)}"' % (i, sq(a), sq(b))], ["%s { %s { p: q%d } }" % (a, b, i)]
    if k == "append":
        a, b = render_level(q["a"]), render_level(q["b"])
        return ['q%d-n: "#{selector.append(%s, %s)}"' % (i, sq(a), sq(b))], ["%s { &%s { p: q%d } }" % (a, b, i)]
    raise ValueError(k)


def stylesheet(qs, idx, part=None):
    """part: None = everything; "fn" / "em" = only the function side / only the nested rule (used to tell which side failed)"""
    decls, rules = [], []
    for q, i in zip(qs, idx):
        d, r = probe(q, i)
        if part != "em":
            decls += d
        if part != "fn":
            rules += r
    return PRELUDE + "r {\n" + "".join("  %s;\n" % d for d in decls) + "}\n" + "".join(r + "\n" for r in rules)


def read_out(out):
    """-> ({probe decl name: value}, {probe id: emitted selector text})"""
    vals, emitted = {}, {}
    try:
        tree = cssobs.parse(out or "")
    except cssobs.CssSyntaxError:
        return None, None
    for node in tree:
        if node["t"] != "block":
            continue
        if node["head"] == "r":
            for kid in node["kids"]:
                if kid["t"] == "decl":
                    vals[kid["name"]] = kid["value"]
        else:
            for kid in node["kids"]:
                if kid["t"] == "decl" and kid["name"] == "p":
                    emitted[kid["value"]] = node["head"]
    return vals, emitted


class SelLawsEngine(VectorEngine):
    trace = ("Trace_SelLaws", "Trace_SelLaws.cfg")
    spec_op = "SelLaws monitors (Trace_SelLaws!Explained)"
    ref_cfg = {"quick": "MC_SelLaws_ref.cfg", "thorough": "MC_SelLaws_reft.cfg"}
    q_cfg = {}
    max_rejects = 6
    random_n = {"quick": 1500, "thorough": 15000}

    # ---- asking rsass ------------------------------------------------------------------------------------
    def ask(self, ctx, qs, tag):
        """answers for the queries, in order: list of observation dicts (the query + observed fields)"""
        batches = [list(range(i, min(i + BATCH, len(qs)))) for i in range(0, len(qs), BATCH)]
        cases = [dict(api="compile_scss", src=stylesheet([qs[i] for i in b], b), style="expanded", id="%s-b%d" % (tag, n))
                 for n, b in enumerate(batches)]
        res = ctx.execute(cases)
        obs = [None] * len(qs)
        singles = []
        for n, b in enumerate(batches):
            r = res[cases[n]["id"]]
            vals, emitted = read_out(r.get("out")) if r.get("status") == "ok" else (None, None)
            if vals is None:
                singles += b          # a probe of this batch failed: ask them one by one
                continue
            for i in b:
                obs[i] = self.observe(qs[i], i, "ok", vals, emitted, "ok", "ok")
        if singles:
            sc = []
            for i in singles:
                sc.append(dict(api="compile_scss", src=stylesheet([qs[i]], [i]), style="expanded", id="%s-s%d" % (tag, i)))
                if qs[i]["k"] in ("nest", "append"):
                    sc.append(dict(api="compile_scss", src=stylesheet([qs[i]], [i], "fn"), style="expanded", id="%s-f%d" % (tag, i)))
                    sc.append(dict(api="compile_scss", src=stylesheet([qs[i]], [i], "em"), style="expanded", id="%s-e%d" % (tag, i)))
            sres = ctx.execute(sc)
            for i in singles:
                r = sres["%s-s%d" % (tag, i)]
                st = r.get("status")
                if qs[i]["k"] in ("nest", "append"):
                    rf, re_ = sres["%s-f%d" % (tag, i)], sres["%s-e%d" % (tag, i)]
                    vf, _ = read_out(rf.get("out")) if rf.get("status") == "ok" else (None, None)
                    _, ee = read_out(re_.get("out")) if re_.get("status") == "ok" else (None, None)
                    obs[i] = self.observe(qs[i], i, "ok", vf or {}, ee or {}, str(rf.get("status")), str(re_.get("status")))
                else:
                    vals, emitted = read_out(r.get("out")) if st == "ok" else ({}, {})
                    obs[i] = self.observe(qs[i], i, str(st), vals or {}, emitted or {}, str(st), str(st))
                obs[i]["raw"] = {k: r.get(k) for k in ("status", "err", "msg", "loc") if r.get(k)}
        return obs

    def observe(self, q, i, st, vals, emitted, sf, se):
        k = q["k"]
        if k == "super":
            v = vals.get("q%d" % i)
            return dict(k=k, a=q["a"], b=q["b"], ia=q["ia"], ib=q["ib"], fa=q["fa"], fb=q["fb"],
                        r=1 if v == "true" else 0 if v == "false" else -1)
        if k == "unify":
            u = vals.get("q%d-u" % i)
            if st != "ok" or u is None:
                return dict(k=k, a=q["a"], b=q["b"], st=st if st != "ok" else "noout", u=[], sa=[], sb=[])
            mem = members(unq(u))
            bits = lambda s: [1 if c == "1" else 0 if c == "0" else -1 for c in unq(s)]
            sa, sb = unq(vals.get("q%d-sa" % i, '"-"')), unq(vals.get("q%d-sb" % i, '"-"'))
            if not mem or sa == "-":
                return dict(k=k, a=q["a"], b=q["b"], st="null", u=[], sa=[], sb=[])
            sa, sb = bits(sa), bits(sb)
            if len(sa) != len(mem) or len(sb) != len(mem):
                st = "shape"        # the printed result does not have one text per member: not comparable
            return dict(k=k, a=q["a"], b=q["b"], st=st, u=mem, sa=sa, sb=sb)
        if k in ("extend", "replace"):
            ps, e = vals.get("q%d-ps" % i), vals.get("q%d-e" % i)
            if st != "ok" or ps is None or e is None:
                return dict(k=k, s=q["a"], x=q["x"], y=q["y"], st=st if st != "ok" else "noout", ps=[], e=[])
            return dict(k=k, s=q["a"], x=q["x"], y=q["y"], st="ok", ps=members(unq(ps)), e=members(unq(e)))
        if k in ("nest", "append"):
            n, em = vals.get("q%d-n" % i), emitted.get("q%d" % i)
            if sf == "ok" and n is None:
                sf = "noout"
            if se == "ok" and em is None:
                se = "noout"
            return dict(k=k, a=q["a"], b=q["b"], sf=sf, se=se, n=members(unq(n)) if sf == "ok" else [],
                        em=[complex_tokens(s) for s in cssobs.selector_list(em)] if se == "ok" else [])
        raise ValueError(k)

    # ---- driver --------------------------------------------------------------------------------------------
    def queries(self, ctx):
        if self.ref_cfg:
            ctx.mc("MC_SelLaws", self.ref_cfg[ctx.tier], workers=4, timeout=1500)      # vacuity guard (no vectors)
        r = ctx.mc("MC_SelLaws", self.q_cfg[ctx.tier], workers=4, timeout=1500)
        vecs = list(ctx.vectors(r))
        sels = sorted((v for v in vecs if v["k"] == "sel"), key=lambda v: v["ia"])
        qs = [v for v in vecs if v["k"] != "sel"]
        if not sels or not qs:
            raise tlc.ToolError("MC_SelLaws produced no queries (vacuous model run)")
        # the table in row-major order first, then the rest, in a fixed order
        qs.sort(key=lambda v: (v["k"], v["fa"], v["fb"], v["ia"], v["ib"], jdump(v["b"]), jdump(v["x"]), jdump(v["y"])))
        return len(sels), qs

    def run(self, ctx):
        t0 = time.time()
        n, qs = self.queries(ctx)
        self._n = n
        t1 = time.time()
        rnd = self.random_queries(ctx, self.random_n.get(ctx.tier, 0))
        allq = qs + rnd
        obs = self.ask(ctx, allq, "q")
        t2 = time.time()
        devs = ctx.open_devs()
        events = [dict(k="universe", n=n, case=-1, devs=devs)]
        for i, o in enumerate(obs):
            o = dict(o)
            o.pop("raw", None)
            events.append(dict(o, case=i, devs=devs))
            q = allq[i]
            ctx.note_case([q["k"], q["a"], q["b"], q["x"], q["y"], q["fa"], q["fb"]],
                          sample=dict(query={f: q[f] for f in ("k", "a", "b", "x", "y", "fa", "fb") if q[f] not in ([], "str")},
                                      observed={f: v for f, v in o.items() if f not in ("k", "a", "b", "s", "x", "y", "ia", "ib", "fa", "fb")})
                          if i % max(1, len(allq) // 5) == 0 else None,
                          nontrivial=q["k"] != "super" or q["a"] != q["b"])
        self.stats(ctx, obs, len(qs))

        def on_reject(e):
            i = e["case"]
            qq = self.witness(allq, obs, i)
            ctx.violation("q#%d" % i, dict(input=dict(n=n, queries=qq), rendered=stylesheet(qq, list(range(len(qq)))),
                                            actual={k: v for k, v in e.items() if k not in ("devs", "case")},
                                            raw=obs[i].get("raw"), expected="(rejected by the monitors of %s)" % self.trace[0], flow="B"))
        ctx.validate(self.trace[0], self.trace[1], events, on_reject=on_reject, max_rejects=self.max_rejects, timeout=1700)
        ctx.extra["phase_s"] = dict(tlc_queries=round(t1 - t0, 1), rsass=round(t2 - t1, 1), trace_validation=round(time.time() - t2, 1))

    def stats(self, ctx, obs, nspec):
        c = {}
        for o in obs:
            key = o["k"] + ":" + (str(o.get("st") or o.get("sf") or ("err" if o.get("r") == -1 else "ok")))
            c[key] = c.get(key, 0) + 1
        ctx.extra["answers"] = c
        ctx.extra["universe_size"] = self._n
        ctx.extra["queries_from_spec"] = nspec
        ctx.extra["queries_random"] = len(obs) - nspec

    def witness(self, allq, obs, i):
        """for reporting only: a table entry that was rejected is replayed together with the two other entries of a
        triple it breaks (the monitor, not this function, decided that it does)"""
        q = allq[i]
        if q["k"] != "super" or not (q["ia"] and q["ib"]) or (q["fa"], q["fb"]) != ("str", "str"):
            return [q]
        R = {}
        idx = {}
        for j, (qq, o) in enumerate(zip(allq, obs)):
            if qq["k"] == "super" and qq["ia"] and qq["ib"] and (qq["fa"], qq["fb"]) == ("str", "str") and j <= i:
                R[(qq["ia"], qq["ib"])] = o["r"]
                idx[(qq["ia"], qq["ib"])] = j
        a, b, r = q["ia"], q["ib"], obs[i]["r"]
        keys = {k[0] for k in R} | {k[1] for k in R}
        for c in sorted(keys):
            for trip in (((b, c), (a, c)), ((c, a), (c, b)), ((a, c), (c, b))):
                x, y = trip
                if x in R and y in R:
                    if r == 1 and trip[0] in ((b, c), (c, a)) and R[x] == 1 and R[y] == 0:
                        return [allq[idx[x]], allq[idx[y]], q]
                    if r == 0 and trip[0] == (a, c) and R[x] == 1 and R[y] == 1:
                        return [allq[idx[x]], allq[idx[y]], q]
        return [q]

    def replay(self, ctx, rep):
        qs = rep["input"]["queries"]
        obs = self.ask(ctx, qs, "r")
        devs = ctx.open_devs()
        events = [dict(k="universe", n=rep["input"]["n"], case=-1, devs=devs)]
        for i, o in enumerate(obs):
            o = dict(o)
            o.pop("raw", None)
            print("replay observed:", jdump(o))
            events.append(dict(o, case=i, devs=devs))
        bad = []
        ctx.validate(self.trace[0], self.trace[1], events, on_reject=lambda e: bad.append(e))
        return not bad

    # ---- Flow B: random queries beyond the universe --------------------------------------------------------
    ELEMS = ("a", "b", "e", "f", "*")
    ADDS = (".c", ".d", ".e", "#i", "#j", "[x]", "[x=y]", "[y]", ":hover", ":focus")
    FN = (":not(", ":is(", ":where(")

    def rnd_compound(self, rng, depth=0, pe=True):
        out = []
        if rng.random() < 0.55:
            out.append(rng.choice(self.ELEMS))
        # id before classes before attributes before pseudos: the storage order of the pinned tree
        pool = [t for t in self.ADDS if rng.random() < 0.22]
        pool.sort(key=lambda t: (0 if t[0] == "#" else 1 if t[0] == "." else 2 if t[0] == "[" else 3))
        if sum(1 for t in pool if t[0] == "#") > 1:
            pool = [t for t in pool if t != "#j"]
        out += pool
        if depth < 1 and rng.random() < 0.2:
            out.append(rng.choice(self.FN))
            for n in range(rng.randint(1, 2)):
                if n:
                    out.append(",")
                out += self.rnd_complex(rng, depth + 1, 2, pe=False)
            out.append(")")
        if pe and rng.random() < 0.1:
            out.append(rng.choice(("::before", "::after")))
        if not out:
            out.append(rng.choice((".c", "a", ".d")))
        return out

    def rnd_complex(self, rng, depth=0, maxc=4, pe=True):
        n = rng.randint(1, maxc)
        out = []
        for k in range(n):
            if k:
                out.append(rng.choice(("sp", "sp", ">", "+", "~")))
            out += self.rnd_compound(rng, depth, pe and k == n - 1)
        return out

    def rnd_list(self, rng, maxn=3):
        out = []
        for n in range(rng.choice((1, 1, 1, 2, 2, maxn))):
            if n:
                out.append(",")
            out += self.rnd_complex(rng)
        return out

    @staticmethod
    def split_list(toks):
        parts, cur, depth = [], [], 0
        for t in toks:
            if t.endswith("(") and t.startswith(":"):
                depth += 1
            elif t == ")":
                depth -= 1
            if t == "," and depth == 0:
                parts.append(cur)
                cur = []
            else:
                cur.append(t)
        parts.append(cur)
        return parts

    def rnd_derived(self, rng, toks):
        """a complex selector obtained from one member by adding simple selectors / ancestors (several steps);
        whether it really is one is decided by SelLaws!IsDerivedComplex, not here"""
        m = list(rng.choice(self.split_list(toks)))
        for _ in range(rng.randint(1, 3)):
            if rng.random() < 0.6:
                # add a class / attribute / pseudo-class at the end of a compound, in front of a pseudo-element
                ends = [i for i in range(len(m) + 1) if (i == len(m) or m[i] in ("sp", ">", "+", "~")) and self._depth(m, i) == 0]
                e = rng.choice(ends)
                if e > 0 and m[e - 1] in ("::before", "::after"):
                    e -= 1
                s = rng.choice((".g", ".h", ":active", "[z]"))
                if s not in m:
                    m.insert(e, s)
            elif rng.random() < 0.5:
                m = self.rnd_complex(rng, 1, 2, pe=False) + [rng.choice(("sp", ">"))] + m
            else:
                # add ancestors at a descendant combinator; often a copy of the compound on its left (a repeated name)
                sps = [i for i, t in enumerate(m) if t == "sp" and self._depth(m, i) == 0]
                if sps:
                    i = rng.choice(sps)
                    j = i
                    while j > 0 and not (m[j - 1] in ("sp", ">", "+", "~") and self._depth(m, j - 1) == 0):
                        j -= 1
                    left = m[j:i]
                    mid = list(left) if rng.random() < 0.6 else self.rnd_compound(rng, 1, pe=False)
                    if rng.random() < 0.5:
                        mid = self.rnd_compound(rng, 1, pe=False) + [rng.choice(("sp", ">"))] + mid
                    if any(t in ("::before", "::after") for t in mid):
                        mid = [t for t in mid if t not in ("::before", "::after")] or ["e"]
                    c1, c2 = rng.choice((("sp", "sp"), (">", "sp"), ("sp", ">")))
                    m = m[:i] + [c1] + mid + [c2] + m[i + 1:]
        return m

    @staticmethod
    def _depth(toks, i):
        d = 0
        for t in toks[:i]:
            if t.endswith("(") and t.startswith(":"):
                d += 1
            elif t == ")":
                d -= 1
        return d

    def random_queries(self, ctx, n):
        return []


def Q(k, a, b=(), x=(), y=(), fa="str", fb="str"):
    return dict(k=k, ia=0, ib=0, a=list(a), b=list(b), x=list(x), y=list(y), fa=fa, fb=fb)


class C23(SelLawsEngine):
    prop = "C23"
    level = "model_checking"
    q_cfg = {"quick": "MC_SelLaws_C23_q.cfg", "thorough": "MC_SelLaws_C23_t.cfg"}
    rule = ("Universe of 238 (thorough: 334) selector lists defined in MC_SelLaws.tla (35 compounds over type, universal, class, id, attribute, "
            "pseudo-class, pseudo-element, :is()/:where()/:not() selectors, also beside what their arguments match (`:is(.c)`, `.c`, `.c:is(.d)`); all two-compound complex selectors over a core set of 6 (7) compounds x 4 "
            "combinators; three- and four-compound ones; lists of two; plus a second table block of 35 (55) selectors of up to 5 compounds with "
            "repeated names: an explicit combinator above a descendant combinator with ancestors inserted at the latter). TLC emits every ordered pair, every one-step Derive pair (adding a simple selector to a compound, prepending an "
            "ancestor/parent prefix, inserting ancestors - also a copy of the compound on the left - at a descendant combinator), every list member, in text form and in the list form the selector functions return; rsass answers "
            "selector.is-superselector for each; Trace_SelLaws.tla (SuperMonitor) checks reflexivity, monotonicity and, from the observed table, "
            "every triple for transitivity. An evaluation = one answered query; non-trivial = the two selectors differ; distinct = distinct "
            "(a, b, forms). Flow B: seeded random selector lists of up to 4 compounds x 3 members with several-step derivations.")
    assumptions = ["pseudo-elements are not simple selectors (Selectors Level 4): they are never what Derive adds, and nothing is added behind one",
                   "compounds are written in the order the pinned tree stores them (element, id, classes, attributes, pseudos), so that the "
                   "open finding compound_reordered of C19 does not interfere",
                   "ancestors/parents are added in front of a complex selector or at one of its descendant combinators (`X Y` -> `X Z Y`, `X > Z Y`, "
                   "`X Z > Y`); an explicit combinator of the superselector keeps its two compounds adjacent",
                   "a compound carries at most one type selector and one id (of `#i#j` the pinned tree keeps `#j`: finding second_id_replaces_first of C25)"]

    def random_queries(self, ctx, n):
        rng = ctx.rng
        out = []
        for _ in range(n // 3):
            a = self.rnd_list(rng)
            f = rng.choice((("str", "str"), ("str", "str"), ("list", "list"), ("str", "list"), ("list", "str")))
            out.append(Q("super", a, a, fa=f[0], fb=f[1]))
            out.append(Q("super", a, self.rnd_derived(rng, a)))
            out.append(Q("super", a, self.rnd_derived(rng, a), fa="list", fb="list"))
        return out


class C24(SelLawsEngine):
    prop = "C24"
    level = "exploration"
    q_cfg = {"quick": "MC_SelLaws_C24_q.cfg", "thorough": "MC_SelLaws_C24_t.cfg"}
    ref_cfg = None          # the SuperMonitor (and its vacuity guard) belongs to C23
    rule = ("Operands from the C23 universe (MC_SelLaws.tla, 192 / 268 selector lists): unify for every unordered pair (with rsass's own is-superselector answer for each "
            "operand and each member of the result), extend and replace for every selector x extendee pool x extender pool, nest for every "
            "selector x nested-selector pool (incl. `&` forms) and append for every selector x suffix pool (function result and emitted rule "
            "selector); Trace_SelLaws.tla (SelectorAlgebra) checks the relations on the observed values. An evaluation = one answered query; "
            "distinct = distinct operands. Flow B: seeded random operands of up to 4 compounds.")
    assumptions = ["the unify law is not evaluated when an operand contains a pseudo-element (Sass's unify re-targets the result at the "
                   "pseudo-element, of which the other operand is by definition no superselector)",
                   "`x matches none of s` is taken as: no simple selector of x occurs anywhere in s and x is not universal",
                   "is-superselector is asked about the printed text of each member of a unify result (the list form is finding list_form_combinator of C23)",
                   "a panic of one side of nest/append is left to C01; selectors are compared as sequences of simple-selector tokens"]

    def random_queries(self, ctx, n):
        rng = ctx.rng
        out = []
        simple = (".c", ".d", "#i", "[x]", ":hover", ".e", "a")
        for _ in range(n // 5):
            a, b = self.rnd_list(rng, 2), self.rnd_list(rng, 2)
            out.append(Q("unify", a, b))
            s = self.rnd_list(rng)
            x, y = [rng.choice(simple)], self.rnd_complex(rng, 1, 2, pe=False)
            out.append(Q("extend", s, x=x, y=y))
            out.append(Q("replace", s, x=x, y=y))
            out.append(Q("nest", self.rnd_list(rng, 2), self.rnd_list(rng, 2)))
            out.append(Q("append", self.rnd_list(rng, 2), [rng.choice((".g", "#k", "[z]", ":active", ".c", ":hover", "::after"))]))
        return out


# =====================================================================================================================
# C25: parse / print round trip (spec/SelRT.tla, MC_SelRT.tla, Trace_SelRT.tla)

NTH = ("nth-child", "nth-last-child", "nth-of-type", "nth-last-of-type")
HEXD = "0123456789abcdefABCDEF"


def _ident_end(t, i, extra=""):
    """end of a (possibly escaped) name starting at i; a hex escape takes its terminating whitespace along"""
    n = len(t)
    while i < n:
        ch = t[i]
        if ch == "\\" and i + 1 < n:
            if t[i + 1] in HEXD:
                j = i + 1
                while j < n and j < i + 7 and t[j] in HEXD:
                    j += 1
                if j < n and t[j] in " \t\n\r\f":
                    j += 1
                i = j
            else:
                i += 2
        elif ch.isalnum() or ch in "-_" or ch in extra or ord(ch) >= 128:
            i += 1
        else:
            break
    return i


def _cps(s):
    return [ord(c) for c in s]


def lex_selector(text):
    """printed selector list -> classified tokens [{"t": class, "v": raw code points}] (see SelRT.tla)"""
    t = text
    toks, i, n = [], 0, len(t)
    ws = False

    def tok(k, s=""):
        toks.append({"t": k, "v": _cps(s)})

    while i < n:
        ch = t[i]
        if ch in " \t\n\r\f":
            ws = True
            i += 1
            continue
        if ch in ">+~":
            tok("comb", ch)
            ws = False
            i += 1
            continue
        if ch == ",":
            tok("comma")
            ws = False
            i += 1
            continue
        if ws and toks and toks[-1]["t"] not in ("comb", "comma", "open"):
            tok("sp")
        ws = False
        if ch == ".":
            j = _ident_end(t, i + 1)
            tok("class", t[i + 1:j])
            i = j
        elif ch == "#":
            j = _ident_end(t, i + 1)
            tok("id", t[i + 1:j])
            i = j
        elif ch == ":":
            j = i + 1
            kind = "pseudo"
            if j < n and t[j] == ":":
                j += 1
                kind = "pe"
            k = _ident_end(t, j)
            name = t[j:k]
            tok(kind, name)
            i = k
            if i < n and t[i] == "(":
                e = _close(t, i, "(", ")")
                inner = t[i + 1:e - 1]
                tok("open")
                low = name.lower()
                if low in SELECTOR_PSEUDOS:
                    toks.extend(lex_selector(inner))
                elif low in NTH:
                    words = inner.split()
                    if "of" in words:
                        p = words.index("of")
                        head, sel = words[:p + 1], inner.split(" of ", 1)[1] if " of " in inner else ""
                    else:
                        head, sel = words, None
                    for w in head:
                        for part in re.split(r"(\+)", w):
                            if part:
                                tok("arg", part)
                    if sel is not None:
                        toks.extend(lex_selector(sel))
                else:
                    for w in inner.split():
                        tok("arg", w)
                tok("close")
                i = e
        elif ch == "[":
            e = _close(t, i, "[", "]")
            inner = t[i + 1:e - 1].lstrip()          # (an escaped space may end the value: no rstrip)
            j = 1 if inner[:1] == "*" else _ident_end(inner, 0)
            if inner[j:j + 1] == "|" and inner[j + 1:j + 2] != "=":          # namespace prefix (`ns|x`, `*|x`, `|x`), not the `|=` operator
                j = _ident_end(inner, j + 1)
            tok("aname", inner[:j])
            rest = inner[j:].lstrip()
            if rest.strip():
                m = re.match(r"([*|$~^]?=)\s*", rest)
                if not m:
                    tok("other", rest)
                else:
                    tok("aop", m.group(1))
                    rest = rest[m.end():]
                    if rest[:1] in ("\"", "'"):
                        q = _close_quote(rest)
                        val, rest = rest[:q], rest[q:].strip()
                    else:
                        q = _ident_end(rest, 0)
                        val, rest = rest[:q], rest[q:].strip()
                    tok("aval", val)
                    if rest:
                        tok("amod", rest)
            tok("aend")
            i = e
        elif ch == "(" or ch == ")":
            tok("other", ch)
            i += 1
        else:
            j = _ident_end(t, i, "|*")
            if j == i:
                tok("other", ch)
                j = i + 1
            else:
                tok("elem", t[i:j])
            i = j
    return toks


def _close_quote(s):
    q = s[0]
    j = 1
    while j < len(s) and s[j] != q:
        j += 2 if s[j] == "\\" else 1
    return min(j + 1, len(s))


def scss_quote(s):
    return '"' + s.replace("\\", "\\\\").replace('"', '\\"') + '"'


RT_PRE = '@use "sass:selector";\n@use "sass:string";\n'


def strip_charset(out):
    out = out or ""
    if out.startswith("﻿"):
        out = out[1:]
    if out.startswith("@charset"):
        out = out.split("\n", 1)[1] if "\n" in out else ""
    return out


class C25(VectorEngine):
    prop = "C25"
    level = "exploration"
    trace = ("Trace_SelRT", "Trace_SelRT.cfg")
    spec_op = "SelRT!RoundTripOK"
    mc_runs = {"quick": [("MC_SelRT", "MC_SelRT_all_q.cfg", {"workers": 4})],
               "thorough": [("MC_SelRT", "MC_SelRT_all_t.cfg", {"workers": 4})]}
    random_n = {"quick": 1000, "thorough": 20000}
    max_rejects = 8
    rule = ("Selector sources rendered by MC_SelRT.tla from token sequences: every class/id/type name of 1-2 characters from 12 code-point "
            "classes (letter, upper case, digit, hyphen, underscore, non-ASCII letter, astral letter, non-ASCII symbol, emoji, ASCII punctuation, "
            "space, control) in every allowed spelling (raw, \\c, \\hex+space, \\6 hex digits), the same names inside compounds / pseudo-class "
            "arguments / attribute values / lists; namespaces, attribute operators and modifiers, nth arguments (incl. `of S`), selector "
            "pseudo-class arguments, each placed in 7 contexts; all chains of <=3 compounds / <=4 simple selectors over 6 core simple selectors "
            "x 4 combinators and comma, with and without optional whitespace. For each source rsass evaluates print(parse(S)), "
            "print(parse(print(parse(S)))) and the selector emitted for `S {x: y}`; Trace_SelRT.tla compares the denotations (SelRT!RoundTripOK). "
            "An evaluation = one source accepted by selector.parse; distinct = distinct source text. Flow B: seeded random token sequences "
            "(longer names, random spelling) rendered by MC_SelRT (mode input).")
    assumptions = ["denotations are compared, not texts: escape spelling and the quote style of attribute values are not constrained",
                   "compounds are generated in the storage order of the pinned tree (the open finding compound_reordered belongs to C19/C22)",
                   "the source reaches selector.parse through string.unquote(\"...\") with only `\\\\` and `\\\"` escaped; sources that "
                   "selector.parse rejects are outside the property and skipped (counted in the evidence)",
                   "a universal selector in front of other simple selectors (`*.c`) is not generated (the pinned tree prints `.c`)"]

    # ---- asking rsass -----------------------------------------------------------------------------------------
    def cases_for(self, src, cid):
        lit = scss_quote(src)
        return [dict(api="compile_scss", style="expanded", id=cid + "/p1", src=RT_PRE + "$p: selector.parse(string.unquote(%s));\nr {\n  v: #{$p};\n}\n" % lit),
                dict(api="compile_scss", style="expanded", id=cid + "/p2", src=RT_PRE + "$p: selector.parse(string.unquote(%s));\n$q: selector.parse($p);\nr {\n  v: #{$q};\n}\n" % lit),
                dict(api="compile_scss", style="expanded", id=cid + "/em", src=src + " {\n  x: y;\n}\n")]

    @staticmethod
    def read_value(res):
        st = res.get("status")
        if st != "ok":
            return {"st": "err" if st == "err" else str(st), "toks": []}
        m = re.match(r"\Ar \{\n  v: (.*);\n\}\n*\Z", strip_charset(res.get("out")), re.S)
        if not m:
            return {"st": "noout", "toks": []}
        return {"st": "ok", "toks": lex_selector(m.group(1))}

    @staticmethod
    def read_emitted(res):
        st = res.get("status")
        if st != "ok":
            return {"st": "err" if st == "err" else str(st), "toks": []}
        m = re.match(r"\A(.*) \{\n  x: y;\n\}\n*\Z", strip_charset(res.get("out")), re.S)
        if not m:
            return {"st": "noout", "toks": []}
        return {"st": "ok", "toks": lex_selector(m.group(1))}

    def observe_all(self, ctx, vecs, tag):
        cases = []
        for i, v in enumerate(vecs):
            cases += self.cases_for("".join(chr(c) for c in v["src"]), "%s#%d" % (tag, i))
        res = ctx.execute(cases)
        events = []
        for i, v in enumerate(vecs):
            cid = "%s#%d" % (tag, i)
            events.append(dict(id=v["id"], src=v["src"], den=v["den"], p1=self.read_value(res[cid + "/p1"]),
                               p2=self.read_value(res[cid + "/p2"]), em=self.read_emitted(res[cid + "/em"])))
        return events

    def run(self, ctx):
        vecs = []
        for (module, cfg, kw) in self.mc_runs[ctx.tier]:
            r = ctx.mc(module, cfg, **kw)
            got = list(ctx.vectors(r))
            if not got:
                raise tlc.ToolError("%s/%s produced no vectors (vacuous model run)" % (module, cfg))
            vecs += got
        nspec = len(vecs)
        vecs += self.random_vectors(ctx, self.random_n.get(ctx.tier, 0))
        vecs.sort(key=lambda v: (v["id"], v["src"]))
        events = self.observe_all(ctx, vecs, "v")
        devs = ctx.open_devs()
        stats = {}
        for i, e in enumerate(events):
            e["case"] = i
            e["devs"] = devs
            k = "p1:%s p2:%s em:%s" % (e["p1"]["st"], e["p2"]["st"], e["em"]["st"])
            stats[k] = stats.get(k, 0) + 1
            if e["p1"]["st"] == "ok":
                ctx.note_case(e["src"], sample=dict(source="".join(chr(c) for c in e["src"]),
                                                    observed={f: e[f]["st"] for f in ("p1", "p2", "em")}) if i % max(1, len(events) // 5) == 0 else None)
        ctx.extra["outcomes"] = stats
        ctx.extra["sources_from_spec"] = nspec
        ctx.extra["sources_random"] = len(vecs) - nspec

        def on_reject(e):
            i = e["case"]
            src = "".join(chr(c) for c in e["src"])
            ctx.violation("v#%d" % i, dict(input=dict(id=e["id"], src=e["src"], den=e["den"]), rendered=self.cases_for(src, "replay"),
                                            actual={f: e[f] for f in ("p1", "p2", "em")}, source=src,
                                            expected="(rejected by %s: SelRT!RoundTripOK)" % self.trace[0], flow="B"))
        # validate in chunks: the events are independent of each other
        chunk = 20000
        for c in range(0, len(events), chunk):
            ctx.validate(self.trace[0], self.trace[1], events[c:c + chunk], on_reject=on_reject, max_rejects=self.max_rejects, tag="t%d" % c)

    def replay(self, ctx, rep):
        v = rep["input"]
        ev = self.observe_all(ctx, [v], "replay")[0]
        ev["case"] = 0
        ev["devs"] = ctx.open_devs()
        print("replay observed:", jdump({f: ev[f] for f in ("p1", "p2", "em")}))
        bad = []
        ctx.validate(self.trace[0], self.trace[1], [ev], on_reject=lambda e: bad.append(e))
        return not bad

    # ---- Flow B: random token sequences, rendered by the specification (MC_SelRT mode "input") ------------------
    CH = [97, 98, 122, 65, 90, 48, 57, 45, 95, 233, 255, 960, 19990, 119808, 169, 215, 8594, 128512, 46, 58, 32, 33, 126, 64, 1, 127, 160]

    def random_vectors(self, ctx, n):
        if not n:
            return []
        import json
        import os
        rng = ctx.rng
        kinds = ("raw", "raw", "bs", "hex", "hex6")
        # (a lone `-` written `\\-` is an identifier too)
        T = lambda t, v: {"t": t, "v": v}
        rows = []
        for _ in range(n):
            name = [rng.choice(self.CH) for _ in range(rng.randint(1, 4))]
            sp = [rng.choice(kinds) for _ in name]
            nt = T(rng.choice(("class", "id", "elem", "class")), name)
            toks, at = [nt], 1
            r = rng.random()
            if r < 0.25 and nt["t"] != "elem":
                toks, at = [T("elem", [97])] + toks, 2
            if rng.random() < 0.3:
                toks = toks + [T("pseudo", [104, 111, 118, 101, 114])]
            if rng.random() < 0.3:
                toks = toks + [T("comb", [rng.choice((62, 43, 126))]), T("elem", [98]), T("class", [99])]
            if rng.random() < 0.2:
                toks, at = [T("class", [100]), T("comma", [])] + toks, at + 2
            rows.append(dict(den=toks, at=at, sp=sp))
        path = os.path.join(ctx.work, "rt-inputs.ndjson")
        with open(path, "w") as f:
            for r in rows:
                f.write(json.dumps(r) + "\n")
        r = ctx.mc("MC_SelRT", "MC_SelRT_input.cfg", workers=4, env={"INPUTS": path})
        return list(ctx.vectors(r))
