"""C05 / C06: process-wide state shared by compilations and threads (spec/Process.tla)."""
import hashlib, json, os, re
from vlib.core import Engine, jdump
from vlib import corpus, runner, tlc

# step kind -> SCSS text; a program is the concatenation of its steps after the prelude
PRELUDE = '@use "sass:math";\n'
STEP = {
    "read": ".r { v: percentage(0.03); w: math.$pi; x: math.$e; }\n",   # global fn (user-shadowable) + module variables
    "write": "math.$pi: 4;\n",                                             # must fail: built-ins are immutable
    "writeg": "math.$pi: 4 !global;\n",
    "writed": "math.$e: 4 !default;\n",
    "usewith": '@use "sass:string" with ($x: 4);\n',
    "failcall": "@function fdeep($n) { @if $n == 0 { @error \"deep\"; } @return fdeep($n - 1); }\n.f { v: fdeep(60); }\n",
    "deepcall": "@function gdeep($n) { @if $n == 0 { @return 0; } @return 1 + gdeep($n - 1); }\n.d { v: gdeep(60); }\n",
    "def": "@function percentage($n) { @return 7%; }\n",                  # user definition named like a built-in
    "pure": ".p { v: 1; }\n",
    "uid": ".u { v: unique-id(); }\n",
}
PROGS = {"rd": ["read"], "wr": ["read", "write", "read"], "wg": ["writeg", "read"], "wd": ["writed", "read"], "uw": ["usewith", "read"],
         "fc": ["failcall"], "dp": ["deepcall", "read"], "df": ["def", "read"], "pu": ["pure", "read"],
         "uid": ["uid"], "uid2": ["uid", "uid"]}


def prog_src(p):
    return PRELUDE + "".join(STEP[k] for k in PROGS[p])


def digest(r):
    return hashlib.md5(jdump([r.get("status"), r.get("out"), r.get("out_hex"), r.get("err"), r.get("loc")]).encode()).hexdigest()


def model_obs(r):
    """project a compile result of a model program onto Process.tla's job output"""
    if r.get("status") == "err":
        # outputs before the failing write are lost with the error: the model's [.., -1]
        return "err"
    out = []
    for m in re.finditer(r"\.(r|p|d) \{\n((?:  .*\n)*)\}", r.get("out") or ""):
        if m.group(1) == "p":
            out.append(1)
        elif m.group(1) == "d":
            out.append(2 if "v: 60;" in m.group(2) else -98)
        else:
            v = re.search(r"v: (\d+)%;\n\s*w: ([\d.]+);\n\s*x: ([\d.]+);", m.group(2))
            out.append(int(v.group(1)) if v and v.group(2).startswith("3.14159265") and v.group(3).startswith("2.71828182") else -99)
    return out


def dg(n):
    return [int(c) for c in str(n)]


class ProcessEngine(Engine):
    level = "model_checking"
    demos = []        # (cfg, invariant the deviation must violate)
    mcs = []

    def run_mc(self, ctx):
        vecs = []
        for cfg in self.mcs:
            r = ctx.mc("MC_Process", cfg, workers=4)
            vecs += list(ctx.vectors(r))
        # vacuity guard: with the named deviation switched on TLC must find the property violated in the model
        for cfg in self.demos:
            r = ctx.mc("MC_Process", cfg, workers=2, expect_violation=True)
            if not r["violated"]:
                raise tlc.ToolError(f"{cfg}: the deviation does not violate the property in the model (vacuous invariant?)")
        return vecs

    def history(self, ctx, threads, seed, tag, trace=False):
        spec = {"threads": threads, "yield_seed": seed}
        if trace:
            for t in threads:
                for c in t:
                    c["trace"] = True
        rc, res, err = runner.run_history(spec, os.path.join(ctx.work, "hist"), tag=tag)
        if rc != 0 or any(r.get("status") == "toolerr" for r in res):
            # the whole process died: data for C01-like properties, a tool problem here
            raise runner.ToolError(f"history run died rc={rc}: {err[-500:]}")
        return res


class C05(ProcessEngine):
    prop = "C05"
    mcs = ["MC_Process_3x1.cfg", "MC_Process_2x2.cfg"]
    demos = ["MC_Process_dev_write.cfg", "MC_Process_dev_leak.cfg"]
    rule = ("Model: all interleavings of 3 threads x 1 job and 2 threads x 2 jobs over 6 programs (read / try-to-write / shadow a built-in, unique-id, pure), invariants "
            "Deterministic, BuiltinImmutable, MatchesAlone. Flow A: every history (assignment of jobs to threads) TLC enumerated is run in one process with real threads and "
            "seeded yield perturbation; each job's output is compared with the model's and with the output of the same input compiled alone in a fresh process. "
            "Flow B: random histories of 1..50 compilations on up to 16 threads over model programs and sass-spec corpus inputs (those not calling random()/unique-id()), "
            "validated by Trace_Process.tla (Fresh/Compile events). non-trivial = a history with >= 2 jobs; distinct = distinct history.")
    assumptions = ["real thread schedules are sampled (barrier start + yield hook), not enumerated; TLC enumerates the interleavings of the model only",
                   "outputs are compared through an md5 digest of (status, css bytes, error text, panic location)"]

    def fresh(self, ctx, cases):
        """compile each case alone in a fresh process (a history of length 1)"""
        memo = {}
        for i, (cid, c) in enumerate(cases.items()):
            try:
                res = self.history(ctx, [[dict(c, id=cid)]], 0, f"fresh{i % 8}")
                memo[cid] = res[0]
            except runner.ToolError:
                memo[cid] = {"id": cid, "status": "abort"}      # dies alone (stack overflow ...): C01's business
        return memo

    def run(self, ctx):
        vecs = self.run_mc(ctx)
        model_cases = {p: dict(api="compile_scss", src=prog_src(p)) for p in PROGS if not p.startswith("uid")}
        memo = self.fresh(ctx, model_cases)
        events = [{"ev": "Fresh", "case": p, "digest": digest(r)} for p, r in memo.items()]
        # the fresh runs must already agree with the model (binding of the program alphabet)
        exp = vecs[0]["expect"]
        for p, r in memo.items():
            want = "err" if -1 in exp[p] else exp[p]
            got = model_obs(r)
            ctx.note_case(["fresh", p], sample=dict(program=prog_src(p), observed=got))
            if got != want:
                ctx.violation(f"fresh-{p}", dict(input=dict(prog=p), rendered=model_cases[p], expected=want, actual=got, raw=r))
        # Flow A: every history of the model, with real threads
        hs = [v for v in vecs if sum(len(q) for q in v["threads"].values()) >= 1]
        if ctx.tier == "quick":
            hs = hs[::6]
        for hi, v in enumerate(hs):
            threads = []
            for t in sorted(v["threads"]):
                jobs = [p for p in v["threads"][t] if not p.startswith("uid")]
                threads.append([dict(model_cases[p], id=p) for p in jobs])
            threads = [t for t in threads if t]
            if not threads:
                continue
            res = self.history(ctx, threads, ctx.seed * 7919 + hi, f"h{hi % 8}")
            ctx.note_case(v["threads"], nontrivial=sum(len(t) for t in threads) >= 2,
                          sample=dict(history=v["threads"]) if hi < 2 else None)
            ctx.traces += 1
            for r in res:
                p = r["id"]
                events.append({"ev": "Compile", "thread": r["thread"], "seq": r["seq"], "case": p, "digest": digest(r)})
                want = "err" if -1 in exp[p] else exp[p]
                if model_obs(r) != want:
                    ctx.violation(f"hist{hi}-{p}", dict(input=dict(history=v["threads"], job=p), rendered=dict(threads=threads),
                                                        expected=want, actual=model_obs(r), raw=r, flow="A"))
        # Flow B: random histories over model programs and corpus inputs
        pool = dict(model_cases)
        cor = [(cid, text) for (cid, text, kind) in corpus.inputs() if "random(" not in text and "unique-id" not in text and "unique_id" not in text]
        ctx.rng.shuffle(cor)
        ncor = 150 if ctx.tier == "quick" else 1500
        for cid, text in cor[:ncor]:
            pool["corpus:" + cid] = dict(api="compile_scss", src=text)
        memo2 = self.fresh(ctx, {k: v for k, v in pool.items() if k not in memo})
        # inputs that kill the process alone are C01's business, not histories'
        dead = {k for k, r in memo2.items() if r.get("status") not in ("ok", "err", "panic")}
        for k, r in memo2.items():
            if k not in dead:
                events.append({"ev": "Fresh", "case": k, "digest": digest(r)})
        keys = [k for k in pool if k not in dead]
        nh = 40 if ctx.tier == "quick" else 400
        # failing inputs (model programs and corpus inputs that return an error) for the stress histories
        failing = [k for k in keys if (memo.get(k) or memo2.get(k) or {}).get("status") == "err"]
        for hi in range(nh):
            nthreads = ctx.rng.choice([1, 2, 4, 8, 16])
            total = ctx.rng.randint(1, 50)
            threads = [[] for _ in range(nthreads)]
            if hi % 5 == 0 and failing:
                # stress: the same failing compilation many times on one thread, then valid work on that thread
                f = "fc" if hi % 10 == 0 else ctx.rng.choice(failing)
                nthreads = 1 if hi % 10 == 0 else 2
                threads = [[dict(pool[f], id=f) for _ in range(ctx.rng.randint(20, 48))] + [dict(pool[k], id=k) for k in ("dp", "rd", "pu")]]
                if nthreads == 2:
                    threads.append([dict(pool[k], id=k) for k in ("rd", "dp")])
                total = 0
            for j in range(total):
                k = ctx.rng.choice(keys)
                threads[ctx.rng.randrange(nthreads)].append(dict(pool[k], id=k))
            threads = [t for t in threads if t]
            res = self.history(ctx, threads, ctx.seed * 104729 + hi, f"r{hi % 8}")
            ctx.note_case(["rnd", hi, [[c["id"] for c in t] for t in threads]],
                          sample=dict(history=[[c["id"] for c in t] for t in threads]) if hi < 1 else None)
            for r in res:
                events.append({"ev": "Compile", "thread": r["thread"], "seq": r["seq"], "case": r["id"], "digest": digest(r), "hist": hi})

        def on_reject(e):
            ctx.violation(f"trace-{e.get('case')}", dict(input=dict(case=e.get("case"), history=e.get("hist")), rendered=pool.get(e.get("case")),
                                                        expected="the digest of the same input compiled alone in a fresh process", actual=e, flow="B"))
        ctx.validate("Trace_Process", "Trace_Process.cfg", events, on_reject=on_reject)

    def replay(self, ctx, rep):
        c = rep.get("rendered") or {}
        if "threads" in c:
            res = self.history(ctx, c["threads"], 1, "replay")
            return all(model_obs(r) == rep["expected"] for r in res if r["id"] == rep["input"].get("job"))
        a = self.history(ctx, [[dict(c, id="x")]], 0, "replayA")[0]
        b = self.history(ctx, [[dict(c, id="x")], [dict(c, id="x")]], 3, "replayB")
        return all(digest(a) == digest(r) for r in b)


class C06(ProcessEngine):
    prop = "C06"
    mcs = ["MC_Process_3x1.cfg", "MC_Process_2x2.cfg"]
    demos = ["MC_Process_dev_uid.cfg"]
    rule = ("Model: all interleavings of the lock/increment/unlock steps of unique-id() for 3 threads x 1 job and 2 threads x 2 jobs, invariants Unique and CounterMatches; "
            "with the lock removed (callid_unlocked) TLC finds a duplicate. Implementation: N threads x J compilations x K unique-id() calls in one process with yield "
            "perturbation inside the critical section; the hook's Issue events (written under the lock) must form a chain id, id+1, ... and every identifier found in the CSS "
            "must be one of them, seen once, and a CSS identifier (Trace_Process.tla). math.random(): results for random limits in 1..2^53 and no limit validated by the Random action. "
            "non-trivial = every identifier / random result; distinct = distinct identifier or (limit, value).")
    assumptions = ["real thread schedules are sampled, not enumerated", "identifiers and numbers are passed to TLA+ as decimal digit sequences (they exceed 32 bits)"]

    def apalache(self, ctx):
        """unbounded number of calls: Apalache discharges the inductive invariant of spec/apalache/UidInd.tla"""
        import subprocess, shutil as _sh
        d = os.path.join(os.path.dirname(tlc.SPEC), "spec", "apalache")
        out = os.path.join(ctx.work, "apalache-out")
        obligations = [("Init", "IndInv", 0), ("IndInit", "IndInv", 1), ("IndInit", "FreshId", 0)]
        ok = 0
        for init, inv, length in obligations:
            cmd = ["timeout", "900", "apalache-mc", "check", f"--init={init}", f"--inv={inv}", f"--length={length}", f"--out-dir={out}", "UidInd.tla"]
            p = subprocess.run(cmd, cwd=d, capture_output=True, text=True)
            ctx.cmds.append(" ".join(cmd[2:]))
            if "EXITCODE: OK" in p.stdout:
                ok += 1
            elif "EXITCODE: ERROR" in p.stdout and "violat" in p.stdout.lower():
                raise tlc.ToolError("Apalache: the inductive invariant of UidInd.tla does not hold (spec bug):\n" + p.stdout[-1500:])
            else:
                raise tlc.ToolError("Apalache failed:\n" + (p.stdout + p.stderr)[-1500:])
        _sh.rmtree(out, ignore_errors=True)
        ctx.extra["apalache_inductive_obligations"] = {"obligations": len(obligations), "discharged": ok,
                                                       "what": "Init => IndInv; IndInv /\\ Next => IndInv'; IndInv => the next id was never issued (unbounded calls, 3 threads)"}

    def run(self, ctx):
        self.run_mc(ctx)
        if ctx.tier == "thorough":
            self.apalache(ctx)
        nthreads, jobs, k = (8, 6, 60) if ctx.tier == "quick" else (16, 40, 150)
        src = "".join(".u%d { v: unique-id(); }\n" % i for i in range(k))
        threads = [[dict(api="compile_scss", src=src, id=f"t{t}j{j}") for j in range(jobs)] for t in range(nthreads)]
        res = self.history(ctx, threads, ctx.seed * 31 + 5, "uid", trace=True)
        issued, seen = [], []
        for r in res:
            for e in r.get("events") or []:
                if e.get("ev") == "Issue":
                    issued.append(int(e["id"], 16))
            for m in re.finditer(r"v: (\S+);", r.get("out") or ""):
                seen.append(m.group(1))
        if len(seen) != nthreads * jobs * k or len(issued) != len(seen):
            ctx.violation("uid-count", dict(input=dict(threads=nthreads, jobs=jobs, calls=k), rendered=threads[0][0],
                                            expected=nthreads * jobs * k, actual=dict(in_css=len(seen), issue_events=len(issued))))
        events = [{"ev": "Issue", "id": dg(i)} for i in sorted(issued)]

        def idnum(t):
            try:
                return int(t[1:], 16)
            except ValueError:
                return -1
        # bind each identifier text to an issued id: by its hexadecimal tail (the format of the pinned tree), or - when
        # the texts are not spelled like that (the property does not fix the spelling) - by rank among the distinct
        # texts, so that a text seen twice still maps to one id and is rejected as "seen before"
        iss = sorted(set(issued))
        if all(idnum(t) in set(iss) for t in seen):
            idof = {t: idnum(t) for t in seen}
        else:
            ctx.notes.append("identifier texts are not <char><hex id>: bound to the issued ids by rank")
            idof = {t: (iss[i] if i < len(iss) else (iss[-1] if iss else 0) + 1 + i) for i, t in enumerate(sorted(set(seen)))}
        for t in sorted(seen, key=lambda t: idof[t]):
            events.append({"ev": "Observe", "id": dg(max(idof[t], 0)), "text": [ord(c) for c in t]})
            ctx.note_case(t, sample=t if len(ctx.samples) < 3 else None)
        # math.random
        rnd_cases = []
        nr = 150 if ctx.tier == "quick" else 2000
        for i in range(nr):
            lim = ctx.rng.choice([1, 2, 3, 10, 255, 2 ** 31, 2 ** 53 - 1, ctx.rng.randint(1, 2 ** 53 - 1), ctx.rng.randint(1, 1000)])
            body = "".join(f"r{j}: math.random({lim}); " for j in range(6)) + "".join(f"u{j}: math.random(); " for j in range(4))
            rnd_cases.append(dict(id=f"rnd{i}", api="compile_scss", src=f'@use "sass:math";\na {{ {body} }}\n', precision=20, lim=lim))
        rr = ctx.execute(rnd_cases)
        for c in rnd_cases:
            r = rr[c["id"]]
            if r.get("status") != "ok":
                ctx.violation(c["id"], dict(input=dict(limit=c["lim"]), rendered=c, expected="ok", actual=r))
                continue
            for m in re.finditer(r"(r|u)\d+: (-?)(\d*)\.?(\d*);", r["out"]):
                kind, neg, ip, fp = m.groups()
                v = {"neg": 1 if neg else 0, "ds": [int(x) for x in (ip + fp)], "sc": len(fp)}
                events.append({"ev": "Random", "limit": dg(c["lim"]) if kind == "r" else [], "v": v, "case": c["id"]})
                ctx.note_case([c["lim"] if kind == "r" else None, ip, fp], sample=dict(limit=c["lim"], value=m.group(0)) if len(ctx.samples) < 5 else None)

        def on_reject(e):
            ctx.violation("trace-" + e["ev"], dict(input=e, rendered=threads[0][0] if e["ev"] != "Random" else None, expected="accepted by Trace_Process", actual=e, flow="B"))
        ctx.validate("Trace_Process", "Trace_Process.cfg", events, on_reject=on_reject, timeout=3000)

    def replay(self, ctx, rep):
        # uniqueness violations are schedule dependent: re-run the whole check
        self.run(ctx)
        return not ctx.violations
