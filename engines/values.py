"""C12: equality laws (spec/Values.tla).

Python renders abstract value records to SCSS, asks rsass for the eight booleans of one ordered pair and
reads them back.  The reference relations (Values!Eq / Values!Lt), the deviation model and the LAWS on the
observed booleans are all evaluated by TLA+ (MC_Values for the vectors, Trace_Values as a monitor over every
observation, Flow A pairs included)."""
import math, re
from fractions import Fraction

from vlib import tlc
from vlib.core import VectorEngine

FIELDS = ["eq_ab", "eq_ba", "ne_ab", "ne_ba", "aa", "bb", "lt", "gt"]
IDENT = re.compile(r"[a-zA-Z][a-zA-Z]*")
COLOR_NAMES = {"red", "blue", "transparent", "black", "white", "lime"}


def V(t, s="", n=0, d=1, j=0, e=0, u="", es=()):
    return {"t": t, "s": s, "n": n, "d": d, "j": j, "e": e, "u": u, "es": list(es)}


def num_text(v):
    if v["s"] == "nan":
        return "math.div(0, 0)"
    if v["s"] == "inf":
        return "math.div(1, 0)"
    if v["s"] == "-inf":
        return "math.div(-1, 0)"
    if v["s"] == "negzero":
        return "-0" + v["u"]
    fr = Fraction(v["n"], v["d"])
    if v["j"]:
        fr += Fraction(v["j"]) * Fraction(2) ** (v["e"] - 52)
    x = float(fr)
    d = v["d"]
    if (v["j"] or d & (d - 1) == 0) and Fraction(x) != fr:
        raise tlc.ToolError(f"number {v} is not exactly representable as f64")
    r = repr(x)
    if r.endswith(".0"):
        r = r[:-2]
    return r + v["u"]


def render_value(v, top=True):
    t = v["t"]
    if t == "num":
        return num_text(v)
    if t == "str":
        s = v["s"]
        if v["n"] == 1:
            return '"' + s + '"'
        if v["n"] == 2:
            return "'" + s + "'"
        if IDENT.fullmatch(s) and s not in COLOR_NAMES and s not in ("true", "false", "null", "not", "and", "or"):
            return s
        return 'unquote("' + s + '")'
    if t == "color":
        return v["s"]
    if t == "bool":
        return "true" if v["n"] else "false"
    if t == "null":
        return "null"
    if t == "fn":
        return 'get-function("' + v["s"] + '")'
    if t == "list":
        items = [render_value(x, False) for x in v["es"]]
        if v["n"]:
            sep = ", " if v["s"] == "comma" else " "
            body = sep.join(items) + ("," if v["s"] == "comma" and len(items) == 1 else "")
            return "[" + body + "]"
        if not items:
            return "()"
        if v["s"] == "comma":
            return "(" + ", ".join(items) + ("," if len(items) == 1 else "") + ")"
        return "(" + " ".join(items) + ")"
    if t == "map":
        if not v["es"]:
            return "map.remove((k: 1), k)"
        if v["s"] == "merge":       # the same map built step by step: null values arrive through map.merge
            base = ", ".join(render_value(p["es"][0], False) + ": " + ("3" if p["es"][1]["t"] == "null" else render_value(p["es"][1], False)) for p in v["es"])
            over = ", ".join(render_value(p["es"][0], False) + ": null" for p in v["es"] if p["es"][1]["t"] == "null")
            return "map.merge((" + base + "), (" + over + "))" if over else "(" + base + ")"
        return "(" + ", ".join(render_value(p["es"][0], False) + ": " + render_value(p["es"][1], False) for p in v["es"]) + ")"
    raise ValueError(t)


def mask(obs, ref):
    """the observation restricted to the fields the reference fixes (2 = not fixed)"""
    return {f: (2 if ref[f] == 2 else obs[f]) for f in FIELDS}


class C12(VectorEngine):
    prop = "C12"
    level = "model_checking"
    trace = ("Trace_Values", "Trace_Values.cfg")
    spec_op = "Values!ObservePair"
    rule = ("Flow A: every ordered pair of the value universe of MC_Values.tla (numbers incl. 0, -0, 1 and its ulp neighbours, unit variants, "
            "NaN/infinities; strings in three quote styles; one color in five notations; lists incl. null elements; maps incl. reordered ones, equal-size maps differing in keys with null values (also built by map.merge), nested maps, list keys; booleans; null; function references). "
            "For each pair rsass evaluates a==b, b==a, a!=b, b!=a, a==a, b==b and, for two numbers, a<b, a>b; the booleans are compared with the "
            "reference relations Values!Eq/Lt wherever those are fixed, and every observation is additionally fed to the monitor Trace_Values.tla "
            "which checks the four laws of the property on the observed booleans. Flow B: seeded random pairs (same value, ulp steps of dyadic numbers "
            "incl. powers of two, unit conversions, re-quoted strings, re-notated colors, perturbed lists/maps, unrelated values) through the same monitor. "
            "non-trivial = the two values are not the same universe entry; distinct = distinct ordered pair.")
    assumptions = [
        "the reference relations are three-valued: numbers a few ulps apart, unitless against an equal number with a unit, NaN against itself, and [] against the empty map are not fixed and only the laws are checked there",
        "trichotomy is claimed for finite numbers with the same or convertible units (Sass itself has 1 == 1px false with neither < nor >)",
        "numbers are written as repr(f64) literals, which rsass reads back exactly (str::parse::<f64>)",
        "under the open deviation numeq_relative_to_lhs the prediction is exact (|a-b| <= |a| * 2^-52 evaluated on exact decimal expansions) for numbers with the same unit",
    ]
    mc_runs = {
        "quick": [("MC_Values", "MC_Values_q.cfg", {"workers": 4})],
        "thorough": [("MC_Values", "MC_Values_q.cfg", {"workers": 4})],
    }
    random_n = {"quick": 1200, "thorough": 40000}

    # ---- rendering --------------------------------------------------------------
    def render(self, inp):
        a, b = inp["a"], inp["b"]
        both_num = a["t"] == "num" and b["t"] == "num"
        src = ('@use "sass:math";\n@use "sass:map";\n' + f"$a: {render_value(a)};\n$b: {render_value(b)};\n"
               + "x{eq_ab: $a==$b; eq_ba: $b==$a; ne_ab: $a!=$b; ne_ba: $b!=$a; aa: $a==$a; bb: $b==$b"
               # ordering numbers with incompatible units is an error (since /repo 24deac0, as in Sass): ask only when it is defined
               + ("; @if math.compatible($a, $b) { lt: $a<$b; gt: $a>$b }" if both_num else "") + "}\n")
        return dict(api="compile_scss", src=src)

    def project(self, inp, res):
        if res.get("status") != "ok":
            return {f: 9 for f in FIELDS}
        out = res.get("out") or ""
        obs = {}
        for f in FIELDS:
            m = re.search(rf"\b{f}: (true|false);", out)
            obs[f] = (1 if m.group(1) == "true" else 0) if m else 2
        return obs

    def key(self, inp):
        return [inp["a"], inp["b"]]

    def nontrivial(self, vec):
        return vec.get("ia") != vec.get("ib")

    def strip(self, vec):
        return {"a": vec["a"], "b": vec["b"], "mode": "full"}

    def sample(self, inp, case, obs):
        return dict(input=dict(a=render_value(inp["a"]), b=render_value(inp["b"])), rendered=case.get("src"), observed=obs)

    def flow_a(self, ctx, vecs, tag):
        cases = []
        for i, v in enumerate(vecs):
            c = self.render(self.strip(v))
            c["id"] = f"{tag}#{i}"
            cases.append(c)
        res = ctx.execute(cases, **self.exec_kw)
        events = []
        open_devs = ctx.open_devs()
        for i, v in enumerate(vecs):
            inp = self.strip(v)
            c = cases[i]
            r = res[c["id"]]
            obs = self.project(inp, r)
            devs = v.get("dev") or {}
            if isinstance(devs, list):
                devs = {}
            ctx.note_case(self.key(inp), nontrivial=self.nontrivial(v),
                          sample=self.sample(inp, c, obs) if i % max(1, len(vecs) // 3) == 0 else None)
            ctx.traces += 1
            expect = v["expect"]
            verdict = ctx.classify(case_id=c["id"], inp=inp, rendered=c, expect=expect,
                                   obs=expect if mask(obs, expect) == expect else obs, devs=devs,
                                   spec_op=self.spec_op, raw=r, dev_matches=lambda pred, o: mask(o, pred) == pred)
            if verdict != "violation":
                events.append(dict(inp, obs=obs, case=i, devs=open_devs, mode="laws"))

        def on_reject(e):
            i = e["case"]
            ctx.violation(f"{tag}#{i}", dict(input=self.strip(vecs[i]), rendered=cases[i], actual=e["obs"], raw=res[cases[i]["id"]],
                                             expected="(laws rejected by monitor Trace_Values)", flow="B"))
        ctx.traces -= len(events)       # counted once
        ctx.validate(self.trace[0], self.trace[1], events, on_reject=on_reject, tag="a")

    def replay(self, ctx, rep):
        c = dict(rep["rendered"])
        c["id"] = "replay"
        r = ctx.execute([c], **self.exec_kw)["replay"]
        obs = self.project(rep["input"], r)
        print("replay observed:", obs)
        ok = []
        ev = dict(rep["input"], obs=obs, case=0, devs=[], mode="full")
        ctx.validate(self.trace[0], self.trace[1], [ev], on_reject=lambda e: ok.append(e))
        return not ok

    # ---- Flow B --------------------------------------------------------------------
    def random_inputs(self, ctx, n):
        rng = ctx.rng

        def exp_of(fr):
            return math.floor(math.log2(abs(fr)))

        def dyadic(unit="", small=False):
            m = rng.randint(0, 3 if small else 8)
            nn = rng.randint(1, 200 if small else 4096)
            if rng.random() < 0.35:                 # powers of two: where the relative epsilon is asymmetric
                nn, m = 1 << rng.randint(0, 10), rng.randint(0, 8)
            g = math.gcd(nn, 1 << m)
            nn, d = nn // g, (1 << m) // g
            if rng.random() < 0.3:
                nn = -nn
            return V("num", n=nn, d=d, u=unit)

        def step(v, j):
            fr = Fraction(v["n"], v["d"])
            w = dict(v, j=j, e=exp_of(fr) if j else 0)
            x = fr + Fraction(j) * Fraction(2) ** (w["e"] - 52)
            if Fraction(float(x)) != x:
                return dict(v)
            return w

        UNITS = ["", "", "px", "in", "cm", "s", "ms", "deg", "em", "%"]
        CONV = [("in", "px", 96), ("cm", "mm", 10), ("s", "ms", 1000), ("turn", "deg", 360), ("in", "pt", 72), ("pc", "pt", 12), ("in", "pc", 6)]

        def number():
            r = rng.random()
            if r < 0.7:
                u = rng.choice(UNITS)
                return dyadic(u, small=bool(u))
            if r < 0.85:
                return V("num", n=rng.randint(1, 99), d=rng.choice([3, 10, 100, 7]), u=rng.choice(UNITS))
            if r < 0.9:
                return V("num", n=0, d=1, u=rng.choice(UNITS))
            return V("num", s=rng.choice(["nan", "inf", "-inf", "negzero"]))

        def string():
            return V("str", s=rng.choice(["a", "b", "A", "ab", "red", "1", "", "x-y"]), n=rng.randint(0, 2))

        def color_text(rgb, a, style):
            r, g, b = rgb >> 16, (rgb >> 8) & 255, rgb & 255
            if a != 100:
                return f"rgba({r}, {g}, {b}, {a / 100})"
            if style == 0:
                return f"#{rgb:06x}"
            if style == 1:
                return f"rgb({r}, {g}, {b})"
            if style == 2 and all(c % 17 == 0 for c in (r, g, b)):
                return f"#{r // 17:x}{g // 17:x}{b // 17:x}"
            return f"#{rgb:06X}"

        def color():
            rgb = rng.choice([0xff0000, 0x0000ff, 0x336699, 0xffffff, 0, rng.getrandbits(24)])
            a = rng.choice([100, 100, 100, 50, 25, 0])
            return V("color", s=color_text(rgb, a, rng.randint(0, 3)), n=rgb, d=a)

        def atom():
            return rng.choice([number, number, string, color, lambda: V("bool", n=rng.randint(0, 1)), lambda: V("null")])()

        def listv(depth=0):
            k = rng.choice([0, 1, 2, 2, 3])
            es = []
            for _ in range(k):
                x = listv(depth + 1) if depth < 1 and rng.random() < 0.2 else atom()
                if x["t"] == "num" and (x["n"] < 0 or x["s"]):
                    x = V("num", n=abs(x["n"]) or 1, d=x["d"], u=x["u"])
                if x["t"] == "null" or (x["t"] == "str" and x["n"] == 0):
                    x = V("str", s="q", n=1)
                es.append(x)
            br = 1 if rng.random() < 0.25 else 0
            sep = "none" if k == 0 else ("comma" if k == 1 and not br else rng.choice(["space", "comma"]))
            if k == 1 and br:
                sep = rng.choice(["none", "comma"])
            return V("list", s=sep, n=br, es=es)

        def mapv():
            keys = rng.sample(["a", "b", "c", "d"], rng.randint(0, 3))
            def val():
                r = rng.random()
                if r < 0.25:
                    return V("null")
                if r < 0.35:
                    return V("map", es=[V("pair", es=[V("str", s=rng.choice(["p", "q"]), n=0), rng.choice([V("null"), V("num", n=1)])])])
                return atom_nonnull()
            def key(k):
                if rng.random() < 0.1:
                    return V("list", s=rng.choice(["space", "comma"]), n=0, es=[V("num", n=1), V("str", s=k, n=1)])
                return V("str", s=k, n=rng.randint(0, 1))
            return V("map", s="merge" if rng.random() < 0.3 else "", es=[V("pair", es=[key(k), val()]) for k in keys])

        def atom_nonnull():
            x = atom()
            return V("num", n=1) if x["t"] == "null" else x

        def value():
            return rng.choice([number, number, number, string, color, listv, mapv, atom])()

        def variant(a):
            """a value related to a: equal in Sass, or a tiny perturbation of it"""
            t = a["t"]
            if t == "num" and not a["s"]:
                d = a["d"]
                r = rng.random()
                if d & (d - 1) == 0 and a["n"] != 0 and r < 0.6:
                    return step(a, rng.choice([-4, -3, -2, -2, -1, -1, 1, 1, 2, 3]))
                if r < 0.85:
                    for (u1, u2, f) in rng.sample(CONV, len(CONV)):
                        if a["u"] == u1 and abs(a["n"]) * f < 10 ** 6:
                            return V("num", n=a["n"] * f, d=a["d"], u=u2)
                        if a["u"] == u2 and a["n"] % f == 0:
                            return V("num", n=a["n"] // f, d=a["d"], u=u1)
                return dict(a)
            if t == "str":
                return dict(a, n=rng.randint(0, 2))
            if t == "color":
                return dict(a, s=color_text(a["n"], a["d"], rng.randint(0, 3)))
            if t == "list" and a["es"]:
                es = [dict(x) for x in a["es"]]
                i = rng.randrange(len(es))
                es[i] = variant(es[i])
                if es[i]["t"] == "str" and es[i]["n"] == 0:
                    es[i]["n"] = 1
                w = dict(a, es=es)
                if rng.random() < 0.15 and len(es) >= 2:
                    w["s"] = "comma" if a["s"] == "space" else "space"
                return w
            if t == "map" and a["es"]:
                es = [dict(p, es=[dict(p["es"][0]), dict(p["es"][1])]) for p in a["es"]]
                r = rng.random()
                if r < 0.3:
                    i = rng.randrange(len(es))
                    es[i]["es"][1] = variant(es[i]["es"][1])
                elif r < 0.5:
                    rng.shuffle(es)
                elif r < 0.85:
                    # same size, one key replaced by a fresh one; null on either side (a missing key is not a null value)
                    i = rng.randrange(len(es))
                    es[i]["es"][0] = V("str", s=rng.choice(["x", "y", "z"]), n=0)
                    if rng.random() < 0.4:
                        es[i]["es"][1] = V("null")
                    return dict(a, es=es) if rng.random() < 0.5 else dict(a, s="merge" if a["s"] == "" else "", es=es)
                return dict(a, es=es)
            return dict(a)

        out = []
        while len(out) < n:
            a = value()
            r = rng.random()
            b = variant(a) if r < 0.6 else (dict(a) if r < 0.65 else value())
            if rng.random() < 0.5:
                a, b = b, a
            out.append({"a": a, "b": b, "mode": "full"})
        return out
