"""C13: the map state machine (spec/Maps.tla).  A vector is a sequence of actions
(literal, get, has-key, remove, set, merge, eq); rsass is stepped through the same
sequence inside one stylesheet and the abstract state is read back after EVERY action."""
import re
from vlib.core import VectorEngine
from vlib import tlc

# key spelling (token of the spec) -> SCSS text
KEY_SRC = {"1": "1", "1.0": "1.0", "2": "2", "2.0": "2.0", "1px": "1px", "2px": "2px", "1in": "1in", "96px": "96px",
           "red": "red", "#f00": "#f00", "#ff0000": "#ff0000", "blue": "blue", "#00f": "#00f", "#0000ff": "#0000ff",
           "true": "true", "null": "null", "q1": '"1"', "s1": "'1'"}
for _c in "abcd":
    KEY_SRC["q" + _c] = '"%s"' % _c
    KEY_SRC["s" + _c] = "'%s'" % _c
    KEY_SRC[_c] = _c

COLORS = {"red": "c:red", "#f00": "c:red", "#ff0000": "c:red", "blue": "c:blue", "#00f": "c:blue", "#0000ff": "c:blue"}


def class_of_text(t):
    """`==` class name (as in Maps!KeyClass) of a key as rsass prints it"""
    if t == "96px":
        return "n:1in"          # 96px == 1in (compatible units)
    if re.fullmatch(r"-?\d+(\.\d+)?[a-z%]*", t):
        return "n:" + t
    if len(t) >= 2 and t[0] == t[-1] and t[0] in "\"'":
        return "s:" + t[1:-1]
    if t in COLORS:
        return COLORS[t]
    if t == "true":
        return "b:true"
    if t == "null":
        return "null"
    if re.fullmatch(r"[a-z]+", t):
        return "s:" + t
    return "other:" + t


def lit_src(m2):
    return "(" + ", ".join(f"{KEY_SRC[e['k']]}: {e['v']}" for e in m2) + ")"


def parse_map(text):
    """inspect() of a map with simple keys and integer values -> [{k: class, v: int}]"""
    text = text.strip()
    if text == "()":
        return []
    if not (text.startswith("(") and text.endswith(")")):
        return [{"k": "other:" + text[:40], "v": 0}]
    out = []
    for part in text[1:-1].split(", "):
        if ": " not in part:
            return [{"k": "other:" + text[:40], "v": 0}]
        k, v = part.rsplit(": ", 1)
        if not re.fullmatch(r"-?\d+", v):
            return [{"k": "other:" + text[:40], "v": 0}]
        out.append({"k": class_of_text(k), "v": int(v)})
    return out


def parse_res(f, text):
    if f in ("get",):
        if text == "null":
            return {"k": "null", "n": 0}
        if re.fullmatch(r"-?\d+", text or ""):
            return {"k": "num", "n": int(text)}
    elif f in ("has-key", "eq"):
        if text in ("true", "false"):
            return {"k": "bool", "n": 1 if text == "true" else 0}
    else:
        return {"k": "none", "n": 0}
    return {"k": "other:" + str(text)[:40], "n": 0}


ERR_RUN = [{"r": {"k": "err", "n": 0}, "st": []}]


class C13(VectorEngine):
    prop = "C13"
    level = "model_checking"
    trace = ("Trace_Maps", "Trace_Maps.cfg")
    spec_op = "Maps!Run"
    rule = ("The map state machine Maps.tla: TLC checks key uniqueness, get-after-set, the frame conditions of set/remove, the merge order law and that MapEq is an "
            "order-free equivalence in every reachable map state (MC_Maps_C13_inv.cfg, states identified by the map), and emits EVERY sequence of a map literal (<=3 entries) "
            "followed by two actions out of get/has-key/remove (one key; several keys in orders other than the map's own, respelled, mixed with absent keys)/set/merge/== over keys from representation-variant classes (1 / 1.0 / 1px, \"a\" / a / 'a', red / #f00 / #ff0000, 1in / 96px); a query ends a run. "
            "rsass is stepped through the same sequence in one stylesheet; result and abstract state (key classes in order, values) are compared after every action. "
            "non-trivial = every sequence; distinct = distinct action sequence. Flow B: seeded random sequences of 4-12 actions on maps of <=8 entries validated as a stateful trace by Trace_Maps.tla.")
    assumptions = ["the state is read with inspect(); a key is identified by its `==` class (the spelling kept after an overwrite is not constrained)",
                   "values are small integers; nested maps and multi-key get/set are not generated",
                   "a failing action (duplicate key in a literal) fails the whole stylesheet: such a run is observed as one error"]
    mc_inv = {"quick": [("MC_Maps", "MC_Maps_C13_inv.cfg", {"workers": 4})],
              "thorough": [("MC_Maps", "MC_Maps_C13_invt.cfg", {"workers": 4, "timeout": 1500})]}
    mc_runs = {
        "quick": [("MC_Maps", "MC_Maps_C13_a.cfg", {"workers": 4}), ("MC_Maps", "MC_Maps_C13_b.cfg", {"workers": 4})],
        "thorough": [("MC_Maps", "MC_Maps_C13_a.cfg", {"workers": 4}), ("MC_Maps", "MC_Maps_C13_b.cfg", {"workers": 4}),
                     ("MC_Maps", "MC_Maps_C13_t.cfg", {"workers": 4, "timeout": 1500})],
    }
    random_n = {"quick": 400, "thorough": 5000}

    def run(self, ctx):
        # the invariants of the ideal machine, over every reachable map (no vectors are emitted here)
        for (module, cfg, kw) in self.mc_inv[ctx.tier]:
            r = ctx.mc(module, cfg, **kw)
            if r["distinct"] < 100:
                raise tlc.ToolError(f"{module}/{cfg} explored only {r['distinct']} states (vacuous)")
        super().run(ctx)

    # ---- rendering: one stylesheet, one variable per step -------------------------------------
    def render(self, inp):
        lines = ['@use "sass:map";', "$m0: ();"]
        decls = []
        for i, op in enumerate(inp["ops"], 1):
            f, cur = op["f"], "$m%d" % (i - 1)
            if f == "literal":
                lines.append(f"$m{i}: {lit_src(op['m2'])};")
            elif f == "get":
                lines.append(f"$r{i}: map.get({cur}, {KEY_SRC[op['k']]}); $m{i}: {cur};")
            elif f == "has-key":
                lines.append(f"$r{i}: map.has-key({cur}, {KEY_SRC[op['k']]}); $m{i}: {cur};")
            elif f == "remove":
                lines.append(f"$m{i}: map.remove({cur}, {KEY_SRC[op['k']]});")
            elif f == "remove-all":
                lines.append(f"$m{i}: map.remove({cur}, {', '.join(KEY_SRC[k] for k in op['ks'])});")
            elif f == "set":
                lines.append(f"$m{i}: map.set({cur}, {KEY_SRC[op['k']]}, {op['v']});")
            elif f == "merge":
                lines.append(f"$m{i}: map.merge({cur}, {lit_src(op['m2'])});")
            elif f == "eq":
                lines.append(f"$r{i}: {cur} == {lit_src(op['m2'])}; $m{i}: {cur};")
            else:
                raise ValueError(f)
            if f in ("get", "has-key", "eq"):
                decls.append(f"  r{i}: inspect($r{i});")
            decls.append(f"  s{i}: inspect($m{i});")
        lines.append("a {\n" + "\n".join(decls) + "\n}\n")
        return dict(api="compile_scss", src="\n".join(lines))

    def project(self, inp, res):
        st = res.get("status")
        if st == "err":
            return ERR_RUN
        if st != "ok":
            return [{"r": {"k": "other:" + str(st), "n": 0}, "st": []}]
        out = res.get("out") or ""
        obs = []
        for i, op in enumerate(inp["ops"], 1):
            ms = re.search(r"^  s%d: (.*);$" % i, out, re.M)
            mr = re.search(r"^  r%d: (.*);$" % i, out, re.M)
            state = parse_map(ms.group(1)) if ms else [{"k": "other:nostate", "v": 0}]
            obs.append({"r": parse_res(op["f"], mr.group(1) if mr else None), "st": state})
        return obs

    def key(self, inp):
        return inp["ops"]

    def group(self, inp, obs, vec):
        return "/".join(o["f"] for o in inp["ops"])

    # ---- Flow B: random longer sequences, validated as a stateful trace -----------------------------
    CLASSES = [["1", "1.0"], ["2", "2.0"], ["1px"], ["2px"], ["1in", "96px"], ["qa", "a", "sa"], ["qb", "b", "sb"], ["qc", "c", "sc"], ["qd", "d", "sd"],
               ["q1", "s1"], ["red", "#f00", "#ff0000"], ["blue", "#00f", "#0000ff"], ["true"], ["null"]]

    def random_inputs(self, ctx, n):
        rng = ctx.rng
        allkeys = [k for c in self.CLASSES for k in c]

        def key():
            return rng.choice(rng.choice(self.CLASSES))

        def some_map(nmax, distinct=True):
            cls = rng.sample(self.CLASSES, rng.randint(0, min(nmax, len(self.CLASSES))))
            m = [{"k": rng.choice(c), "v": rng.randint(1, 9)} for c in cls]
            if not distinct and m:
                m.insert(rng.randrange(len(m) + 1), {"k": rng.choice(self.CLASSES[self.CLASSES.index(rng.choice(cls))]), "v": rng.randint(1, 9)})
            return m
        out = []
        for _ in range(n):
            first = some_map(8, distinct=rng.random() > 0.06)
            ops = [dict(f="literal", k="", v=0, m2=first, ks=[])]
            if rng.random() < 0.5:
                perm = [dict(k=rng.choice(next(c for c in self.CLASSES if e["k"] in c)), v=e["v"]) for e in first]
                rng.shuffle(perm)
                if rng.random() < 0.25 and perm:
                    perm[0]["v"] = perm[0]["v"] % 9 + 1
                ops.append(dict(f="eq", k="", v=0, m2=perm, ks=[]))
            for _ in range(rng.randint(3, 10)):
                f = rng.choice(["get", "has-key", "remove", "remove-all", "remove-all", "set", "set", "merge", "merge", "eq"])
                op = dict(f=f, k="", v=0, m2=[], ks=[])
                if f == "remove-all":
                    # several keys, mostly present ones (spellings of the first literal's classes) in random order
                    pool = [rng.choice(next(c for c in self.CLASSES if e["k"] in c)) for e in first] + [key()]
                    op["ks"] = [rng.choice(pool) for _ in range(rng.randint(2, 4))]
                if f in ("get", "has-key", "remove", "set"):
                    op["k"] = key()
                if f == "set":
                    op["v"] = rng.randint(1, 9)
                if f == "merge":
                    op["m2"] = some_map(3)
                if f == "eq":
                    op["m2"] = some_map(3)
                ops.append(op)
            out.append(dict(ops=ops))
        return out

    def flow_b(self, ctx, n):
        inputs = self.random_inputs(ctx, n)
        cases = []
        for i, inp in enumerate(inputs):
            c = self.render(inp)
            c["id"] = f"rnd#{i}"
            cases.append(c)
        res = ctx.execute(cases, **self.exec_kw)
        devs = ctx.open_devs()
        events = []
        for i, inp in enumerate(inputs):
            r = res[cases[i]["id"]]
            obs = self.project(inp, r)
            ctx.note_case(self.key(inp), sample=self.sample(inp, cases[i], obs) if i < 2 else None)
            if obs == ERR_RUN or len(obs) != len(inp["ops"]):
                events.append(dict(ev="failed", case=i, ops=inp["ops"], k=obs[0]["r"]["k"]))
                continue
            events.append(dict(ev="reset", case=i))
            for op, o in zip(inp["ops"], obs):
                events.append(dict(ev="step", case=i, op=op, r=o["r"], st=o["st"], devs=devs))
        # validate; when a step is rejected the whole run it belongs to is reported and removed
        module, cfg = self.trace
        rejects = 0
        while True:
            path = f"{ctx.work}/maps.{rejects}.ndjson"
            with open(path, "w") as f:
                import json
                for e in events:
                    f.write(json.dumps(e, sort_keys=True) + "\n")
            r = tlc.validate_trace(module, cfg, path, ctx.work, timeout=900)
            ctx.cmds.append(r["cmd"] + "  # TRACE=<recorded ndjson>")
            for msg in r["msgs"]:
                ctx._known_from_msg(msg)
            if r["accepted"]:
                ctx.states += r["distinct"]
                ctx.transitions += r["states"]
                ctx.traces += sum(1 for e in events if e["ev"] != "reset")
                return
            i = r["unmatched"]
            if i is None or i < 1 or i > len(events):
                raise tlc.ToolError("trace rejected without a usable index:\n" + r["out"][-2000:])
            bad = events[i - 1]
            c = bad["case"]
            ctx.violation(f"rnd#{c}", dict(input=inputs[c], rendered=cases[c], actual=self.project(inputs[c], res[cases[c]["id"]]),
                                           raw=res[cases[c]["id"]], rejected_event=bad,
                                           expected="(rejected by trace spec %s)" % module, flow="B"))
            events = [e for e in events if e["case"] != c]
            rejects += 1
            if rejects >= 20:
                ctx.notes.append(f"trace validation stopped after {rejects} rejected runs")
                return

    def replay(self, ctx, rep):
        if rep.get("flow") != "B":
            return super().replay(ctx, rep)
        c = dict(rep["rendered"])
        c["id"] = "replay"
        r = ctx.execute([c], **self.exec_kw)["replay"]
        inp = rep["input"]
        obs = self.project(inp, r)
        print("replay observed:", obs)
        if obs == ERR_RUN or len(obs) != len(inp["ops"]):
            events = [dict(ev="failed", case=0, ops=inp["ops"], k=obs[0]["r"]["k"])]
        else:
            events = [dict(ev="reset", case=0)] + [dict(ev="step", case=0, op=op, r=o["r"], st=o["st"], devs=[]) for op, o in zip(inp["ops"], obs)]
        import json
        path = f"{ctx.work}/replay.ndjson"
        with open(path, "w") as f:
            for e in events:
                f.write(json.dumps(e, sort_keys=True) + "\n")
        return tlc.validate_trace(self.trace[0], self.trace[1], path, ctx.work, timeout=300)["accepted"]
