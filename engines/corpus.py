"""Input sources shared by the C07 / C08 / C09 engines.

* the sass-spec corpus as converted into rsass's own test-suite: every `runner().ok("...")` / `.err("...")`
  input literal of /repo/rsass/tests/spec/**/*.rs, with the `.mock_file("name", "content")` files of the same
  test module (read-only; the expected outputs pinned there are NOT used);
* programs from the colleagues' generators (scope, flow, selectors, emit, reach, lists, strings, stresc,
  colors): their random_inputs + render functions are imported, nothing is modified.
"""
import glob, os, random, re

from vlib import runner

_ESC = {"n": "\n", "t": "\t", "r": "\r", "0": "\0", "\\": "\\", '"': '"', "'": "'"}


def _rust_string(src, i):
    """src[i] == '"' (ordinary literal) : (value, index after the literal)"""
    out = []
    n = len(src)
    j = i + 1
    while j < n:
        ch = src[j]
        if ch == '"':
            return "".join(out), j + 1
        if ch == "\\":
            c2 = src[j + 1]
            if c2 == "\n":                       # line continuation: skip the line break and leading blanks
                j += 2
                while j < n and src[j] in " \t\n\r":
                    j += 1
                continue
            if c2 == "u":
                k = src.index("}", j)
                out.append(chr(int(src[j + 3:k].replace("_", ""), 16)))
                j = k + 1
                continue
            if c2 == "x":
                out.append(chr(int(src[j + 2:j + 4], 16)))
                j += 4
                continue
            out.append(_ESC.get(c2, c2))
            j += 2
            continue
        out.append(ch)
        j += 1
    raise ValueError("unterminated literal")


def _raw_string(src, i):
    """src[i] == 'r' followed by #*" : (value, index after)"""
    j = i + 1
    h = 0
    while src[j] == "#":
        h += 1
        j += 1
    assert src[j] == '"'
    end = '"' + "#" * h
    k = src.index(end, j + 1)
    return src[j + 1:k], k + len(end)


def _literal_after(src, i):
    """skip blanks from i; parse a string literal if there is one: (value, index) or (None, i)"""
    n = len(src)
    while i < n and src[i] in " \t\n\r":
        i += 1
    if i < n and src[i] == '"':
        return _rust_string(src, i)
    if i < n and src[i] == "r" and i + 1 < n and src[i + 1] in '#"':
        try:
            return _raw_string(src, i)
        except Exception:
            return None, i
    return None, i


_CALL = re.compile(r"\.(ok|err|mock_file)\(")


def extract_file(path):
    """-> (inputs [(kind, scss)], files {name: content})"""
    src = open(path, encoding="utf-8").read()
    inputs, files = [], {}
    for m in _CALL.finditer(src):
        kind = m.group(1)
        try:
            v, j = _literal_after(src, m.end())
            if v is None:
                continue
            if kind == "mock_file":
                while src[j] in " \t\n\r,":
                    j += 1
                c, _ = _literal_after(src, j)
                if c is not None:
                    files[v] = c
            else:
                inputs.append((kind, v))
        except Exception:
            continue
    return inputs, files


_cache = {}


def corpus(root=None):
    """-> list of dicts {id, src, files, kind} in a fixed order (sorted paths, order in file)"""
    root = root or os.path.join(runner.REPO, "rsass", "tests", "spec")
    if root in _cache:
        return _cache[root]
    out = []
    for path in sorted(glob.glob(os.path.join(root, "**", "*.rs"), recursive=True)):
        try:
            inputs, files = extract_file(path)
        except Exception:
            continue
        rel = os.path.relpath(path, root)
        for k, (kind, scss) in enumerate(inputs):
            out.append({"id": f"{rel}#{k}", "src": scss, "files": files, "kind": kind})
    _cache[root] = out
    return out


def corpus_case(item, style, cid):
    files = dict(item["files"])
    files["input.scss"] = item["src"]
    return dict(id=cid, api="transform", entry="input.scss", files=files, style=style)


def sample(items, n, seed):
    if n is None or n >= len(items):
        return list(items)
    rng = random.Random(seed)
    idx = sorted(rng.sample(range(len(items)), n))
    return [items[i] for i in idx]


# ------------------------------------------------------------------------------------------------------------
class _Ctx:
    def __init__(self, seed):
        self.rng = random.Random(seed)
        self.seed = seed
        self.tier = "quick"


def generated(n_each, seed):
    """programs from the colleagues' generators: list of {id, src} (SCSS text).  Generators that are missing or
    fail are skipped (their absence must not break these checks)."""
    specs = [("scope", "C16"), ("selectors", "C19"), ("selectors", "C22"), ("emit", "C20"), ("reach", "C36"), ("reach", "C21"),
             ("lists", "C28"), ("strings", "C26"), ("stresc", "C27"), ("colors", "C33"), ("colors", "C31"), ("maps", "C13"),
             ("units", "C11"), ("calc", "C30"), ("values", "C12")]
    out = []
    import importlib
    for mod, cls in specs:
        try:
            m = importlib.import_module("engines." + mod)
            eng = getattr(m, cls)()
            ctx = _Ctx(seed * 1000 + len(out))
            inputs = eng.random_inputs(ctx, n_each)
            k = 0
            for inp in inputs:
                try:
                    c = eng.render(inp)
                except Exception:
                    continue
                src = c.get("src")
                if src is None and c.get("files") and c.get("entry"):
                    src = c["files"].get(c["entry"])
                if not isinstance(src, str) or c.get("api") not in (None, "compile_scss", "transform"):
                    continue
                if c.get("api", "transform") == "transform" and len(c.get("files") or {}) > 1:
                    continue
                out.append({"id": f"gen:{mod}.{cls}#{k}", "src": src, "files": {}, "kind": "gen"})
                k += 1
        except Exception:
            continue
    return out
