"""C16: variable scoping (spec/Scope.tla).

Python only renders the abstract statement sequence to SCSS and reads the probe
values back; the expected read values are computed by Scope!Ideal in TLA+."""
import re
from vlib.core import VectorEngine

ASSIGN = {"none": "${v}: {val};", "global": "${v}: {val} !global;", "default": "${v}: {val} !default;",
          "null": "${v}: null;", "inc": "${v}: ${v} + 100;"}
FLOW = ("if", "each", "for", "while")
BIND = ("each", "for", "mixin", "function", "content", "lmixin", "lmixind", "lfunctiond")
LOCALDEF = ("lmixin", "lmixind", "lfunctiond")
FNKINDS = ("function", "lfunctiond")


def match(prog, i):
    """index (0-based) of the close matching the open at 0-based index i"""
    d = 0
    for j in range(i + 1, len(prog)):
        if prog[j]["op"] == "open":
            d += 1
        elif prog[j]["op"] == "close":
            if d == 0:
                return j
            d -= 1
    raise ValueError("unbalanced program")


def render_prog(prog):
    """-> SCSS text.  Statement numbers (pc) are 1-based as in Scope.tla: the constant assigned at pc is 10+pc."""
    top = []          # definitions placed at the top level (mixins / functions with global definition site)

    def block(lo, hi, fn, ind):
        out = []
        i = lo
        pad = "  " * ind
        while i < hi:
            t = prog[i]
            pc = i + 1
            if t["op"] == "asg":
                out.append(pad + ASSIGN[t["arg"]].replace("{v}", t["var"]).replace("{val}", str(10 + pc)))
                i += 1
            elif t["op"] == "read":
                if fn:
                    out.append(pad + f"$acc: append($acc, inspect(${t['var']}), comma) !global;")
                else:
                    out.append(pad + f"o {{ v: inspect(${t['var']}); }}")
                i += 1
            elif t["op"] == "open":
                m = match(prog, i)
                kind = t["arg"]
                var = t["var"] if t["var"] != "-" else None
                infn = fn or kind in FNKINDS
                body = block(i + 1, m, infn, ind + 1 if kind not in ("mixin", "function") else 1)
                if kind == "rule":
                    out += [pad + "a {"] + body + [pad + "}"]
                elif kind == "media":
                    out += [pad + "@media print {"] + body + [pad + "}"]
                elif kind == "atrule":
                    out += [pad + "@supports (a: b) {"] + body + [pad + "}"]
                elif kind == "if":
                    out += [pad + "@if true {"] + body + [pad + "}"]
                elif kind == "each":
                    out += [pad + f"@each ${var or 'i%d' % pc} in 3 4 {{"] + body + [pad + "}"]
                elif kind == "for":
                    out += [pad + f"@for ${var or 'i%d' % pc} from 1 through 2 {{"] + body + [pad + "}"]
                elif kind == "while":
                    w = f"$w{pc}"
                    out += [pad + f"{w}: 0 !global;", pad + f"@while {w} < 2 {{"] + body + \
                           [pad + f"  {w}: {w} + 1 !global;", pad + "}"]
                elif kind == "lmixin":
                    if var:      # declared in place, the argument passed explicitly
                        out += [pad + f"@mixin lm{pc}(${var}) {{"] + body + [pad + "}", pad + f"@include lm{pc}(5);"]
                    else:
                        out += [pad + f"@mixin lm{pc} {{"] + body + [pad + "}", pad + f"@include lm{pc};"]
                elif kind == "lmixind":
                    # declared in place, the parameter takes its default (the include passes nothing)
                    sig = f"(${var}: 5)" if var else "()"
                    out += [pad + f"@mixin lm{pc}{sig} {{"] + body + [pad + "}", pad + f"@include lm{pc};"]
                elif kind == "lfunctiond":
                    sig = f"(${var}: 6)" if var else "()"
                    out += [pad + f"@function lf{pc}{sig} {{"] + body + [pad + "  @return 0;", pad + "}",
                            pad + "$acc: (s,) !global;", pad + f"o {{ c: lf{pc}(); w: inspect($acc); }}"]
                elif kind == "mixin":
                    if var:
                        top.extend([f"@mixin gm{pc}(${var}) {{"] + body + ["}"])
                        out.append(pad + f"@include gm{pc}(5);")
                    else:
                        top.extend([f"@mixin gm{pc} {{"] + body + ["}"])
                        out.append(pad + f"@include gm{pc};")
                elif kind == "function":
                    if var:
                        top.extend([f"@function gf{pc}(${var}) {{"] + body + ["  @return 0;", "}"])
                        call = f"gf{pc}(6)"
                    else:
                        top.extend([f"@function gf{pc}() {{"] + body + ["  @return 0;", "}"])
                        call = f"gf{pc}()"
                    # reads inside the function are appended to a global accumulator, printed after the call
                    out.append(pad + "$acc: (s,) !global;")
                    out.append(pad + f"o {{ c: {call}; w: inspect($acc); }}")
                elif kind == "content":
                    if var:
                        top.append(f"@mixin wr{pc} {{ @content(7); }}")
                        out += [pad + f"@include wr{pc} using (${var}) {{"] + body + [pad + "}"]
                    else:
                        top.append(f"@mixin wr{pc} {{ @content; }}")
                        out += [pad + f"@include wr{pc} {{"] + body + [pad + "}"]
                elif kind == "contentm":
                    # the wrapper mixin has locals named like the tested variables: the block must not see them
                    top.append(f"@mixin wm{pc} {{ $x: 8; $y: 8; @content; }}")
                    out += [pad + f"@include wm{pc} {{"] + body + [pad + "}"]
                else:
                    raise ValueError(kind)
                i = m + 1
            else:
                raise ValueError("stray close")
        return out

    body = block(0, len(prog), False, 0)
    return "\n".join(top + body) + "\n"


def val(tok):
    tok = tok.strip()
    if tok == "null":
        return 0
    if re.fullmatch(r"-?\d+", tok):
        return int(tok)
    return "other:" + tok[:30]


def project_out(res):
    if res.get("status") == "err":
        if "Undefined variable" in (res.get("err") or ""):
            return {"k": "err", "reads": []}
        return {"k": "other:error:" + (res.get("err") or "")[:60].split("\n")[0], "reads": []}
    if res.get("status") != "ok":
        return {"k": "other:" + str(res.get("status")), "reads": []}
    reads = []
    for m in re.finditer(r"\b([vw]): ([^;]*);", res.get("out") or ""):
        if m.group(1) == "v":
            reads.append(val(m.group(2)))
        else:
            items = m.group(2).strip()
            if items.startswith("(") and items.endswith(")"):
                items = items[1:-1]
            items = [x for x in (y.strip() for y in items.split(",")) if x]
            if not items or items[0] != "s":
                reads.append("other:acc:" + m.group(2)[:30])
            else:
                reads.extend(val(x) for x in items[1:])
    return {"k": "ok", "reads": reads}


class C16(VectorEngine):
    prop = "C16"
    level = "model_checking"
    trace = ("Trace_Scope", "Trace_Scope.cfg")
    spec_op = "Scope!Ideal"
    rule = ("Programs generated by the builder actions of MC_Scope.tla: flat sequences of assignments (none/!global/!default/null/"
            "$v: $v + 100), reads and open/close of blocks (rule, @media, @supports, @if, @each, @for, @while, mixin / function declared in place with the parameter passed or taking its default, "
            "mixin/function defined at top level, @content block; loop variables / parameters optionally named like the tested variable), "
            "bounded-exhaustive in the total number of statements; non-trivial = at least one block or flagged assignment and a defined "
            "ideal observable; distinct = distinct program. Flow B: seeded random programs with 2 variables, up to 14 statements and depth 4, "
            "validated by Trace_Scope.tla.")
    assumptions = ["loops run exactly two iterations (@for 1 through 2, @each in 3 4, @while with a !global counter); @if conditions are true",
                   "reads are probe rules `o { v: inspect($x) }`; inside function bodies reads are appended to a !global accumulator printed right after the call",
                   "whether iterations of @for/@each share one frame is not fixed by the property: programs on which the two choices differ are undef and skipped",
                   "`null + 100` is outside the property (undef)"]
    mc_runs = {
        "quick": [("MC_Scope", "MC_Scope_C16_a.cfg", {"workers": 4}), ("MC_Scope", "MC_Scope_C16_b.cfg", {"workers": 4}),
                  ("MC_Scope", "MC_Scope_C16_c.cfg", {"workers": 4})],
        "thorough": [("MC_Scope", "MC_Scope_C16_b.cfg", {"workers": 4}), ("MC_Scope", "MC_Scope_C16_t.cfg", {"workers": 4, "timeout": 1800}),
                     ("MC_Scope", "MC_Scope_C16_sim.cfg", {"simulate": "num=10000", "depth": 30, "workers": 4, "timeout": 600})],
    }
    random_n = {"quick": 600, "thorough": 6000}
    # with a deviation switched on TLC must find the property's laws violated in the model
    law_cfgs = ["MC_Scope_lawA.cfg", "MC_Scope_lawF.cfg"]

    def run(self, ctx):
        for cfg in self.law_cfgs:
            r = ctx.mc("MC_Scope", cfg, workers=2, timeout=300, expect_violation=True)
            if not (r["violated"] and "LawsHold" in r["out"]):
                from vlib import tlc
                raise tlc.ToolError(f"{cfg}: the laws of Scope.tla do not detect the deviation (vacuous laws)")
        ctx.notes.append("laws violated in the model under each deviation (MC_Scope_lawA/lawF.cfg): the deviations are property violations, not modelling artefacts")
        super().run(ctx)

    def render(self, inp):
        return dict(api="compile_scss", src=render_prog(inp["prog"]))

    def project(self, inp, res):
        return project_out(res)

    def key(self, inp):
        return [[t["op"], t["var"], t["arg"]] for t in inp["prog"]]

    def dev_matches(self, predicted, obs):
        # a deviation under which the pinned tree leaves the modelled domain predicts nothing
        return predicted["k"] == "undef" or predicted == obs

    def nontrivial(self, vec):
        return vec["expect"]["k"] != "undef" and any(t["op"] == "open" or t["arg"] in ("global", "default") for t in vec["prog"])

    def sample(self, inp, case, obs):
        return dict(rendered=case.get("src"), observed=obs)

    # ---- Flow B: random deeper programs -------------------------------------------------
    def random_inputs(self, ctx, n):
        rng = ctx.rng
        return [{"prog": self.gen(rng)} for _ in range(n)]

    def gen(self, rng):
        vars_ = ["x", "y"]
        flags = ["none", "none", "none", "global", "default", "null", "inc"]
        maxlen = rng.randint(6, 14)
        prog, stack = [], []

        def can_open(k):
            if set(stack) & set(FNKINDS) and k not in FLOW:
                return False
            if k in LOCALDEF and not set(stack) <= {"rule", "media", "atrule"}:
                return False
            return True
        kinds = ["rule", "rule", "media", "atrule", "if", "each", "for", "while", "lmixin", "lmixind", "lfunctiond", "mixin", "function",
                 "content", "contentm"]
        while True:
            room = maxlen - len(prog) - len(stack)
            last = prog[-1]["op"] if prog else "none"
            choices = []
            if room >= 2:
                choices += ["asg"] * 4
            if room >= 1:
                choices += ["read"] * 3
            if room >= 3 and len(stack) < 4:
                choices += ["open"] * 3
            if stack and last != "open":
                choices += ["close"] * 2
            if not choices or (room <= 0):
                break
            c = rng.choice(choices)
            if c == "asg":
                prog.append({"op": "asg", "var": rng.choice(vars_), "arg": rng.choice(flags)})
            elif c == "read":
                prog.append({"op": "read", "var": rng.choice(vars_), "arg": "-"})
            elif c == "open":
                k = rng.choice(kinds)
                if not can_open(k):
                    continue
                v = rng.choice(vars_ + ["-"]) if k in BIND else "-"
                prog.append({"op": "open", "var": v, "arg": k})
                stack.append(k)
            else:
                prog.append({"op": "close", "var": "-", "arg": "-"})
                stack.pop()
        # complete: every open block gets a read if empty, then its close
        while stack:
            if prog[-1]["op"] == "open":
                prog.append({"op": "read", "var": rng.choice(vars_), "arg": "-"})
            prog.append({"op": "close", "var": "-", "arg": "-"})
            stack.pop()
        if not prog or prog[-1]["op"] != "read":
            prog.append({"op": "read", "var": rng.choice(vars_), "arg": "-"})
        return prog
