"""C36 (comments) and C21 (evaluated content is never silently dropped): spec/Reach.tla."""
import re
from vlib.core import VectorEngine
from vlib import tlc
from . import cssobs

LOOPS = ("each2", "for2", "while2")
FILES = ("import", "use", "loadcss")
# loud comments whose text starts unusually: kind -> text between "/*" and the comment name ($col: #abc)
FORMS = {"l_sph": " #", "l_h": "#", "l_star": "* ", "l_slash": "/ ", "l_i0": "#{1 + 1} ", "l_ih": " #{$col} ",
         "l_ihd": "#{$col} ", "l_nl": "\nn ", "l_nlh": "\n# "}


def render_prog(prog):
    """flat program -> {path: scss text}; entry = main.scss"""
    files = {}
    out = []                 # current file's lines
    stack = []               # (kind, id, saved_out or None, popped_var)
    vars_ = []
    prelude = []
    kinds = {st["k"] for st in prog}
    if "loadcss" in kinds:
        prelude.append('@use "sass:meta";')
    if "content" in kinds:
        prelude.append("@mixin wrap { @content; }")
    if kinds & {"l_ih", "l_ihd"}:
        prelude.append("$col: #abc;")
    for st in prog:
        if st["k"] == "while2":
            prelude.append(f"$w{st['id']}: 0;")
    for st in prog:
        k, i = st["k"], st["id"]
        sfx = "".join("-#{$%s}" % v for v in vars_)
        if k == "loud":
            out.append(f"/* c{i}{sfx} */")
        elif k == "loudi":
            out.append(f"/* c{i}{sfx} #{{1 + 1}} */")
        elif k == "bang":
            out.append(f"/*! c{i}{sfx} */")
        elif k == "bangi":
            out.append(f"/*! c{i}{sfx} #{{1 + 1}} */")
        elif k == "silent":
            out.append(f"// c{i}{sfx}")
        elif k in FORMS:
            out.append("/*" + FORMS[k] + f"c{i}{sfx} */")
        elif k == "decl":
            out.append(f"m{i}{sfx}: v;")
        elif k == "atstmt":
            out.append(f"@m{i}{sfx} x;")
        elif k == "error":
            out.append('@error "boom";')
        elif k == "close":
            kind, cid, saved, _ = stack.pop()
            if kind in LOOPS:
                vars_.pop()
            if kind == "mixin":
                out.append(f"}} @include x{cid};")
            elif kind == "func":
                out.append(f"@return 1; }} $r{cid}: f{cid}();")
            elif kind in FILES:
                files[f"f{cid}.scss"] = "\n".join(out) + "\n"
                out = saved
                out.append({"import": f'@import "f{cid}";', "use": f'@use "f{cid}";',
                            "loadcss": f'@include meta.load-css("f{cid}");'}[kind])
            else:
                out.append("}")
        else:
            saved = None
            if k == "rule":
                out.append(f".r{i} {{")
            elif k == "nsprop":
                out.append("font: {")
            elif k == "media":
                out.append("@media screen {")
            elif k == "atrule":
                out.append(f"@m{i}{sfx} x {{")
            elif k == "mixin":
                out.append(f"@mixin x{i} {{")
            elif k == "content":
                out.append("@include wrap {")
            elif k == "if1":
                out.append("@if true {")
            elif k == "if0":
                out.append("@if false {")
            elif k == "else":
                out.append("@if false { } @else {")
            elif k == "each2":
                v = f"i{len(vars_) + 1}"; vars_.append(v)
                out.append(f"@each ${v} in 1 2 {{")
            elif k == "for2":
                v = f"i{len(vars_) + 1}"; vars_.append(v)
                out.append(f"@for ${v} from 1 through 2 {{")
            elif k == "while2":
                v = f"w{i}"; vars_.append(v)
                out.append(f"${v}: 0 !global; @while ${v} < 2 {{ ${v}: ${v} + 1 !global;")
            elif k == "func":
                out.append(f"@function f{i}() {{")
            elif k in FILES:
                saved = out
                out = []
            else:
                raise ValueError(k)
            stack.append((k, i, saved, None))
    files["main.scss"] = "\n".join(prelude + out) + "\n"
    return files


MARK = re.compile(r"^(?:font-)*(m\d+(?:-\d+)*)$")
CMARK = re.compile(r"^(?:! )?(c\d+(?:-\d+)*)(?: 2)?$")


def norm_comment(body):
    return " ".join(body.split())


def present_markers(css):
    tree = cssobs.parse(css)
    found = set()

    def walk(nodes):
        for n in nodes:
            if n["t"] == "decl":
                m = MARK.match(n["name"])
                if m:
                    found.add(m.group(1))
            elif n["t"] == "at":
                w = n["head"].split()[0][1:]
                if MARK.match(w):
                    found.add(w)
            elif n["t"] == "comment":
                m = CMARK.match(norm_comment(n["text"]))
                if m:
                    found.add(m.group(1))
            elif n["t"] == "block":
                if n["head"].startswith("@"):
                    w = n["head"].split()[0][1:]
                    if MARK.match(w):
                        found.add(w)
                walk(n["kids"])
    walk(tree)
    return sorted(found)


class ReachEngine(VectorEngine):
    level = "model_checking"
    trace = ("Trace_Reach", "Trace_Reach.cfg")

    def render(self, inp):
        files = render_prog(inp["prog"])
        return dict(api="transform", files=files, entry="main.scss", style=inp.get("style", "expanded"))

    def key(self, inp):
        return [inp["prog"], inp.get("style")]

    def sample(self, inp, case, obs):
        return dict(input=inp, rendered=case.get("files"), observed=obs)

    # ---- random programs (Flow B) ---------------------------------------------------------------
    rnd = dict(maxstmts=9, maxdepth=4)
    leaves = ()
    conts = ()
    strict = True

    def random_inputs(self, ctx, n):
        rng = ctx.rng
        out = []
        while len(out) < n:
            p = self.gen(rng)
            if p is not None:
                out.append({"prog": p, "style": rng.choice(self.styles), "mode": self.mode})
        return out

    def gen(self, rng):
        prog = []
        state = {"n": 0}
        cfg = self.rnd

        class Abort(Exception):
            pass

        def leaf(fr):
            ks = [k for k in self.leaves if self.leaf_ok(k, fr)]
            if not ks or state["n"] >= 9:
                return False
            state["n"] += 1
            prog.append({"k": rng.choice(ks), "id": state["n"]})
            return True

        def block(fr, depth):
            made = 0
            for _ in range(rng.randint(1, 3)):
                if state["n"] >= cfg["maxstmts"]:
                    break
                if rng.random() < 0.55 or depth >= cfg["maxdepth"]:
                    made += 1 if leaf(fr) else 0
                else:
                    ks = [k for k in self.conts if self.cont_ok(k, fr)]
                    if not ks:
                        continue
                    k = rng.choice(ks)
                    state["n"] += 1
                    prog.append({"k": k, "id": state["n"]})
                    sub = self.child(k, fr)
                    if block(sub, depth + 1) == 0 and k != "atrule" and not leaf(sub):
                        raise Abort()
                    prog.append({"k": "close", "id": 0})
                    made += 1
            return made

        try:
            r = block(dict(k="top", rs=0, ns=0, cf=0, fn=0, fl=0, lp=0), 1)
        except Abort:
            return None
        if r <= 0 or state["n"] > 9 or not any(st["k"] in self.need for st in prog):
            return None
        return prog

    def leaf_ok(self, k, fr):
        if fr["fn"]:
            return k == "error"
        if not self.strict:
            return True
        flow = ("if1", "if0", "else", "mixin") + LOOPS
        return {"decl": fr["rs"] == 1, "atstmt": fr["ns"] == 0 and fr["k"] not in flow, "error": False}.get(k, True)

    def cont_ok(self, k, fr):
        flow = ("if1", "if0", "else") + LOOPS
        if fr["fn"]:
            return k in flow
        if k in FILES:
            return fr["fl"] == 0 and fr["lp"] == 0 and not self.strict
        if k == "func":
            return not self.strict and fr["k"] in ("top", "rule") + FILES and fr["cf"] == 0
        if k == "mixin":
            return fr["k"] in ("top", "rule") and fr["cf"] == 0
        if not self.strict:
            return True
        if k == "nsprop":
            return fr["rs"] == 1
        if k == "atrule":
            return fr["ns"] == 0 and fr["k"] not in flow + ("mixin",)
        if k in ("rule", "media", "content"):
            return fr["ns"] == 0
        return True

    def child(self, k, fr):
        lp = 1 if (fr["lp"] or k in LOOPS) else 0
        if k == "rule":
            return dict(k=k, rs=1, ns=0, cf=fr["cf"], fn=0, fl=fr["fl"], lp=lp)
        if k == "nsprop":
            return dict(k=k, rs=fr["rs"], ns=1, cf=fr["cf"], fn=0, fl=fr["fl"], lp=lp)
        if k in ("media", "atrule"):
            return dict(k=k, rs=fr["rs"], ns=0, cf=fr["cf"], fn=0, fl=fr["fl"], lp=lp)
        if k == "func":
            return dict(k=k, rs=0, ns=0, cf=1, fn=1, fl=fr["fl"], lp=lp)
        if k in FILES:
            return dict(k=k, rs=fr["rs"], ns=fr["ns"], cf=fr["cf"], fn=0, fl=1, lp=lp)
        return dict(k=k, rs=fr["rs"], ns=fr["ns"], cf=1, fn=fr["fn"], fl=fr["fl"], lp=lp)


class C36(ReachEngine):
    prop = "C36"
    mode = "c36"
    spec_op = "Reach!Observe36"
    styles = ("expanded", "compressed")
    need = ("loud", "loudi", "bang", "bangi", "silent") + tuple(FORMS)
    leaves = ("loud", "loud", "loudi", "bang", "bangi", "silent", "decl", "decl") + tuple(FORMS)
    conts = ("rule", "nsprop", "media", "atrule", "mixin", "content", "if1", "if0", "else", "each2", "for2", "while2")
    strict = True
    rule = ("Programs generated by the builder actions of MC_Reach.tla with loud (plain / interpolated), preserved (/*!) and silent comments, "
            "and loud comments whose text starts with space+#, #, *, /, an interpolation (also one yielding #abc), a newline (MC_Reach_C36_c.cfg), at "
            "every statement position: top level, style rules, nested-property blocks, @media, unknown at-rules, mixin bodies, content blocks, "
            "@if/@else branches taken and not taken, @each/@for/@while bodies (reached twice, tagged with the loop value); bounded-exhaustive, "
            "each in expanded and compressed style; the comment sequence of rsass's output is compared with Reach!Observe36. non-trivial = "
            "every vector (contains a comment); distinct = distinct (program, style). Flow B: seeded random programs of <=9 statements, depth <=4, "
            "validated by Trace_Reach.tla.")
    assumptions = ["only placements that are valid Sass are generated (no at-rules inside nested-property blocks, declarations only inside style rules)",
                   "comment text is compared after collapsing whitespace; source-map comments (`/*# sourceMappingURL=`, `/*# sourceURL=`), which Sass drops, are not generated",
                   "comments inside @function bodies are not generated",
                   "only the sequence of comments is compared, not their position relative to declarations"]
    mc_runs = {
        "quick": [("MC_Reach", "MC_Reach_C36_a.cfg", {"workers": 4}), ("MC_Reach", "MC_Reach_C36_b.cfg", {"workers": 4}),
                  ("MC_Reach", "MC_Reach_C36_c.cfg", {"workers": 4})],
        "thorough": [("MC_Reach", "MC_Reach_C36_a.cfg", {"workers": 4}), ("MC_Reach", "MC_Reach_C36_b.cfg", {"workers": 4}),
                     ("MC_Reach", "MC_Reach_C36_c.cfg", {"workers": 4}),
                     ("MC_Reach", "MC_Reach_C36_t.cfg", {"workers": 4, "timeout": 1500})],
    }
    random_n = {"quick": 1500, "thorough": 20000}

    def strip(self, vec):
        d = super().strip(vec)
        d["mode"] = "c36"
        return d

    def project(self, inp, res):
        st = res.get("status")
        if st != "ok":
            return {"st": "err" if st == "err" else str(st), "comments": []}
        try:
            cs = cssobs.comments(res.get("out") or "")
        except cssobs.CssSyntaxError as e:
            return {"st": "badcss", "comments": [str(e)]}
        return {"st": "ok", "comments": [norm_comment(c) for c in cs]}


class C21(ReachEngine):
    prop = "C21"
    mode = "c21"
    spec_op = "Reach!Accept21"
    styles = ("expanded",)
    need = ("decl", "atstmt", "loud", "atrule", "error")
    leaves = ("decl", "decl", "atstmt", "loud", "error")
    conts = ("rule", "nsprop", "media", "atrule", "mixin", "content", "if1", "if0", "else", "each2", "for2", "while2", "func",
             "import", "use", "loadcss")
    strict = False
    rule = ("Programs generated by the builder actions of MC_Reach.tla that put uniquely marked declarations, body-less at-rules, at-rule blocks "
            "and loud comments into every container kind (style rule, nested-property block, @media, unknown at-rule, mixin, content block, "
            "@if/@else, @each/@for/@while, function, @import-ed / @use-d / meta.load-css-ed file), nested up to depth 3, and @error at every "
            "statement position of programs of <=5 statements; bounded-exhaustive, legal or not. Every program is compiled and the pair "
            "(result class, markers present in the output) is validated by TLC against Reach!Accept21 (Trace_Reach.tla): error, or every "
            "reached marker present and no @error reached. non-trivial = every vector; distinct = distinct program. Flow B: seeded random "
            "programs of <=9 statements, depth <=4.")
    assumptions = ["the spec does not decide which placements are legal: an error is always accepted",
                   "markers are recognised by name (m<id>[-<loop values>] as property name, at-rule name; c<id>.. as comment text)",
                   "file containers (@import/@use/load-css) are not generated inside loops and not nested in each other"]
    mc_runs = {
        "quick": [("MC_Reach", "MC_Reach_C21_a.cfg", {"workers": 4}), ("MC_Reach", "MC_Reach_C21_b.cfg", {"workers": 4})],
        "thorough": [("MC_Reach", "MC_Reach_C21_a.cfg", {"workers": 4}), ("MC_Reach", "MC_Reach_C21_b.cfg", {"workers": 4}),
                     ("MC_Reach", "MC_Reach_C21_t.cfg", {"workers": 4, "timeout": 1500})],
    }
    random_n = {"quick": 1500, "thorough": 20000}

    def strip(self, vec):
        d = super().strip(vec)
        d["mode"] = "c21"
        return d

    def project(self, inp, res):
        st = res.get("status")
        if st != "ok":
            return {"st": "err" if st == "err" else str(st), "present": []}
        try:
            return {"st": "ok", "present": present_markers(res.get("out") or "")}
        except cssobs.CssSyntaxError as e:
            return {"st": "badcss", "present": []}

    def flow_a(self, ctx, vecs, tag):
        """The verdict of C21 is a relation (error OR all reached markers present), so Flow A observations are
        validated by the trace spec too: TLC, not Python, decides."""
        cases = []
        for i, v in enumerate(vecs):
            c = self.render(self.strip(v))
            c["id"] = f"{tag}#{i}"
            cases.append(c)
        res = ctx.execute(cases, **self.exec_kw)
        devs = ctx.open_devs()
        events = []
        for i, v in enumerate(vecs):
            inp = self.strip(v)
            r = res[cases[i]["id"]]
            obs = self.project(inp, r)
            events.append(dict(inp, obs=obs, case=i, devs=devs))
            ctx.note_case(self.key(inp), sample=self.sample(inp, cases[i], obs) if i % max(1, len(vecs) // 3) == 0 else None)

        def on_reject(e):
            i = e["case"]
            ctx.violation(cases[i]["id"], dict(input=self.strip(vecs[i]), rendered=cases[i], actual=e["obs"], raw=res[cases[i]["id"]],
                                               expected=dict(vecs[i]["expect"], note="rejected by Reach!Accept21"), flow="B"))
        # chunks keep one TLC run short and let validation continue after rejections
        for k in range(0, len(events), 20000):
            ctx.validate(self.trace[0], self.trace[1], events[k:k + 20000], on_reject=on_reject, tag=f"a{k}")
