"""C34: global and module function forms agree (spec/Forms.tla, MC_Forms.tla, Trace_Forms.tla).

A LAW engine: TLC enumerates (table row, argument tuple) and the passing forms that apply; Python renders every
form as one tiny stylesheet, rsass evaluates them, and Trace_Forms.tla checks Forms!FormsAgree on the observation.
Python maps argument tokens to SCSS literals and reads `inspect` text back - nothing else."""
import re
from vlib.core import Engine, jdump
from vlib import tlc

LIT = {
    # strings
    "s_abc": '"abc"', "s_empty": '""', "u_abc": "abc", "s_uni": '"aé☃"', "s_b": '"b"', "s_zz": '"zz"', "u_c": "c",
    "s_long": '"hello world"', "u_a": "a", "u_b": "b", "u_zz": "zz",
    "s_upper": '"ÄÖÜ Ñandú École ABC"', "s_lower": '"äöü ñ é ǆ ß abc"', "u_upper": "ÀB-Çd", "s_astral": '"a😀b𝒳𝐀"', "s_comb": '"e\u0301E\u0301x"',
    "s_uml": '"Ö"', "s_emoji": '"😀"', "s_qa": '"a"',
    # numbers
    "n_mfrac": "-1.5", "n_m2h5px": "-2.5px", "n_deg": "90deg", "n_mhalf": "-0.5", "n_33pct": "33.3%",
    "n_0": "0", "n_1": "1", "n_2": "2", "n_m1": "-1", "n_9": "9", "n_1h": "1.5", "n_2px": "2px", "n_50pct": "50%",
    "n_0pct": "0%", "n_100pct": "100%", "n_25": "25", "n_30": "30", "n_m2": "-2", "n_3": "3", "n_10pct": "10%", "n_7em": "7em",
    # lists, maps
    "l_abc": "(a b c)", "l_comma": "(a, b)", "l_empty": "()", "l_br": "[a b]", "m_ab": "(a: 1, b: 2)", "m_empty": "map-remove((a: 1), a)",
    "m_nest": "(a: (b: 1))", "l_nested": "(a b, c d)", "l_slash": "list.slash(a, b)", "m_num": "(1: x, 2: y)",
    "l_brcomma": "[a, b]", "l_null": "(a null b)", "m_mixed": '(a: 1, "b": null, 2: (x y))',
    "c_hsla": "hsla(200, 40%, 60%, 0.3)", "c_hwb": "hwb(120 20% 30%)", "c_hexa": "#12345680",
    # misc
    "null": "null", "true": "true", "false": "false", "u_comma": "comma", "u_space": "space", "u_auto": "auto", "u_slash": "slash",
    "x_bad": "foo", "x_num": "1", "x_str": '"a"', "x_strc": '"foo"',
    # colors
    "c_red": "red", "c_hex": "#123456", "c_rgba": "rgba(10, 20, 30, 0.5)", "c_hsl": "hsl(120, 50%, 50%)", "c_short": "#abc",
    "c_transparent": "transparent",
    # selectors
    "q_a": '".a"', "q_ab": '".a .b"', "q_list": '".a, .b"', "q_child": '"a > b"', "q_pseudo": '".a:hover"', "q_amp": '"&.x"',
    # names
    "q_red": '"red"', "q_nope": '"nope"', "q_x": '"x"', "q_fn": '"fn"', "q_at_error": '"at-error"',
    # function references
    "f_strlen": 'get-function("str-length")', "f_css": 'get-function("foo", $css: true)',
}

PRELUDE = "$x: 1;\n@function fn() { @return 1; }\n@mixin x { y: z; }\n"

# extra tokens per pool tag for Flow B (inputs the specification did not choose)
EXTRA = {"str": ["s_long", "u_a"], "sub": ["s_abc", "u_a"], "idx": ["n_m2", "n_3"], "num": ["n_m2", "n_3", "n_7em", "n_10pct"],
         "numu": ["n_2", "n_9", "n_m2"], "pct": ["n_10pct"], "list": ["l_nested", "m_num"], "any": ["c_red", "true", "s_abc", "m_ab"],
         "map": ["m_num"], "key": ["n_2", "null"], "color": ["c_short", "c_transparent"], "sel": ["q_pseudo"], "name": ["q_a"]}


def call_text(vec, form):
    caller, style = form.split("_")
    lits = [LIT[a] for a in vec["args"]]
    names = vec["params"]
    if style == "pos":
        args = lits
    elif style == "named":
        args = [f"${n}: {l}" for n, l in zip(names, lits)]
    else:
        args = lits[:1] + [f"${n}: {l}" for n, l in zip(names[1:], lits[1:])]
    a = ", ".join(args)
    if caller == "g":
        return f'{vec["g"]}({a})'
    if caller == "m":
        return f'{vec["mod"]}.{vec["f"]}({a})'
    if caller == "cg":
        return f'meta.call(meta.get-function("{vec["g"]}"), {a})'
    return f'meta.call(meta.get-function("{vec["f"]}", $module: "{vec["mod"]}"), {a})'


def src_for(vec, form):
    uses = '@use "sass:meta";\n@use "sass:list";\n'
    if vec["mod"] not in ("meta", "list"):
        uses += f'@use "sass:{vec["mod"]}";\n'
    return uses + PRELUDE + "a { v: meta.inspect(" + call_text(vec, form) + "); }\n"


def project(res):
    st = res.get("status")
    if st == "err":
        return {"k": "err", "v": ""}
    if st != "ok":
        return {"k": "other:" + str(st), "v": ""}
    m = re.search(r"v: (.*);\n\}", res.get("out") or "", re.S)
    if not m:
        if (res.get("out") or "").strip() == "":
            return {"k": "val", "v": ""}       # inspect() gave the empty unquoted string: the declaration is omitted
        return {"k": "other:noout", "v": (res.get("out") or "")[:60]}
    return {"k": "val", "v": m.group(1)}


class C34(Engine):
    prop = "C34"
    level = "exploration"
    rule = ("Every row of Forms!Table (the documented global/module pairs with parameter names) x every argument tuple from the per-type pools "
            "(arity from the required parameters to the full list), enumerated by MC_Forms.tla; for each tuple every passing form that applies "
            "(global/module x positional/named/mixed, and meta.call of meta.get-function of either) is compiled separately and the inspect() texts are "
            "compared by Forms!FormsAgree in Trace_Forms.tla. evaluations = tuples; non-trivial = at least one form returns a value; "
            "distinct = distinct (row, tuple). Flow B: seeded random tuples including tokens outside the exhaustive pools.")
    assumptions = ["errors are compared as a class (error vs value), not by message",
                   "left out: non-deterministic functions (unique-id, random), functions needing a mixin/arglist context, pairs without a documented alias, "
                   "numbers passed to grayscale/invert/alpha/opacity and mixed units in min/max (the global name is also a plain-CSS function there)",
                   "rest-parameter functions (zip, min, max, map-remove, selector-nest/append, call) are compared in positional form only"]
    mc_runs = {"quick": [("MC_Forms", "MC_Forms_C34_q.cfg", {"workers": 4})],
               "thorough": [("MC_Forms", "MC_Forms_C34_q.cfg", {"workers": 4})]}
    random_n = {"quick": 1500, "thorough": 20000}
    trace = ("Trace_Forms", "Trace_Forms.cfg")

    # ------------------------------------------------------------------
    def observe(self, ctx, vecs, tag):
        cases = []
        for i, v in enumerate(vecs):
            for f in v["forms"]:
                cases.append(dict(api="compile_scss", src=src_for(v, f), id=f"{tag}#{i}#{f}"))
        res = ctx.execute(cases)
        events = []
        for i, v in enumerate(vecs):
            r = {f: project(res[f"{tag}#{i}#{f}"]) for f in v["forms"]}
            events.append(dict(row=v["row"], g=v["g"], mod=v["mod"], f=v["f"], params=v["params"], args=v["args"],
                               forms=sorted(v["forms"]), res=r, case=i, devs=ctx.open_devs()))
            ctx.note_case([v["row"], v["args"]], nontrivial=any(x["k"] == "val" for x in r.values()),
                          sample=dict(call=call_text(v, v["forms"][0]), results=r) if i % max(1, len(vecs) // 3) == 0 else None)
        return events

    def check(self, ctx, vecs, tag):
        events = self.observe(ctx, vecs, tag)

        def on_reject(e):
            v = vecs[e["case"]]
            ctx.violation(f"{tag}#{e['case']}", dict(input={k: v[k] for k in ("row", "g", "mod", "f", "params", "args", "forms")},
                          rendered={f: call_text(v, f) for f in v["forms"]}, actual=e["res"], flow="B",
                          expected="Forms!FormsAgree: all passing forms give the same inspect() text / the same error class"))
        ctx.validate(self.trace[0], self.trace[1], events, on_reject=on_reject, tag=tag)

    def run(self, ctx):
        table = None
        for (module, cfg, kw) in self.mc_runs[ctx.tier]:
            r = ctx.mc(module, cfg, **kw)
            vecs = list(ctx.vectors(r))
            if not vecs:
                raise tlc.ToolError(f"{module}/{cfg} produced no vectors (vacuous model run)")
            self.check(ctx, vecs, "mc")
            table = vecs
        # Flow B: random tuples over the same rows, with tokens the pools do not contain
        rng = ctx.rng
        rows = {}
        for v in table:
            rows.setdefault(v["row"], []).append(v)
        pools = {}
        for v in table:          # pools as the model used them, per (row, position)
            for j, a in enumerate(v["args"]):
                pools.setdefault((v["row"], j), set()).add(a)
        rnd = []
        keys = sorted(rows)
        for _ in range(self.random_n.get(ctx.tier, 0)):
            base = dict(rng.choice(rows[rng.choice(keys)]))
            args = []
            for j, a in enumerate(base["args"]):
                tag = self.tag_of(pools[(base["row"], j)])
                cand = sorted(pools[(base["row"], j)]) + EXTRA.get(tag, []) * 2
                args.append(rng.choice(cand))
            base["args"] = args
            rnd.append(base)
        if rnd:
            self.check(ctx, rnd, "rnd")

    @staticmethod
    def tag_of(pool):
        sig = {"s_uni": "str", "s_zz": "sub", "n_9": "idx", "x_str": "num", "n_30": "numu", "n_0pct": "pct", "l_br": "list", "l_comma": "any",
               "m_nest": "map", "u_zz": "key", "c_hex": "color", "q_child": "sel", "q_fn": "name"}
        for t, tag in sig.items():
            if t in pool:
                return tag
        return ""

    def replay(self, ctx, rep):
        v = rep["input"]
        events = self.observe(ctx, [v], "replay")
        print("replay observed:", jdump(events[0]["res"]))
        bad = []
        ctx.validate(self.trace[0], self.trace[1], events, on_reject=lambda e: bad.append(e), tag="replay")
        return not bad
