"""C08: expanded and compressed styles describe the same stylesheet (spec/StyleEq.tla).

Every input is compiled in both styles; the observer (engines/csstok.py) reads each output into a structure tree of
raw tokens; StyleEq!ResultEquiv - evaluated by TLC in Trace_StyleEq.tla - decides.  Inputs: the abstract stylesheets
enumerated by MC_StyleEq.tla, the sass-spec corpus, programs of the other engines' generators."""
from vlib.core import Engine, jdump
from vlib import tlc
from . import csstok, corpus


def result_of(r):
    """executor result -> the `result` record of StyleEq.tla"""
    st = r.get("status") or "none"
    if st == "ok":
        if r.get("out") is None and r.get("out_hex") is not None:
            return {"st": "unreadable", "tree": [], "msg": []}
        try:
            return {"st": "ok", "tree": csstok.read_tree(r.get("out") or ""), "msg": []}
        except csstok.Unreadable:
            return {"st": "unreadable", "tree": [], "msg": []}
    if st == "err":
        return {"st": "err", "tree": [], "msg": [ord(c) for c in (r.get("err") or "")]}
    return {"st": st, "tree": [], "msg": []}


NONE = {"st": "none", "tree": [], "msg": []}


class C08(Engine):
    prop = "C08"
    level = "exploration"
    rule = ("Model: TLC checks on the universe of MC_StyleEq.tla (abstract stylesheets of <= MaxItems items over selector and value kinds, written by "
            "the abstract expanded and compressed writers) that StyleEquiv relates the two renderings of every stylesheet, is reflexive / symmetric / "
            "transitive on all renderings, separates renderings of different stylesheets and rejects every faulty compressed rendering (dropped "
            "!important, unit, quote, comma, descendant blank, declaration, changed color, swapped order). Binding: each abstract stylesheet, the "
            "sass-spec corpus inputs (sampled in quick, all in thorough) and programs of the other engines' generators are compiled in both styles; "
            "Trace_StyleEq.tla evaluates StyleEq!ResultEquiv on the two structure trees / error messages. evaluation = one input compiled in both "
            "styles; non-trivial = both succeed with a non-empty output or both fail; distinct = distinct input text.")
    assumptions = ["the relation is relational: a defect that is identical in both styles is invisible here (C10/C19/C20/C33 see it)",
                   "blanks are compared as separators: dropped next to , ; : ( ) [ ] { } > ~ + ! / = on the side where they cannot matter, one separator elsewhere",
                   "number tokens are compared by value (also trailing zeros of the fraction and a sign of zero), colors by rgba; colour decoding is not applied in style-rule preludes",
                   "comments are not compared at all (compressed style drops them; whether `/*!` comments must survive is C36)",
                   "pairs in which a compilation panics, aborts or times out (C01) or whose output the brace matcher cannot read (C07) are not judged"]
    trace = ("Trace_StyleEq", "Trace_StyleEq.cfg")
    laws = ("MC_StyleEqLaws", "MC_StyleEqLaws.cfg", {"workers": 2, "timeout": 900})
    mc_runs = {
        "quick": [("MC_StyleEq", "MC_StyleEq_q.cfg", {"workers": 4, "timeout": 600}), ("MC_StyleEq", "MC_StyleEq_q2.cfg", {"workers": 4, "timeout": 600})],
        "thorough": [("MC_StyleEq", "MC_StyleEq_q.cfg", {"workers": 4, "timeout": 900}), ("MC_StyleEq", "MC_StyleEq_t.cfg", {"workers": 4, "timeout": 1500}),
                     ("MC_StyleEq", "MC_StyleEq_t2.cfg", {"workers": 4, "timeout": 1500})],
    }
    corpus_n = {"quick": 2000, "thorough": None}
    gen_n = {"quick": 60, "thorough": 600}
    chunk = 4000

    def events_of(self, ctx, items, tag):
        cases = []
        for i, it in enumerate(items):
            for style in ("expanded", "compressed"):
                cases.append(corpus.corpus_case(it, style, f"{tag}#{i}:{style[0]}"))
            stripped, interp = csstok.strip_comments(it["src"])
            if interp:      # what comment_not_evaluated_compressed predicts: the source without its comments
                cases.append(corpus.corpus_case(dict(it, src=stripped), "expanded", f"{tag}#{i}:n"))
        res = ctx.execute(cases)
        events = []
        for i, it in enumerate(items):
            re_, rc = res.get(f"{tag}#{i}:e") or {}, res.get(f"{tag}#{i}:c") or {}
            eid = len(self.allinfo)
            ev = {"case": eid, "e": result_of(re_), "c": result_of(rc), "devs": ctx.open_devs(),
                  "n": result_of(res[f"{tag}#{i}:n"]) if f"{tag}#{i}:n" in res else NONE}
            self.allinfo[eid] = (it, re_, rc)
            events.append(ev)
            both_ok = ev["e"]["st"] == "ok" and ev["c"]["st"] == "ok"
            ctx.note_case(it["src"], nontrivial=(both_ok and bool(ev["e"]["tree"])) or (ev["e"]["st"] == "err" and ev["c"]["st"] == "err"),
                          sample=dict(input=it["src"][:300], expanded=(re_.get("out") or re_.get("err") or "")[:300],
                                      compressed=(rc.get("out") or rc.get("err") or "")[:300]) if len(ctx.samples) < 4 and both_ok and len(it["src"]) > 40 else None)
        return events

    def check_events(self, ctx, events, tag):
        def on_reject(e):
            it, re_, rc = self.allinfo[e["case"]]
            ctx.violation(f"{tag}:{it['id']}", dict(input=it["src"], rendered=dict(src=it["src"], files=it.get("files") or {}),
                                                  actual=dict(expanded=re_.get("out") if re_.get("status") == "ok" else re_.get("err"),
                                                              compressed=rc.get("out") if rc.get("status") == "ok" else rc.get("err"),
                                                              status=[re_.get("status"), rc.get("status")]),
                                                  expected="(StyleEq!ResultEquiv is false, Trace_StyleEq.tla)", flow="B"))
        for k in range(0, len(events), self.chunk):
            if len(ctx.violations) >= 6:       # the verdict is settled; do not spend minutes on re-validation
                ctx.notes.append(f"validation of the remaining events ({tag}) skipped after {len(ctx.violations)} violations")
                return
            ctx.validate(self.trace[0], self.trace[1], events[k:k + self.chunk], on_reject=on_reject, tag=f"{tag}{k}", max_rejects=6)

    def run(self, ctx):
        from . import styleeq_vocab
        self.allinfo = {}
        progs = []
        ctx.mc(*self.laws[:2], **self.laws[2])        # the ASSUMEs: equivalence + discrimination on the one-item universe
        for (module, cfg, kw) in self.mc_runs[ctx.tier]:
            r = ctx.mc(module, cfg, **kw)
            vecs = list(ctx.vectors(r))
            if not vecs:
                raise tlc.ToolError(f"{module}/{cfg} produced no vectors (vacuous model run)")
            progs += [v["prog"] for v in vecs]
        items = [{"id": f"mc#{i}", "src": styleeq_vocab.render_prog(p), "files": {}} for i, p in enumerate(progs)]
        ctx.extra["model_stylesheets_compiled"] = len(items)
        self.check_events(ctx, self.events_of(ctx, items, "mc"), "mc")
        extra = [{"id": f"extra#{i}", "src": x, "files": {}} for i, x in enumerate(styleeq_vocab.EXTRA)]
        self.check_events(ctx, self.events_of(ctx, extra, "extra"), "extra")
        cor = corpus.sample(corpus.corpus(), self.corpus_n[ctx.tier], ctx.seed)
        ctx.extra["corpus_inputs"] = len(cor)
        self.check_events(ctx, self.events_of(ctx, cor, "corpus"), "corpus")
        gen = corpus.generated(self.gen_n[ctx.tier], ctx.seed)
        ctx.extra["generated_programs"] = len(gen)
        self.check_events(ctx, self.events_of(ctx, gen, "gen"), "gen")

    def replay(self, ctx, rep):
        it = {"src": rep["rendered"]["src"], "files": rep["rendered"].get("files") or {}, "id": "replay"}
        self.allinfo = {}
        ev = self.events_of(ctx, [it], "replay")
        print("replay statuses:", ev[0]["e"]["st"], ev[0]["c"]["st"])
        bad = []
        ctx.validate(self.trace[0], self.trace[1], ev, on_reject=lambda e: bad.append(e))
        return not bad
