"""A small CSS observer: brace matcher, selector-list splitter, declaration splitter, comment tokens.

It only *reads structure back* from rsass's output (expanded or compressed); it never decides what the
output should be.  Nodes:
  {"t": "block", "head": "<prelude text>", "kids": [...]}      style rule or at-rule with a block
  {"t": "decl",  "name": "...", "value": "..."}
  {"t": "at",    "head": "@foo x"}                              body-less at-rule statement
  {"t": "comment", "text": "..."}                               text between /* and */
"""


class CssSyntaxError(Exception):
    pass


def _scan(css):
    """yield (kind, text) tokens: 'c' comment body, 's' quoted string (with quotes), '{', '}', ';', 'x' other text"""
    i, n = 0, len(css)
    buf = []
    while i < n:
        ch = css[i]
        if ch == "/" and i + 1 < n and css[i + 1] == "*":
            j = css.find("*/", i + 2)
            if j < 0:
                raise CssSyntaxError("unterminated comment")
            if buf:
                yield ("x", "".join(buf)); buf = []
            yield ("c", css[i + 2:j])
            i = j + 2
        elif ch in "\"'":
            j = i + 1
            while j < n and css[j] != ch:
                if css[j] == "\\":
                    j += 1
                j += 1
            if j >= n:
                raise CssSyntaxError("unterminated string")
            buf.append(css[i:j + 1])
            i = j + 1
        elif ch in "{};":
            if buf:
                yield ("x", "".join(buf)); buf = []
            yield (ch, ch)
            i += 1
        else:
            buf.append(ch)
            i += 1
    if buf:
        yield ("x", "".join(buf))


def parse(css):
    """CSS text -> list of nodes (see module doc)."""
    if css.startswith("﻿"):
        css = css[1:]
    root = []
    stack = [root]
    prelude = []

    def flush_stmt():
        text = " ".join("".join(prelude).split())
        prelude.clear()
        if not text:
            return
        if text.startswith("@"):
            stack[-1].append({"t": "at", "head": text})
        elif ":" in text:
            name, value = text.split(":", 1)
            stack[-1].append({"t": "decl", "name": name.strip(), "value": value.strip()})
        else:
            stack[-1].append({"t": "junk", "text": text})

    for kind, text in _scan(css):
        if kind == "c":
            stack[-1].append({"t": "comment", "text": text})
        elif kind == "x":
            prelude.append(text)
        elif kind == ";":
            flush_stmt()
        elif kind == "{":
            head = " ".join("".join(prelude).split())
            prelude.clear()
            node = {"t": "block", "head": head, "kids": []}
            stack[-1].append(node)
            stack.append(node["kids"])
        elif kind == "}":
            flush_stmt()
            if len(stack) == 1:
                raise CssSyntaxError("unbalanced }")
            stack.pop()
    flush_stmt()
    if len(stack) != 1:
        raise CssSyntaxError("unbalanced {")
    return root


def comments(css):
    """comment bodies in output order (outside strings)"""
    return [t for k, t in _scan(css) if k == "c"]


def split_top(text, sep=","):
    """split at `sep` outside parentheses / brackets / strings"""
    out, depth, cur, i = [], 0, [], 0
    while i < len(text):
        ch = text[i]
        if ch in "\"'":
            j = i + 1
            while j < len(text) and text[j] != ch:
                if text[j] == "\\":
                    j += 1
                j += 1
            cur.append(text[i:j + 1]); i = j + 1
            continue
        if ch in "([":
            depth += 1
        elif ch in ")]":
            depth -= 1
        if ch == sep and depth == 0:
            out.append("".join(cur)); cur = []
        else:
            cur.append(ch)
        i += 1
    out.append("".join(cur))
    return out


def norm_selector(text):
    """whitespace normal form of one complex selector: single spaces around the combinators > + ~,
    ", " after every comma, nothing after "(" and before ")"."""
    toks, cur, i, n, br = [], [], 0, len(text), 0
    while i < n:
        ch = text[i]
        if ch == "[":
            br += 1
        elif ch == "]":
            br -= 1
        if br > 0 or ch == "]":
            cur.append(ch)
        elif ch.isspace() or ch in ">+~,()":
            if cur:
                toks.append("".join(cur)); cur = []
            if not ch.isspace():
                toks.append(ch)
            elif toks and toks[-1] != " ":
                toks.append(" ")
        else:
            cur.append(ch)
        i += 1
    if cur:
        toks.append("".join(cur))
    out = ""
    for t in toks:
        if t == " ":
            if out and not out.endswith((" ", "(")):
                out += " "
        elif t in ">+~":
            out = out.rstrip(" ")
            out += (" " if out and not out.endswith("(") else "") + t + " "
        elif t == ",":
            out = out.rstrip(" ") + ", "
        elif t == "(":
            out = out.rstrip(" ") + "("
        elif t == ")":
            out = (out if out.endswith(", ") else out.rstrip(" ")) + ")"
        else:
            out += t
    return out.strip(" ")


def selector_list(head):
    """rule prelude -> list of normalised complex selectors"""
    return [norm_selector(p) for p in split_top(head, ",")]


def norm_head(head):
    """at-rule prelude: collapse whitespace"""
    return " ".join(head.split())
