"""C04: resolution of load URLs to candidate files (spec/Resolve.tla)."""
import re
from vlib.core import VectorEngine

USE_C = ["u.scss", "_u.scss", "u/index.scss", "u/_index.scss", "u.css", "_u.css"]
IMP_C = ["u.import.scss", "_u.import.scss", "u.scss", "_u.scss", "u/index.import.scss", "u/_index.import.scss",
         "u/index.scss", "u/_index.scss", "u.css", "_u.css"]
PREFIX = {"root": {"dir": "", "lp1": "lp1/", "lp2": "lp2/"},
          "sub": {"dir": "sub/", "lp1": "lp1/", "lp2": "lp2/", "lp1s": "lp1/sub/", "lp2s": "lp2/sub/"}}


URLS = {"bare": '"u"', "css": '"u.css"', "http": '"http://h.example/u"', "https": '"https://h.example/u"',
        "slashes": '"//h.example/u"', "urlfn": "url(u)"}


def stmt(kind, cls="bare"):
    u = URLS[cls]
    if cls == "urlfn" and kind != "import":
        u = '"url(u)"'
    return {"use": "@use %s;", "forward": "@forward %s;", "import": "@import %s;"}[kind] % u


class C04(VectorEngine):
    prop = "C04"
    level = "model_checking"
    trace = ("Trace_Resolve", "Trace_Resolve.cfg")
    spec_op = "Resolve!Winner"
    rule = ("Cases from MC_Resolve.tla: kind use/forward/import x importer in the root or in a subdirectory x (a) every subset of the 6/10 candidate files "
            "in the importer's directory, (b) every set of <= 2 (thorough 3) files spread over the importer's directory, two load paths and the "
            "load-path/subdirectory combinations. Each candidate file carries a marker naming its location and index; observed = which marker is in the "
            "output, or the not-found error. non-trivial = at least one file present; distinct = distinct (kind, where, file set). Flow B: random sets of up to 8 files.")
    assumptions = ["files are served by the executor's in-memory loader, which walks the base directory and then the load paths for each name exactly like FsLoader::find_file",
                   "for the subdirectory case the load under test is written in sub/mid.scss, reached from main.scss"]
    mc_runs = {
        "quick": [("MC_Resolve", "MC_Resolve_seq.cfg", {"workers": 4}), ("MC_Resolve", "MC_Resolve_plain.cfg", {"workers": 2}), ("MC_Resolve", "MC_Resolve_dir.cfg", {"workers": 6}), ("MC_Resolve", "MC_Resolve_spread.cfg", {"workers": 6})],
        "thorough": [("MC_Resolve", "MC_Resolve_seq.cfg", {"workers": 4}), ("MC_Resolve", "MC_Resolve_plain.cfg", {"workers": 2}), ("MC_Resolve", "MC_Resolve_dir.cfg", {}), ("MC_Resolve", "MC_Resolve_spread3.cfg", {"timeout": 3000})],
    }
    random_n = {"quick": 1500, "thorough": 30000}

    def strip(self, vec):
        d = {"kind": vec["kind"], "where": vec["where"], "present": sorted(vec["present"], key=lambda p: (p["loc"], p["idx"]))}
        if vec.get("pre", "none") != "none":
            d["pre"] = vec["pre"]
        if "cls" in vec:
            d["cls"] = vec["cls"]
        return d

    def render(self, inp):
        kind, where = inp["kind"], inp["where"]
        names = IMP_C if kind == "import" else USE_C
        files = {}
        for p in inp["present"]:
            files[PREFIX[where][p["loc"]] + names[p["idx"] - 1]] = ".w { id: %s-%d }\n" % (p["loc"], p["idx"])
        pre = inp.get("pre", "none")
        prestmt = ""
        if pre != "none":
            # a preceding load of another url, satisfied in the given location only
            files[PREFIX[where][pre] + "w.scss"] = ".pre { k: v }\n"
            prestmt = stmt(kind).replace('"u"', '"w"') + "\n"
        if where == "root":
            files["main.scss"] = prestmt + stmt(kind, inp.get("cls", "bare")) + "\n"
        else:
            files["main.scss"] = ('@import "sub/mid";' if kind == "import" else '@use "sub/mid";') + "\n"
            files["sub/mid.scss"] = stmt(kind, inp.get("cls", "bare")) + "\n"
        return dict(files=files, entry="main.scss", load_paths=["lp1", "lp2"])

    # every layout is resolved twice: through the in-memory loader and through the real FsLoader on disk
    def flow_a(self, ctx, vecs, tag):
        super().flow_a(ctx, vecs, tag)
        import os, shutil
        root = os.path.join(ctx.work, "fs-" + tag.replace("/", "_"))
        cases = []
        step = 1 if ctx.tier == "thorough" or len(vecs) < 4000 else 2
        sel = list(range(0, len(vecs), step))
        for i in sel:
            inp = self.strip(vecs[i])
            c = self.render(inp)
            d = os.path.join(root, str(i))
            for name, text in c["files"].items():
                p = os.path.join(d, name)
                os.makedirs(os.path.dirname(p), exist_ok=True)
                with open(p, "w") as f:
                    f.write(text)
            for lp in ("lp1", "lp2"):
                os.makedirs(os.path.join(d, lp), exist_ok=True)
            cases.append(dict(id=f"{tag}-fs#{i}", api="fs_transform", path=os.path.join(d, "main.scss"),
                              load_paths=[os.path.join(d, "lp1"), os.path.join(d, "lp2")]))
        res = ctx.execute(cases, **self.exec_kw)
        for c, i in zip(cases, sel):
            v = vecs[i]
            inp = self.strip(v)
            obs = self.project(inp, res[c["id"]])
            ctx.note_case(["fs", self.key(inp)], nontrivial=self.nontrivial(v))
            ctx.traces += 1
            ctx.classify(case_id=c["id"], inp=dict(inp, loader="FsLoader"), rendered=dict(c, files=self.render(inp)["files"]), expect=v["expect"], obs=obs,
                         devs=v.get("dev") or {}, spec_op=self.spec_op, raw=res[c["id"]], dev_matches=self.dev_matches)
        shutil.rmtree(root, ignore_errors=True)

    def project(self, inp, res):
        if res.get("status") == "ok":
            m = re.search(r"id: ([a-z0-9]+)-(\d+);", res.get("out") or "")
            if m:
                return {"k": "win", "loc": m.group(1), "idx": int(m.group(2))}
            if re.search(r"^@import ", res.get("out") or "", re.M):
                return {"k": "plain", "loc": "-", "idx": 0}
            return {"k": "other:ok-no-marker", "loc": "-", "idx": 0}
        if res.get("status") == "err":
            e = res.get("err") or ""
            if "Can't find stylesheet to import" in e or re.search(r"Module \S+ not found", e):
                return {"k": "notfound", "loc": "-", "idx": 0}
            return {"k": "other:" + e.split("\n")[0][:50], "loc": "-", "idx": 0}
        return {"k": "other:" + str(res.get("status")), "loc": "-", "idx": 0}

    def nontrivial(self, vec):
        return len(vec["present"]) > 0 or "cls" in vec

    def key(self, inp):
        return [inp["kind"], inp["where"], inp.get("cls"), inp.get("pre"), [(p["loc"], p["idx"]) for p in inp["present"]]]

    def random_inputs(self, ctx, n):
        rng = ctx.rng
        out = []
        for _ in range(n):
            kind = rng.choice(["use", "forward", "import"])
            where = rng.choice(["root", "sub"])
            nc = 10 if kind == "import" else 6
            locs = list(PREFIX[where].keys())
            pres = set()
            for _ in range(rng.randint(1, 8)):
                pres.add((rng.choice(locs), rng.randint(1, nc)))
            out.append({"kind": kind, "where": where, "present": [{"loc": l, "idx": i} for (l, i) in sorted(pres)]})
        return out
