"""C07: output is well framed and correctly encoded (spec/Framing.tla).

The output byte stream of rsass is the trace: every successful output (both styles) is split into token-class
records by engines/csstok.py and Trace_Framing.tla runs the framing automaton over it.  Inputs: every small output
tree enumerated by MC_Framing.tla (rendered to SCSS), the sass-spec corpus, programs from the other engines' generators."""
from vlib.core import Engine, jdump
from vlib import tlc
from . import csstok, corpus

RULE = {"asc": "a", "na": ".é"}
MEDIA = {"-": "@media screen {", "na": "@media screen and (--x: é) {"}
ATB = {"-": "@foo x {", "na": "@foo é {", "name": "@fö x {"}
ATS = {"-": "@foo y;", "na": "@foo é;", "name": "@fö y;"}
SUP = {"-": "@supports (a: b) {", "na": "@supports (content: \"é\") {"}
KF = {"-": "@keyframes k {", "na": "@keyframes glöd {"}
KFS = {"asc": "from {", "na": "från {"}
IMP = {"-": "@import url(a.css);", "na": "@import url(é.css);"}
DECL = {"pna": "pé: v;", "id": "p: v;", "idna": "p: é;", "str": 'p: "s";', "strna": 'p: "é";', "url": "p: url(a.png);",
        "urlna": "p: url(é.png);", "urlq": 'p: url("a.png");', "list": "p: [a b];", "call": "p: f(a);"}
CPROP = {"plain": "--c: v;", "nl": "--c: {a\n  b};", "na": "--c: é;"}
CMT = {"one": "/* c */", "multi": "/* c\n d */", "na": "/* é */"}

# hand-picked inputs that are always compiled: corner cases of the writer and the examples of the known findings
EXTRA = ["", "// nothing\n", "/* only */\n", "a {}\n", "a { b: c }", "@media x { a { b: c } }\n\n\n", "a { b: \"é\" }", ".é { b: c }",
         "/* é */", "a { --x: {a\n b}; --y: é }", "@foo x { /* only */ }", "@foo y;", "@import url(a.css);\na { b: c }",
         "@font-face { font-family: \"x\"; src: url(a.woff) }", "@keyframes k { from { a: b } 50% { a: c } }",
         "a { b: [c d] (e f), g(h) }", "a { b: c; @media x { d: e; f { g: h } } }", "a { &:hover, .é & { b: \"\\e9\" } }",
         "@supports (a b\n  ) {c {d: e}}", "@bar x,\n  y;", "@foo a,\n b { c { d: e } }", "a {\n  b: c /* d\n}\n",
         "a { b: \"x\\a y\" }", "a { b: url(  a.png  ) }", "a { b: c !important }", "a { b: \"\\\"\" \'\\\'\' }",
         "@media screen and (min-width: 1px),\n print { a { b: c } }", "a,\nb { c: d,\n e }",
         # one non-ASCII character in each position class of the output (and nowhere else)
         ".é { b: c }", "a { bé: c }", "a { b: é }", "a { b: \"é\" }", "a { b: url(é.png) }", "a { --x: é }", "/* é */", "a { /* é */ b: c }",
         "@import url(é.css);", "@import \"é.css\";", "@fö x { a { b: c } }", "@fö y;", "@foo é { a { b: c } }", "@foo é;", "@foo \"é\";",
         "@media screen and (--x: é) { a { b: c } }", "@media glöd { a { b: c } }", "@media (min-width: 1px) and (x: \"é\") { a { b: c } }",
         "@supports (content: \"é\") { a { b: c } }", "@supports (é: b) { a { b: c } }", "@keyframes glöd { from { b: c } }",
         "@keyframes k { från { b: c } to { b: d } }", "@font-face { font-family: \"é\" }", "@page :first { margin: 1px; b: é }",
         "a { @media (x: é) { b: c } }", "@media x { @foo é; }", "@media x { @keyframes glöd { from { b: c } } }", "@namespace é url(a);",
         "/*! keep\n me */\na { /*! é */ b: c }", "/* drop\n me */\na { /* é */ b: c }"]


def render_prog(prog):
    out = []
    for st in prog:
        k, a = st["k"], st["a"]
        if k == "rule":
            out.append(RULE[a] + " {")
        elif k == "media":
            out.append(MEDIA[a])
        elif k == "atb":
            out.append(ATB[a])
        elif k == "sup":
            out.append(SUP[a])
        elif k == "kf":
            out.append(KF[a])
        elif k == "kfs":
            out.append(KFS[a])
        elif k == "imp":
            out.append(IMP[a])
        elif k == "decl":
            out.append(DECL[a])
        elif k == "cprop":
            out.append(CPROP[a])
        elif k == "cmt":
            out.append(CMT[a])
        elif k == "ats":
            out.append(ATS[a])
        elif k == "close":
            out.append("}")
        else:
            raise ValueError(k)
    return "\n".join(out) + "\n"


def out_text(res):
    """the output text of a successful result, None when the bytes are not UTF-8"""
    if res.get("out") is None and res.get("out_hex") is not None:
        return None
    return res.get("out") or ""


class C07(Engine):
    prop = "C07"
    level = "model_checking"
    rule = ("Model: TLC enumerates every output tree of <= MaxLen statements (rules with ASCII / non-ASCII selectors, @media, @supports, @keyframes with "
            "keyframe selectors, unknown at-rules with and without block, @import, declarations with string / url() / bracketed / call values, custom "
            "properties with line breaks, comments; the non-ASCII text ranges over every position class: selector, property name, value, custom property, "
            "comment, @import url, at-rule name, at-rule prelude, @media query, @supports condition, @keyframes name, keyframe selector) "
            "and checks that the framing automaton accepts the abstract writer's expanded and compressed token streams (token by token in the step "
            "configuration), that every single framing fault applied to such a stream is rejected, and that hand-made bad streams are rejected. "
            "Binding: every one of those trees is compiled by rsass in both styles, and so are the sass-spec corpus inputs (sampled in quick, all in "
            "thorough) and programs of the other engines' generators; every successful output is tokenised and must be accepted by Trace_Framing.tla. "
            "evaluation = one output byte stream; non-trivial = the output is not empty; distinct = distinct (style, token-class sequence).")
    assumptions = ["F3 is read as the design reads it: the encoding marker is present exactly when the output contains non-ASCII text",
                   "parentheses are checked like brackets; a backslash escape outside strings hides the escaped character from the bracket count",
                   "line breaks inside ordinary comments and url() count as line breaks of compressed output; a preserved comment /*! .. */ is the author's text copied verbatim (C36 decides whether it is kept) and its line breaks are not counted",
                   "inputs whose source text itself contains an unbalanced bracket character inside a quoted string or an escape are outside the quantifier "
                   "for clause F2 only if the automaton's rejection is 'unbalanced'/'close_*' (the user asked for that text); see skip counters in the evidence",
                   "failing compilations, panics and timeouts are not outputs (C01 owns them) and are skipped"]
    trace = ("Trace_Framing", "Trace_Framing.cfg")
    mc_runs = {
        "quick": [("MC_Framing", "MC_Framing_q.cfg", {"workers": 4, "timeout": 600}), ("MC_Framing", "MC_Framing_qa.cfg", {"workers": 4, "timeout": 600}),
                  ("MC_Framing", "MC_Framing_step.cfg", {"workers": 4, "timeout": 600})],
        "thorough": [("MC_Framing", "MC_Framing_t1.cfg", {"workers": 4, "timeout": 1500}), ("MC_Framing", "MC_Framing_t.cfg", {"workers": 4, "timeout": 1500}),
                     ("MC_Framing", "MC_Framing_ta.cfg", {"workers": 4, "timeout": 1500}), ("MC_Framing", "MC_Framing_stepa.cfg", {"workers": 4, "timeout": 1500}),
                     ("MC_Framing", "MC_Framing_stept.cfg", {"workers": 4, "timeout": 1500})],
    }
    corpus_n = {"quick": 2500, "thorough": None}
    gen_n = {"quick": 60, "thorough": 600}
    chunk = 6000

    # ------------------------------------------------------------------------------------------------
    def events_of(self, ctx, items, tag):
        """items: [{id, src, files}] -> (events, cases by event id)"""
        cases = []
        for i, it in enumerate(items):
            for style in ("expanded", "compressed"):
                cases.append(corpus.corpus_case(it, style, f"{tag}#{i}:{style[0]}"))
        res = ctx.execute(cases)
        events, info = [], {}
        skipped = 0
        for c in cases:
            r = res.get(c["id"]) or {}
            if r.get("status") != "ok":
                skipped += 1
                continue
            toks = csstok.frame_tokens(out_text(r))
            eid = len(self.allinfo)
            e = {"case": eid, "style": c["style"], "toks": toks, "devs": ctx.open_devs(),
                 "smarks": csstok.source_marks(c["files"]["input.scss"])}
            self.allinfo[eid] = (c, r)
            events.append(e)
            ctx.note_case([c["style"], [[t["c"], t["f"]] for t in toks]], nontrivial=bool(toks),
                          sample=dict(input=c["files"]["input.scss"][:300], style=c["style"], output=(r.get("out") or "")[:300],
                                      token_classes=[t["c"] for t in toks][:40]) if len(ctx.samples) < 4 and len(toks) > 12 else None)
        ctx.extra["not_outputs_skipped"] = ctx.extra.get("not_outputs_skipped", 0) + skipped
        return events

    def check_events(self, ctx, events, tag):
        def on_reject(e):
            c, r = self.allinfo[e["case"]]
            ctx.violation(c["id"], dict(input=c["files"]["input.scss"], rendered=c, actual=dict(out=r.get("out"), out_hex=r.get("out_hex")),
                                        tokens=[[t["c"], t["f"]] for t in e["toks"]],
                                        expected="(rejected by the framing automaton, Trace_Framing.tla)", flow="B"))
        for k in range(0, len(events), self.chunk):
            if len(ctx.violations) >= 6:       # the verdict is settled; do not spend minutes on re-validation
                ctx.notes.append(f"validation of the remaining events ({tag}) skipped after {len(ctx.violations)} violations")
                return
            ctx.validate(self.trace[0], self.trace[1], events[k:k + self.chunk], on_reject=on_reject, tag=f"{tag}{k}", max_rejects=6)

    def run(self, ctx):
        self.allinfo = {}
        progs = []
        for (module, cfg, kw) in self.mc_runs[ctx.tier]:
            r = ctx.mc(module, cfg, **kw)
            vecs = list(ctx.vectors(r))
            if "step" not in cfg and not vecs:
                raise tlc.ToolError(f"{module}/{cfg} produced no vectors (vacuous model run)")
            progs += [v["prog"] for v in vecs]
        items = [{"id": f"mc#{i}", "src": render_prog(p), "files": {}} for i, p in enumerate(progs)]
        ev = self.events_of(ctx, items, "mc")
        ctx.extra["model_trees_compiled"] = len(items)
        self.check_events(ctx, ev, "mc")
        cor = corpus.sample(corpus.corpus(), self.corpus_n[ctx.tier], ctx.seed)
        ev = self.events_of(ctx, cor, "corpus")
        ctx.extra["corpus_inputs"] = len(cor)
        self.check_events(ctx, ev, "corpus")
        extra = [{"id": f"extra#{i}", "src": x, "files": {}} for i, x in enumerate(EXTRA)]
        self.check_events(ctx, self.events_of(ctx, extra, "extra"), "extra")
        gen = corpus.generated(self.gen_n[ctx.tier], ctx.seed)
        ev = self.events_of(ctx, gen, "gen")
        ctx.extra["generated_programs"] = len(gen)
        self.check_events(ctx, ev, "gen")

    def replay(self, ctx, rep):
        c = dict(rep["rendered"])
        c["id"] = "replay"
        r = ctx.execute([c])["replay"]
        if r.get("status") != "ok":
            print("replay: not a successful output any more:", r.get("status"))
            return True
        toks = csstok.frame_tokens(out_text(r))
        print("replay tokens:", jdump([[t["c"], t["f"]] for t in toks]))
        bad = []
        ctx.validate(self.trace[0], self.trace[1], [{"case": 0, "style": c["style"], "toks": toks, "devs": ctx.open_devs(),
                                                     "smarks": csstok.source_marks(c["files"]["input.scss"])}],
                     on_reject=lambda e: bad.append(e))
        return not bad
