"""C28: the Sass list model (spec/Lists.tla).  Values travel as structural records
[t, tok, items, sep, br]; Python renders them to SCSS literals and reads results back
through a structural observer written in Sass (length / separator / is-bracketed / nth)."""
import re
from vlib.core import VectorEngine

PRELUDE = ('@use "sass:list";\n@use "sass:meta";\n@use "sass:string";\n'
           '@function oi($v, $i) { @if $i > list.length($v) { @return ""; } @return "#{o(list.nth($v, $i))};#{oi($v, $i + 1)}"; }\n'
           '@function o($v) {\n'
           '  $t: meta.type-of($v);\n'
           '  @if $t == list or $t == arglist { @return "L<#{list.separator($v)},#{list.is-bracketed($v)},#{list.length($v)}:#{oi($v, 1)}>"; }\n'
           '  @if $t == string { @return "S<#{inspect($v) != inspect(string.unquote($v))},#{$v}>"; }\n'
           '  @return "V<#{inspect($v)}>";\n'
           '}\n'
           '@function args($a...) { @return $a; }\n')


def leaf_src(tok):
    if re.fullmatch(r"-?\d+(\.\d+)?", tok):
        return tok
    if tok.startswith("q") and len(tok) > 1:
        return '"' + tok[1:] + '"'
    return tok


def render_value(v, nested=True):
    """SCSS text of a value; `nested`: the text is used as a list item / function argument and must be self-delimiting"""
    t = v["t"]
    if t == "leaf":
        return leaf_src(v["tok"])
    items = [render_value(x) for x in v["items"]]
    if t == "arglist":
        return "args(" + ", ".join(items) + ")"
    if t == "map":
        prs = v["items"]
        return "(" + ", ".join(f"{render_value(p['items'][0])}: {render_value(p['items'][1])}" for p in prs) + ")"
    n, sep, br = len(items), v["sep"], v["br"]
    lit = None
    if n == 0 and sep == "undecided":
        lit = "[]" if br else "()"
    elif n == 1 and sep == "undecided" and br:
        lit = "[" + items[0] + "]"
    elif n == 1 and sep == "comma":
        lit = ("[%s,]" if br else "(%s,)") % items[0]
    elif n >= 2 and sep in ("space", "comma"):
        body = (" " if sep == "space" else ", ").join(items)
        lit = "[" + body + "]" if br else "(" + body + ")"
    elif n >= 2 and sep == "slash" and not br:
        lit = "list.slash(" + ", ".join(items) + ")"
    if lit is not None:
        return lit
    if sep == "undecided":
        raise ValueError("no literal for an undecided unbracketed non-empty list")
    inner = "()" if n == 0 else "(" + ", ".join(items) + ("," if n == 1 else "") + ")"
    return f"list.join((), {inner}, $separator: {sep}, $bracketed: {'true' if br else 'false'})"


def is_nothing(v):
    return v["t"] == "leaf" and v["tok"] == ""


def op_src(op, cur):
    f = op["f"]
    if f in ("length", "separator", "is-bracketed"):
        return f"list.{f}({cur})"
    if f == "nth":
        return f"list.nth({cur}, {op['n']})"
    if f == "set-nth":
        return f"list.set-nth({cur}, {op['n']}, {render_value(op['v'])})"
    if f == "append":
        s = f"list.append({cur}, {render_value(op['v'])}"
        if op["sep"] != "auto":
            s += f", $separator: {op['sep']}"
        return s + ")"
    if f == "index":
        return f"list.index({cur}, {render_value(op['v'])})"
    if f == "join":
        o = render_value(op["o"])
        a, b = (cur, o) if op["side"] == "l" else (o, cur)
        s = f"list.join({a}, {b}"
        if op["sep"] != "auto":
            s += f", $separator: {op['sep']}"
        if op["br"] != "auto":
            s += f", $bracketed: {op['br']}"
        return s + ")"
    if f == "zip":
        if not is_nothing(op["o2"]):
            ls = [render_value(op["o"]), cur, render_value(op["o2"])]
        elif is_nothing(op["o"]):
            ls = [cur]
        elif op["side"] == "l":
            ls = [cur, render_value(op["o"])]
        else:
            ls = [render_value(op["o"]), cur]
        return "list.zip(" + ", ".join(ls) + ")"
    raise ValueError(f)


UPDATES = ("set-nth", "append", "join", "zip")


def V(t, tok="", items=(), sep="", br=0):
    return {"t": t, "tok": tok, "items": list(items), "sep": sep, "br": br}


def parse_obs(text):
    """L<sep,bool,n:item;item;> | S<bool,text> | V<text>  ->  structural record"""
    pos = [0]

    def val():
        i = pos[0]
        k = text[i:i + 2]
        if k == "L<":
            m = re.compile(r"L<(\w+),(true|false),(\d+):").match(text, i)
            if not m:
                raise ValueError(text[i:i + 30])
            pos[0] = m.end()
            items = []
            while text[pos[0]] != ">":
                items.append(val())
                if text[pos[0]] != ";":
                    raise ValueError(text[pos[0]:pos[0] + 30])
                pos[0] += 1
            pos[0] += 1
            if len(items) != int(m.group(3)):
                return V("other:length %s but %d items" % (m.group(3), len(items)))
            return V("list", "", items, m.group(1), 1 if m.group(2) == "true" else 0)
        if k == "S<":
            m = re.compile(r"S<(true|false),([^<>;]*)>").match(text, i)
            if not m:
                raise ValueError(text[i:i + 30])
            pos[0] = m.end()
            return V("leaf", ("q" if m.group(1) == "true" else "") + m.group(2))
        if k == "V<":
            m = re.compile(r"V<([^<>;]*)>").match(text, i)
            if not m:
                raise ValueError(text[i:i + 30])
            pos[0] = m.end()
            return V("leaf", m.group(1))
        raise ValueError(text[i:i + 30])
    r = val()
    if pos[0] != len(text):
        raise ValueError("trailing " + text[pos[0]:pos[0] + 30])
    return r


class C28(VectorEngine):
    prop = "C28"
    level = "model_checking"
    trace = ("Trace_Lists", "Trace_Lists.cfg")
    spec_op = "Lists!Run"
    rule = ("Runs generated by MC_Lists.tla: every list of <=3 items over {1, a, \"a\", (1 a)} in every literal form (space/comma/slash, bracketed or not, "
            "(), [], [x], (x,), the bare value, null), as a map and as an argument list, x one call of length/nth/set-nth/append/join/index/zip/separator/is-bracketed "
            "with every index in [-n-1, n+1] and the separator/bracketed arguments; plus update-then-probe runs of two calls on lists of <=2 items. "
            "Each step's result is observed structurally (length, separator, is-bracketed, every nth recursively) and compared with Lists!Run. "
            "non-trivial = every run (undefined equalities are not emitted); distinct = distinct (initial value, operations). "
            "Flow B: seeded random lists of <=6 items (nested, every separator/bracket combination incl. ones only functions can build) with 1-4 random operations, validated by Trace_Lists.tla.")
    assumptions = ["results are observed through list.length/separator/is-bracketed/nth themselves (a defect in one of them shows as an inconsistency)",
                   "with $bracketed: auto list.join takes the brackets of its first argument (Sass reference)",
                   "argument lists carry positional arguments only (keyword arguments are not constrained by the property)",
                   "equality between lists one of which has an undecided separator is not decided by the model; such index calls are skipped",
                   "a failing step fails the whole stylesheet: a run containing an error is observed as one error"]
    mc_runs = {
        "quick": [("MC_Lists", "MC_Lists_C28_a.cfg", {"workers": 4}), ("MC_Lists", "MC_Lists_C28_b.cfg", {"workers": 4})],
        "thorough": [("MC_Lists", "MC_Lists_C28_a.cfg", {"workers": 4}), ("MC_Lists", "MC_Lists_C28_b.cfg", {"workers": 4}),
                     ("MC_Lists", "MC_Lists_C28_t.cfg", {"workers": 4, "timeout": 1500})],
    }
    random_n = {"quick": 1000, "thorough": 8000}

    def render(self, inp):
        lines = [PRELUDE, f"$c0: {render_value(inp['init'])};"]
        decls = []
        for k, op in enumerate(inp["ops"], 1):
            lines.append(f"$r{k}: {op_src(op, '$c%d' % (k - 1))};")
            lines.append(f"$c{k}: {'$r%d' % k if op['f'] in UPDATES else '$c%d' % (k - 1)};")
            decls.append(f"  s{k}: string.unquote(o($r{k}));")
        lines.append("a {\n" + "\n".join(decls) + "\n}\n")
        return dict(api="compile_scss", src="\n".join(lines))

    def project(self, inp, res):
        st = res.get("status")
        if st == "err":
            return [V("err")]
        if st != "ok":
            return [V("other:" + str(st))]
        out = res.get("out") or ""
        obs = []
        for k in range(1, len(inp["ops"]) + 1):
            m = re.search(r"^  s%d: (.*);$" % k, out, re.M)
            if not m:
                obs.append(V("other:noout"))
                continue
            try:
                obs.append(parse_obs(m.group(1)))
            except (ValueError, IndexError) as e:
                obs.append(V("other:" + str(e)[:60]))
        return obs

    def key(self, inp):
        return [inp["init"], inp["ops"]]

    def group(self, inp, obs, vec):
        """label used by the development tally of mismatches"""
        return inp["init"]["t"] + " " + "/".join(o["f"] for o in inp["ops"])

    # ---- Flow B: random lists beyond the exhaustive bounds ---------------------------------
    LEAVES = ["1", "2", "3", "1.0", "a", "b", "c", "qa", "qb", "true", "null"]

    def rand_list(self, rng, depth, maxn=6):
        n = rng.choice([0, 1, 1, 2, 2, 3, 3, 4, 5, 6]) if depth == 0 else rng.choice([0, 1, 2, 2, 3])
        n = min(n, maxn)
        items = [self.rand_value(rng, depth + 1) for _ in range(n)]
        br = rng.randint(0, 1)
        if n == 0:
            sep = rng.choice(["undecided", "undecided", "comma", "space", "slash"])
        elif n == 1:
            sep = rng.choice(["comma", "space", "slash"] + (["undecided"] if br else []))
        else:
            sep = rng.choice(["space", "comma", "slash"])
        return V("list", "", items, sep, br)

    def rand_value(self, rng, depth):
        r = rng.random()
        if depth >= 2 or r < 0.6:
            return V("leaf", rng.choice(self.LEAVES))
        return self.rand_list(rng, depth)

    def rand_top(self, rng):
        r = rng.random()
        if r < 0.65:
            return self.rand_list(rng, 0)
        if r < 0.75:
            return V("leaf", rng.choice(self.LEAVES))
        if r < 0.88:
            keys = rng.sample(["x", "y", "z", "1", "qa", "w"], rng.randint(1, 4))
            return V("map", "", [V("list", "", [V("leaf", k), self.rand_value(rng, 1)], "space", 0) for k in keys])
        return V("arglist", "", [self.rand_value(rng, 1) for _ in range(rng.randint(0, 4))])

    def rand_op(self, rng, curlen):
        nothing = V("leaf", "")
        op = dict(f="none", n=0, v=nothing, o=nothing, o2=nothing, sep="auto", br="auto", side="l")
        f = rng.choice(["length", "nth", "nth", "set-nth", "set-nth", "append", "append", "join", "join", "join", "index", "zip", "separator", "is-bracketed"])
        op["f"] = f
        if f in ("nth", "set-nth"):
            op["n"] = rng.randint(-curlen - 1, curlen + 1) if rng.random() < 0.3 else (rng.choice([1, -1]) * rng.randint(1, max(1, curlen)))
        if f in ("set-nth", "append", "index"):
            op["v"] = self.rand_value(rng, 1)
        if f == "append":
            op["sep"] = rng.choice(["auto", "auto", "space", "comma", "slash"])
        if f == "join":
            op["o"] = self.rand_top(rng)
            op["side"] = rng.choice("lr")
            op["sep"] = rng.choice(["auto", "auto", "space", "comma", "slash"])
            op["br"] = rng.choice(["auto", "auto", "true", "false"])
        if f == "zip":
            k = rng.randint(0, 2)
            if k >= 1:
                op["o"] = self.rand_top(rng)
                op["side"] = rng.choice("lr")
            if k == 2:
                op["o2"] = self.rand_top(rng)
                op["side"] = "r"
        return op

    def random_inputs(self, ctx, n):
        rng = ctx.rng
        out = []
        for _ in range(n):
            init = self.rand_top(rng)
            ops = [self.rand_op(rng, len(init["items"]) if init["t"] != "leaf" else 1) for _ in range(rng.randint(1, 4))]
            out.append(dict(init=init, ops=ops))
        return out
