"""Vocabulary of the abstract stylesheets of MC_StyleEq.tla (C08).

For every selector kind and value kind: the SCSS source text, what the DESIGN's expanded writer prints and what its
compressed writer prints, and - per fault - what a faulty compressed writer would print.  `python3 -m engines.styleeq_vocab`
tokenises those texts with engines/csstok.lex and (re)generates spec/StyleVocab.tla (token sequences as TLA+ literals),
so that the abstract writers of MC_StyleEq.tla emit exactly the observer's token records."""
import os, sys

#            kind      source            expanded            compressed
SELS = [("t",      "a",              "a",                "a"),
        ("desc",   "a b",            "a b",              "a b"),
        ("child",  "a > b",          "a > b",            "a>b"),
        ("sib",    "a + b",          "a + b",            "a+b"),
        ("list",   "a, b",           "a, b",             "a,b"),
        ("cls",    "a.c",            "a.c",              "a.c"),
        ("dcls",   "a .c",           "a .c",             "a .c"),
        ("pseudo", "a:hover",        "a:hover",          "a:hover"),
        ("dpseudo", "a :hover",      "a :hover",         "a :hover"),
        ("id",     "a#f00",          "a#f00",            "a#f00")]

#            kind      source             expanded               compressed          canonical stylesheet value
VALS = [("half",   "0.5",             "0.5",                 ".5",               "half"),
        ("halfpx", "0.5px",           "0.5px",               ".5px",             "halfpx"),
        ("neg",    "-0.5em",          "-0.5em",              "-.5em",            "neg"),
        ("ten",    "10px",            "10px",                "10px",             "ten"),
        ("pct",    "10%",             "10%",                 "10%",              "pct"),
        ("red",    "#ff0000",         "#ff0000",             "red",              "red"),
        ("rgbf",   "rgb(255, 0, 0)",  "rgb(255, 0, 0)",      "red",              "red"),
        ("white",  "white",           "white",               "#fff",             "white"),
        ("short",  "#fa0",            "#fa0",                "#fa0",             "short"),
        ("transp", "rgba(0, 0, 0, 0)", "rgba(0, 0, 0, 0)",   "transparent",      "transp"),
        ("alpha",  "rgba(255, 0, 0, 0.5)", "rgba(255, 0, 0, 0.5)", "rgba(255,0,0,.5)", "alpha"),
        ("idt",    "x",               "x",                   "x",                "idt"),
        ("str",    '"s"',             '"s"',                 '"s"',              "str"),
        ("imp",    "x !important",    "x !important",        "x!important",      "imp"),
        ("sp",     "x y",             "x y",                 "x y",              "sp"),
        ("cm",     "x, y",            "x, y",                "x,y",              "cm"),
        ("call",   "f(1, x)",         "f(1, x)",             "f(1,x)",           "call"),
        ("slash",  "1px/2px",         "1px/2px",             "1px/2px",          "slash"),
        ("url",    "url(a.png)",      "url(a.png)",          "url(a.png)",       "url")]

# faulty compressed writers: fault -> {kind: what it prints instead}
VAL_FAULTS = {
    "drop_important": {"imp": "x"},
    "drop_unit":      {"halfpx": ".5", "ten": "10", "neg": "-.5", "pct": "10"},
    "drop_sign":      {"neg": ".5em"},
    "drop_quotes":    {"str": "s"},
    "single_quotes":  {"str": "'s'"},
    "drop_comma":     {"cm": "x y"},
    "comma_for_space": {"sp": "x,y"},
    "merge_idents":   {"sp": "xy"},
    "wrong_color":    {"red": "#f01", "rgbf": "#f01", "white": "#ffe", "transp": "rgba(0,0,0,.1)", "alpha": "rgba(255,0,0,.6)"},
    "wrong_digit":    {"half": ".6", "halfpx": ".6px", "ten": "11px"},
    "drop_arg":       {"call": "f(1)"},
    "drop_slash":     {"slash": "1px 2px"},
}
SEL_FAULTS = {
    "merge_descendant": {"desc": "ab", "dcls": "a.c", "dpseudo": "a:hover"},
    "drop_combinator":  {"child": "a b", "sib": "a b"},
    "drop_list_item":   {"list": "a"},
    "split_compound":   {"cls": "a .c", "pseudo": "a :hover"},
    "id_as_color":      {"id": "a#ff0000"},
}

# hand-picked inputs that are always compiled in both styles (corner cases + the examples of the known findings)
EXTRA = ["", "a { b: c }", "a { b: 0.5 +0.5 -0.5 .5em }", "a { b: #ff0000 #FF0000 #f00 red Red rgb(255,0,0) rgba(255,0,0,1) }",
         "a { b: rgba(0,0,0,0) transparent; c: #00000000 }", "a { b: hsl(0, 100%, 50%); c: hsla(0, 100%, 50%, 0.5) }",
         "a { b: c !important; d: e! important }", "a b, a > b, a + b, a ~ b, a.c, a .c, a:hover, a :hover, a#i, a[h=\"j k\"] { b: c }",
         "@media screen and (min-width: 0.5px), print and (max-width: 10em) { a { b: c } }", "@supports (a: b) and (not (c: d)) { a { b: c } }",
         "@font-face { font-family: \"x y\"; src: url(a.woff) format(\"woff\") }", "@keyframes k { from { a: 0.5 } 50.5% { a: b } to { a: c } }",
         "@import url(a.css);\n@import \"b.css\" screen;", "a { b: \"1, 2\" '3,  4' \"0.5\" }", "a { b: calc(1px + 2 * 0.5em) }",
         "a { --x: { a: 0.5 , b }; --y:  z ; c: d }", "a { /* c */ } @media x { /* d */ } @foo y { /* e */ } @foo z { }", "/* only */",
         "a { b: 1 / 2; c: (1/2); d: 1px/2px }", "a { b: 10px 0.5px, 1.50em 00.5 }", "a { b: \"é\" }", "@foo x,\n  y { a { b: c } }",
         "$f: 1, 2; a { b: \"#{$f} #{0.5} #{rgba(0,0,0,0)}\" }", "/* #{$undefined} */", "$x: 0; @function f() { $x: 1 !global; @return 1 } /* #{f()} */ a { b: $x }",
         "a { b: 1 + (0.5, 1) }", "a { b: c", "a { b: 1 +; }", "@error \"x 0.5\";", "a { @extend .missing; b: c }"]


def render_item(it):
    sel = {k: src for k, src, _, _ in SELS}
    val = {k: src for k, src, _, _, _ in VALS}
    k = it["k"]
    if k == "rule":
        return f"{sel[it['s']]} {{ p: {val[it['a']]}; }}"
    if k == "rule2":
        return f"{sel[it['s']]} {{ p: {val[it['a']]}; q: {val[it['b']]}; }}"
    if k == "media":
        return f"@media screen and (min-width: 0.5px) {{ {sel[it['s']]} {{ p: {val[it['a']]}; }} }}"
    if k == "import":
        return "@import url(x.css);"
    if k == "cmt":
        return "/* c */"
    raise ValueError(k)


def render_prog(prog):
    return "\n".join(render_item(it) for it in prog) + "\n"


# ----------------------------------------------------------------------------------------------- generator
def _tla_tok(t):
    return '[c |-> "%s", t |-> <<%s>>]' % (t["c"], ", ".join(str(c) for c in t["t"]))


def _tla_toks(text):
    from . import csstok
    return "<<" + ", ".join(_tla_tok(t) for t in csstok.lex(text, sub=0)) + ">>"


def generate():
    out = []
    w = out.append
    w("----------------------------- MODULE StyleVocab -----------------------------")
    w("(* GENERATED by `python3 -m engines.styleeq_vocab` from the texts in engines/styleeq_vocab.py: what the    *)")
    w("(* design's expanded / compressed writers (and faulty compressed writers) print for each selector and   *)")
    w("(* value kind, as the observer's token records (engines/csstok.lex).  Do not edit.                       *)")
    w("SelKinds == {%s}" % ", ".join('"%s"' % k for k, *_ in SELS))
    w("ValKinds == {%s}" % ", ".join('"%s"' % k for k, *_ in VALS))
    for name, col in (("SelE", 2), ("SelC", 3)):
        w(f"{name} == [")
        w(",\n".join(f"  {r[0]} |-> {_tla_toks(r[col])}   (* {r[col]} *)" for r in SELS))
        w("]")
    for name, col in (("ValE", 2), ("ValC", 3)):
        w(f"{name} == [")
        w(",\n".join(f"  {r[0]} |-> {_tla_toks(r[col])}   (* {r[col]} *)" for r in VALS))
        w("]")
    w("ValCanon == [" + ", ".join(f'{r[0]} |-> "{r[4]}"' for r in VALS) + "]")
    w("ValFaults == {%s}" % ", ".join('"%s"' % f for f in VAL_FAULTS))
    w("SelFaults == {%s}" % ", ".join('"%s"' % f for f in SEL_FAULTS))
    w("(* what a faulty compressed writer prints; kinds it does not affect are absent *)")
    w("ValFault == [")
    w(",\n".join("  %s |-> [%s]" % (f, ", ".join(f"{k} |-> {_tla_toks(t)}" for k, t in m.items())) for f, m in VAL_FAULTS.items()))
    w("]")
    w("SelFault == [")
    w(",\n".join("  %s |-> [%s]" % (f, ", ".join(f"{k} |-> {_tla_toks(t)}" for k, t in m.items())) for f, m in SEL_FAULTS.items()))
    w("]")
    for name, text in (("MediaE", "@media screen and (min-width: 0.5px) "), ("MediaC", "@media screen and (min-width: .5px)"),
                       ("ImportP", "@import url(x.css)"), ("CmtTok", "/* c */"), ("PropP", "p"), ("PropQ", "q"),
                       ("Blank", " "), ("BlankNl", "\n  ")):
        w(f"{name} == {_tla_toks(text)}")
    w("=============================================================================")
    return "\n".join(out) + "\n"


if __name__ == "__main__":
    root = os.path.dirname(os.path.dirname(os.path.abspath(__file__)))
    path = os.path.join(root, "spec", "StyleVocab.tla")
    text = generate()
    if "--check" in sys.argv:
        sys.exit(0 if open(path).read() == text else 1)
    with open(path, "w") as f:
        f.write(text)
    print("wrote", path)
