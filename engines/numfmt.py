"""C10: number formatting (spec/Numfmt.tla).

Python only (a) turns the abstract input (sign, digit sequences) into the f64 bit pattern / a decimal
literal, (b) hands the exact decimal expansion of random doubles to the trace spec
(decimal.Decimal(float) is exact) and (c) splits the printed numeral back into digit sequences.
The expected numeral is always computed by TLA+ (Numfmt!Numeral)."""
import math, re, struct
from decimal import Decimal
from fractions import Fraction

from vlib import tlc
from vlib.core import VectorEngine

FP_KEEP = 40        # fractional digits of the exact expansion handed to the trace spec (+ sticky flag)
NUM_RE = re.compile(r"(-?)(\d*)(?:\.(\d+))?")


def f64_bits(x):
    return struct.pack(">d", x).hex()


def float_of(inp):
    """the f64 denoted by an abstract input that carries its complete expansion (Flow A vectors)"""
    if inp["cls"] == "inf":
        return math.inf
    if inp["cls"] == "ninf":
        return -math.inf
    if inp["cls"] == "nan":
        return math.nan
    digits = "".join(map(str, inp["ip"] + inp["fp"])) or "0"
    fr = Fraction(int(digits), 10 ** len(inp["fp"]))
    x = float(fr)
    if Fraction(x) != fr or inp.get("sticky"):
        raise tlc.ToolError(f"generated number {digits}e-{len(inp['fp'])} is not exactly representable as f64")
    return -x if inp["neg"] else x


def expansion(x):
    """exact decimal expansion of a double as the abstract input fields"""
    if math.isnan(x):
        return dict(cls="nan", neg=0, ip=[], fp=[], sticky=0)
    if math.isinf(x):
        return dict(cls="inf" if x > 0 else "ninf", neg=0 if x > 0 else 1, ip=[], fp=[], sticky=0)
    neg = 1 if math.copysign(1.0, x) < 0 else 0
    sign, digits, exp = Decimal(abs(x)).as_tuple()        # exact
    digits = list(digits)
    if exp >= 0:
        ip, fp = digits + [0] * exp, []
    else:
        if len(digits) <= -exp:
            digits = [0] * (-exp - len(digits)) + digits
            ip, fp = [], digits
        else:
            ip, fp = digits[:exp], digits[exp:]
    while ip and ip[0] == 0:
        ip = ip[1:]
    sticky = 1 if any(fp[FP_KEEP:]) else 0
    fp = fp[:FP_KEEP]
    if not sticky:
        while fp and fp[-1] == 0:
            fp = fp[:-1]
    return dict(cls="fin", neg=neg, ip=ip, fp=fp, sticky=sticky)


def literal(x):
    """a decimal literal that rsass's parser (str::parse::<f64>, correctly rounded) reads back as x"""
    if math.isnan(x):
        return "math.div(0, 0)"
    if math.isinf(x):
        return "math.div(1, 0)" if x > 0 else "math.div(-1, 0)"
    r = repr(x)
    if r.endswith(".0"):
        r = r[:-2]
    return r


class C10(VectorEngine):
    prop = "C10"
    level = "model_checking"
    trace = ("Trace_Numfmt", "Trace_Numfmt.cfg")
    spec_op = "Numfmt!Numeral"
    route = "number"
    rule = ("Flow A: every vector TLC generates from MC_Numfmt.tla - all numbers (W*2^m+k)/2^m over the configured integer parts W, "
            "denominators 2^m and odd k (exactly representable; TLA+ computes their finite decimal expansion by long division), both signs, "
            "the configured precisions, both styles, plus infinity/-infinity/NaN - is formatted by rsass twice: through Number::format (api `number`) "
            "and as a declaration value `a{b:<literal>}`; one evaluation = one (number, precision, style, route). "
            "Flow B: seeded random f64 of all classes (random bit patterns, <=17-digit literals, neighbours of rounding ties, x.999.., subnormals, "
            "2^53-scale integers, integer parts 1/10/100 with long fractions, non-finite) x precision 0..20 x style; each event carries the exact "
            "decimal expansion (decimal.Decimal(float)), and Trace_Numfmt.tla recomputes the numeral. non-trivial = finite number; distinct = distinct (value, precision, style).")
    assumptions = [
        "ties are rounded away from zero (the property says 'rounded'; Sass and the code's round() agree; exact ties only arise for dyadic values)",
        "Flow B hands TLA+ the first 40 fractional digits of the exact expansion plus a sticky flag; rounding at <= 20 places needs digit 21 at most, and the relational checks allow 1e-40 for the truncation",
        "integers of more than 16 digits: 'at most 16 significant digits' and 'the value rounded to 0 places' conflict; any plain digit string within 1.2 units of the 16th significant digit of the exact value is accepted (exact integer, 16-digit rounding, shortest round-trip digits)",
        "decimal literals reach rsass through str::parse::<f64> (correctly rounded), so `a{b:<repr(x)>}` denotes exactly x",
        "the open deviation fp_digit_noise is a relation (numeral = rounding of some value within 1e-16 of x, only for |x| < 4 with more than 40 fractional digits), not a function",
    ]
    mc_runs = {
        "quick": [("MC_Numfmt", "MC_Numfmt_q.cfg", {"workers": 4}), ("MC_Numfmt", "MC_Numfmt_cap.cfg", {"workers": 4}),
                  ("MC_Numfmt", "MC_Numfmt_deepq.cfg", {"workers": 4})],
        "thorough": [("MC_Numfmt", "MC_Numfmt_t.cfg", {"workers": 4, "timeout": 3000}), ("MC_Numfmt", "MC_Numfmt_cap.cfg", {"workers": 4}),
                     ("MC_Numfmt", "MC_Numfmt_deep.cfg", {"workers": 4, "timeout": 3000})],
    }
    random_n = {"quick": 3000, "thorough": 120000}

    # ---- rendering ----------------------------------------------------------
    def render(self, inp):
        route = inp.get("route") or self.route
        x = struct.unpack(">d", bytes.fromhex(inp["bits"]))[0] if "bits" in inp else float_of(inp)
        if route == "number":
            return dict(api="number", bits=f64_bits(x), precision=inp["p"], style=inp["style"], route=route)
        src = '@use "sass:math";\na{b:' + literal(x) + "}\n"
        return dict(api="compile_scss", src=src, precision=inp["p"], style=inp["style"], route=route)

    def project(self, inp, res):
        def other(t):
            return {"k": "other:" + str(t)[:60], "neg": 0, "ip": [], "fp": []}
        if res.get("status") != "ok":
            return other(res.get("status"))
        out = res.get("out") or ""
        route = inp.get("route") or self.route
        if route != "number":
            m = re.fullmatch(r"(?:\ufeff|@charset \"UTF-8\";\s*)?a\s*\{\s*b:\s*(.*?);?\s*\}\s*", out, re.S)
            if not m:
                return other("css:" + out)
            out = m.group(1)
            special = {"calc(infinity)": "inf", "calc(-infinity)": "ninf", "calc(NaN)": "nan"}
        else:
            special = {"infinity": "inf", "-infinity": "ninf", "NaN": "nan"}
        if out in special:
            return {"k": special[out], "neg": 0, "ip": [], "fp": []}
        m = NUM_RE.fullmatch(out)
        if not m or (m.group(2) == "" and m.group(3) is None):
            return other(out)
        return {"k": "num", "neg": 1 if m.group(1) else 0, "ip": [int(c) for c in m.group(2)],
                "fp": [int(c) for c in (m.group(3) or "")]}

    def key(self, inp):
        return [inp["cls"], inp["neg"], inp["ip"], inp["fp"], inp.get("bits"), inp["p"], inp["style"]]

    def nontrivial(self, vec):
        return vec["cls"] == "fin"

    def sample(self, inp, case, obs):
        return dict(input={k: inp[k] for k in ("cls", "neg", "ip", "fp", "p", "style")},
                    rendered=case.get("src") or ("number bits=" + case.get("bits", "")), observed=obs)

    def flow_a(self, ctx, vecs, tag):
        for route in ("number", "scss"):
            self.route = route
            super().flow_a(ctx, vecs, f"{tag}:{route}")
        self.route = "number"

    # ---- Flow B ---------------------------------------------------------------
    def random_inputs(self, ctx, n):
        rng = ctx.rng
        out = []

        def ulps(x, k):
            for _ in range(abs(k)):
                x = math.nextafter(x, math.inf if k > 0 else -math.inf)
            return x

        def gen():
            c = rng.randrange(12)
            p = None
            if c == 0:       # random bit pattern: every class incl. NaN, inf, subnormal, huge
                x = struct.unpack(">d", rng.getrandbits(64).to_bytes(8, "big"))[0]
            elif c == 1:     # decimal literal of up to 17 digits
                nd = rng.randint(1, 17)
                digs = "".join(rng.choice("0123456789") for _ in range(nd))
                x = float(f"{digs}e{rng.randint(-22, 6) if rng.random() < 0.8 else rng.randint(-330, 300)}")
            elif c in (2, 3):     # neighbours of a rounding tie at D places
                D = rng.randint(0, 15)
                ip = rng.choice([0, 0, 1, 2, 3, 7, 9, 10, 99, 100, 12345])
                digs = "".join(rng.choice("0123456789") for _ in range(D)) + "5"
                if rng.random() < 0.3:
                    digs = "9" * D + "5"
                x = ulps(float(f"{ip}.{digs}"), rng.randint(-2, 2))
                p = D if rng.random() < 0.7 else None
            elif c == 4:     # x.9999...
                ip = rng.choice([0, 0, 1, 9, 99, 999, 123456])
                j = rng.randint(1, 17)
                x = ulps(ip + 1 - 10.0 ** -j, rng.randint(-2, 2))
            elif c == 5:     # subnormals and tiny values
                x = struct.unpack(">d", (rng.getrandbits(52) if rng.random() < 0.7 else rng.getrandbits(3)).to_bytes(8, "big"))[0]
            elif c == 6:     # 2^53-scale integers and the last doubles with a fraction
                e = rng.choice([49, 50, 51, 52, 53, 54, 60, 63, 64, 70, 100])
                x = math.ldexp(1 + rng.random(), e)
                if e < 53 and rng.random() < 0.7:
                    x = math.floor(x) + rng.choice([0.5, 0.25, 0.75, 0.125, 0.5])
            elif c == 7:     # integer part 1, 10, 100, ... with a long fraction
                x = 10.0 ** rng.randint(0, 15) + rng.random()
                p = rng.choice([14, 15, 16, 17, 20, 20])
            elif c == 8:     # small values with long fractions at high precision
                x = rng.random() * rng.choice([1, 1, 4, 8, 10, 1e-3, 1e-8])
                p = rng.choice([10, 15, 16, 17, 20])
            elif c == 9:     # dyadic values: short exact expansions
                m = rng.randint(1, 30)
                x = rng.randrange(0, 1 << min(52, m + 12)) / (1 << m)
            elif c == 10:    # integers and near-integers
                x = float(rng.randint(0, 10 ** rng.randint(1, 22)))
                if rng.random() < 0.5:
                    x = ulps(x, rng.randint(-2, 2))
            else:            # non-finite and zeros
                x = rng.choice([math.inf, -math.inf, math.nan, 0.0, -0.0, 5e-324, 1.7976931348623157e308])
            if rng.random() < 0.5 and not math.isnan(x):
                x = -x
            if p is None:
                p = rng.choice([0, 1, 2, 3, 5, 10, 10, 10, 15, 16, 17, 20]) if rng.random() < 0.6 else rng.randint(0, 20)
            inp = expansion(x)
            inp.update(p=p, style=rng.choice(["expanded", "compressed"]), bits=f64_bits(x),
                       route="number" if rng.random() < 0.7 else "scss")
            return inp
        while len(out) < n:
            out.append(gen())
        return out
