"""C40: the command-line tool mirrors the library (spec/Cli.tla, MC_Cli.tla, Trace_Cli.tla)."""
import os, re, shutil, subprocess
from concurrent.futures import ThreadPoolExecutor
from vlib.core import Engine, jdump
from vlib import runner

PLAIN = ["a { w: 1.23456789012345; c: #ff0000; m: (1 + 2) * 3px; }\n",
         "@media screen { b { k: v; q: 0.5 } }\n.x { y: 10px / 3 + 0; z: darken(#336699, 10%); }\n",
         "$v: 1.5;\n.p { q: $v * 2.25; r: \"s\"; }\n"]
BAD = ["a { b: }\n", "a { @error \"boom\"; }\n", "a { b: $undefined; }\n"]
DEP_USER = '@import "dep";\n.u%d { v: $from; }\n'
DEP2_USER = '@import "w";\n@import "dep";\n.u%d { v: $from; }\n'


class C40(Engine):
    prop = "C40"
    level = "model_checking"
    needs_cli = True
    rule = ("Invocations enumerated by MC_Cli.tla: 1..3 input files, each plain / failing / loading `dep`, x 4 load layouts (dep next to the input, in --load-path, in both, nowhere) "
            "x 2 styles x precisions {0,5,12}; the real `rsass` binary is run on real files under /verif/work and its exit status, stdout and stderr prefix are compared with the "
            "Cli state machine and with the LIBRARY's output for the same files (Trace_Cli.tla: stdout = concatenation of the library outputs). non-trivial = >= 2 input files or a load; "
            "distinct = distinct (kinds, layout, style, precision).")
    assumptions = ["the library side is the executor's fs_transform api = FsContext::for_path + push_path + with_format + transform, the calls main.rs makes",
                   "stdout on a failing run is not constrained by the property and not compared"]

    def run(self, ctx):
        cli = os.path.join(runner._harness_dir(), "target", "cli", "release", "rsass")
        r = ctx.mc("MC_Cli", "MC_Cli.cfg", workers=2)
        vecs = list(ctx.vectors(r))
        root = os.path.join(ctx.work, "fs")
        lib_cases, runs = [], []
        for vi, v in enumerate(vecs):
            d = os.path.join(root, str(vi))
            os.makedirs(os.path.join(d, "in"), exist_ok=True)
            os.makedirs(os.path.join(d, "lp"), exist_ok=True)
            if v["layout"] in ("dir", "both"):
                open(os.path.join(d, "in", "dep.scss"), "w").write("$from: D;\n.dep { at: D; n: 0.123456789012345; }\n")
            if v["layout"] in ("lp", "both"):
                open(os.path.join(d, "lp", "dep.scss"), "w").write("$from: L;\n.dep { at: L; n: 0.123456789012345; }\n")
            open(os.path.join(d, "lp", "w.scss"), "w").write(".w { only: in-load-path; }\n")
            paths = []
            for k, kind in enumerate(v["files"]):
                p = os.path.join(d, "in", f"f{k}.scss")
                src = PLAIN[(vi + k) % 3] if kind == "plain" else BAD[(vi + k) % 3] if kind == "bad" else (DEP_USER if kind == "dep" else DEP2_USER) % k
                open(p, "w").write(src)
                paths.append(p)
                lib_cases.append(dict(id=f"{vi}.{k}", api="fs_transform", path=p, load_paths=[os.path.join(d, "lp")],
                                      style=v["style"], precision=v["precision"]))
            runs.append((vi, v, d, paths))
        lib = ctx.execute(lib_cases)

        def run_cli(item):
            vi, v, d, paths = item
            cmd = [cli, "--style", v["style"], "--precision", str(v["precision"]), "--load-path", os.path.join(d, "lp")] + paths
            p = subprocess.run(cmd, capture_output=True, timeout=60)
            return vi, p.returncode, p.stdout.decode("utf-8", "replace"), p.stderr.decode("utf-8", "replace")
        with ThreadPoolExecutor(8) as ex:
            outs = {vi: (rc, so, se) for (vi, rc, so, se) in ex.map(run_cli, runs)}
        events = []
        for (vi, v, d, paths) in runs:
            rc, so, se = outs[vi]
            libs = []
            for k in range(len(paths)):
                r = lib[f"{vi}.{k}"]
                libs.append({"ok": 1 if r.get("status") == "ok" else 0, "out": r.get("out") or "", "status": r.get("status")})
            e = {"ev": "Run", "case": vi, "files": v["files"], "layout": v["layout"], "lib": libs,
                 "obs": {"exit": rc, "stdout": so, "err_prefix": 1 if se.startswith("Error:") else 0}}
            events.append(e)
            ctx.note_case([v["files"], v["layout"], v["style"], v["precision"]], nontrivial=len(v["files"]) >= 2 or "dep" in v["files"] or "dep2" in v["files"],
                          sample=dict(args=v, exit=rc, stdout=so[:120], stderr=se[:80]) if vi % 300 == 7 else None)
            # Flow A: the machine's own prediction (exit status, which files were emitted, which dep copy each saw)
            exp = v["expect"]
            seen = ["-" if x is None else x for x in [(re.search(r"\.u%d ?\{\s*v: ?(\w)" % k, so) or [None, None])[1] if v["files"][k] in ("dep", "dep2") and exp["exit"] == 0 else "-"
                                                     for k in range(len(paths))]]
            want_seen = [x if exp["exit"] == 0 else "-" for x in exp["deps"]]
            obs = {"exit": 0 if rc == 0 else 1, "deps": seen}
            ctx.traces += 1
            ctx.classify(case_id=f"cli#{vi}", inp=v, rendered=dict(dir=d, cmd="rsass --style %s --precision %s --load-path lp %s" % (v["style"], v["precision"], " ".join(os.path.basename(p) for p in paths))),
                         expect={"exit": exp["exit"], "deps": want_seen}, obs=obs, raw=dict(rc=rc, stderr=se[:300], stdout=so[:300]))

        def on_reject(e):
            ctx.violation(f"cli-trace#{e['case']}", dict(input=dict(files=e["files"], layout=e["layout"]), rendered=vecs[e["case"]], flow="B",
                                                          expected="stdout = concatenation of the library outputs / exit status and Error: prefix", actual=e))
        ctx.validate("Trace_Cli", "Trace_Cli.cfg", events, on_reject=on_reject)
        shutil.rmtree(root, ignore_errors=True)

    def replay(self, ctx, rep):
        self.run(ctx)
        return not ctx.violations
