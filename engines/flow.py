"""C17: control flow directives (spec/Flow.tla).

Python renders the abstract input (an @if chain, an @for range, an @each iterable, a @while
condition list) to SCSS in one of three contexts (top level, mixin body, function body) and reads
the emitted declarations back; the expected sequence is computed by Flow!Expect in TLA+."""
import re
from vlib.core import VectorEngine

CONDS = {"true": "true", "false": "false", "null": "null", "0": "0", "1": "1", "str_empty": '""', "str_x": '"x"',
         "()": "()", "(1 2)": "(1 2)", "(a: 1)": "(a: 1)", "red": "red"}


def probe(ctx, props):
    """emit one declaration group; props = [(name, scss expression)]"""
    if ctx == "fn":
        out = ["$acc: append($acc, IT, comma) !global;"]
        for _, e in props:
            out.append("$acc: append($acc, V, comma) !global;")
            out.append(f"$acc: append($acc, {e}, comma) !global;")
        return " ".join(out)
    return "o { " + " ".join(f"{n}: {e};" for n, e in props) + " }"


def wrap(ctx, body):
    if ctx == "top":
        return body + "\n"
    if ctx == "mixin":
        return "@mixin m {\n" + body + "\n}\na { @include m; }\n"
    if ctx == "fn":
        return "@function f() {\n" + body + "\n  @return 0;\n}\n$acc: (s,) !global;\no { c: f(); w: inspect($acc); }\n"
    raise ValueError(ctx)


def render_if(inp):
    ctx = inp["ctx"]
    parts = []
    for j, c in enumerate(inp["conds"], 1):
        kw = "@if" if j == 1 else "@else if"
        parts.append(f"{kw} {CONDS[c]} {{ {probe(ctx, [('v', str(j))])} }}")
    n = len(inp["conds"])
    P = lambda j: probe(ctx, [("v", str(j))])
    if inp["else"] == 1:
        parts.append(f"@else {{ {P(n + 1)} }}")
    elif inp["else"] == 2:       # an @else block that starts with an @if and goes on
        parts.append(f"@else {{ @if {CONDS[inp['ncond']]} {{ {P(n + 2)} }} {P(n + 1)} }}")
    elif inp["else"] == 3:
        parts.append(f"@else {{ @if {CONDS[inp['ncond']]} {{ {P(n + 2)} }} @else {{ {P(n + 3)} }} {P(n + 1)} }}")
    return wrap(ctx, " ".join(parts))


def render_while(inp):
    ctx = inp["ctx"]
    items = ", ".join(CONDS[c] for c in inp["conds"])
    lst = f"({items},)" if len(inp["conds"]) == 1 else f"({items})"
    body = (f"$l: {lst};\n$i: 1 !global;\n@while nth($l, $i) {{ {probe(ctx, [('v', '$i')])} $i: $i + 1 !global; }}")
    return wrap(ctx, body)


def render_for(inp):
    ctx = inp["ctx"]
    kw = "through" if inp["incl"] else "to"
    body = f"@for $i from {inp['a']}{inp['ua']} {kw} {inp['b']}{inp['ub']} {{ {probe(ctx, [('v', '$i')])} }}"
    return wrap(ctx, body)


ATOM = lambda i: f"a{i}"


def item_text(inp, i, code, outer):
    if code == 0:
        return ATOM(i)
    if code == -1:
        return "null"
    els = [f"a{i}{j}" for j in range(1, code + 1)]
    if inp["isep"] == "comma":
        return "(" + ", ".join(els) + ")"
    return "(" + " ".join(els) + ")" if outer == "space" else " ".join(els)


def render_each(inp):
    ctx = inp["ctx"]
    shape = inp["shape"]
    codes = inp["items"]
    if shape == "single":
        it = ATOM(1)
    elif shape == "empty":
        it = "()"
    elif shape == "space":
        it = " ".join(item_text(inp, i, c, "space") for i, c in enumerate(codes, 1))
    elif shape == "comma":
        it = ", ".join(item_text(inp, i, c, "comma") for i, c in enumerate(codes, 1))
        it = f"({it},)" if len(codes) == 1 else f"({it})"
    elif shape == "bracket":
        it = "[" + ", ".join(item_text(inp, i, c, "space") for i, c in enumerate(codes, 1)) + "]"   # nested lists parenthesised
    elif shape == "map":
        it = "(" + ", ".join(f"k{i}: {item_text(inp, i, c, 'comma')}" for i, c in enumerate(codes, 1)) + ")"
    else:
        raise ValueError(shape)
    vs = [f"$v{j}" for j in range(1, inp["n"] + 1)]
    if ctx == "fn":
        p = probe(ctx, [(f"v{j}", v) for j, v in enumerate(vs, 1)])
    else:
        p = probe(ctx, [(f"v{j}", f"inspect({v})") for j, v in enumerate(vs, 1)])
    body = f"@each {', '.join(vs)} in {it} {{ {p} }}"
    return wrap(ctx, body)


def flat(text):
    return re.sub(r"[()\[\],]", " ", text).split()


def num(tok):
    m = re.fullmatch(r"(-?\d+)([a-zA-Z%]*)", tok.strip())
    if not m:
        return {"n": -99999, "u": "other:" + tok[:20]}
    return {"n": int(m.group(1)), "u": m.group(2)}


def groups(inp, res):
    """-> list of declaration groups, each a list of raw value strings (one per emitted property)"""
    out = res.get("out") or ""
    if inp["ctx"] == "fn":
        m = re.search(r"\bw: ([^;]*);", out)
        if not m:
            return None
        toks = flat(m.group(1))
        if not toks or toks[0] != "s":
            return None
        gs = []
        for t in toks[1:]:
            if t == "IT":
                gs.append([])
            elif t == "V":
                if not gs:
                    return None
                gs[-1].append([])
            else:
                if not gs or not gs[-1]:
                    return None
                gs[-1][-1].append(t)
        return [[" ".join(v) for v in g] for g in gs]
    gs = []
    for blk in re.finditer(r"o \{([^}]*)\}", out):
        gs.append([m.group(1) for m in re.finditer(r"\bv\d*: ([^;]*);", blk.group(1))])
    return gs


class C17(VectorEngine):
    prop = "C17"
    level = "model_checking"
    trace = ("Trace_Flow", "Trace_Flow.cfg")
    spec_op = "Flow!Expect"
    rule = ("Inputs generated by MC_Flow.tla: @if/@else if/@else chains over all truth assignments of 11 value kinds (<=3 conditions; 4 over "
            "{true,false,null,0}; @else blocks that start with a nested @if / @if-@else and continue with further statements), @for ranges with a, b in [-6,6] (and around 1in/1pc in px) x through/to x all pairs of 10 units incl. "
            "compatible conversions and incompatible pairs, @each over space/comma/bracketed lists, maps, single values and () with <=3 items "
            "(atoms, null, nested lists of 2-3) destructured into 1..3 variables, @while over condition lists <=4; each rendered at top level, "
            "in a mixin body and in a function body (eval_body). non-trivial = every vector with a defined expectation; distinct = distinct input. "
            "Flow B: seeded random larger inputs (ranges in [-30,30], lists <=6 items with nested lists <=4, chains <=6) validated by Trace_Flow.tla.")
    assumptions = ["an @for end value that is fractional after unit conversion is outside the property (undef, skipped)",
                   "@each observables are flattened token sequences of inspect() output; atoms are named by position",
                   "@while conditions are read from a list with nth() and a !global counter"]
    mc_runs = {
        "quick": [("MC_Flow", f"MC_Flow_C17_{c}.cfg", {"workers": 4}) for c in ("if", "if4", "ifn", "while", "for", "for2", "for3", "each")],
        "thorough": [("MC_Flow", f"MC_Flow_C17_{c}.cfg", {"workers": 4, "timeout": 1800})
                     for c in ("if", "if4", "ifn", "while", "for", "for2", "for3", "fort", "each", "eacht")],
    }
    random_n = {"quick": 1500, "thorough": 20000}

    def strip(self, vec):
        return vec["inp"]

    def render(self, inp):
        k = inp["kind"]
        src = {"if": render_if, "while": render_while, "for": render_for, "each": render_each}[k](inp)
        return dict(api="compile_scss", src=src)

    def project(self, inp, res):
        if res.get("status") == "err":
            if res.get("kind") == "ParseError":
                return {"k": "other:parse", "out": []}
            return {"k": "err", "out": []}
        if res.get("status") != "ok":
            return {"k": "other:" + str(res.get("status")), "out": []}
        gs = groups(inp, res)
        if gs is None:
            return {"k": "other:unreadable", "out": []}
        k = inp["kind"]
        if k in ("if", "while"):
            out = []
            for g in gs:
                out.append(int(g[0]) if len(g) == 1 and re.fullmatch(r"-?\d+", g[0].strip()) else -99999)
        elif k == "for":
            out = [num(g[0]) if len(g) == 1 else {"n": -99999, "u": "other"} for g in gs]
        else:
            out = [[flat(v) for v in g] for g in gs]
        return {"k": "ok", "out": out}

    def key(self, inp):
        return inp

    def nontrivial(self, vec):
        return vec["expect"]["k"] != "undef"

    def sample(self, inp, case, obs):
        return dict(rendered=case.get("src"), observed=obs)

    # Flow B events carry the input under "inp" like the vectors
    def flow_b(self, ctx, n):
        inputs = self.random_inputs(ctx, n)
        cases = []
        for i, inp in enumerate(inputs):
            c = self.render(inp)
            c["id"] = f"rnd#{i}"
            cases.append(c)
        res = ctx.execute(cases, **self.exec_kw)
        devs = ctx.open_devs()
        events = []
        for i, inp in enumerate(inputs):
            obs = self.project(inp, res[cases[i]["id"]])
            events.append(dict(inp=inp, obs=obs, case=i, devs=devs))
            ctx.note_case(self.key(inp), sample=self.sample(inp, cases[i], obs) if i < 2 else None)

        def on_reject(e):
            i = e["case"]
            ctx.violation(f"rnd#{i}", dict(input=inputs[i], rendered=cases[i], actual=e["obs"], raw=res[cases[i]["id"]],
                                           expected="(rejected by trace spec %s)" % self.trace[0], flow="B"))
        ctx.validate(self.trace[0], self.trace[1], events, on_reject=on_reject)

    def replay(self, ctx, rep):
        c = dict(rep["rendered"])
        c["id"] = "replay"
        r = ctx.execute([c], **self.exec_kw)["replay"]
        obs = self.project(rep["input"], r)
        from vlib.core import jdump
        print("replay observed:", jdump(obs))
        if rep.get("flow") == "B":
            bad = []
            ctx.validate(self.trace[0], self.trace[1], [dict(inp=rep["input"], obs=obs, case=0, devs=[])],
                         on_reject=lambda e: bad.append(e))
            return not bad
        print("replay expected:", jdump(rep["expected"]))
        return obs == rep["expected"]

    def random_inputs(self, ctx, n):
        rng = ctx.rng
        units = ["", "px", "pt", "pc", "in", "cm", "mm", "s", "ms", "%"]
        # used only to keep random ranges short (input selection, not an oracle)
        scale = {"px": 381, "pt": 508, "pc": 6096, "in": 36576, "cm": 14400, "mm": 1440, "s": 1000, "ms": 1}
        toks = list(CONDS)
        out = []
        for _ in range(n):
            k = rng.choice(["if", "for", "for", "each", "each", "while"])
            c = rng.choice(["top", "mixin", "fn"])
            if k == "if":
                el = rng.randint(0, 3)
                out.append({"kind": "if", "ctx": c, "conds": [rng.choice(toks) if rng.random() < 0.4 else rng.choice(["false", "null"])
                                                               for _ in range(rng.randint(1, 6))], "else": el,
                            "ncond": rng.choice(toks) if el >= 2 else "-"})
            elif k == "while":
                m = rng.randint(0, 5)
                conds = [rng.choice([t for t in toks if t not in ("false", "null")]) for _ in range(m)] + [rng.choice(["false", "null"])]
                if rng.random() < 0.3:
                    conds += [rng.choice(toks)]
                out.append({"kind": "while", "ctx": c, "conds": conds})
            elif k == "for":
                ua = rng.choice(units)
                ub = rng.choice([ua, ua, "", rng.choice(units)])
                a = rng.randint(-30, 30)
                b = a + rng.randint(-25, 25) if rng.random() < 0.7 else rng.randint(-30, 30)
                if ua in scale and ub in scale and ua != ub and (ua in ("s", "ms")) == (ub in ("s", "ms")):
                    if abs(b * scale[ub] / scale[ua] - a) > 60:      # e.g. 5s in ms
                        b = rng.choice([-1, 0, 1]) if scale[ub] > scale[ua] else b
                        if abs(b * scale[ub] / scale[ua] - a) > 60:
                            a = round(b * scale[ub] / scale[ua]) + rng.randint(-5, 5)
                out.append({"kind": "for", "ctx": c, "a": a, "ua": ua, "b": b, "ub": ub, "incl": rng.randint(0, 1)})
            else:
                shape = rng.choice(["space", "comma", "bracket", "map", "map", "single", "empty"])
                if shape == "single":
                    items = [0]
                elif shape == "empty":
                    items = []
                else:
                    items = [rng.choice([-1, 0, 0, 2, 3, 4]) for _ in range(rng.randint(2 if shape == "space" else 1, 6))]
                isep = rng.choice(["space", "comma"]) if shape not in ("single", "empty") else "space"
                out.append({"kind": "each", "ctx": c, "n": rng.randint(1, 3), "shape": shape, "isep": isep, "items": items})
        return out
