"""C35: meaning-preserving source rewrites do not change the output (spec/Rewrite.tla, MC_Rewrite.tla, Trace_Rewrite.tla).

Flow A: TLC enumerates (program, rewritten program) pairs of the mini language and checks the law on its own evaluator;
Python joins the TLA+ token sequences to text, rsass compiles both members of every pair, Trace_Rewrite.tla requires the
two outputs to be byte-equal (errors: equal as a class) and the original's output structure to equal Rewrite!Result.
Flow B: corpus inputs (string literals of rsass/tests/spec/**/*.rs that compile) with whitespace / silent comments
inserted at token gaps found by a tokenizer that never splits strings, urls, comments or interpolation."""
import glob, os, re
from vlib.core import Engine, jdump
from vlib import tlc, runner
from engines import cssobs

GLUE_BEFORE = {":", ";", ")", ","}
WS = "  \n\t "
CMT = " // zz\n"
CMT2 = " //zz\n"          # no blank after the slashes


def join_tokens(toks, triv=()):
    ins = {}
    for t in triv:
        ins.setdefault(t["g"], []).append(WS if t["k"] == "ws" else (CMT if t["g"] % 2 else CMT2))
    out = ["".join(ins.get(0, []))]
    for i, tok in enumerate(toks):
        tight = tok.startswith("~")            # Rewrite.tla: written tight against the previous token in the original
        if tight:
            tok = tok[1:]
        if i > 0:
            prev = toks[i - 1]
            sep = "" if (tight or tok in GLUE_BEFORE or prev.endswith("(")) else " "
            out.append(sep)
        out.append(tok)
        if (i + 1) in ins:
            out.append("".join(ins[i + 1]))
    return "".join(out) + "\n"


def structure(res):
    """rsass result -> the shape of Rewrite!Result (read back, nothing decided here)"""
    if res.get("status") == "err":
        return {"err": 1, "out": []}
    if res.get("status") != "ok":
        return {"err": 2, "out": []}
    out = []
    try:
        for node in cssobs.parse(res.get("out") or ""):
            if node["t"] != "block":
                return {"err": 3, "out": []}
            decls = [{"p": k["name"], "v": k["value"].split(" ")} for k in node["kids"] if k["t"] == "decl"]
            out.append({"sel": node["head"].strip(), "decls": decls})
    except cssobs.CssSyntaxError:
        return {"err": 3, "out": []}
    return {"err": 0, "out": out}


def outcome(res):
    st = res.get("status")
    if st == "ok":
        return {"k": "ok", "v": res.get("out") if res.get("out") is not None else "hex:" + str(res.get("out_hex"))}
    if st == "err":
        return {"k": "err", "v": ""}
    return {"k": "other:" + str(st), "v": str(res.get("loc") or "")}


# ---------------------------------------------------------------- corpus tokenizer (Flow B)
def rust_literals(path):
    """string literals passed to runner().ok( / .err( in a converted sass-spec test"""
    text = open(path, encoding="utf-8", errors="replace").read()
    for m in re.finditer(r'\.(?:ok|err)\(\s*((?:"(?:[^"\\]|\\.|\\\n)*"\s*)+)', text):
        lit = m.group(1)
        parts = re.findall(r'"((?:[^"\\]|\\.|\\\n)*)"', lit)
        s = "".join(parts)
        s = re.sub(r"\\\n\s*", "", s)           # rust line continuation
        try:
            s = bytes(s, "utf-8").decode("unicode_escape").encode("latin-1", "replace").decode("utf-8", "replace") if "\\u" not in s else None
        except Exception:
            s = None
        if s:
            yield s


def safe_gaps(src):
    """Token gaps of a corpus input where trivia may be inserted without changing the meaning, as (offset, kinds):
    after `{` `;` `}` and before `;` `}` (whitespace or a silent comment), before `{` and inside an existing single
    space between two tokens (whitespace only) - never inside strings, url(), comments, interpolation or
    parentheses/brackets."""
    gaps = []
    i, n = 0, len(src)
    depth_paren = 0
    interp = 0
    while i < n:
        ch = src[i]
        if ch in "\"'":
            j = i + 1
            while j < n and src[j] != ch:
                if src[j] == "\\":
                    j += 1
                if src[j:j + 2] == "#{":
                    return []           # interpolation inside a string: leave such inputs alone
                j += 1
            i = j + 1
            continue
        if src.startswith("/*", i):
            j = src.find("*/", i + 2)
            if j < 0:
                return []
            i = j + 2
            continue
        if src.startswith("//", i):
            j = src.find("\n", i)
            i = n if j < 0 else j + 1
            continue
        if src[i:i + 4].lower() == "url(":
            j = src.find(")", i)
            if j < 0:
                return []
            i = j + 1
            continue
        if src.startswith("#{", i):
            interp += 1
            i += 2
            continue
        if ch == "}" and interp:
            interp -= 1
            i += 1
            continue
        if ch in "([":
            depth_paren += 1
        elif ch in ")]":
            depth_paren = max(0, depth_paren - 1)
        elif not interp and not depth_paren:
            if ch in "{;}":
                gaps.append((i + 1, ("ws", "cmt")))
                if ch in ";}":
                    gaps.append((i, ("ws", "cmt")))
                else:
                    gaps.append((i, ("ws",)))
            elif ch == " " and 0 < i < n - 1 and not src[i - 1].isspace() and not src[i + 1].isspace():
                gaps.append((i, ("ws",)))
        i += 1
    return gaps


AT_OK = {"if", "else", "each", "for", "while", "function", "return", "mixin", "include", "content", "debug", "warn"}


def corpus_ok(src):
    """inputs the token-level rewrites are defined for: no backslash escapes (a space ends a hex escape), no url(),
    no custom properties, no at-rules whose prelude/body text is kept verbatim, no comments (where loud comments go
    relative to new whitespace is C36's business), ASCII only"""
    if "--" in src or "\\" in src or "url(" in src.lower() or "\r" in src or "\f" in src:
        return False
    if any(m not in AT_OK for m in re.findall(r"@([A-Za-z-]*)", src)):
        return False
    if "/*" in src or "//" in src:
        return False
    return src.isascii()


class C35(Engine):
    prop = "C35"
    level = "exploration"
    trace = ("Trace_Rewrite", "Trace_Rewrite.cfg")
    rule = ("Pairs (program, rewritten program) generated by MC_Rewrite.tla: sequences of statement templates (variable declarations, rules, a function, "
            "a mixin) x every single rewrite (whitespace / silent comment at every token gap, consistent renaming of a variable/function/mixin, "
            "-/_ swap at declaration or use sites, hoisting a value into a fresh variable, @debug/@warn at every statement position, moving a "
            "top-level statement into a partial) and chains of two rewrites over shorter programs; TLC checks Result(rewrite(p)) = Result(p) on the "
            "model; rsass compiles both members and Trace_Rewrite.tla requires byte-equal outputs (errors equal as a class). "
            "evaluations = pairs; non-trivial = the original compiles to a non-empty stylesheet; distinct = distinct pair. "
            "Flow B: corpus inputs from rsass/tests/spec with whitespace / silent comments inserted at token gaps.")
    assumptions = ["a silent comment is not inserted between a selector and its `{` (whether Sass strips comments inside selectors is not part of the property)",
                   "renaming / re-spelling a function is applied only when every call runs after the declaration (before it, the call is a plain CSS function whose text contains the name)",
                   "corpus inputs: gaps after `{` `;` `}`, before `;` `}` `{` and inside existing single spaces, outside strings, interpolation and parentheses; inputs with comments, "
                   "backslash escapes, url(), custom properties or at-rules other than Sass control/definition directives are left out",
                   "@debug/@warn write to stderr, which is not observed"]
    mc_runs = {"quick": [("MC_Rewrite", "MC_Rewrite_C35_a.cfg", {"workers": 4}), ("MC_Rewrite", "MC_Rewrite_C35_b.cfg", {"workers": 4}),
                         ("MC_Rewrite", "MC_Rewrite_C35_c.cfg", {"workers": 4})],
               "thorough": [("MC_Rewrite", "MC_Rewrite_C35_t.cfg", {"workers": 4, "timeout": 1500}),
                            ("MC_Rewrite", "MC_Rewrite_C35_c.cfg", {"workers": 4})]}
    corpus_n = {"quick": 400, "thorough": 6000}

    # ------------------------------------------------------------------ Flow A
    def pair_cases(self, v, cid):
        o = dict(api="transform", files={"r.scss": join_tokens(v["omain"])}, entry="r.scss", id=cid + "#o")
        files = {"r.scss": join_tokens(v["cmain"], v["triv"])}
        if v["cpart"]:
            files["_p.scss"] = join_tokens(v["cpart"])
        c = dict(api="transform", files=files, entry="r.scss", id=cid + "#c")
        return o, c

    def flow_a(self, ctx, vecs, tag):
        cases = []
        for i, v in enumerate(vecs):
            cases.extend(self.pair_cases(v, f"{tag}#{i}"))
        res = ctx.execute(cases)
        events = []
        for i, v in enumerate(vecs):
            ro, rc = res[f"{tag}#{i}#o"], res[f"{tag}#{i}#c"]
            e = dict(kind="model", omain=v["omain"], cmain=v["cmain"], cpart=v["cpart"], triv=v["triv"], rws=v["rws"],
                     expect=v["expect"], shape=structure(ro), o=outcome(ro), c=outcome(rc), case=i, devs=ctx.open_devs())
            events.append(e)
            ctx.note_case([v["omain"], v["cmain"], v["cpart"], v["triv"]], nontrivial=bool(v["expect"]["out"]),
                          sample=dict(original=join_tokens(v["omain"]), rewritten=join_tokens(v["cmain"], v["triv"]), rewrites=v["rws"],
                                      output=ro.get("out")) if i % max(1, len(vecs) // 2) == 1 else None)

        def on_reject(e):
            v = vecs[e["case"]]
            o, c = self.pair_cases(v, "replay")
            ctx.violation(f"{tag}#{e['case']}", dict(input=v, rendered={"original": o["files"], "rewritten": c["files"]}, flow="A",
                          expected="byte-equal outputs, and the original's structure = Rewrite!Result: " + jdump(v["expect"]),
                          actual={"original": e["o"], "rewritten": e["c"], "shape": e["shape"]}))
        ctx.validate(self.trace[0], self.trace[1], events, on_reject=on_reject, tag=tag)

    # ------------------------------------------------------------------ token programs (Rewrite!Snippets)
    SNIP_FILES = {"main": "r.scss", "lib": "_lib.scss", "mid": "_mid.scss"}
    snippet_runs = {"quick": ("MC_Snippets", "MC_Snippets_C35_q.cfg", {"workers": 4}),
                    "thorough": ("MC_Snippets", "MC_Snippets_C35_t.cfg", {"workers": 4, "timeout": 1200})}

    def snippet_files(self, v, triv):
        return {fn: join_tokens(v[f], [t for t in triv if t["f"] == f]) for f, fn in self.SNIP_FILES.items() if v[f]}

    def flow_snippets(self, ctx, vecs, tag):
        cases = []
        for i, v in enumerate(vecs):
            cases.append(dict(api="transform", files=self.snippet_files(v, []), entry="r.scss", id=f"{tag}#{i}#o"))
            cases.append(dict(api="transform", files=self.snippet_files(v, v["triv"]), entry="r.scss", id=f"{tag}#{i}#c"))
        res = ctx.execute(cases, timeout_ms=3000)
        events = []
        for i, v in enumerate(vecs):
            ro, rc = res[f"{tag}#{i}#o"], res[f"{tag}#{i}#c"]
            events.append(dict(kind="snippet", snip=v["snip"], triv=v["triv"], rws=["InsertWs" if t["k"] == "ws" else "InsertCmt" for t in v["triv"]],
                               o=outcome(ro), c=outcome(rc), case=i, devs=ctx.open_devs()))
            ctx.note_case([v["snip"], v["triv"]], nontrivial=ro.get("status") == "ok",
                          sample=dict(snippet=v["snip"], rewritten=self.snippet_files(v, v["triv"]), output=rc.get("out")) if i % max(1, len(vecs) // 2) == 3 else None)

        def on_reject(e):
            v = vecs[e["case"]]
            ctx.violation(f"{tag}#{e['case']}", dict(input=v, rendered={"original": self.snippet_files(v, []), "rewritten": self.snippet_files(v, v["triv"])},
                          flow="S", expected="byte-equal outputs", actual={"original": e["o"], "rewritten": e["c"]}))
        ctx.validate(self.trace[0], self.trace[1], events, on_reject=on_reject, tag=tag)

    # ------------------------------------------------------------------ Flow B
    def corpus(self, ctx, n):
        files = sorted(glob.glob(os.path.join(runner.REPO, "rsass", "tests", "spec", "**", "*.rs"), recursive=True))
        ctx.rng.shuffle(files)
        out = []
        seen = set()
        for fn in files:
            for src in rust_literals(fn):
                if src in seen or len(src) > 2000 or not corpus_ok(src):
                    continue
                seen.add(src)
                g = safe_gaps(src)
                if g:
                    out.append((os.path.relpath(fn, runner.REPO), src, g))
            if len(out) >= n * 3:
                break
        return out

    def flow_b(self, ctx, n):
        rng = ctx.rng
        cand = self.corpus(ctx, n)
        probe = ctx.execute([dict(api="compile_scss", src=s, id=f"p#{i}") for i, (_, s, _) in enumerate(cand)])
        good = [c for i, c in enumerate(cand) if probe[f"p#{i}"].get("status") == "ok" and (probe[f"p#{i}"].get("out") or "").strip()][:n]
        cases, metas = [], []
        for i, (fn, src, gaps) in enumerate(good):
            k = rng.choice([1, 2, 3])
            picks = sorted(rng.sample(gaps, min(k, len(gaps))), key=lambda x: -x[0])
            kinds = []
            new = src
            for (g, allowed) in picks:
                kind = rng.choice(allowed)
                kinds.append({"g": g, "k": kind})
                new = new[:g] + (WS if kind == "ws" else (CMT if g % 2 else CMT2)) + new[g:]
            cases.append(dict(api="compile_scss", src=src, id=f"b#{i}#o"))
            cases.append(dict(api="compile_scss", src=new, id=f"b#{i}#c"))
            metas.append((fn, src, new, kinds))
        res = ctx.execute(cases)
        events = []
        for i, (fn, src, new, kinds) in enumerate(metas):
            ro, rc = res[f"b#{i}#o"], res[f"b#{i}#c"]
            events.append(dict(kind="corpus", omain=[], cmain=[], cpart=[], triv=kinds, rws=["InsertWs" if t["k"] == "ws" else "InsertCmt" for t in kinds],
                               expect={"err": 0, "out": []}, shape={"err": 0, "out": []}, o=outcome(ro), c=outcome(rc), case=i, devs=ctx.open_devs()))
            ctx.note_case([src, kinds], sample=dict(file=fn, original=src, rewritten=new) if i < 1 else None)

        def on_reject(e):
            fn, src, new, kinds = metas[e["case"]]
            ctx.violation(f"corpus#{e['case']}", dict(input=dict(file=fn, trivia=kinds), rendered={"original": src, "rewritten": new}, flow="B",
                          expected="byte-equal outputs", actual={"original": e["o"], "rewritten": e["c"]}))
        if events:
            ctx.validate(self.trace[0], self.trace[1], events, on_reject=on_reject, tag="corpus")
        ctx.extra["corpus_inputs"] = len(events)

    def run(self, ctx):
        # the model-level law has teeth: renaming a function without the side condition is found by TLC
        r = ctx.mc("MC_Rewrite", "MC_Rewrite_neg.cfg", workers=2, timeout=300, expect_violation=True)
        if not (r["violated"] and "InvPreserved" in r["out"]):
            raise tlc.ToolError("MC_Rewrite_neg.cfg: the law does not detect an unguarded function renaming (vacuous law)")
        ctx.exhaustive = None
        ctx.notes.append("MC_Rewrite_neg.cfg: TLC finds Result(rewrite(p)) # Result(p) when a function is renamed although a call runs before its declaration")
        for (module, cfg, kw) in self.mc_runs[ctx.tier]:
            r = ctx.mc(module, cfg, **kw)
            vecs = list(ctx.vectors(r))
            if not vecs:
                raise tlc.ToolError(f"{module}/{cfg} produced no vectors (vacuous model run)")
            self.flow_a(ctx, vecs, cfg.replace(".cfg", ""))
        module, cfg, kw = self.snippet_runs[ctx.tier]
        r = ctx.mc(module, cfg, **kw)
        vecs = list(ctx.vectors(r))
        if not vecs:
            raise tlc.ToolError(f"{module}/{cfg} produced no vectors (vacuous model run)")
        self.flow_snippets(ctx, vecs, "snip")
        self.flow_b(ctx, self.corpus_n.get(ctx.tier, 0))

    def replay(self, ctx, rep):
        r = rep["rendered"]
        model = rep.get("flow") == "A"
        if rep.get("flow") == "S":
            v = rep["input"]
            res = ctx.execute([dict(api="transform", files=r["original"], entry="r.scss", id="o"), dict(api="transform", files=r["rewritten"], entry="r.scss", id="c")], timeout_ms=3000)
            o, c = outcome(res["o"]), outcome(res["c"])
            print("replay original:", jdump(o)); print("replay rewritten:", jdump(c))
            e = dict(kind="snippet", snip=v["snip"], triv=v["triv"], rws=["InsertWs" if t["k"] == "ws" else "InsertCmt" for t in v["triv"]], o=o, c=c, case=0, devs=ctx.open_devs())
            bad = []
            ctx.validate(self.trace[0], self.trace[1], [e], on_reject=lambda x: bad.append(x), tag="replay")
            return not bad
        if model:
            cases = [dict(api="transform", files=r["original"], entry="r.scss", id="o"), dict(api="transform", files=r["rewritten"], entry="r.scss", id="c")]
        else:
            cases = [dict(api="compile_scss", src=r["original"], id="o"), dict(api="compile_scss", src=r["rewritten"], id="c")]
        res = ctx.execute(cases)
        o, c = outcome(res["o"]), outcome(res["c"])
        print("replay original:", jdump(o)); print("replay rewritten:", jdump(c))
        v = rep["input"]
        if model:
            e = dict(kind="model", omain=v["omain"], cmain=v["cmain"], cpart=v["cpart"], triv=v["triv"], rws=v["rws"], expect=v["expect"],
                     shape=structure(res["o"]), o=o, c=c, case=0, devs=[])
        else:
            e = dict(kind="corpus", omain=[], cmain=[], cpart=[], triv=v["trivia"], rws=["InsertWs" if t["k"] == "ws" else "InsertCmt" for t in v["trivia"]],
                     expect={"err": 0, "out": []}, shape={"err": 0, "out": []}, o=o, c=c, case=0, devs=[])
        bad = []
        ctx.validate(self.trace[0], self.trace[1], [e], on_reject=lambda x: bad.append(x), tag="replay")
        return not bad
