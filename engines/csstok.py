"""CSS observers for C07 / C08 / C09: they only split rsass's output bytes into tokens and read the block
structure back.  They decide nothing: acceptance (Framing.tla), equivalence (StyleEq.tla) and the round-trip
relation (RoundTrip.tla) are evaluated by TLC on the records produced here.

  frame_tokens(out)   -> [{"c": class, "f": flags}]           token classes of a byte stream (C07)
  lex(text)           -> [{"c": class, "t": [code points]}]    CSS tokens with their raw code points (C08)
  tree(tokens)        -> [{"k": kind, "p": toks, "v": toks, "c": [nodes]}]   brace matcher / statement splitter (C08)
                         kinds: rule, atrule (with block), atstmt (body-less at-rule), import, decl, comment, stmt
  lines(text)         -> [[code points]]                        the lines of an output (C09)
"""
import re

WS = " \t\n\r\f"
HEX = "0123456789abcdefABCDEF"


def _name_char(ch):
    return ch.isalnum() and ch.isascii() or ch in "-_" or ord(ch) >= 0x80


def _name_start(ch):
    return ch.isalpha() and ch.isascii() or ch == "_" or ord(ch) >= 0x80


def _skip_escape(s, i):
    """s[i] == '\\': index after the escape (hex escape with its optional terminating blank, or one char)"""
    n = len(s)
    j = i + 1
    if j >= n:
        return j
    if s[j] in HEX:
        k = j
        while k < n and k < j + 6 and s[k] in HEX:
            k += 1
        if k < n and s[k] in WS:
            if s[k] == "\r" and k + 1 < n and s[k + 1] == "\n":
                k += 1
            k += 1
        return k
    return j + 1


def _scan_string(s, i):
    """s[i] is a quote: (index after the string, terminated?)  A raw line break ends a (bad) string."""
    q = s[i]
    n = len(s)
    j = i + 1
    while j < n:
        ch = s[j]
        if ch == q:
            return j + 1, True
        if ch == "\\":
            if j + 1 < n and s[j + 1] == "\n":
                j += 2          # line continuation
                continue
            j = _skip_escape(s, j)
            continue
        if ch == "\n":          # only LF is a line break for these checks (the property speaks of newlines)
            return j, False
        j += 1
    return n, False


def _scan_comment(s, i):
    j = s.find("*/", i + 2)
    if j < 0:
        return len(s), False
    return j + 2, True


def _url_start(s, i):
    """is s[i:] an unquoted `url(` token start (case-insensitive)?  returns index after `(` and blanks, or -1"""
    if s[i:i + 4].lower() != "url(":
        return -1
    if i > 0 and (_name_char(s[i - 1]) or s[i - 1] == "\\"):
        return -1
    j = i + 4
    while j < len(s) and s[j] in WS:
        j += 1
    if j < len(s) and s[j] in "\"'":
        return -1
    if not _is_url_token(s, j):
        return -1
    return j


def _scan_url(s, j):
    """from inside url( : (index after the closing paren, terminated?)"""
    n = len(s)
    while j < n:
        ch = s[j]
        if ch == ")":
            return j + 1, True
        if ch == "\\":
            j = _skip_escape(s, j)
            continue
        j += 1
    return n, False


def _is_url_token(s, j):
    """CSS: an unquoted url( token may not contain quotes or `(`, and blanks only before the `)`; otherwise
    `url(` opens an ordinary function call (rsass prints e.g. url(fn("s")) for an unknown function inside)"""
    n = len(s)
    while j < n:
        ch = s[j]
        if ch == ")":
            return True
        if ch in "\"'(":
            return False
        if ch in WS:
            while j < n and s[j] in WS:
                j += 1
            return j < n and s[j] == ")"
        if ch == "\\":
            j = _skip_escape(s, j)
            continue
        j += 1
    return True


def _flags(text, terminated=True):
    f = 0
    if any(ord(c) >= 0x80 for c in text):
        f |= 1
    if "\n" in text:
        f |= 2
    if not terminated:
        f |= 4
    return f


_CUSTOM = re.compile(r"--[^\s:;{}()\[\]\"'/,!]*[ \t]*:")
CHARSET = '@charset "UTF-8";'


def _scan_custom_value(s, j):
    """from after the colon of a custom property: (end index, terminated?) - the value runs to the `;` or `}`
    at its own nesting level 0; strings and comments are skipped"""
    n = len(s)
    depth = 0
    while j < n:
        ch = s[j]
        if ch in "\"'":
            j, ok = _scan_string(s, j)
            if not ok:
                return j, False
            continue
        if ch == "/" and s[j:j + 2] == "/*":
            j, ok = _scan_comment(s, j)
            if not ok:
                return j, False
            continue
        if ch == "\\":
            j = _skip_escape(s, j)
            continue
        if ch in "{[(":
            depth += 1
        elif ch in "}])":
            if depth == 0:
                return j, ch == "}"
            depth -= 1
        elif ch == ";" and depth == 0:
            return j, True
        j += 1
    return n, False


def frame_tokens(out):
    """out: str (decoded output) or None when the bytes were not UTF-8.  Token-class records for Framing.tla.
    Runs of plain text are one `other` token, runs of non-ASCII text outside strings one `nonascii` token."""
    if out is None:
        return [{"c": "badenc", "f": 0}]
    s = out
    toks = []
    n = len(s)
    i = 0

    def put(c, f=0):
        if c in ("other", "nonascii") and toks and toks[-1]["c"] == c:
            return
        toks.append({"c": c, "f": f})

    if s.startswith("\ufeff"):
        put("bom"); i = 1
    elif s.startswith(CHARSET):
        put("charset_mark"); i = len(CHARSET)
    stmt_start = True
    SIMPLE = {"{": "open", "}": "close", "[": "lbrack", "]": "rbrack", "(": "lparen", ")": "rparen"}
    while i < n:
        ch = s[i]
        if ch == "\n":
            put("newline"); i += 1
            continue
        if ch in " \t\r\f":
            put("other"); i += 1
            continue
        if ch == "/" and s[i:i + 2] == "/*":
            j, ok = _scan_comment(s, i)
            put("comment", _flags(s[i:j], ok) | (8 if s[i:i + 3] == "/*!" else 0)); i = j
            continue
        if ch in "\"'":
            j, ok = _scan_string(s, i)
            put("string", _flags(s[i:j], ok)); i = j
            stmt_start = False
            continue
        if stmt_start and ch == "-":
            m = _CUSTOM.match(s, i)
            if m:
                name = m.group(0)
                put("nonascii" if _flags(name) & 1 else "other", _flags(name) & 1)
                j, ok = _scan_custom_value(s, m.end())
                put("customprop_value", _flags(s[m.end():j], ok)); i = j
                stmt_start = False
                continue
        if ch in "uU":
            j = _url_start(s, i)
            if j >= 0:
                k, ok = _scan_url(s, j)
                put("url", _flags(s[i:k], ok)); i = k
                stmt_start = False
                continue
        if ch == "\\":
            j = _skip_escape(s, i)
            esc = s[i:j]
            if esc.endswith("\n") and len(esc) == 2:
                put("other"); put("newline")
            else:
                put("nonascii" if _flags(esc) & 1 else "other", _flags(esc) & 1)
            i = j
            stmt_start = False
            continue
        if ch in SIMPLE:
            put(SIMPLE[ch]); i += 1
            stmt_start = ch in "{}"
            continue
        if ch == ";":
            put("semicolon"); i += 1
            stmt_start = True
            continue
        if ch == "@" and i + 1 < n and (_name_start(s[i + 1]) or s[i + 1] in "-\\"):
            j = _scan_name(s, i + 1)
            put("at_keyword", _flags(s[i:j]) & 1); i = j
            stmt_start = False
            continue
        if ord(ch) >= 0x80:
            put("nonascii", 1)
        else:
            put("other")
        stmt_start = False
        i += 1
    return toks


def source_marks(src):
    """the tokens of an SCSS SOURCE text that matter for the scope of C07's balance clause: strings / escapes
    carrying bracket or quote characters or a comment opener as data (flag 8), unterminated comments (flag 4)."""
    s = src
    n = len(s)
    i = 0
    marks = []
    DATA = "{}[]()\"'"
    while i < n:
        ch = s[i]
        if ch == "/" and s[i:i + 2] == "/*":
            j, ok = _scan_comment(s, i)
            if not ok:
                marks.append({"c": "comment", "f": 4})
            i = j
        elif ch == "/" and s[i:i + 2] == "//" and not (i > 0 and s[i - 1] == ":"):
            j = s.find("\n", i)
            i = n if j < 0 else j
        elif ch in "\"'":
            j, ok = _scan_string(s, i)
            body = s[i + 1:j - 1] if ok else s[i + 1:j]
            if ok and (any(c in DATA for c in body) or "/*" in body):
                marks.append({"c": "string", "f": 8})
            i = j if j > i else i + 1
        elif ch == "\\":
            j = _skip_escape(s, i)
            if i + 1 < n and s[i + 1] in DATA:
                marks.append({"c": "other", "f": 8})
            i = j
        else:
            i += 1
    return marks


# ------------------------------------------------------------------------------------------- C08: lexer

# exponents only without a sign: rsass prints no exponents itself, and it reads a keyframe selector `13E+1%` as
# `13E + 1%` (expanded) / `13E+1%` (compressed); a signed exponent would tokenise the two differently
_NUM = re.compile(r"[+-]?(?:\d+(?:\.\d+)?|\.\d+)(?:[eE]\d+)?")


def _scan_name(s, i):
    n = len(s)
    j = i
    while j < n:
        ch = s[j]
        if ch == "\\" and j + 1 < n and s[j + 1] not in "\n\r\f":
            j = _skip_escape(s, j)
        elif _name_char(ch):
            j += 1
        else:
            break
    return j


def _ident_start(s, i):
    n = len(s)
    ch = s[i]
    if _name_start(ch):
        return True
    if ch == "\\":
        return i + 1 < n and s[i + 1] not in "\n\r\f"
    if ch == "-" and i + 1 < n:
        c2 = s[i + 1]
        return _name_start(c2) or c2 == "-" or (c2 == "\\" and i + 2 < n and s[i + 2] not in "\n\r\f")
    return False


def lex(text, sub=2):
    """CSS text -> tokens {"c": class, "t": code points of the raw token text}.  Classes: bom ws cmt str badstr num id at
    hash url d (single-character delimiter).  A sign belongs to a number only when it does not directly follow a
    name character, digit, `)` or `%` (so that `2n+1` and `2n + 1` give the same non-blank tokens)."""
    s = text
    n = len(s)
    i = 0
    toks = []

    def put(c, a, b):
        tok = {"c": c, "t": [ord(x) for x in s[a:b]]}
        if c == "str" and sub > 0 and any(x in s[a:b] for x in ",.#("):
            # the content of the string, tokenised again (used only by the deviation interp_uses_output_style)
            tok["sub"] = lex(s[a + 1:b - 1], sub=sub - 1)
        toks.append(tok)

    if s.startswith("\ufeff"):
        put("bom", 0, 1); i = 1
    while i < n:
        ch = s[i]
        if ch in WS:
            j = i
            while j < n and s[j] in WS:
                j += 1
            put("ws", i, j); i = j
        elif ch == "/" and s[i:i + 2] == "/*":
            j, ok = _scan_comment(s, i)
            put("cmt", i, j); i = j
        elif ch in "\"'":
            j, ok = _scan_string(s, i)
            put("str" if ok else "badstr", i, j); i = j
        elif ch.isdigit() and ch.isascii() or (ch == "." and i + 1 < n and s[i + 1].isdigit() and s[i + 1].isascii()) or \
                (ch in "+-" and _NUM.match(s, i) and not (i > 0 and (_name_char(s[i - 1]) or s[i - 1] in ")%"))):
            m = _NUM.match(s, i)
            j = m.end()
            if j < n and s[j] == "%":
                j += 1
            elif j < n and _ident_start(s, j):
                j = _scan_name(s, j)
            put("num", i, j); i = j
        elif ch == "@" and i + 1 < n and _ident_start(s, i + 1):
            j = _scan_name(s, i + 1)
            put("at", i, j); i = j
        elif ch == "#" and i + 1 < n and (_name_char(s[i + 1]) or s[i + 1] == "\\"):
            j = _scan_name(s, i + 1)
            put("hash", i, j); i = j
        elif _ident_start(s, i):
            j = _url_start(s, i)
            if j >= 0:
                k, ok = _scan_url(s, j)
                put("url", i, k); i = k
            else:
                j = _scan_name(s, i)
                put("id", i, j); i = j
        else:
            put("d", i, i + 1); i += 1
    return toks


# ------------------------------------------------------------------------------------------- C08: structure

class Unreadable(Exception):
    pass


def _txt(t):
    return "".join(chr(c) for c in t["t"])


def _is(t, ch):
    return t["c"] == "d" and t["t"] == [ord(ch)]


def tree(toks):
    """brace matcher + statement splitter.  Node kinds: rule, atrule (block or statement), import, decl, comment,
    stmt (a statement that is neither).  p = prelude / property-name tokens, v = value tokens, c = children."""
    pos = [0]
    n = len(toks)

    def node(k, p, v=None, c=None):
        return {"k": k, "p": p, "v": v or [], "c": c or []}

    def block(depth):
        out = []
        while True:
            while pos[0] < n and toks[pos[0]]["c"] in ("ws", "bom"):
                pos[0] += 1
            if pos[0] >= n:
                if depth:
                    raise Unreadable("missing }")
                return out
            t = toks[pos[0]]
            if _is(t, "}"):
                if not depth:
                    raise Unreadable("unmatched }")
                pos[0] += 1
                return out
            if _is(t, ";"):
                pos[0] += 1
                continue
            if t["c"] == "cmt":
                out.append(node("comment", [t]))
                pos[0] += 1
                continue
            start = pos[0]
            # custom property: --name : value-with-balanced-braces
            if t["c"] == "id" and t["t"][:2] == [45, 45]:
                j = start + 1
                while j < n and toks[j]["c"] == "ws":
                    j += 1
                if j < n and _is(toks[j], ":"):
                    k = j + 1
                    d = 0
                    while k < n:
                        u = toks[k]
                        if u["c"] == "d":
                            c0 = chr(u["t"][0])
                            if c0 in "{[(":
                                d += 1
                            elif c0 in "}])":
                                if d == 0:
                                    break
                                d -= 1
                            elif c0 == ";" and d == 0:
                                break
                        k += 1
                    out.append(node("decl", toks[start:j], toks[j + 1:k]))
                    pos[0] = k
                    continue
            j = start
            kind = None
            while j < n:
                u = toks[j]
                if u["c"] == "d":
                    c0 = chr(u["t"][0])
                    if c0 == "{":
                        kind = "block"
                        break
                    elif c0 in "};":
                        break
                j += 1
            stmt = toks[start:j]
            first = stmt[0]
            if kind == "block":
                pos[0] = j + 1
                kids = block(depth + 1)
                out.append(node("atrule" if first["c"] == "at" else "rule", stmt, None, kids))
                continue
            pos[0] = j
            if first["c"] == "at":
                out.append(node("import" if _txt(first).lower() == "@import" else "atstmt", stmt))
                continue
            d = 0
            cut = None
            for k, u in enumerate(stmt):
                if u["c"] == "d":
                    c0 = chr(u["t"][0])
                    if c0 in "([":
                        d += 1
                    elif c0 in ")]":
                        d = max(0, d - 1)
                    elif c0 == ":" and d == 0:
                        cut = k
                        break
            if cut is None:
                out.append(node("stmt", stmt))
            else:
                out.append(node("decl", stmt[:cut], stmt[cut + 1:]))
    return block(0)


def read_tree(text):
    toks = lex(text)
    if any(t["c"] == "badstr" for t in toks):
        raise Unreadable("unterminated string")
    return tree(toks)


def strip_comments(src):
    """an SCSS source without its /* */ comments (outside strings); used to state what the deviation
    comment_not_evaluated_compressed predicts.  Returns (text, number of comments containing an interpolation)."""
    s = src
    n = len(s)
    i = 0
    out = []
    interp = 0
    while i < n:
        ch = s[i]
        if ch == "/" and s[i:i + 2] == "/*":
            j, ok = _scan_comment(s, i)
            if "#{" in s[i:j]:
                interp += 1
            i = j
        elif ch == "/" and s[i:i + 2] == "//" and not (i > 0 and s[i - 1] == ":"):
            j = s.find("\n", i)
            j = n if j < 0 else j
            out.append(s[i:j]); i = j
        elif ch in "\"'":
            j, ok = _scan_string(s, i)
            j = max(j, i + 1)
            out.append(s[i:j]); i = j
        else:
            out.append(ch); i += 1
    return "".join(out), interp


# ------------------------------------------------------------------------------------------- C09

def lines(text):
    return [[ord(c) for c in ln] for ln in text.split("\n")]
