"""C20 (and the last clause of C19): bubbling of nested at-rules, @at-root, @keyframes; order and selector
association of declarations (spec/Emit.tla)."""
from vlib.core import VectorEngine
from . import cssobs
from .selectors import render_level


def render_prog(prog):
    out = []
    for st in prog:
        k, s = st["k"], st["s"]
        if k == "decl":
            out.append(f"{s[0]}: v;")
        elif k in ("rule", "kf"):
            out.append(render_level(s) + " {")
        elif k == "media":
            out.append(f"@media {s[0]} {{")
        elif k == "supports":
            out.append(f"@supports ({s[0]}: v) {{")
        elif k == "unknown":
            out.append(f"@foo {s[0]} {{")
        elif k == "atroot":
            out.append("@at-root " + (render_level(s) + " " if s else "") + "{")
        elif k == "keyframes":
            out.append(f"@keyframes {s[0]} {{")
        elif k == "fontface":
            out.append("@font-face {")
        elif k == "close":
            out.append("}")
        else:
            raise ValueError(k)
    return " ".join(out) + "\n"


def flatten(nodes, path, out):
    for n in nodes:
        if n["t"] == "block":
            head = n["head"]
            if head.startswith("@media "):
                # `@media a and b` = `@media a { @media b {` : one frame per conjunct
                frames = ["@media " + q.strip() for q in head[len("@media "):].split(" and ")]
            elif head.startswith("@"):
                frames = [cssobs.norm_head(head)]
            else:
                frames = [", ".join(cssobs.selector_list(head))]
            flatten(n["kids"], path + frames, out)
        elif n["t"] == "decl":
            out.append({"path": path, "d": n["name"]})
    return out


def observe_flat(res):
    st = res.get("status")
    if st != "ok":
        return [{"path": ["?" + str(st)], "d": "?"}]
    try:
        tree = cssobs.parse(res.get("out") or "")
    except cssobs.CssSyntaxError as e:
        return [{"path": ["?badcss"], "d": str(e)}]
    return flatten(tree, [], [])


class EmitEngine(VectorEngine):
    level = "model_checking"
    trace = ("Trace_Emit", "Trace_Emit.cfg")
    spec_op = "Emit!Expected"
    rnd = dict(maxnodes=12, maxdepth=4)

    def render(self, inp):
        return dict(api="compile_scss", src=render_prog(inp["prog"]))

    def project(self, inp, res):
        return observe_flat(res)

    def key(self, inp):
        return inp["prog"]

    def nontrivial(self, vec):
        return any(st["k"] not in ("decl", "close", "rule") for st in vec["prog"]) or sum(1 for st in vec["prog"] if st["k"] == "rule") > 1

    # ---- Flow B: random deeper trees -----------------------------------------------------------
    kinds = ("rule", "media", "supports", "unknown", "atroot0", "atroot", "keyframes", "fontface")

    def random_inputs(self, ctx, n):
        return [{"prog": self.gen(ctx.rng)} for _ in range(n)]

    def gen(self, rng):
        cfg = self.rnd
        prog = []
        state = {"nodes": 0, "decl": 0, "media": 0}

        def decl():
            state["decl"] += 1; state["nodes"] += 1
            prog.append({"k": "decl", "s": [f"d{state['decl']}"]})

        def body(ctxk, rs, depth):
            n = rng.randint(1, 3)
            made = 0
            for _ in range(n):
                if state["nodes"] >= cfg["maxnodes"]:
                    break
                opts = []
                if ctxk in ("rule", "kf", "fontface") or (ctxk == "at" and rs):
                    opts += ["decl", "decl"]
                if depth < cfg["maxdepth"] and ctxk in ("rule", "at", "atroot0"):
                    opts += [k for k in ("rule", "media", "supports", "unknown") if k in self.kinds]
                    if rs and ctxk != "atroot0":
                        opts += [k for k in ("atroot0", "atroot", "keyframes") if k in self.kinds]
                    if ctxk == "rule" and "fontface" in self.kinds:
                        opts.append("fontface")
                if ctxk == "keyframes":
                    opts = ["kf"]
                if not opts:
                    break
                k = rng.choice(opts)
                made += 1
                if k == "decl":
                    decl(); continue
                state["nodes"] += 1
                if k == "rule":
                    sel = rng.choice((["b"], ["c", ">", "b"], ["&", "-x"], ["b", ",", "c"], ["&", ":hover"], ["+", "b"])) if rs else rng.choice((["a"], ["a", ",", ".c"], ["a", "sp", "b"]))
                    prog.append({"k": "rule", "s": sel}); body("rule", 1, depth + 1)
                elif k in ("media", "supports", "unknown"):
                    if k == "media":
                        state["media"] += 1
                    q = {"media": "m" if state["media"] == 1 else "n", "supports": "s", "unknown": "x"}[k]
                    prog.append({"k": k, "s": [q]}); body("at", rs, depth + 1)
                elif k == "atroot0":
                    prog.append({"k": "atroot", "s": []}); body("atroot0", 0, depth + 1)
                elif k == "atroot":
                    prog.append({"k": "atroot", "s": rng.choice((["c"], ["c", "sp", "&"], ["&", "-y"], ["c", ",", "d", "sp", "&"], ["d", ">", "&", ",", "c"],
                                                                 ["c", ",", "d"], ["&", "-x", ",", "c", "+", "&"], ["c", ",", "d", ",", "&", ":hover"]))}); body("rule", 1, depth + 1)
                elif k == "keyframes":
                    prog.append({"k": "keyframes", "s": ["k"]}); body("keyframes", 0, depth + 1)
                elif k == "kf":
                    prog.append({"k": "kf", "s": [rng.choice(("from", "to"))]}); decl()
                elif k == "fontface":
                    prog.append({"k": "fontface", "s": []}); decl()
                prog.append({"k": "close", "s": []})
            if made == 0 or (ctxk == "atroot0" and not made):
                pass
            return made

        top = rng.choice(("rule", "rule", "rule", "media", "unknown"))
        if top == "rule":
            prog.append({"k": "rule", "s": rng.choice((["a"], ["a", ",", ".c"]))}); state["nodes"] += 1
            body("rule", 1, 1)
        else:
            if top == "media":
                state["media"] += 1
            prog.append({"k": top, "s": ["m" if top == "media" else "x"]}); state["nodes"] += 1
            body("at", 0, 1)
        prog.append({"k": "close", "s": []})
        return prog


class C20(EmitEngine):
    prop = "C20"
    rule = ("Rule trees generated as flat programs (open/close) by the builder actions of MC_Emit.tla: declarations, nested rules, "
            "@media/@supports/unknown at-rules, @at-root with and without selector (with &; selector lists of 2 members with/without & per "
            "member under parent lists of 1-2 selectors, MC_Emit_C20_c.cfg), @keyframes, @font-face; bounded-exhaustive "
            "(<= MaxNodes statements, depth <= 3); TLC checks on every tree that the destination stack machine (mirror of cssdest.rs) "
            "yields the declarative tree; rsass's output, flattened to (path of blocks, declaration) in order, is compared with Emit!Expected. "
            "non-trivial = contains an at-rule/@at-root or two rules; distinct = distinct program. Flow B: seeded random trees of depth 4 / 12 nodes "
            "validated by Trace_Emit.tla.")
    assumptions = ["the compared normal form is the sequence of (enclosing block heads, declaration): where a rule is split, merged or left empty is not compared",
                   "`@media a and b` is read as `@media a { @media b {` (merged queries are not demanded and not rejected)",
                   "declarations directly inside a selector-less @at-root and `&` inside it are not generated (Sass rejects the former)"]
    mc_runs = {
        "quick": [("MC_Emit", "MC_Emit_C20_a.cfg", {"workers": 4}), ("MC_Emit", "MC_Emit_C20_b.cfg", {"workers": 4}),
                  ("MC_Emit", "MC_Emit_C20_c.cfg", {"workers": 4})],
        "thorough": [("MC_Emit", "MC_Emit_C20_a.cfg", {"workers": 4}), ("MC_Emit", "MC_Emit_C20_b.cfg", {"workers": 4}),
                     ("MC_Emit", "MC_Emit_C20_c.cfg", {"workers": 4}),
                     ("MC_Emit", "MC_Emit_C20_t.cfg", {"workers": 4, "timeout": 1500})],
    }
    random_n = {"quick": 1500, "thorough": 20000}
