"""C37: @use / @forward configuration and visibility (spec/Modules.tla, MC_Modules.tla, Trace_Modules.tla).

Python only renders the abstract module graph {r, m, acc} to an in-memory file system and reads the one
observed declaration value back as a token list; every expected value is computed by Modules!Observe."""
import re
from vlib.core import VectorEngine

PI = "3.1415926536"


def lib_file(x):
    return (f"$d: {x}d !default;\n$p: {x}p;\n"
            f"@function f() {{ @return {x}f $d; }}\n"
            f"@mixin m {{ v: {x}m $p; }}\n")


def url_and_path(t, sp):
    if t == "math":
        return "sass:math", None
    return {"plain": (t, t + ".scss"), "us": ("_" + t, "_" + t + ".scss"),
            "ext": (t + ".scss", t + ".scss"), "dir": ("d/" + t, "d/" + t + ".scss")}[sp]


def cfg_text(cfg):
    return " with (" + ", ".join(f"${c['n']}: {c['v']}" for c in cfg) + ")" if cfg else ""


def stmt_text(st):
    url, _ = url_and_path(st["t"], st["sp"])
    if st["k"] == "use":
        as_ = {"def": "", "n": " as n", "star": " as *"}[st["as"]]
        return f'@use "{url}"{as_}{cfg_text(st["cfg"])};'
    s = f'@forward "{url}"'
    if st["pre"]:
        s += " as p-*"
    if st["vis"] != "all":
        names = [("$" if e["c"] == "var" else "") + ("p-" if e["pre"] else "") + e["n"] for e in st["list"]]
        s += f' {st["vis"]} ' + ", ".join(names)
    return s + cfg_text(st["cfg"]) + ";"


def access_text(a):
    name = ("p-" if a["pre"] else "") + a["n"]
    q = (a["ns"] + ".") if a["ns"] else ""
    if a["k"] == "set":
        return f"{q}${name}: s1;\nx {{ v: {q}${name}; }}"
    if a["kind"] == "var":
        return f"x {{ v: {q}${name}; }}"
    if a["kind"] == "fn":
        return f"x {{ v: {q}{name}(); }}"
    return f"x {{ @include {q}{name}; }}"


def render_prog(inp):
    files = {}
    loads = list(inp["r"]) + (list(inp["m"]) if any(s["t"] == "m" for s in inp["r"]) else [])
    for st in loads:
        if st["t"] in ("a", "b"):
            _, path = url_and_path(st["t"], st["sp"])
            files[path] = lib_file(st["t"])
        elif st["t"] == "w":
            files["w.scss"] = '@forward "sass:math";\n'
        elif st["t"] == "m":
            files["m.scss"] = "\n".join(stmt_text(s) for s in inp["m"]) + "\n$o: mo;\n"
    files["r.scss"] = "\n".join(stmt_text(s) for s in inp["r"]) + "\n" + access_text(inp["acc"]) + "\n"
    return files


class C37(VectorEngine):
    prop = "C37"
    level = "model_checking"
    trace = ("Trace_Modules", "Trace_Modules.cfg")
    spec_op = "Modules!Observe"
    rule = ("Module graphs built by MC_Modules.tla: root load statements (@use of library files a/b, the middle file m, sass:math; URL spellings "
            "a/_a/a.scss/d/a; namespace default/`as n`/`as *`; `with` configurations of the !default variable, the plain variable, an unknown one, "
            "duplicates), the middle file's statements (@use, @forward with show/hide lists, `as p-*`, `with`), and one access (ns.$v, ns.f(), "
            "@include ns.m, bare, prefixed names, assignment to a built-in variable directly, after `as *`, and through @forward chains ending in sass:math "
            "- plain, `as p-*`, show/hide, two levels deep); bounded by total feature weight. non-trivial = the access "
            "reaches for a member that some loaded module declares or the program carries a configuration; distinct = distinct program. "
            "Flow B: seeded random graphs with more statements and features validated by Trace_Modules.tla.")
    assumptions = ["the observable is the value of one declaration (token list) or error presence; error messages are not compared",
                   "not decided (skipped): two modules under one namespace, two `as *` uses, a module loaded twice with configuration or under two spellings, "
                   "configuration passed through a @forward, assignment to members of user modules, private members",
                   "library members are fixed: $d !default, $p, f() returning `<x>f $d`, mixin m emitting `<x>m $p`"]
    mc_runs = {
        "quick": [("MC_Modules", "MC_Modules_C37_a.cfg", {"workers": 4}), ("MC_Modules", "MC_Modules_C37_b.cfg", {"workers": 4}),
                  ("MC_Modules", "MC_Modules_C37_c.cfg", {"workers": 4}), ("MC_Modules", "MC_Modules_C37_d.cfg", {"workers": 4})],
        "thorough": [("MC_Modules", "MC_Modules_C37_ta.cfg", {"workers": 4, "timeout": 1500}),
                     ("MC_Modules", "MC_Modules_C37_tb.cfg", {"workers": 4, "timeout": 1500}),
                     ("MC_Modules", "MC_Modules_C37_td.cfg", {"workers": 4, "timeout": 1500})],
    }
    random_n = {"quick": 1500, "thorough": 20000}

    # with a deviation switched on TLC must find the property's laws violated in the model
    neg_cfgs = [("MC_Modules_negA.cfg", "InvConfigOnlyDefault", "with_unchecked"), ("MC_Modules_negF.cfg", "InvFilterExact", "fwd_prefix_filter_swapped"),
                ("MC_Modules_negB.cfg", "InvBuiltin", "builtin_marker_lost_in_forward")]

    def run(self, ctx):
        from vlib import tlc
        for cfg, inv, dev in self.neg_cfgs:
            r = ctx.mc("MC_Modules", cfg, workers=2, timeout=300, expect_violation=True)
            if not (r["violated"] and inv in r["out"]):
                raise tlc.ToolError(f"{cfg}: law {inv} does not detect the deviation {dev} (vacuous law)")
        ctx.exhaustive = None
        ctx.notes.append("laws violated in the model under the deviations with_unchecked / fwd_prefix_filter_swapped / builtin_marker_lost_in_forward (MC_Modules_negA/negF/negB.cfg): "
                         "these deviations are violations of the property, not modelling artefacts")
        super().run(ctx)

    def replay(self, ctx, rep):
        c = dict(rep["rendered"]); c["id"] = "replay"
        obs = self.project(rep["input"], ctx.execute([c])["replay"])
        from vlib.core import jdump
        print("replay observed:", jdump(obs)); print("replay expected:", jdump(rep["expected"]))
        if obs == rep["expected"]:
            return True
        od = set(ctx.open_devs())
        for e in rep.get("devs") or []:          # the predictions Modules!DevMap made for this graph
            if set(e["d"]) <= od and e["o"] == obs:
                print("replay: explained by the open finding(s)", ", ".join(e["d"]))
                return True
        return False

    def strip(self, vec):
        return {"r": vec["r"], "m": vec["m"], "acc": vec["acc"]}

    def render(self, inp):
        return dict(files=render_prog(inp), entry="r.scss")

    def project(self, inp, res):
        st = res.get("status")
        if st == "err":
            return {"k": "err", "v": []}
        if st != "ok":
            return {"k": "other:" + str(st), "v": []}
        m = re.search(r"v: (.*);", res.get("out") or "")
        if not m:
            return {"k": "other:noout", "v": []}
        toks = m.group(1).split(" ")
        return {"k": "val", "v": ["pi" if t == PI else t for t in toks]}

    def nontrivial(self, vec):
        a = vec["acc"]
        loads = list(vec["r"]) + list(vec["m"])
        return any(s["cfg"] for s in loads) or vec["expect"]["k"] == "val" or a["k"] == "set"

    def group(self, inp, obs, v):
        return f"exp={v['expect']['k']} obs={obs['k']} acc={inp['acc']['k']}/{inp['acc']['kind']}"

    # ---- Flow B: random graphs beyond the exhaustive bounds ---------------------
    def random_inputs(self, ctx, n):
        rng = ctx.rng
        out = []

        def cfg():
            r = rng.random()
            if r < 0.5:
                return []
            names = [rng.choice(["d", "d", "p", "q"]) for _ in range(rng.choice([1, 1, 2]))]
            return [{"n": nm, "v": f"c{i + 1}"} for i, nm in enumerate(names)]

        def lst():
            return [{"c": rng.choice(["var", "fun"]), "pre": rng.choice([0, 1]), "n": rng.choice(["d", "p", "f", "m"])}
                    for _ in range(rng.choice([1, 1, 2, 3]))]

        def fwd(t):
            vis = rng.choice(["all", "show", "hide", "show", "hide"])
            return {"k": "fwd", "t": t, "sp": "plain", "vis": vis, "list": lst() if vis != "all" else [],
                    "pre": rng.choice([0, 0, 1]), "cfg": cfg() if rng.random() < 0.3 else []}

        def use(t, plain=False):
            sp = "plain" if (plain or t in ("m", "math")) else rng.choice(["plain", "plain", "us", "ext", "dir"])
            return {"k": "use", "t": t, "sp": sp, "as": rng.choice(["def", "def", "n", "star"]),
                    "cfg": cfg() if t != "math" or rng.random() < 0.3 else []}

        for _ in range(n):
            with_m = rng.random() < 0.6
            targets = (["m"] if with_m else ["a"]) + rng.sample(["b", "math"], rng.choice([0, 1, 2]))
            rng.shuffle(targets)
            r = [use(t) for t in targets]
            # keep the graph inside the modelled fragment: one `as *`, distinct namespaces
            stars = [s for s in r if s["as"] == "star"]
            for s in stars[1:]:
                s["as"] = "def"
            ns = [s for s in r if s["as"] == "n"]
            for s in ns[1:]:
                s["as"] = "def"
            if rng.random() < 0.1:
                r.append({"k": "fwd", "t": "math", "sp": "plain", "vis": "all", "list": [], "pre": 0, "cfg": cfg()})
            m = []
            if with_m:
                for _ in range(rng.choice([1, 1, 2])):
                    m.append(fwd("a") if rng.random() < 0.8 else {"k": "use", "t": "a", "sp": "plain", "as": "def", "cfg": cfg()})
                if len(m) == 2 and any(s["cfg"] for s in m):
                    m = m[:1]
            if rng.random() < 0.25:
                # forward chains that end in a built-in module, then an assignment / read through the user module
                m = [fwd(rng.choice(["math", "w"]))]
                m[0]["cfg"] = []
                if m[0]["vis"] != "all":
                    m[0]["list"] = [{"c": "var", "pre": rng.choice([0, 1]), "n": rng.choice(["pi", "pi", "e"])} for _ in range(rng.choice([1, 2]))]
                r = [{"k": "use", "t": rng.choice(["m", "m", "w"]), "sp": "plain", "as": rng.choice(["def", "n", "star"]), "cfg": []}]
                ns = "" if r[0]["as"] == "star" else ("n" if r[0]["as"] == "n" else r[0]["t"])
                acc = {"k": rng.choice(["set", "set", "get"]), "ns": rng.choice([ns, ns, "math"]), "kind": "var", "pre": rng.choice([0, 0, 1]), "n": "pi"}
            elif rng.random() < 0.06:
                acc = {"k": "set", "ns": rng.choice(["math", "n"]), "kind": "var", "pre": 0, "n": "pi"}
            else:
                kn = rng.choice([("var", "d"), ("var", "p"), ("var", "o"), ("var", "q"), ("var", "pi"), ("fn", "f"), ("mix", "m")])
                nss = [""] + [("n" if s["as"] == "n" else s["t"]) for s in r if s["k"] == "use" and s["as"] != "star"] + ["a"]
                acc = {"k": "get", "ns": rng.choice(nss), "kind": kn[0], "pre": rng.choice([0, 0, 1]), "n": kn[1]}
            out.append({"r": r, "m": m, "acc": acc})
        return out
