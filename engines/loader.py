"""C02 / C03: the loader state machine (spec/Loader.tla, MC_Loader.tla, Trace_Loader.tla)."""
import json, re
from vlib.core import VectorEngine, jdump
from vlib import tlc

FILES = ["r", "a", "b", "c"]


def subfiles(files):
    """the files that live in directory d (SubFiles = {"b"} in every cfg file)"""
    return {"b"}


def url_of(st, imp, sub):
    """Loader!UrlIn: the URL written in file imp for the target, in the given spelling"""
    t = st["target"]
    di, dt = imp in sub, t in sub
    base = "" if di == dt else ("d/" if not di else "../")
    detour = "d/../" if not di else "../d/"
    return {"plain": base + t, "dot": "./" + base + t, "dd": detour + base + t, "ext": base + t + ".scss"}[st["sp"]]


def path_of(f, sub):
    return ("d/" if f in sub else "") + f + ".scss"


def render_graph(files):
    """abstract graph {file: [stmt]} -> in-memory file system"""
    sub = subfiles(files)
    fs = {"d/x.scss": "/* makes directory d exist */\n"}
    for f, stmts in files.items():
        head, body = [], []
        if any(s["kind"] == "loadcss" for s in stmts):
            head.append('@use "sass:meta";')
        for i, s in enumerate(stmts):
            u = url_of(s, f, sub)
            if s["kind"] == "use":
                head.append(f'@use "{u}" as u{i};')
            elif s["kind"] == "forward":
                head.append(f'@forward "{u}";')
            elif s["kind"] == "import":
                body.append(f'@import "{u}";')
            else:
                body.append(f'@include meta.load-css("{u}");')
        fs[path_of(f, sub)] = "\n".join(head + [f".m-{f} {{ k: v }}"] + body) + "\n"
    return fs


def segs(name):
    n = name[:-5] if name.endswith(".scss") else name
    return n.split("/")


NOFAULT = {"at": 0, "kind": "find"}


def events_for(files, res, case, fault=None):
    """hook events of one compilation as a run of Trace_Loader events"""
    full = {f: files.get(f, []) for f in FILES}
    evs = [{"ev": "Begin", "files": full, "devs": [], "case": case, "fault": fault or NOFAULT}]
    if res.get("status") in ("ok", "err"):
        for e in res.get("events") or []:
            e = dict(e)
            e["name"] = segs(e["name"])
            evs.append(e)
    evs.append({"ev": "End", "result": classify_result(res)})
    return evs


def classify_result(res):
    st = res.get("status")
    if st == "ok":
        return "ok"
    if st == "err":
        msg = res.get("err") or ""
        if "injected lookup fault" in msg or "injected read fault" in msg:
            return "err"
        # a loop met inside a load-css'ed body is re-wrapped by the mixin call (transform.rs MixinCall)
        if res.get("kind") == "ImportLoop" or msg.startswith("Module loop: this module is already being loaded") \
                or msg.startswith("This file is already being loaded"):
            return "loop"
        return "err:" + (res.get("err") or "").split("\n")[0][:60]
    if st == "abort":
        return "overflow" if res.get("stack_overflow") else "abort"
    if st == "timeout":
        return "overflow"      # unbounded recursion that did not exhaust the 8 MiB stack within the time limit (loaded machine)
    return str(st)


class LoaderEngine(VectorEngine):
    fail_fast = True     # skip the random flow once the enumerated graphs have produced violations
    level = "model_checking"
    exec_kw = dict(timeout_ms=20000)
    spec_op = "Loader!RunNext"

    def strip(self, vec):
        return {"files": vec["files"]}

    def key(self, inp):
        return inp["files"]

    def render(self, inp):
        return dict(files=render_graph(inp["files"]), entry="r.scss", trace=True)

    def nontrivial(self, vec):
        return sum(len(v) for v in vec["files"].values()) >= 1

    def sample(self, inp, case, obs):
        return dict(graph=inp["files"], files=case["files"], observed=obs)

    # -- Flow A with a second, "explain" TLC pass for the mismatches -----------
    def flow_a(self, ctx, vecs, tag):
        # the thorough enumerations (3 files x 3-4 statements x every spelling / fault position) have several hundred
        # thousand graphs; each is executed and its trace validated (about 2 minutes per 2500), so a seeded sample of
        # CAP graphs per configuration is taken - said in the evidence notes
        CAP = 10000
        if len(vecs) > CAP and "." not in tag.replace(".cfg", ""):
            ctx.notes.append(f"{tag}: {len(vecs)} graphs enumerated by TLC, a seeded sample of {CAP} executed")
            vecs = ctx.rng.sample(vecs, CAP)
        # in chunks, so that a badly broken tree (hundreds of stack overflows) fails fast
        if len(vecs) > 2500:
            av, ac, ar = [], [], {}
            for k in range(0, len(vecs), 2500):
                self.flow_a(ctx, vecs[k:k + 2500], f"{tag}.{k // 2500}")
                v1, c1, r1 = self.last_results
                av += v1; ac += c1; ar.update(r1)
                if ctx.enough() or ctx.violations:
                    # fail fast: on a broken tree every further chunk costs up to 20 re-validations of its traces
                    if not any("first chunk with violations" in n for n in ctx.notes):
                        ctx.notes.append("stopped after the first chunk with violations (fail fast): the remaining graphs were not explored")
                    break
            self.last_results = (av, ac, ar)
            return
        cases = []
        for i, v in enumerate(vecs):
            c = self.render(self.strip(v))
            c["id"] = f"{tag}#{i}"
            cases.append(c)
        res = ctx.execute(cases, **self.exec_kw)
        self.last_results = (vecs, cases, res)
        mism = []
        for i, v in enumerate(vecs):
            inp = self.strip(v)
            r = res[cases[i]["id"]]
            obs = self.project(inp, r)
            exp = self.expect_of(v)
            ctx.note_case(self.key(inp), nontrivial=self.nontrivial(v),
                          sample=self.sample(inp, cases[i], obs) if i % max(1, len(vecs) // 3) == 1 else None)
            ctx.traces += 1
            if obs != exp:
                mism.append((i, inp, obs, exp, r))
        # every recorded execution (hook events) is validated step by step against the machine
        step = max(1, len(vecs) // self.trace_runs.get(ctx.tier, 1000))
        runs = [(i, events_for(vecs[i]["files"], res[cases[i]["id"]], i)) for i in range(0, len(vecs), step)]
        self.validate_runs(ctx, runs, lambda i: (self.strip(vecs[i]), cases[i], res[cases[i]["id"]]), tag)
        if not mism:
            return
        # run the mismatching graphs under every combination of named deviations
        nfiles = len(vecs[0]["files"])
        progs = ctx.work + f"/{tag}.progs.ndjson"
        with open(progs, "w") as f:
            for (i, inp, obs, exp, r) in mism:
                f.write(jdump({"files": inp["files"], "fault": inp.get("fault", NOFAULT)}) + "\n")
        er = ctx.mc("MC_Loader", f"MC_Loader_explain{nfiles}.cfg", env={"PROGS": progs}, workers=6)
        pred = {}
        for ev in ctx.vectors(er):
            devs = ev["dev"] if isinstance(ev["dev"], list) else []
            pred.setdefault(jdump([ev["files"], ev.get("fault", NOFAULT)]), []).append((sorted(devs), self.expect_of(ev)))
        open_devs = set(ctx.open_devs())
        for (i, inp, obs, exp, r) in mism:
            pk = jdump([inp["files"], inp.get("fault", NOFAULT)])
            cands = [d for (d, e) in pred.get(pk, []) if d and set(d) <= open_devs and e == obs]
            if cands:
                best = min(cands, key=len)
                for d in best:
                    ctx.known_hit[d] = ctx.known_hit.get(d, 0) + 1
                continue
            ctx.violation(cases[i]["id"], dict(input=inp, rendered=cases[i], expected=exp, actual=obs,
                                               spec_operator=self.spec_op, raw={k: r.get(k) for k in ("status", "kind", "err", "stack_overflow")},
                                               predictions=pred.get(pk)))

    trace_runs = {"quick": 1200, "thorough": 1200}

    def validate_runs(self, ctx, runs, lookup, tag):
        def on_reject(cid, j):
            inp, case, r = lookup(cid)
            ctx.violation(f"{tag}-trace#{cid}", dict(input=inp, rendered=case, flow="B",
                          expected=f"a behaviour of Loader.tla (Trace_Loader rejected event {j} of the run)",
                          actual=events_for(inp["files"], r, cid)))
        # every rejection costs one more validation pass over the chunk's traces (1-2 minutes): five rejected runs are report enough
        ctx.validate_cases("Trace_Loader", "Trace_Loader.cfg", runs, on_reject=on_reject, tag=tag.replace("/", "_"), max_rejects=5)

    def flow_b(self, ctx, n):
        rng = ctx.rng
        inputs = []
        for _ in range(n):
            fl = rng.choice([["r", "b"], ["r", "a", "b"], ["r", "a", "b", "c"]])
            g = {f: [] for f in fl}
            for _ in range(rng.randint(2, 6)):
                f = rng.choice(fl)
                g[f].append({"kind": rng.choice(self.kinds), "target": rng.choice(fl), "sp": rng.choice(["plain", "dot", "dd", "ext"])})
            for f in fl:   # @use/@forward first
                g[f].sort(key=lambda s: 0 if s["kind"] in ("use", "forward") else 1)
            inputs.append({"files": g})
        cases = []
        for i, inp in enumerate(inputs):
            c = self.render(inp); c["id"] = f"rnd#{i}"; cases.append(c)
        res = ctx.execute(cases, **self.exec_kw)
        runs = []
        for i, inp in enumerate(inputs):
            runs.append((i, events_for(inp["files"], res[cases[i]["id"]], i)))
            ctx.note_case(self.key(inp), sample=self.sample(inp, cases[i], self.project(inp, res[cases[i]["id"]])) if i < 1 else None)
        self.validate_runs(ctx, runs, lambda i: (inputs[i], cases[i], res[cases[i]["id"]]), "rnd")

    kinds = ["use", "forward", "import", "loadcss"]
    trace = ("Trace_Loader", "Trace_Loader.cfg")
    random_n = {"quick": 600, "thorough": 1200}

    def replay(self, ctx, rep):
        c = dict(rep["rendered"]); c["id"] = "replay"
        if rep.get("flow") == "urlfault":
            r = ctx.execute([c], **self.exec_kw)["replay"]
            print("replay observed:", r.get("status"), (r.get("out") or "")[:80])
            return r.get("status") == "err" and not r.get("out") if rep["expected"] == "err" else True
        if rep.get("flow") == "B":
            r = ctx.execute([c], **self.exec_kw)["replay"]
            bad = []
            ctx.validate_cases("Trace_Loader", "Trace_Loader.cfg", [(0, events_for(rep["input"]["files"], r, 0))],
                               on_reject=lambda cid, j: bad.append(j), tag="replay")
            return not bad
        r = ctx.execute([c], **self.exec_kw)["replay"]
        obs = self.project(rep["input"], r)
        print("replay observed:", jdump(obs), "expected:", jdump(rep["expected"]))
        return obs == rep["expected"]


class C02(LoaderEngine):
    prop = "C02"
    rule = ("File graphs built by MC_Loader.tla: every assignment of <= MaxStmts load statements in total (4 kinds x targets x URL spellings "
            "plain/./x/d/../x) to the files in canonical build order, all files reachable; non-trivial = at least one load statement; "
            "distinct = distinct graph. Each graph is compiled by rsass from an in-memory file system (8 MiB stack, 20 s limit) and the outcome class "
            "ok/loop/overflow/timeout compared with the Loader state machine's result; hook events are validated step by step by Trace_Loader.tla.")
    assumptions = ["all generated files live in one directory (plus a directory d for the d/../x spelling)",
                   "@use/@forward precede other statements in each generated file, each @use gets a unique namespace"]
    mc_runs = {
        "quick": [("MC_Loader", "MC_Loader_q2.cfg", {}), ("MC_Loader", "MC_Loader_q3.cfg", {})],
        "thorough": [("MC_Loader", "MC_Loader_q2.cfg", {}), ("MC_Loader", "MC_Loader_q3.cfg", {})],   # MC_Loader_t3.cfg (3 statements x 4 spellings): > 1 h, see DESIGN 12.7
    }

    def project(self, inp, res):
        return classify_result(res)

    def expect_of(self, vec):
        return vec["expect"]["result"]


class C03(LoaderEngine):
    prop = "C03"
    kinds = ["use", "forward"]
    rule = ("@use/@forward graphs built by MC_Loader.tla (quick: <= 2 statements x 4 URL spellings (t, ./t, detour, t.scss) and <= 3 statements x 2 spellings over 3 files of which one lives in a subdirectory; thorough: the same graphs and twice as many random graphs (the larger configurations MC_Loader_C03_t3/_t.cfg exceed an hour); formerly planned: 3 statements x 4 spellings, 4 statements x 3); every module "
            "emits a marker rule; non-trivial = at least one load statement; distinct = distinct graph. Compared: outcome class and, for successful runs, "
            "how often each file's marker appears in the CSS (= how often the Loader machine executed it). InitStart/CacheHit hook events of every run are "
            "validated against the machine by Trace_Loader.tla, whose invariant InitOnce is evaluated after every event. Flow B: random use/forward graphs over 4 files.")
    assumptions = C02.assumptions + ["module execution is observed through one marker rule per file"]
    mc_runs = {
        "quick": [("MC_Loader", "MC_Loader_C03_q2.cfg", {}), ("MC_Loader", "MC_Loader_C03_q3.cfg", {})],
        "thorough": [("MC_Loader", "MC_Loader_C03_q2.cfg", {}), ("MC_Loader", "MC_Loader_C03_q3.cfg", {})],   # MC_Loader_C03_t3/_t.cfg: > 1 h, see DESIGN 12.7
    }

    def project(self, inp, res):
        cls = classify_result(res)
        if cls != "ok":
            return {"result": cls}
        out = res.get("out") or ""
        return {"result": "ok", "execs": {f: len(re.findall(r"^\.m-%s \{" % f, out, re.M)) for f in inp["files"]}}

    def expect_of(self, vec):
        e = vec["expect"]
        if e["result"] != "ok":
            return {"result": e["result"]}
        return {"result": "ok", "execs": e["execs"]}


class C39(LoaderEngine):
    prop = "C39"
    level = "fault_enumeration"
    rule = ("Graphs of MC_Loader.tla (<= 2 load statements, all four load kinds; the 3-statement configuration MC_Loader_C39_t.cfg exceeds an hour and is not part of a tier) x a fault armed on EVERY loader call index 1..3*MaxStmts x "
            "{lookup error, read error}, enumerated by TLC; the Loader machine predicts which armed faults fire (a read fault only on the call that finds the file), "
            "that the compilation then ends with an error, and the number of loader calls of the fault-free run. non-trivial = the fault fires; distinct = distinct "
            "(graph, fault). After every faulted compilation the same graph is compiled again in the same process with a working loader and must give the fault-free output.")
    assumptions = ["faults are injected by the executor's in-memory loader: find_file returns Err(LoadError::Input) or a File whose Read fails",
                   "generated files are named <t>.scss, so @import makes 3 loader calls and the other kinds 1 (Loader!NCalls); the fault-free call count is cross-checked against the call log"]
    mc_runs = {
        "quick": [("MC_Loader", "MC_Loader_C39_q1.cfg", {"workers": 4}), ("MC_Loader", "MC_Loader_C39_q.cfg", {"workers": 6})],
        "thorough": [("MC_Loader", "MC_Loader_C39_q1.cfg", {"workers": 4}), ("MC_Loader", "MC_Loader_C39_q.cfg", {"workers": 6})],   # MC_Loader_C39_t.cfg: > 1 h, see DESIGN 12.7
    }
    random_n = {"quick": 0, "thorough": 0}

    def strip(self, vec):
        return {"files": vec["files"], "fault": vec["fault"]}

    def key(self, inp):
        return [inp["files"], inp["fault"]]

    def nontrivial(self, vec):
        return vec["expect"]["result"] == "err"

    def project(self, inp, res):
        cls = classify_result(res)
        o = {"result": cls}
        if cls == "ok":
            o["calls"] = len(res.get("calls") or [])
        if res.get("status") == "err" and cls == "err" and res.get("out"):
            o["partial_css"] = True
        return o

    def expect_of(self, vec):
        e = vec["expect"]
        o = {"result": e["result"]}
        if e["result"] == "ok":
            o["calls"] = e["calls"]
        return o

    def render(self, inp):
        c = dict(files=render_graph(inp["files"]), entry="r.scss", trace=True, want_calls=True)
        if inp["fault"]["at"] > 0:
            c["faults"] = [inp["fault"]]
            # re-run fault-free in the same process, unless the fault-free run itself dies (open finding of C02)
            c["rerun_clean"] = self.baseline_status.get(jdump(inp["files"])) in ("ok", "err")
        return c

    baseline_status = {}

    def url_faults(self, ctx):
        """second family: loads of URL-shaped targets (.css, http(s)://, //, url()) and of a missing file, a fault on every call"""
        from engines import resolve
        r = ctx.mc("MC_Resolve", "MC_Resolve_fault.cfg", workers=2)
        vecs = list(ctx.vectors(r))
        cases = []
        for i, v in enumerate(vecs):
            files = {"main.scss": ".before { k: v }\n" + resolve.stmt(v["kind"], v["cls"]) + "\n.after { k: v }\n"}
            if v["kind"] != "import":      # @use / @forward must come first
                files["main.scss"] = resolve.stmt(v["kind"], v["cls"]) + "\n.after { k: v }\n"
            if v["present"]:
                files["u.css"] = ".u { k: v }\n"
            c = dict(id=f"uf#{i}", files=files, entry="main.scss", want_calls=True)
            if v["fault"]["at"] > 0:
                c["faults"] = [v["fault"]]
            cases.append(c)
        res = ctx.execute(cases, **self.exec_kw)
        base = {}
        for i, v in enumerate(vecs):
            if v["fault"]["at"] == 0:
                r0 = res[cases[i]["id"]]
                base[(v["kind"], v["cls"], v["present"])] = r0
                # the spec's call count must be the real one, so that "every call index" is exhaustive
                ncalls = len(r0.get("calls") or [])
                if v["present"] == 0 and ncalls != v["calls"]:
                    ctx.violation(cases[i]["id"], dict(input=v, rendered=cases[i], expected={"calls": v["calls"]}, actual={"calls": r0.get("calls")}, flow="calls"))
        for i, v in enumerate(vecs):
            r1 = res[cases[i]["id"]]
            b = base[(v["kind"], v["cls"], v["present"])]
            fired = v["expect"] == "err"
            ctx.note_case(["urlfault", v["kind"], v["cls"], v["present"], v["fault"]], nontrivial=fired,
                          sample=dict(main=cases[i]["files"]["main.scss"], fault=v["fault"], observed=r1.get("status")) if i % 97 == 5 else None)
            ctx.traces += 1
            if fired:
                obs = "err" if (r1.get("status") == "err" and not r1.get("out")) else "not-err:" + str(r1.get("status"))
                exp = "err"
            else:
                obs = [r1.get("status"), r1.get("out"), (r1.get("err") or "")[:60]]
                exp = [b.get("status"), b.get("out"), (b.get("err") or "")[:60]]
            if obs != exp:
                ctx.violation(cases[i]["id"], dict(input={k: v[k] for k in ("kind", "cls", "present", "fault")}, rendered=cases[i], expected=exp, actual=obs,
                                                   raw={k: r1.get(k) for k in ("status", "out", "err", "calls")}, spec_operator="Resolve!FaultOutcome", flow="urlfault"))

    def run(self, ctx):
        super().run(ctx)
        self.url_faults(ctx)

    def flow_a(self, ctx, vecs, tag):
        ctx.add_background("C02")     # the load-css lock defect (C02) shows in these runs but is no loader-failure defect
        # phase 1: the fault-free runs (they are also the baseline of the second clause)
        base_v = [v for v in vecs if v["fault"]["at"] == 0]
        super().flow_a(ctx, base_v, tag + "-base")
        bv, bc, br = self.last_results
        base = {}
        for i, v in enumerate(bv):
            r = br[bc[i]["id"]]
            base[jdump(v["files"])] = r
            self.baseline_status[jdump(v["files"])] = r.get("status")
        # phase 2: every armed fault
        fv = [v for v in vecs if v["fault"]["at"] > 0]
        super().flow_a(ctx, fv, tag + "-fault")
        vecs, cases, res = self.last_results
        for i, v in enumerate(vecs):
            r = res[cases[i]["id"]]
            clean = r.get("clean")
            b = base.get(jdump(v["files"]))
            if clean is None or b is None:
                continue
            if (clean.get("status"), clean.get("out"), (clean.get("err") or "")[:80]) != (b.get("status"), b.get("out"), (b.get("err") or "")[:80]):
                ctx.violation(cases[i]["id"] + "-clean", dict(input=self.strip(v), rendered=cases[i], flow="clean",
                              expected={"status": b.get("status"), "out": b.get("out")},
                              actual={"status": clean.get("status"), "out": clean.get("out"), "err": clean.get("err")}))

    def validate_runs(self, ctx, runs, lookup, tag):
        # rebuild the runs with the fault of each case in the Begin event
        vecs, cases, res = self.last_results
        runs = [(i, events_for(vecs[i]["files"], res[cases[i]["id"]], i, vecs[i]["fault"])) for (i, _) in runs]
        super().validate_runs(ctx, runs, lookup, tag)
