"""C02 / C03: the loader state machine (spec/Loader.tla, MC_Loader.tla, Trace_Loader.tla)."""
import json, re
from vlib.core import VectorEngine, jdump
from vlib import tlc

FILES = ["r", "a", "b", "c"]


def url_of(st):
    t = st["target"]
    return {"plain": t, "dot": "./" + t, "dd": "d/../" + t}[st["sp"]]


def render_graph(files):
    """abstract graph {file: [stmt]} -> in-memory file system"""
    fs = {"d/x.scss": "/* makes directory d exist */\n"}
    for f, stmts in files.items():
        head, body = [], []
        if any(s["kind"] == "loadcss" for s in stmts):
            head.append('@use "sass:meta";')
        for i, s in enumerate(stmts):
            u = url_of(s)
            if s["kind"] == "use":
                head.append(f'@use "{u}" as u{i};')
            elif s["kind"] == "forward":
                head.append(f'@forward "{u}";')
            elif s["kind"] == "import":
                body.append(f'@import "{u}";')
            else:
                body.append(f'@include meta.load-css("{u}");')
        fs[f + ".scss"] = "\n".join(head + [f".m-{f} {{ k: v }}"] + body) + "\n"
    return fs


def classify_result(res):
    st = res.get("status")
    if st == "ok":
        return "ok"
    if st == "err":
        if res.get("kind") == "ImportLoop":
            return "loop"
        return "err:" + (res.get("err") or "").split("\n")[0][:60]
    if st == "abort":
        return "overflow" if res.get("stack_overflow") else "abort"
    return str(st)


class LoaderEngine(VectorEngine):
    level = "model_checking"
    exec_kw = dict(timeout_ms=20000)
    spec_op = "Loader!RunNext"

    def strip(self, vec):
        return {"files": vec["files"]}

    def key(self, inp):
        return inp["files"]

    def render(self, inp):
        return dict(files=render_graph(inp["files"]), entry="r.scss", trace=True)

    def nontrivial(self, vec):
        return sum(len(v) for v in vec["files"].values()) >= 1

    def sample(self, inp, case, obs):
        return dict(graph=inp["files"], files=case["files"], observed=obs)

    # -- Flow A with a second, "explain" TLC pass for the mismatches -----------
    def flow_a(self, ctx, vecs, tag):
        cases = []
        for i, v in enumerate(vecs):
            c = self.render(self.strip(v))
            c["id"] = f"{tag}#{i}"
            cases.append(c)
        res = ctx.execute(cases, **self.exec_kw)
        self.last_results = (vecs, cases, res)
        mism = []
        for i, v in enumerate(vecs):
            inp = self.strip(v)
            r = res[cases[i]["id"]]
            obs = self.project(inp, r)
            exp = self.expect_of(v)
            ctx.note_case(self.key(inp), nontrivial=self.nontrivial(v),
                          sample=self.sample(inp, cases[i], obs) if i % max(1, len(vecs) // 3) == 1 else None)
            ctx.traces += 1
            if obs != exp:
                mism.append((i, inp, obs, exp, r))
        if not mism:
            return
        # run the mismatching graphs under every combination of named deviations
        nfiles = len(vecs[0]["files"])
        progs = ctx.work + f"/{tag}.progs.ndjson"
        with open(progs, "w") as f:
            for (i, inp, obs, exp, r) in mism:
                f.write(jdump({"files": inp["files"]}) + "\n")
        er = ctx.mc("MC_Loader", f"MC_Loader_explain{nfiles}.cfg", env={"PROGS": progs}, workers=6)
        pred = {}
        for ev in ctx.vectors(er):
            devs = ev["dev"] if isinstance(ev["dev"], list) else []
            pred.setdefault(jdump(ev["files"]), []).append((sorted(devs), self.expect_of(ev)))
        open_devs = set(ctx.open_devs())
        for (i, inp, obs, exp, r) in mism:
            cands = [d for (d, e) in pred.get(jdump(inp["files"]), []) if d and set(d) <= open_devs and e == obs]
            if cands:
                best = min(cands, key=len)
                for d in best:
                    ctx.known_hit[d] = ctx.known_hit.get(d, 0) + 1
                continue
            ctx.violation(cases[i]["id"], dict(input=inp, rendered=cases[i], expected=exp, actual=obs,
                                               spec_operator=self.spec_op, raw={k: r.get(k) for k in ("status", "kind", "err", "stack_overflow")},
                                               predictions=pred.get(jdump(inp["files"]))))

    def replay(self, ctx, rep):
        c = dict(rep["rendered"]); c["id"] = "replay"
        r = ctx.execute([c], **self.exec_kw)["replay"]
        obs = self.project(rep["input"], r)
        print("replay observed:", jdump(obs), "expected:", jdump(rep["expected"]))
        return obs == rep["expected"]


class C02(LoaderEngine):
    prop = "C02"
    rule = ("File graphs built by MC_Loader.tla: every assignment of <= MaxStmts load statements in total (4 kinds x targets x URL spellings "
            "plain/./x/d/../x) to the files in canonical build order, all files reachable; non-trivial = at least one load statement; "
            "distinct = distinct graph. Each graph is compiled by rsass from an in-memory file system (8 MiB stack, 20 s limit) and the outcome class "
            "ok/loop/overflow/timeout compared with the Loader state machine's result; hook events are validated step by step by Trace_Loader.tla.")
    assumptions = ["all generated files live in one directory (plus a directory d for the d/../x spelling)",
                   "@use/@forward precede other statements in each generated file, each @use gets a unique namespace"]
    mc_runs = {
        "quick": [("MC_Loader", "MC_Loader_q2.cfg", {}), ("MC_Loader", "MC_Loader_q3.cfg", {})],
        "thorough": [("MC_Loader", "MC_Loader_q2.cfg", {}), ("MC_Loader", "MC_Loader_t3.cfg", {"timeout": 3000})],
    }

    def project(self, inp, res):
        return classify_result(res)

    def expect_of(self, vec):
        return vec["expect"]["result"]
