"""C18: argument binding, first @return, closures and @content scoping (spec/Bind.tla + callable kinds of spec/Scope.tla).

Python renders signatures / call shapes / bodies to SCSS and reads the bound values back; the expected
bindings are computed by Bind!Ideal, the expected closure / @content reads by Scope!Ideal in TLA+."""
import re
from vlib.core import VectorEngine, jdump
from engines import scope as scope_engine

PARAMS = ["a", "b-x", "c", "d"]
NAMED_VAL = {"a": 21, "b-x": 22, "c": 23, "d": 24, "b_x": 26, "y": 27, "r": 28, "z": 29}


def formals(inp):
    out = []
    for j, d in enumerate(inp["defs"], 1):
        p = "$" + PARAMS[j - 1]
        if d == "const":
            p += f": {30 + j}"
        elif d in ("ref1", "ref2", "ref3"):
            p += ": $" + PARAMS[int(d[3]) - 1]
        elif d == "glob":
            p += ": $g"
        elif d == "next":                       # a variable named like the NEXT parameter (definition site: 42, 43, 44)
            p += ": $" + PARAMS[j]
        out.append(p)
    if inp["rest"]:
        out.append("$r...")
    return ", ".join(out)


def call_args(inp):
    """-> (declarations needed before the call, argument text, text of the outer call when the arguments are forwarded)"""
    pre, args = [], []
    pos = [str(10 + i) for i in range(1, inp["npos"] + 1)]
    outer = None
    if inp["psplat"] == "fwd":
        # positional and explicit named arguments arrive as a forwarded argument list
        outer = ", ".join(pos + [f"${n}: {NAMED_VAL[n]}" for n in inp["named"]])
        args.append("$args...")
    elif inp["psplat"] == "all":
        pre.append("$l: (" + ", ".join(pos) + ("," if len(pos) == 1 else "") + ");")
        args.append("$l...")
    elif inp["psplat"] == "tail":
        tail = pos[1:]
        pre.append("$l: (" + ", ".join(tail) + ("," if len(tail) == 1 else "") + ");")
        args += [pos[0], "$l..."]
    else:
        args += pos
    if inp["psplat"] != "fwd":
        args += [f"${n}: {NAMED_VAL[n]}" for n in inp["named"]]
    if inp["mnamed"]:
        pre.append("$mp: (" + ", ".join(f"{n}: {NAMED_VAL[n] + 40}" for n in inp["mnamed"]) + ");")
        args.append("$mp...")
    return pre, ", ".join(args), outer


def body_probe(inp, fn):
    k = len(inp["defs"])
    if fn:
        parts = ["S"]
        for j in range(k):
            parts += ["P", "$" + PARAMS[j]]
        if inp["rest"]:
            parts += ["R", "$r", "K", "keywords($r)"]
        return "@return (" + ", ".join(parts) + ("," if len(parts) == 1 else "") + ");"
    props = [f"p{j + 1}: inspect(${PARAMS[j]});" for j in range(k)]
    if inp["rest"]:
        props += ["r: inspect($r);", "k: inspect(keywords($r));"]
    return "o { z: 0; " + " ".join(props) + " }"


OUTER = "$g: 40; $b-x: 42; $c: 43; $d: 44;\n"      # definition-site variables (some named like parameters)


def render_bind(inp):
    pre, args, outer = call_args(inp)
    ctx = inp["ctx"]
    f = formals(inp)
    pre_t = " ".join(pre)
    if outer is not None:
        # the call is made by a forwarding mixin / function that received the arguments as $args...
        if ctx == "mixin":
            return (f"{OUTER}@mixin m({f}) {{ {body_probe(inp, False)} }}\n"
                    f"@mixin fwd($args...) {{ $g: 41; {pre_t} @include m({args}); }}\n"
                    f"q {{ @include fwd({outer}); }}\n")
        if ctx == "function":
            return (f"{OUTER}@function f({f}) {{ {body_probe(inp, True)} }}\n"
                    f"@function fwd($args...) {{ $g: 41; {pre_t} @return f({args}); }}\n"
                    f"q {{ v: inspect(fwd({outer})); }}\n")
        return (f"{OUTER}@mixin w($args...) {{ $g: 41; {pre_t} @content({args}); }}\n"
                f"q {{ @include w({outer}) using ({f}) {{ {body_probe(inp, False)} }} }}\n")
    if ctx == "mixin":
        return (f"{OUTER}@mixin m({f}) {{ {body_probe(inp, False)} }}\n"
                f"q {{ $g: 41; {pre_t} @include m({args}); }}\n")
    if ctx == "function":
        return (f"{OUTER}@function f({f}) {{ {body_probe(inp, True)} }}\n"
                f"q {{ $g: 41; {pre_t} v: inspect(f({args})); }}\n")
    if ctx == "content":
        # the block is declared at the include site (global $g: 40 visible); @content(args) is evaluated
        # inside the mixin, which has its own $g: 41
        return (f"{OUTER}@mixin w {{ $g: 41; {pre_t} @content({args}); }}\n"
                f"q {{ @include w using ({f}) {{ {body_probe(inp, False)} }} }}\n")
    raise ValueError(ctx)


RET_ITEM = {"ret": "@return {v};", "ift": "@if true {{ @return {v}; }}", "iff": "@if false {{ @return {v}; }}",
            "each0": "@each $e in 1 2 3 {{ @if $e == 0 {{ @return {v}; }} }}",
            "each1": "@each $e in 1 2 3 {{ @if $e == 1 {{ @return {v}; }} }}",
            "each2": "@each $e in 1 2 3 {{ @if $e == 2 {{ @return {v}; }} }}",
            "each3": "@each $e in 1 2 3 {{ @if $e == 3 {{ @return {v}; }} }}",
            "while": "@while true {{ @return {v}; }}"}


def render_ret(inp):
    items = " ".join(RET_ITEM[it].format(v=50 + i) for i, it in enumerate(inp["items"], 1))
    return f"@function f() {{ {items} @return 59; }}\nq {{ v: inspect(f()); }}\n"


def flat(text):
    return re.sub(r"[()\[\],]", " ", text).split()


def ints(toks):
    out = []
    for t in toks:
        out.append(int(t) if re.fullmatch(r"-?\d+", t) else -99999)
    return out


def kwpairs(toks):
    """['y:', '27', 'z:', '29'] -> sorted [{'n': 'y', 'v': 27}, ..]"""
    out = []
    i = 0
    while i < len(toks):
        n = toks[i]
        if not n.endswith(":") or i + 1 >= len(toks):
            return [{"n": "other:" + " ".join(toks)[:30], "v": -99999}]
        v = toks[i + 1]
        out.append({"n": n[:-1].replace("_", "-").strip('"'), "v": int(v) if re.fullmatch(r"-?\d+", v) else -99999})
        i += 2
    return sorted(out, key=lambda e: e["n"])


def project_bind(inp, res):
    bad = lambda why: {"k": "other:" + why, "ps": [], "rest": [], "kw": []}
    if res.get("status") == "err":
        return {"k": "err", "ps": [], "rest": [], "kw": []}
    if res.get("status") != "ok":
        return bad(str(res.get("status")))
    out = res.get("out") or ""
    if inp["kind"] == "ret":
        m = re.search(r"\bv: ([^;]*);", out)
        return {"k": "ok", "ps": ints(flat(m.group(1))), "rest": [], "kw": []} if m else bad("noout")
    k = len(inp["defs"])
    if inp["ctx"] == "function":
        m = re.search(r"\bv: ([^;]*);", out)
        if not m:
            return bad("noout")
        toks = flat(m.group(1))
        if not toks or toks[0] != "S":
            return bad("unreadable")
        ps, rest, kw, cur = [], [], [], None
        for t in toks[1:]:
            if t == "P":
                ps.append([]); cur = ps[-1]
            elif t == "R":
                cur = rest
            elif t == "K":
                cur = kw
            elif cur is None:
                return bad("unreadable")
            else:
                cur.append(t)
        if any(len(p) != 1 for p in ps):
            return bad("param-not-atomic")
        return {"k": "ok", "ps": ints([p[0] for p in ps]), "rest": ints(rest), "kw": kwpairs(kw)}
    blocks = re.findall(r"o \{([^}]*)\}", out)
    if len(blocks) != 1:
        return bad(f"blocks={len(blocks)}")
    props = dict((m.group(1), m.group(2)) for m in re.finditer(r"\b(p\d|r|k): ([^;]*);", blocks[0]))
    ps = []
    for j in range(1, k + 1):
        t = flat(props.get(f"p{j}", "missing"))
        ps.append(t[0] if len(t) == 1 else "x")
    return {"k": "ok", "ps": ints(ps), "rest": ints(flat(props.get("r", ""))), "kw": kwpairs(flat(props.get("k", "")))}


class C18(VectorEngine):
    prop = "C18"
    level = "model_checking"
    trace = ("Trace_Bind", "Trace_Bind.cfg")
    spec_op = "Bind!Ideal / Scope!Ideal"
    rule = ("(1) signatures x call shapes generated by MC_Bind.tla: 0..3 parameters (required / constant default / default referring to an "
            "earlier parameter / default referring to a variable of the definition site that the call site shadows / default referring to a "
            "definition-site variable named like the NEXT parameter) with or without a rest parameter x calls with 0..4 positional and subsets "
            "of named arguments (hyphen/underscore spellings, unknown names, the rest parameter's own name), passed directly, through a list "
            "splat, together with a map splat whose keys may repeat explicit names, or forwarded as an argument list; in mixins, functions and @content/using; "
            "(2) function bodies with up to 3 @return items (plain, under @if, inside @each/@while) - first reached wins; "
            "(3) closure / @content programs generated by MC_Scope.tla over callable block kinds (mixin / function defined at top level or in "
            "place, content block with and without using-parameter, wrapper mixin with locals of its own) with declarations that shadow a name "
            "at the call / include site. non-trivial = defined expectation; distinct = distinct input. "
            "Flow B: random signatures with up to 4 parameters and random callable programs up to depth 4, validated by Trace_Bind.tla.")
    assumptions = ["values are distinct integers identifying where an argument came from; keywords are compared sorted by name",
                   "a name passed explicitly (or as keyword of a forwarded argument list) and again as key of a map splat: the property admits an error or exactly one argument of that name with either value (Bind!Admissible); the reference behaviour (map value wins) is the expected one",
                   "map-splat keys with underscores and functions without @return are outside the property (not generated)",
                   "closure programs only declare fresh variables or shadow globals, so that the assignment defects recorded under C16 do not interfere"]
    mc_runs = {
        "quick": [("MC_Bind", "MC_Bind_C18_a.cfg", {"workers": 4}), ("MC_Bind", "MC_Bind_C18_b.cfg", {"workers": 4}),
                  ("MC_Bind", "MC_Bind_C18_c.cfg", {"workers": 4}),
                  ("MC_Bind", "MC_Bind_C18_ret.cfg", {"workers": 2}), ("MC_Scope", "MC_Scope_C18_a.cfg", {"workers": 4})],
        "thorough": [("MC_Bind", "MC_Bind_C18_a.cfg", {"workers": 4}), ("MC_Bind", "MC_Bind_C18_t.cfg", {"workers": 4, "timeout": 1800}),
                     ("MC_Bind", "MC_Bind_C18_rett.cfg", {"workers": 4}), ("MC_Scope", "MC_Scope_C18_t.cfg", {"workers": 4, "timeout": 1800})],
    }
    random_n = {"quick": 1200, "thorough": 12000}

    # vectors of MC_Bind carry {"inp": ..}; vectors of MC_Scope carry {"prog": ..}
    def strip(self, vec):
        if "prog" in vec:
            return {"prog": vec["prog"]}
        if vec.get("adm"):
            # a name passed explicitly and by a map splat: Bind!Admissible lists what the property admits (adm[0] = expect)
            return {"inp": vec["inp"], "adm": vec["adm"]}
        return {"inp": vec["inp"]}

    def render(self, inp):
        if "prog" in inp:
            return dict(api="compile_scss", src=scope_engine.render_prog(inp["prog"]))
        i = inp["inp"]
        return dict(api="compile_scss", src=render_ret(i) if i["kind"] == "ret" else render_bind(i))

    def project(self, inp, res):
        if "prog" in inp:
            return scope_engine.project_out(res)
        obs = project_bind(inp["inp"], res)
        if inp.get("adm") and obs in inp["adm"]:
            return inp["adm"][0]           # any admissible outcome (a set computed by TLA+) stands for the expected one
        return obs

    def key(self, inp):
        return inp.get("prog") or inp.get("inp")

    def dev_matches(self, predicted, obs):
        return predicted["k"] == "undef" or predicted == obs

    def nontrivial(self, vec):
        return vec["expect"]["k"] != "undef"

    def sample(self, inp, case, obs):
        return dict(rendered=case.get("src"), observed=obs)

    # ---- Flow B ---------------------------------------------------------------------------
    def random_inputs(self, ctx, n):
        rng = ctx.rng
        out = []
        for _ in range(n):
            r = rng.random()
            if r < 0.6:
                out.append({"inp": self.gen_bind(rng)})
            elif r < 0.7:
                items = [rng.choice(["ret", "ift", "iff", "iff", "each0", "each0", "each1", "each2", "each3", "while"])
                         for _ in range(rng.randint(0, 4))]
                out.append({"inp": {"kind": "ret", "ctx": "function", "items": items}})
            else:
                out.append({"prog": self.gen_prog(rng)})
        return out

    def gen_bind(self, rng):
        k = rng.randint(0, 4)
        defs = []
        for j in range(1, k + 1):
            opts = ["req", "req", "const", "glob"] + [f"ref{i}" for i in range(1, j)] + (["next"] if j <= 3 else [])
            defs.append(rng.choice(opts))
        npos = rng.randint(0, min(6, k + 2))
        pool = ["a", "b-x", "b_x", "c", "d", "r", "y", "z"]
        named = [s for s in pool if rng.random() < 0.25]
        psplat = rng.choice(["none", "none", "all", "tail", "fwd"])
        if psplat == "all" and npos < 1 or psplat == "tail" and npos < 2:
            psplat = "none"
        mnamed = [s for s in ["a", "b-x", "c", "d", "r", "y", "z"] if rng.random() < 0.2] if rng.random() < 0.5 else []
        return {"kind": "bind", "ctx": rng.choice(["mixin", "function", "content"]), "defs": defs, "rest": rng.randint(0, 1),
                "npos": npos, "named": named, "mnamed": mnamed, "psplat": psplat}

    def gen_prog(self, rng):
        """random callable programs: fresh declarations only (a variable is never assigned below a block that declares or binds it)"""
        vars_ = ["x", "y"]
        kinds = ["rule", "media", "lmixin", "lmixind", "mixin", "function", "content", "contentm"]
        maxlen = rng.randint(6, 14)
        prog, stack, decl = [], [], [set()]
        while True:
            room = maxlen - len(prog) - len(stack)
            last = prog[-1]["op"] if prog else "none"
            choices = []
            if room >= 2:
                choices += ["asg"] * 3
            if room >= 1:
                choices += ["read"] * 3
            if room >= 3 and len(stack) < 4:
                choices += ["open"] * 4
            if stack and last != "open":
                choices += ["close"] * 2
            if not choices or room <= 0:
                break
            c = rng.choice(choices)
            if c == "asg":
                v = rng.choice(vars_)
                if any(v in d for d in decl[1:-1]):      # declared / bound in an enclosing (non-global) block
                    continue
                prog.append({"op": "asg", "var": v, "arg": "none"})
                decl[-1].add(v)
            elif c == "read":
                prog.append({"op": "read", "var": rng.choice(vars_), "arg": "-"})
            elif c == "open":
                k = rng.choice(kinds)
                if set(stack) & {"function", "lfunctiond"}:
                    continue
                if k in ("lmixin", "lmixind", "lfunctiond") and not set(stack) <= {"rule", "media", "atrule"}:
                    continue
                v = rng.choice(vars_ + ["-"]) if k in ("mixin", "function", "content", "lmixin", "lmixind") else "-"
                prog.append({"op": "open", "var": v, "arg": k})
                stack.append(k)
                decl.append({v} if v != "-" else set())
            else:
                prog.append({"op": "close", "var": "-", "arg": "-"})
                stack.pop(); decl.pop()
        while stack:
            if prog[-1]["op"] == "open":
                prog.append({"op": "read", "var": rng.choice(vars_), "arg": "-"})
            prog.append({"op": "close", "var": "-", "arg": "-"})
            stack.pop()
        if not prog or prog[-1]["op"] != "read":
            prog.append({"op": "read", "var": rng.choice(vars_), "arg": "-"})
        return prog

    def flow_b(self, ctx, n):
        inputs = self.random_inputs(ctx, n)
        cases = []
        for i, inp in enumerate(inputs):
            c = self.render(inp)
            c["id"] = f"rnd#{i}"
            cases.append(c)
        res = ctx.execute(cases, **self.exec_kw)
        devs = ctx.open_devs()
        events = []
        for i, inp in enumerate(inputs):
            obs = self.project(inp, res[cases[i]["id"]])
            # one event schema for both families: t = "bind" | "scope"
            if "prog" in inp:
                events.append(dict(t="scope", prog=inp["prog"], obs=obs, case=i, devs=devs))
            else:
                events.append(dict(t="bind", inp=inp["inp"], obs=obs, case=i, devs=devs))
            ctx.note_case(self.key(inp), sample=self.sample(inp, cases[i], obs) if i < 2 else None)

        def on_reject(e):
            i = e["case"]
            ctx.violation(f"rnd#{i}", dict(input=inputs[i], rendered=cases[i], actual=e["obs"], raw=res[cases[i]["id"]],
                                           expected="(rejected by trace spec %s)" % self.trace[0], flow="B"))
        ctx.validate(self.trace[0], self.trace[1], events, on_reject=on_reject)

    def replay(self, ctx, rep):
        c = dict(rep["rendered"])
        c["id"] = "replay"
        r = ctx.execute([c], **self.exec_kw)["replay"]
        inp = rep["input"]
        obs = self.project(inp, r)
        print("replay observed:", jdump(obs))
        if rep.get("flow") == "B":
            bad = []
            ev = dict(t="scope", prog=inp["prog"], obs=obs, case=0, devs=[]) if "prog" in inp else \
                dict(t="bind", inp=inp["inp"], obs=obs, case=0, devs=[])
            ctx.validate(self.trace[0], self.trace[1], [ev], on_reject=lambda e: bad.append(e))
            return not bad
        print("replay expected:", jdump(rep["expected"]))
        return obs == rep["expected"]
