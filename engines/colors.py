"""C31 / C32 / C33: colours (spec/Colors.tla, MC_Colors.tla, Trace_Colors.tla).

Law-style engines: TLC enumerates the colour inputs (and, for C31, the partner notations that
provably denote the same rgba); this module renders each input to SCSS, lets rsass evaluate the
channel functions / both sides of every law with its own `==` / the emitted colour token, projects
the printed numbers to fixed point and hands the observations to Trace_Colors.tla, which evaluates
the ranges, the laws and the denotation of the token.  Nothing is decided here."""
import json
import os
import re
from decimal import Decimal, ROUND_HALF_EVEN, InvalidOperation

from vlib import tlc
from vlib.core import VectorEngine, jdump

BAD = -2000000000          # projection of a value that is not a plain number (NaN, infinity, calc(), ...)
NAMES = None


def names():
    """the colour names of spec/ColorNames.tla (index -> name), read from the TLA+ table"""
    global NAMES
    if NAMES is None:
        import os
        p = os.path.join(os.path.dirname(os.path.dirname(os.path.abspath(__file__))), "spec", "ColorNames.tla")
        NAMES = [""]
        for line in open(p):
            m = re.search(r"\[n \|-> <<([0-9, ]+)>>", line)
            if m:
                NAMES.append("".join(chr(int(x)) for x in m.group(1).split(",")))
    return NAMES


def dec(v, k):
    """fixed-point integer with k decimals -> exact decimal text"""
    s = "-" if v < 0 else ""
    v = abs(v)
    ip, fp = divmod(v, 10 ** k)
    f = str(fp).rjust(k, "0").rstrip("0")
    return s + str(ip) + ("." + f if f else "")


def render_color(c):
    ctor, form, a, al = c["ctor"], c.get("form", "comma"), c["args"], c["alpha"]
    if ctor in ("rgb", "rgbp"):
        k = [dec(x, 3) + ("%" if ctor == "rgbp" else "") for x in a]
        if form == "space":
            return "rgb(%s %s %s%s)" % (k[0], k[1], k[2], "" if al == -1 else " / " + dec(al, 6))
        return ("rgb(%s, %s, %s)" % tuple(k)) if al == -1 else ("rgba(%s, %s, %s, %s)" % (k[0], k[1], k[2], dec(al, 6)))
    if ctor == "hsl":
        h, s, l = dec(a[0], 3), dec(a[1], 3) + "%", dec(a[2], 3) + "%"
        if form == "space":
            return "hsl(%sdeg %s %s%s)" % (h, s, l, "" if al == -1 else " / " + dec(al, 6))
        return ("hsl(%s, %s, %s)" % (h, s, l)) if al == -1 else ("hsla(%s, %s, %s, %s)" % (h, s, l, dec(al, 6)))
    if ctor == "hwb":
        h, w, k = dec(a[0], 3), dec(a[1], 3) + "%", dec(a[2], 3) + "%"
        if form == "fn":
            return "color.hwb(%sdeg, %s, %s%s)" % (h, w, k, "" if al == -1 else ", " + dec(al, 6))
        return "hwb(%sdeg %s %s%s)" % (h, w, k, "" if al == -1 else " / " + dec(al, 6))
    if ctor in ("hex3", "hex4"):
        t = "#" + "".join("%x" % x for x in a)
        return t.upper() if form == "upper" else t
    if ctor in ("hex6", "hex8"):
        t = "#" + "".join("%02x" % x for x in a)
        return t.upper() if form == "upper" else t
    if ctor == "name":
        t = names()[a[0]]
        return t.upper() if form == "upper" else t
    if ctor == "transparent":
        return "transparent"
    raise ValueError(ctor)


_num = re.compile(r"^(-?(?:\d+\.?\d*|\.\d+)(?:e[-+]?\d+)?)(deg|%|)$")


def fixed(text, k):
    """printed Sass number (optionally with deg / %) -> fixed-point integer with k decimals"""
    m = _num.match(text.strip())
    if not m:
        return BAD
    try:
        v = (Decimal(m.group(1)) * (10 ** k)).quantize(Decimal(1), rounding=ROUND_HALF_EVEN)
    except InvalidOperation:
        return BAD
    if abs(v) >= 2000000000:
        return BAD
    return int(v)


def decls(out, style):
    """declarations of the single rule `a{...}` -> dict name -> value text"""
    d = {}
    if style == "compressed":
        m = re.search(r"a\{(.*)\}", out or "", re.S)
        if not m:
            return d
        for part in m.group(1).split(";"):
            if ":" in part:
                n, v = part.split(":", 1)
                d[n.strip()] = v.strip()
        return d
    for line in (out or "").splitlines():
        m = re.match(r"\s*([a-z0-9_-]+): (.*);\s*$", line)
        if m:
            d[m.group(1)] = m.group(2)
    return d


def unexplained(msg):
    """<<"MSG", "{json}">> printed by Trace_*!Explained for an event it cannot explain"""
    m = re.match(r'<<"MSG", (".*")>>$', msg.strip())
    if m:
        try:
            d = json.loads(json.loads(m.group(1)))
            if isinstance(d, dict) and "unexplained" in d:
                return d
        except Exception:
            pass
    return None


PRELUDE = '@use "sass:color";\n@function rgbf($x) { @return color.adjust($x, $red: 0); }\n'
CHANS = (("r", "red($c)", 3), ("g", "green($c)", 3), ("b", "blue($c)", 3), ("a", "alpha($c)", 6), ("h", "hue($c)", 3),
         ("s", "saturation($c)", 3), ("l", "lightness($c)", 3), ("w", "color.whiteness($c)", 3), ("k", "color.blackness($c)", 3))


def chan_decls():
    return "".join("  %s: %s;\n" % (n, e) for n, e, _ in CHANS)


def chan_obs(d):
    return {n: fixed(d.get(n, "?"), k) for n, _, k in CHANS}


def truth(d, n):
    v = d.get(n)
    return 1 if v == "true" else 0 if v == "false" else -1


ZERO_OBS = {n: 0 for n, _, _ in CHANS}

# C32: equality laws  name -> expression that must be == $c   ($p: amount as percentage, $u: amount as fraction)
EQ_LAWS = [
    ("mix", "mix($c, $c, $p)"),
    ("inv", "invert(invert($c))"),
    ("comp", "complement(complement($c))"),
    ("ah360", "adjust-hue($c, 360deg)"),
    ("ahm360", "adjust-hue($c, -360deg)"),
    ("ah180x2", "adjust-hue(adjust-hue($c, 180deg), 180deg)"),
    ("adj0", "color.adjust($c)"),
    ("adj_rgb", "color.adjust($c, $red: 0, $green: 0, $blue: 0)"),
    ("adj_hsl", "color.adjust($c, $hue: 0deg, $saturation: 0%, $lightness: 0%)"),
    ("adj_hwb", "color.adjust($c, $whiteness: 0%, $blackness: 0%)"),
    ("adj_a", "color.adjust($c, $alpha: 0)"),
    ("sc0", "color.scale($c)"),
    ("sc_rgb", "color.scale($c, $red: 0%, $green: 0%, $blue: 0%)"),
    ("sc_hsl", "color.scale($c, $saturation: 0%, $lightness: 0%)"),
    ("sc_hwb", "color.scale($c, $whiteness: 0%, $blackness: 0%)"),
    ("sc_a", "color.scale($c, $alpha: 0%)"),
    ("ch0", "color.change($c)"),
    ("ch_rgb", "color.change($c, $red: red($c), $green: green($c), $blue: blue($c))"),
    ("ch_hsl", "color.change($c, $hue: hue($c), $saturation: saturation($c), $lightness: lightness($c))"),
    ("ch_hwb", "color.change($c, $whiteness: color.whiteness($c), $blackness: color.blackness($c))"),
    ("ch_a", "color.change($c, $alpha: alpha($c))"),
    ("li_da", "darken(lighten($c, $p), $p)"),
    ("da_li", "lighten(darken($c, $p), $p)"),
    ("sa_de", "desaturate(saturate($c, $p), $p)"),
    ("de_sa", "saturate(desaturate($c, $p), $p)"),
    ("op_tr", "transparentize(opacify($c, $u), $u)"),
    ("tr_op", "opacify(transparentize($c, $u), $u)"),
]
MOVES = [("l_li", "lightness(lighten($c, $p))", 3), ("l_da", "lightness(darken($c, $p))", 3),
         ("s_sa", "saturation(saturate($c, $p))", 3), ("s_de", "saturation(desaturate($c, $p))", 3),
         ("a_op", "alpha(opacify($c, $u))", 6), ("a_tr", "alpha(transparentize($c, $u))", 6),
         ("gs", "saturation(grayscale($c))", 3), ("gl", "lightness(grayscale($c))", 3), ("ga", "alpha(grayscale($c))", 6)]

# C33: functions applied before printing
FNS = {
    "id": "$c0", "rgbf": "rgbf($c0)", "lighten10": "lighten($c0, 10%)", "darken10": "darken($c0, 10%)",
    "saturate20": "saturate($c0, 20%)", "desaturate20": "desaturate($c0, 20%)", "invert": "invert($c0)",
    "invert30": "invert($c0, 30%)", "complement": "complement($c0)", "mixw": "mix($c0, white, 50%)",
    "mixb": "mix($c0, #123456, 25%)", "fade50": "rgba($c0, 0.5)", "opac25": "opacify($c0, 0.25)",
    "scale_l": "color.scale($c0, $lightness: 30%)", "grayscale": "grayscale($c0)", "adjhue45": "adjust-hue($c0, 45deg)",
    "chg_g": "color.change($c0, $green: 200)", "adj_w": "color.adjust($c0, $whiteness: 10%)",
}


class ColorEngine(VectorEngine):
    level = "model_checking"
    trace = ("Trace_Colors", "Trace_Colors.cfg")
    kind = None                    # "c31" | "c32" | "c33"
    chunk = 3000                   # events per trace-validation run
    max_rejects = 4                # rejected events per chunk before the rest of the chunk is left unexamined
    annotate_cfg = None            # MC config that reads random inputs from IOEnv.INPUTS and annotates them

    def strip(self, vec):
        return {k: v for k, v in vec.items() if k not in ("expect", "dev")}

    def key(self, inp):
        return [inp["ctor"], inp["form"], inp["args"], inp["alpha"], inp.get("amt"), inp.get("fn"), inp.get("style")]

    # ---- rendering ---------------------------------------------------------
    def render(self, inp, only=None):
        """only: (C32) restrict the stylesheet to these law / move names (used to isolate a law that raises an error)"""
        expr = render_color(inp)
        if self.kind == "c31":
            body = ["  ok: type-of($c);\n", chan_decls(),
                    "  $x: rgba(red($c), green($c), blue($c), alpha($c));\n  rt-rgb: $x == $c; rtf-rgb: rgbf($x) == rgbf($c);\n",
                    "  $y: hsla(hue($c), saturation($c), lightness($c), alpha($c));\n  rt-hsl: $y == $c; rtf-hsl: rgbf($y) == rgbf($c);\n",
                    "  $z: color.hwb(hue($c), color.whiteness($c), color.blackness($c), alpha($c));\n  rt-hwb: $z == $c; rtf-hwb: rgbf($z) == rgbf($c);\n",
                    "  rt-self: $c == $c; rtf-self: rgbf($c) == rgbf($c);\n"]
            for i, p in enumerate(inp.get("partners") or []):
                body.append("  $p%d: %s;\n  pa-%d: $c == $p%d; pb-%d: $p%d == $c; pf-%d: rgbf($c) == rgbf($p%d);\n"
                            % (i, render_color(p), i, i, i, i, i, i))
            src = PRELUDE + "$c: %s;\na {\n%s}\n" % (expr, "".join(body))
            return dict(api="compile_scss", src=src, style="expanded")
        if self.kind == "c32":
            p = dec(inp["amt"], 3) + "%"
            u = dec(inp["amt"] * 10, 6)
            body = ["  ok: type-of($c);\n", chan_decls()]
            for n, e in EQ_LAWS:
                if only is None or n in only:
                    body.append("  $v: %s;\n  e-%s: $v == $c; f-%s: rgbf($v) == rgbf($c);\n" % (e, n, n))
            for n, e, _ in MOVES:
                if only is None or n in only:
                    body.append("  m-%s: %s;\n" % (n, e))
            src = PRELUDE + "$c: %s;\n$p: %s;\n$u: %s;\na {\n%s}\n" % (expr, p, u, "".join(body))
            return dict(api="compile_scss", src=src, style="expanded")
        if self.kind == "c33":
            src = PRELUDE + "$c0: %s;\n$c: %s;\na {\n  ok: type-of($c);\n  t: $c;\n%s}\n" % (expr, FNS[inp["fn"]], chan_decls())
            return dict(api="compile_scss", src=src, style=inp["style"])
        raise ValueError(self.kind)

    def render_ctor_only(self, inp):
        return dict(api="compile_scss", src=PRELUDE + "$c: %s;\na {\n  ok: type-of($c);\n}\n" % render_color(inp), style="expanded")

    # ---- projection --------------------------------------------------------
    def project(self, inp, res, ctor_res=None):
        """-> the observation part of the event"""
        style = inp.get("style") or "expanded"
        if self.kind != "c33":
            style = "expanded"
        st = "ok"
        d = {}
        if res.get("status") == "ok":
            d = decls(res.get("out"), style)
            if d.get("ok") != "color":
                st = "err"                  # the constructor call did not produce a colour value
        elif res.get("status") == "err":
            if ctor_res is not None and ctor_res.get("status") == "ok" and decls(ctor_res.get("out"), "expanded").get("ok") == "color":
                st = "probe_err"            # the colour exists, but a channel function / law raised an error
            else:
                st = "err"
        else:
            st = "crash"                    # panic / abort / timeout
        o = dict(st=st)
        ok = st == "ok"
        o["obs"] = chan_obs(d) if ok else dict(ZERO_OBS)
        if self.kind == "c31":
            o["rt"] = {n: [truth(d, "rt-" + n), truth(d, "rtf-" + n)] if ok else [0, 0] for n in ("rgb", "hsl", "hwb", "self")}
            np = len(inp.get("partners") or [])
            o["pe"] = [[truth(d, "pa-%d" % i), truth(d, "pb-%d" % i), truth(d, "pf-%d" % i)] if ok else [0, 0, 0] for i in range(np)]
        elif self.kind == "c32":
            o["eq"] = {n: [truth(d, "e-" + n), truth(d, "f-" + n)] if ok else [0, 0] for n, _ in EQ_LAWS}
            o["mv"] = {n: fixed(d.get("m-" + n, "?"), k) if ok else 0 for n, _, k in MOVES}
        elif self.kind == "c33":
            o["tok"] = [ord(ch) for ch in d.get("t", "")] if ok else []
        return o

    def project_isolated(self, inp, rs):
        """C32: per-law results; a law that raised an error is reported as -2"""
        d = decls(rs["None"].get("out"), "expanded")
        o = dict(st="ok", obs=chan_obs(d), eq={}, mv={})
        for n, _ in EQ_LAWS:
            r = rs[n]
            dd = decls(r.get("out"), "expanded") if r.get("status") == "ok" else None
            o["eq"][n] = [truth(dd, "e-" + n), truth(dd, "f-" + n)] if dd is not None else [-2, -2]
        for n, _, k in MOVES:
            r = rs[n]
            o["mv"][n] = fixed(decls(r.get("out"), "expanded").get("m-" + n, "?"), k) if r.get("status") == "ok" else BAD
        return o

    def sample(self, inp, case, obs):
        return dict(input={k: inp[k] for k in ("ctor", "form", "args", "alpha", "amt", "fn", "style") if k in inp},
                    rendered=render_color(inp), observed={k: obs[k] for k in obs if k in ("st", "obs", "tok")})

    # ---- driver --------------------------------------------------------------
    def observe(self, ctx, inputs, tag):
        cases = []
        for i, inp in enumerate(inputs):
            c = self.render(inp)
            c["id"] = f"{tag}#{i}"
            cases.append(c)
        res = ctx.execute(cases, **self.exec_kw)
        again = [i for i, c in enumerate(cases) if res[c["id"]].get("status") == "err"]
        ctor_res = {}
        if again:
            c2 = []
            for i in again:
                c = self.render_ctor_only(inputs[i])
                c["id"] = f"{tag}-ctor#{i}"
                c2.append(c)
            r2 = ctx.execute(c2, **self.exec_kw)
            ctor_res = {i: r2[f"{tag}-ctor#{i}"] for i in again}
        isolated = {}
        if self.kind == "c32":
            # a law raised an error although the colour exists: evaluate every law in its own stylesheet
            names = [n for n, _ in EQ_LAWS] + [n for n, _, _ in MOVES]
            c3 = []
            for i in again:
                cr = ctor_res[i]
                if cr.get("status") == "ok" and decls(cr.get("out"), "expanded").get("ok") == "color":
                    for n in [None] + names:
                        c = self.render(inputs[i], only=[] if n is None else [n])
                        c["id"] = f"{tag}-law#{i}#{n}"
                        c3.append(c)
            r3 = ctx.execute(c3, **self.exec_kw) if c3 else {}
            for c in c3:
                _, i, n = c["id"].rsplit("#", 2)
                isolated.setdefault(int(i), {})[n] = r3[c["id"]]
        devs = ctx.open_devs()
        events = []
        for i, inp in enumerate(inputs):
            r = res[cases[i]["id"]]
            o = self.project(inp, r, ctor_res.get(i))
            if i in isolated and isolated[i]["None"].get("status") == "ok":
                o = self.project_isolated(inp, isolated[i])
            e = dict(p=self.kind, case=i, devs=devs, ctor=inp["ctor"], form=inp["form"], args=inp["args"], alpha=inp["alpha"],
                     amt=inp.get("amt", 0), fn=inp.get("fn", "id"), style=inp.get("style", "expanded"),
                     hasp=1 if "partners" in inp else 0)
            e.update(o)
            events.append(e)
            ctx.note_case(self.key(inp), nontrivial=(o["st"] == "ok"),
                          sample=self.sample(inp, cases[i], o) if i % max(1, len(inputs) // 3) == 0 else None)
        return cases, res, events

    def _validate_chunk(self, ctx, todo, name):
        """-> dict(cmds, msgs, states, distinct, accepted_events, rejected [(event, why)], note)"""
        out = dict(cmds=[], msgs=[], states=0, distinct=0, ok=0, rejected=[], note=None)
        rejects = 0
        while todo:
            path = os.path.join(ctx.work, f"{name}.{rejects}.ndjson")
            with open(path, "w") as f:
                for e in todo:
                    f.write(jdump(e) + "\n")
            r = tlc.validate_trace(self.trace[0], self.trace[1], path, os.path.join(ctx.work, name), timeout=900)
            out["cmds"].append(r["cmd"] + "  # TRACE=<recorded ndjson>")
            out["msgs"] += r["msgs"]
            out["states"] += r["states"]
            out["distinct"] += r["distinct"]
            if r["accepted"]:
                out["ok"] += len(todo)
                break
            i = r["unmatched"]
            if i is None or i < 1 or i > len(todo):
                raise tlc.ToolError("trace rejected without a usable index:\n" + r["out"][-2000:])
            why = {}
            for m in r["msgs"]:
                u = unexplained(m)
                if u:
                    why[u["unexplained"]] = u["checks"]
            e = todo[i - 1]
            out["ok"] += i - 1
            out["rejected"].append((e, why.get(e["case"], "?")))
            todo = todo[i:]
            rejects += 1
            if rejects >= self.max_rejects:
                out["note"] = f"{name}: validation stopped after {rejects} rejections ({len(todo)} events not examined)"
                break
        return out

    def check_events(self, ctx, inputs, cases, res, events, tag, flow):
        """Validate the events with Trace_Colors in chunks (up to 4 TLC runs at a time).  A rejected event
        is recorded as a violation together with the checks the trace spec could not explain; validation
        continues behind it (the prefix before it has been accepted)."""
        from concurrent.futures import ThreadPoolExecutor
        n = self.chunk
        tag = tag.replace("/", "_")
        chunks = [(events[k:k + n], f"{tag}.{k // n}") for k in range(0, len(events), n)]
        outs = []
        with ThreadPoolExecutor(max_workers=3) as ex:
            for g in range(0, len(chunks), 3):
                outs += list(ex.map(lambda c: self._validate_chunk(ctx, c[0], c[1]), chunks[g:g + 3]))
                if len(ctx.violations) + sum(len(o["rejected"]) for o in outs) >= 25 and g + 3 < len(chunks):
                    ctx.notes.append(f"{tag}: validation stopped after 25 violations ({len(chunks) - g - 3} chunks not examined)")
                    break
        for o in outs:
            ctx.cmds += o["cmds"][:1]
            for m in o["msgs"]:
                ctx._known_from_msg(m)
            ctx.states += o["distinct"]
            ctx.transitions += o["states"]
            ctx.traces += o["ok"]
            if o["note"]:
                ctx.notes.append(o["note"])
            for e, why in o["rejected"]:
                j = e["case"]
                ctx.violation(f"{tag}#{j}", dict(input=inputs[j], rendered=cases[j], actual={x: e[x] for x in e if x != "devs"},
                                                 raw=res[cases[j]["id"]], unexplained_checks=why,
                                                 expected="(rejected by Trace_Colors: the listed range / law / denotation checks fail)",
                                                 flow=flow, spec_operator=self.spec_op))

    def run(self, ctx):
        for (module, cfg, kw) in self.mc_runs[ctx.tier]:
            r = ctx.mc(module, cfg, **kw)
            vecs = list(ctx.vectors(r))
            if not vecs:
                raise tlc.ToolError(f"{module}/{cfg} produced no vectors (vacuous model run)")
            inputs = [self.strip(v) for v in vecs]
            cases, res, events = self.observe(ctx, inputs, cfg)
            self.check_events(ctx, inputs, cases, res, events, cfg, "A")
        n = self.random_n.get(ctx.tier, 0)
        if n:
            inputs = self.random_inputs(ctx, n)
            if inputs and self.annotate_cfg:
                inputs = self.annotate(ctx, inputs)
            if inputs:
                cases, res, events = self.observe(ctx, inputs, "rnd")
                self.check_events(ctx, inputs, cases, res, events, "rnd", "B")

    def annotate(self, ctx, inputs):
        """let the specification add what only it can know (partner notations) to randomly chosen inputs"""
        import json, os
        p = os.path.join(ctx.work, "rnd.inputs.ndjson")
        with open(p, "w") as f:
            for x in inputs:
                f.write(json.dumps(x) + "\n")
        r = ctx.mc("MC_ColorsIn", self.annotate_cfg, env={"INPUTS": p}, workers=4)
        out = [self.strip(v) for v in ctx.vectors(r)]
        if len(out) != len(inputs):
            raise tlc.ToolError("annotation run lost inputs")
        return out

    def replay(self, ctx, rep):
        inp = rep["input"]
        cases, res, events = self.observe(ctx, [inp], "replay")
        print("replay observed:", {k: events[0][k] for k in events[0] if k not in ("devs",)})
        bad = []
        events[0]["devs"] = []
        ctx.validate(self.trace[0], self.trace[1], events, on_reject=lambda e: bad.append(e))
        return not bad

    # ---- random inputs (Flow B) ------------------------------------------------
    def random_color(self, rng, in_range=False):
        lo, hi = (0.0, 1.0) if in_range else (-0.15, 1.15)

        def pct():
            return int(round(rng.uniform(lo, hi) * 100000))

        def alpha():
            r = rng.random()
            return -1 if r < 0.4 else int(round(rng.uniform(max(lo, 0.0) if in_range else lo, hi) * 1000)) * 1000
        k = rng.random()
        if k < 0.3:
            return dict(ctor="rgb", form=rng.choice(["comma", "space"]),
                        args=[int(round(rng.uniform(lo, hi) * 255)) * 1000 if rng.random() < 0.6 else int(round(rng.uniform(lo, hi) * 255000)) for _ in range(3)],
                        alpha=alpha())
        if k < 0.6:
            return dict(ctor="hsl", form=rng.choice(["comma", "space"]),
                        args=[int(round(rng.uniform(0 if in_range else -400, 360 if in_range else 800) * 1000)) if rng.random() < 0.8 else rng.randrange(-2, 3) * 360000,
                              pct(), pct()], alpha=alpha())
        if k < 0.85:
            return dict(ctor="hwb", form="space", args=[int(round(rng.uniform(0 if in_range else -400, 360 if in_range else 800) * 1000)), pct(), pct()], alpha=alpha())
        if k < 0.93:
            return dict(ctor="hex6", form="lower", args=[rng.randrange(256) for _ in range(3)], alpha=-1)
        return dict(ctor="hex8", form="lower", args=[rng.randrange(256) for _ in range(4)], alpha=-1)


class C31(ColorEngine):
    prop = "C31"
    kind = "c31"
    spec_op = "Trace_Colors!Fails31 (Colors!RangeFails, Colors!Partners)"
    rule = ("Colour constructor calls generated by MC_Colors.tla: the channel grid {-10%,0,1/3,50%,2/3,100%,110%} per channel, hues every 30deg "
            "incl. negatives, 360 and 390, alpha {none,0,.5,1,1.5}, rgb()/rgba() comma and space syntax with numbers and percentages, hsl()/hsla() both "
            "syntaxes, hwb(), #rgb #rgba #rrggbb #rrggbbaa, all 148 names in lower and upper case, transparent; for each, rsass evaluates the nine channel "
            "functions, the rebuild-from-own-channels equalities and the equalities with the partner notations that the specification proves to have the "
            "same rgba; Trace_Colors.tla checks ranges and laws.  non-trivial = the constructor produced a colour; distinct = distinct constructor call. "
            "Flow B: random channel values (off-grid, out-of-range) annotated with partners by MC_ColorsIn.tla.")
    assumptions = ["channel read-backs are projected to fixed point (milli-units; alpha micro-units) by rounding the printed decimal",
                   "partner notations are proposed only when the reference conversion is exact in fixed point",
                   "a constructor call with out-of-range arguments may raise an error instead of clamping (not constrained)"]
    mc_runs = {"quick": [("MC_Colors", "MC_Colors_C31_q.cfg", {"workers": 4})],
               "thorough": [("MC_Colors", "MC_Colors_C31_t.cfg", {"workers": 4, "timeout": 1500})]}
    random_n = {"quick": 1500, "thorough": 20000}
    annotate_cfg = "MC_ColorsIn_C31.cfg"

    def random_inputs(self, ctx, n):
        return [dict(self.random_color(ctx.rng), amt=0, fn="id", style="expanded") for _ in range(n)]


class C32(ColorEngine):
    prop = "C32"
    kind = "c32"
    level = "exploration"
    spec_op = "Trace_Colors!Fails32"
    rule = ("In-range colours of the C31 grid (rgb / hsl / hwb origin, with and without alpha, all named colours) x amounts {0,10%,50%,100%}; for each "
            "pair rsass evaluates both sides of 27 equality laws with its own == (plus the same comparison after forcing both sides into rgb storage) and "
            "nine channel read-backs after lighten/darken/saturate/desaturate/opacify/transparentize/grayscale; Trace_Colors.tla checks the relations. "
            "non-trivial = the colour exists; distinct = distinct (colour, amount). Flow B: random in-range colours x random amounts.")
    assumptions = ["the undo laws are required only when the moved channel stays at least 1 milli-unit inside its range (nothing clamped); the boundary zone is skipped",
                   "channel read-backs are compared at milli-unit resolution (alpha: micro-units) with a tolerance of 2 units for the two roundings"]
    mc_runs = {"quick": [("MC_Colors", "MC_Colors_C32_q.cfg", {"workers": 4})],
               "thorough": [("MC_Colors", "MC_Colors_C32_t.cfg", {"workers": 4, "timeout": 1500})]}
    random_n = {"quick": 1000, "thorough": 15000}

    def random_inputs(self, ctx, n):
        return [dict(self.random_color(ctx.rng, in_range=True), amt=int(round(ctx.rng.uniform(0, 100) * 10)) * 100, fn="id", style="expanded")
                for _ in range(n)]


class C33(ColorEngine):
    prop = "C33"
    kind = "c33"
    spec_op = "Trace_Colors!Fails33 (Colors!Denotes)"
    rule = ("Colours of the C31 grid, every named colour, every colour one channel step (+-1, +-0.4) away from a named or short-hex colour, each printed "
            "as is and after each of 18 adjustment functions, in expanded and compressed style; the emitted token is decoded by Colors!Denotes and compared "
            "with the colour's channels as rsass reports them (alpha; rgb rebuilt from hue/whiteness/blackness by the reference conversion; red/green/blue). "
            "non-trivial = a colour was printed; distinct = distinct (constructor call, function, style). Flow B: random colours x random function x style.")
    assumptions = ["comparison to 0.016 of an 8-bit channel step (16 milli-units = twice the error bound of the fixed-point reference conversions) and 2e-6 in alpha, not to the full 10-digit output precision",
                   "hsl()/hsla() tokens whose saturation or lightness is outside 0-100% are not decoded (CSS would clip them; the property does not say how)"]
    mc_runs = {"quick": [("MC_Colors", "MC_Colors_C33_q.cfg", {"workers": 4})],
               "thorough": [("MC_Colors", "MC_Colors_C33_t.cfg", {"workers": 4, "timeout": 1500})]}
    random_n = {"quick": 1500, "thorough": 20000}

    def random_inputs(self, ctx, n):
        fns = sorted(FNS)
        return [dict(self.random_color(ctx.rng), amt=0, fn=ctx.rng.choice(fns), style=ctx.rng.choice(["expanded", "compressed"])) for _ in range(n)]
