#!/usr/bin/env python3
"""Regenerate /verif/MANIFEST.json from engines/registry.d/*.json (one file per claimed property)
and tools/not_applicable.json (reasons for the properties not claimed)."""
import json, os, subprocess
ROOT = os.path.dirname(os.path.dirname(os.path.abspath(__file__)))
props = [json.loads(l) for l in open(os.path.join(ROOT, "properties.jsonl"))]
na_path = os.path.join(ROOT, "tools", "not_applicable.json")
na_reasons = json.load(open(na_path)) if os.path.exists(na_path) else {}
checks, na, engines = [], [], {}
for p in props:
    pid = p["id"]
    rp = os.path.join(ROOT, "engines", "registry.d", pid + ".json")
    if os.path.exists(rp):
        r = json.load(open(rp))
        checks.append({
            "property_id": pid,
            "quick_cmd": f"./check {pid} quick",
            "thorough_cmd": f"./check {pid} thorough",
            "evidence_file": f"/verif/evidence/{pid}.json",
            "replay_cmd_template": f"./check {pid} --replay {{path}}",
            "engine": r.get("engine", r["module"]),
            "level_claimed": {"category": r["level"], "text": r["level_text"], "design_ref": r.get("design_ref", "DESIGN.md section 6")},
            "level_note": r["level_note"],
            "technique": r["technique"],
        })
        e = engines.setdefault(r.get("engine", r["module"]), {"name": r.get("engine", r["module"]),
                               "path": f"/verif/engines/{r['module']}.py", "serves_properties": [],
                               "kind_free_text": "TLA+ spec module(s) under /verif/spec + Python renderer/observer; executor /verif/harness"})
        e["serves_properties"].append(pid)
    else:
        na.append({"property_id": pid, "reason": na_reasons.get(pid, "engine not built yet (see DESIGN.md section 11); no claim is made")})
try:
    hooks = subprocess.run(["git", "-C", "/repo", "log", "--format=%H %s"], capture_output=True, text=True).stdout.splitlines()
    hook_commits = [l.split()[0] for l in hooks if "verif hook" in l]
except Exception:
    hook_commits = []
man = {
    "version": 1,
    "setup_cmd": "./setup.sh",
    "hooks": {
        "guard": "kaj_rsass_verif",
        "enable": "RUSTFLAGS-equivalent in /verif/harness/.cargo/config.toml: --cfg kaj_rsass_verif --check-cfg cfg(kaj_rsass_verif); the harness crate depends on /repo/rsass by path, so every check rebuilds rsass from /repo's working tree with the hooks on",
        "baseline_off_cmd": "/verif/tools/baseline.sh /repo",
        "source_commits": hook_commits,
        "add_only": True,
    },
    "engines": list(engines.values()),
    "checks": checks,
    "notes": "One TLA+ specification (spec/*.tla) with bounded-exhaustive MC_* configurations and Trace_* trace specs; ./check <ID> quick|thorough runs TLC, replays TLC-generated vectors into the real library (Flow A) and validates recorded executions against the trace specs (Flow B). Known genuine defects are listed in findings.d/*.jsonl. See DESIGN.md.",
    "not_applicable": na,
}
json.dump(man, open(os.path.join(ROOT, "MANIFEST.json"), "w"), indent=1)
print(f"MANIFEST.json: {len(checks)} checks, {len(na)} not claimed")
