#!/bin/bash
# tools/try_fix.sh <patch.diff> <commit-message-file>
# Apply a proposed repair in a scratch worktree of /repo (outside /repo and /verif), run the pinned
# suite there with the guard OFF, and only if the whole baseline still passes apply and commit it in /repo.
set -u
DIFF=$(readlink -f "$1"); MSG=$(readlink -f "$2")
WT=/tmp/wt-lead
if [ ! -d $WT ]; then git -C /repo worktree add --detach $WT HEAD >/dev/null 2>&1 || exit 2; fi
git -C $WT checkout -q -- . ; git -C $WT clean -qfd -e target; git -C $WT checkout -q --detach $(git -C /repo rev-parse HEAD) || exit 2
if ! git -C $WT apply "$DIFF"; then echo "RESULT $(basename $DIFF): does not apply"; exit 1; fi
if /verif/tools/baseline.sh $WT > /tmp/try_fix.$$.log 2>&1; then
  head -1 /tmp/try_fix.$$.log
  if git -C /repo diff --quiet && git -C /repo apply "$DIFF" && git -C /repo commit -qa -F "$MSG"; then
     echo "RESULT $(basename $DIFF): committed $(git -C /repo log -1 --format=%h)"
  else
     echo "RESULT $(basename $DIFF): suite passed but /repo is dirty or patch failed there"; git -C /repo checkout -q -- . ; exit 1
  fi
else
  head -12 /tmp/try_fix.$$.log | grep -v "sample junit"
  echo "RESULT $(basename $DIFF): suite FAILED"
  exit 1
fi
