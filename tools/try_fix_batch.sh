#!/bin/bash
# tools/try_fix_batch.sh <name> ... : apply fix-proposals/<name>.diff of every argument together in the scratch worktree /tmp/wt-lead,
# run the pinned suite ONCE with the guard off, and if the whole baseline still passes commit each patch to /repo as its own
# `fix:` commit (message = the "Commit message:" line of fix-proposals/<name>.md). Nothing is committed if the suite fails.
set -u
WT=/tmp/wt-lead
[ -d $WT ] || git -C /repo worktree add --detach $WT HEAD >/dev/null 2>&1 || exit 2
git -C $WT checkout -q -- . ; git -C $WT clean -qfd -e target; git -C $WT checkout -q --detach $(git -C /repo rev-parse HEAD) || exit 2
for n in "$@"; do
  git -C $WT apply /verif/fix-proposals/$n.diff || { echo "RESULT $n: does not apply (batch aborted)"; exit 1; }
done
if /verif/tools/baseline.sh $WT > /tmp/try_fix_batch.$$.log 2>&1; then
  head -1 /tmp/try_fix_batch.$$.log
  git -C /repo diff --quiet || { echo "RESULT: /repo is dirty"; exit 1; }
  for n in "$@"; do
    msg=$(grep -m1 -i "^commit message:" /verif/fix-proposals/$n.md | sed 's/^[Cc]ommit message: *//; s/^`//; s/`$//')
    [ -n "$msg" ] || msg="fix: $n"
    git -C /repo apply /verif/fix-proposals/$n.diff && git -C /repo commit -qa -m "$msg" && echo "RESULT $n: committed $(git -C /repo log -1 --format=%h)"
  done
else
  head -12 /tmp/try_fix_batch.$$.log | grep -v "sample junit"
  echo "RESULT batch $*: suite FAILED"
  exit 1
fi
