#!/usr/bin/env python3
"""Print a status table from registry.d, evidence/ and findings.d (markdown)."""
import glob, json, os
ROOT = os.path.dirname(os.path.dirname(os.path.abspath(__file__)))
fin = {}
for fn in glob.glob(ROOT + "/findings.d/*.jsonl"):
    for l in open(fn):
        if l.strip() and not l.startswith("#"):
            d = json.loads(l); fin.setdefault(d["property"], []).append(d)
print("| id | engine | level | tier | wall s | cases | distinct | TLC states | validated vs impl | violations | open findings | fixed |")
print("|---|---|---|---|---|---|---|---|---|---|---|---|")
for l in open(ROOT + "/properties.jsonl"):
    p = json.loads(l); pid = p["id"]
    rp = f"{ROOT}/engines/registry.d/{pid}.json"
    if not os.path.exists(rp):
        print(f"| {pid} | - | - | | | | | | | | | |"); continue
    r = json.load(open(rp))
    ep = f"{ROOT}/evidence/{pid}.json"
    e = json.load(open(ep)) if os.path.exists(ep) else None
    c = e["coverage"] if e else {}
    op = [f.get("deviation") or f.get("key") for f in fin.get(pid, []) if f["status"] == "open"]
    fx = [f.get("deviation") or f.get("key") or "-" for f in fin.get(pid, []) if f["status"] == "fixed"]
    print(f"| {pid} | {r.get('engine')} | {r['level']} | {e['tier'] if e else ''} | {e['wall_s'] if e else ''} | {c.get('evaluations','')} | {c.get('distinct_nontrivial','')} | {c.get('states','')} | {c.get('traces_validated_against_impl','')} | {e['violations'] if e else ''} | {', '.join(map(str,op))} | {len(fx)} |")
