#!/bin/bash
# Run the repository's pinned test suite (guard OFF) in a tree (default /repo)
# and compare the passing set with /root/.vp/BASELINE.json's stable_pass.
DIR=${1:-/repo}
cd "$DIR" || exit 2
unset RUSTFLAGS
CARGO_NET_OFFLINE=true cargo nextest run --workspace --no-fail-fast \
   --tool-config-file pb:/w/lib/nextest.toml --profile pb --test-threads 8 --offline >/tmp/baseline.$$.log 2>&1
rc=$?
J=$(find "$DIR/target/nextest/pb" -name junit.xml | head -1)
python3 - "$J" <<'PY'
import json, sys, xml.etree.ElementTree as ET
base = set(json.load(open('/root/.vp/BASELINE.json'))['stable_pass'])
t = ET.parse(sys.argv[1])
passed = set()
failed = set()
for ts in t.getroot().iter('testsuite'):
    suite = ts.get('name')
    for tc in ts.iter('testcase'):
        name = f"{suite.split('::')[0]}::{tc.get('name')}" if False else None
        cls = tc.get('classname')
        full = f"{cls}::{tc.get('name')}"
        bad = any(ch.tag in ('failure', 'error') for ch in tc)
        (failed if bad else passed).add(full)
def norm(s): return s
missing = sorted(base - passed)
print(f"passed={len(passed)} failed={len(failed)} baseline={len(base)} baseline_missing={len(missing)}")
for m in missing[:20]: print("  MISSING", m)
if missing:
    # show a few names from junit to debug naming
    print("  sample junit names:", sorted(passed)[:3])
sys.exit(1 if missing else 0)
PY
r=$?
tail -3 /tmp/baseline.$$.log; rm -f /tmp/baseline.$$.log
exit $r
