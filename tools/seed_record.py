#!/usr/bin/env python3
"""tools/seed_record.py <seed-dir> <key=value>... : add the lead's confirmation / evaluation notes to meta.json"""
import json, sys
d = sys.argv[1]
m = json.load(open(d + "/meta.json"))
for kv in sys.argv[2:]:
    k, v = kv.split("=", 1)
    m.setdefault("lead", {})[k] = v
json.dump(m, open(d + "/meta.json", "w"), indent=1)
