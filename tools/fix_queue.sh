#!/bin/bash
# process fix proposals one after the other: tools/fix_queue.sh name1 name2 ...
cd /verif
for n in "$@"; do
  echo "=== $n $(date +%T)"
  tools/try_fix.sh fix-proposals/$n.diff /tmp/fixq/$n.msg 2>&1 | tail -8
done
echo "QUEUE DONE $(date +%T)"
