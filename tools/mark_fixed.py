#!/usr/bin/env python3
"""tools/mark_fixed.py <deviation-or-key> <commit> : flip matching OPEN findings (in every findings.d file) to fixed."""
import glob, json, sys
name, commit = sys.argv[1], sys.argv[2]
n = 0
for fn in sorted(glob.glob("/verif/findings.d/*.jsonl")):
    out, ch = [], False
    for line in open(fn):
        if not line.strip():
            continue
        if line.startswith("#"):
            out.append(line.rstrip("\n"))
            continue
        d = json.loads(line)
        if d.get("status") == "open" and (d.get("deviation") == name or d.get("key") == name):
            d["status"] = "fixed"; d["commit"] = commit
            d["line"] = f"fixed: property={d['property']} {commit} {d.get('what','')}"
            ch = True; n += 1
        out.append(d)
    if ch:
        open(fn, "w").write("".join((d if isinstance(d, str) else json.dumps(d, ensure_ascii=False)) + "\n" for d in out))
print(f"{name}: {n} finding(s) marked fixed at {commit}")
