#!/bin/bash
# tools/seed_recheck.sh <ID>/<variant> ... : re-run only the property's quick check against a seeded change whose suite/demonstration
# confirmation already exists (a SEEDQ line in /tmp/seedq*.log), e.g. after the check was strengthened.
cd /verif
WT=${SEEDQ_WT:-/tmp/wt-seedq}
[ -d $WT ] || git -C /repo worktree add --detach $WT HEAD >/dev/null 2>&1
for item in "$@"; do
  ID=${item%%/*}; D=$(readlink -f /tmp/seed-$ID-out/${item#*/})
  git -C $WT reset -q --hard; git -C $WT clean -qfd rsass/tests rsass/src rsass-cli/src; git -C $WT checkout -q --detach $(git -C /repo rev-parse HEAD)
  if ! git -C $WT apply "$D/patch.diff" 2>/dev/null && ! git -C $WT apply -3 "$D/patch.diff" 2>/dev/null; then echo "RECHECK $item: patch does not apply to /repo HEAD"; continue; fi
  out=$(VERIF_REPO=$WT timeout 2400 ./check $ID quick 2>&1); rc=$?
  mkdir -p /tmp/seedq-out; echo "$out" | tail -60 > /tmp/seedq-out/$(echo $item | tr / -).log
  v=$(echo "$out" | grep -c "^VIOLATION property=$ID")
  verdict="MISSED(rc=$rc)"; [ $rc -eq 1 ] && [ $v -gt 0 ] && verdict="CAUGHT"
  echo "RECHECK $item: check=$verdict $(echo "$out" | grep -E '^VIOLATION' | head -1 | cut -c1-100)"
done
echo "RECHECK DONE"
