#!/bin/bash
# tools/seed_queue.sh <ID>/<variant-dir> ... : for each seeded change (a directory with patch.diff + demo.sh or seed_*.rs + meta.json,
# written for the scratch tree /tmp/seed-<ID>): in the shared scratch worktree /tmp/wt-seedq apply it, run the pinned suite,
# run the demonstration with and without the change, then run the property's quick check against that tree. One SEEDQ line each.
cd /verif
WT=${SEEDQ_WT:-/tmp/wt-seedq}
[ -d $WT ] || git -C /repo worktree add --detach $WT HEAD >/dev/null 2>&1
for item in "$@"; do
  ID=${item%%/*}; D=$(readlink -f /tmp/seed-$ID-out/${item#*/}); [ -d "$D" ] || D=$(readlink -f "$item")
  git -C $WT reset -q --hard; git -C $WT clean -qfd rsass/tests rsass/src rsass-cli/src; git -C $WT checkout -q --detach $(git -C /repo rev-parse HEAD)
  if ! git -C $WT apply "$D/patch.diff" 2>/dev/null && ! git -C $WT apply -3 "$D/patch.diff" 2>/dev/null; then echo "SEEDQ $item: patch does not apply to /repo HEAD"; continue; fi
  suite=$(/verif/tools/baseline.sh $WT | head -1)
  demo() {
    if [ -f "$D/demo.sh" ]; then sed "s#/tmp/seed-$ID#$WT#g" "$D/demo.sh" > /tmp/seedq-demo-$$.sh; timeout 900 sh /tmp/seedq-demo-$$.sh >/dev/null 2>&1; echo $?
    else t=$(ls "$D"/*.rs | head -1); n=$(basename $t .rs); cp $t $WT/rsass/tests/$n.rs; (cd $WT && timeout 1800 cargo test --offline -p rsass --test $n >/dev/null 2>&1); echo $?; rm -f $WT/rsass/tests/$n.rs; fi
  }
  # (no `git stash`: the stash ref is shared by all worktrees of /repo)
  w=$(demo); git -C $WT reset -q --hard; wo=$(demo); git -C $WT apply "$D/patch.diff" 2>/dev/null || git -C $WT apply -3 "$D/patch.diff"
  out=$(VERIF_REPO=$WT timeout 2400 ./check $ID quick 2>&1); rc=$?
  mkdir -p /tmp/seedq-out; echo "$out" | tail -60 > /tmp/seedq-out/$(echo $item | tr / -).log
  v=$(echo "$out" | grep -c "^VIOLATION property=$ID")
  verdict="MISSED(rc=$rc)"; [ $rc -eq 1 ] && [ $v -gt 0 ] && verdict="CAUGHT"
  echo "SEEDQ $item: suite[$suite] demo with=$w without=$wo check=$verdict $(echo "$out" | grep -E '^TOOL-ERROR' | head -1 | cut -c1-120)"
done
echo "SEEDQ DONE"
