#!/bin/bash
# tools/seed_eval.sh <seed-dir> [check ids...]: apply a seeded change to /repo, run the named quick checks
# (default: the property named in meta.json), report CAUGHT/MISSED per check, and undo the change straight afterwards.
D=$(readlink -f "$1"); shift
cd /verif
if ! git -C /repo diff --quiet; then echo "/repo is dirty, refusing"; exit 2; fi
IDS="$@"
[ -z "$IDS" ] && IDS=$(python3 -c "import json;print(json.load(open('$D/meta.json'))['property'])")
git -C /repo apply "$D/patch.diff" || { echo "patch does not apply"; exit 2; }
trap 'git -C /repo checkout -- . ; git -C /repo clean -qfd rsass/src rsass-cli/src' EXIT
for id in $IDS; do
  out=$(timeout 3600 ./check $id quick 2>&1)
  rc=$?
  v=$(echo "$out" | grep -c "^VIOLATION property=$id")
  if [ $rc -eq 1 ] && [ $v -gt 0 ]; then echo "SEED $(basename $D): $id CAUGHT ($v violation lines)"; echo "$out" | grep "^VIOLATION" | head -2
  else echo "SEED $(basename $D): $id MISSED (rc=$rc)"; echo "$out" | grep -E "TOOL-ERROR" | head -2; fi
done
