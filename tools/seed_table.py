#!/usr/bin/env python3
"""markdown table of /verif/seeded/*: which check catches which seeded change"""
import glob, json, os
print("| seeded change | property | what it breaks (author's words) | needs | verdict of the check |")
print("|---|---|---|---|---|")
for d in sorted(glob.glob("/verif/seeded/*/")):
    try:
        m = json.load(open(d + "meta.json"))
    except Exception:
        continue
    lead = m.get("lead", {})
    conf = lead.get("confirmed", "") + " " + lead.get("check", "")
    verdict = "CAUGHT" if "CAUGHT" in conf else ("MISSED" if "MISSED" in conf else "?")
    note = lead.get("note") or ""
    if "MISSED" in (lead.get("check", "") + note) and verdict == "CAUGHT":
        verdict = "CAUGHT after strengthening"
    print(f"| {os.path.basename(d.rstrip('/'))} | {m.get('property')} | {m.get('breaks','')[:160].replace('|','/')} | {m.get('needs','')[:140].replace('|','/')} | {verdict}{(': ' + note[:160].replace('|','/')) if note else ''} |")
