#!/usr/bin/env python3
"""setup-time self tests: every spec module parses (SANY); binding self-tests for the
trace specs (a corrupted field and a dropped hook event must be rejected)."""
import glob, json, os, subprocess, sys
ROOT = os.path.dirname(os.path.dirname(os.path.abspath(__file__)))
sys.path.insert(0, ROOT)
from vlib import tlc
bad = 0
mods = sorted(glob.glob(os.path.join(ROOT, "spec", "*.tla")))
from concurrent.futures import ThreadPoolExecutor
def chk(m):
    name = os.path.basename(m)[:-4]
    ok, out = tlc.sany(name)
    return name, ok, out
with ThreadPoolExecutor(8) as ex:
    for name, ok, out in ex.map(chk, mods):
        if not ok:
            bad += 1
            print("SANY FAILED", name, out[-1500:])
print(f"sany: {len(mods)} modules, {bad} failed")
# binding self-tests registered by engines: tools/selftests.d/*.py each exposing run() -> bool
sd = os.path.join(ROOT, "tools", "selftests.d")
if os.path.isdir(sd):
    import importlib.util
    for fn in sorted(os.listdir(sd)):
        if fn.endswith(".py"):
            spec = importlib.util.spec_from_file_location(fn[:-3], os.path.join(sd, fn))
            mod = importlib.util.module_from_spec(spec)
            spec.loader.exec_module(mod)
            ok = mod.run()
            print("selftest", fn, "ok" if ok else "FAILED")
            if not ok:
                bad += 1
sys.exit(1 if bad else 0)
