#!/bin/bash
# tools/seed_confirm.sh <ID> : confirm a seeded change in its scratch worktree /tmp/seed-<ID> (patch applied there):
# pinned suite passes with the change; the demonstration fails with it and passes without it.
ID=$1; WT=/tmp/seed-$ID; OUT=/tmp/seed-$ID-out
cd $WT || exit 2
git checkout -q -- . ; git clean -qfd rsass/tests rsass/src rsass-cli/src 2>/dev/null
git apply $OUT/patch.diff || { echo "CONFIRM $ID: patch does not apply"; exit 1; }
/verif/tools/baseline.sh $WT | head -2
demo() {
  if [ -f $OUT/demo.sh ]; then sh $OUT/demo.sh >/dev/null 2>&1; echo $?;
  else t=$(ls $OUT/*.rs | head -1); n=$(basename $t .rs); cp $t rsass/tests/$n.rs; cargo test --offline -p rsass --test $n >/dev/null 2>&1; echo $?; rm -f rsass/tests/$n.rs; fi
}
w=$(demo); git stash -q; wo=$(demo); git stash pop -q
echo "CONFIRM $ID: demo exit with patch=$w without patch=$wo"
