"""Binding self-test for Trace_Selectors: a faithful trace is accepted, the same trace with one
corrupted observation (inner-major order) is rejected at exactly that event."""
import json, os, sys, shutil
ROOT = os.path.dirname(os.path.dirname(os.path.dirname(os.path.abspath(__file__))))
sys.path.insert(0, ROOT)
from vlib import tlc


def ev(toks, rules, case, st="ok"):
    return {"toks": toks, "obs": {"st": st, "rules": [{"sel": s, "d": d} for s, d in rules]}, "case": case, "devs": []}


def run():
    work = os.path.join(ROOT, "work", "selftest-selectors")
    os.makedirs(work, exist_ok=True)
    good = [ev(["a", ",", "b", "{", "c", ",", "&", "-x"], [(["a", "b"], "p1"), (["a c", "a-x", "b c", "b-x"], "p2")], 0),
            ev(["a", ",", "%p", "sp", "b", "{", ":not(", "&", ")"], [(["a"], "p1"), ([":not(a)"], "p2")], 1),
            ev(["a", ">", "b", "{", "+", "c"], [(["a > b"], "p1"), (["a > b + c"], "p2")], 2)]
    bad = [dict(e) for e in good]
    bad[0] = ev(good[0]["toks"], [(["a", "b"], "p1"), (["a c", "b c", "a-x", "b-x"], "p2")], 0)     # inner-major
    res = []
    for name, evs in (("good", good), ("bad", bad)):
        p = os.path.join(work, name + ".ndjson")
        with open(p, "w") as f:
            for e in evs:
                f.write(json.dumps(e) + "\n")
        r = tlc.validate_trace("Trace_Selectors", "Trace_Selectors.cfg", p, work, timeout=120)
        res.append((r["accepted"], r["unmatched"]))
    shutil.rmtree(work, ignore_errors=True)
    return res[0] == (True, None) and res[1] == (False, 1)
