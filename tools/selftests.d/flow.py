"""Binding self-test for Trace_Flow: a faithful hand-written trace is accepted, the same trace with one
corrupted observation (an off-by-one @for) is rejected at exactly that event."""
import json, os, sys
ROOT = os.path.dirname(os.path.dirname(os.path.dirname(os.path.abspath(__file__))))
sys.path.insert(0, ROOT)
from vlib import tlc

def ev(inp, k, out, case):
    return {"inp": inp, "obs": {"k": k, "out": out}, "case": case, "devs": []}

def run():
    work = os.path.join(ROOT, "work", "selftest-flow")
    os.makedirs(work, exist_ok=True)
    f = {"kind": "for", "ctx": "top", "a": 3, "ua": "in", "b": 96, "ub": "px", "incl": 0}       # from 3in to 96px -> 3in 2in
    i = {"kind": "if", "ctx": "fn", "conds": ["null", "0", "true"], "else": 1, "ncond": "-"}                   # 0 is truthy -> branch 2
    e = {"kind": "each", "ctx": "mixin", "n": 2, "shape": "comma", "isep": "space", "items": [3, 0]}   # (a11 a12 a13, a2)
    w = {"kind": "while", "ctx": "top", "conds": ["str_empty", "()", "null"]}
    # @if null {1} @else { @if false {3} @else {4} 2 }  -> the whole @else block runs: 4 then 2
    n = {"kind": "if", "ctx": "mixin", "conds": ["null"], "else": 3, "ncond": "false"}
    x = {"kind": "for", "ctx": "top", "a": 1, "ua": "px", "b": 3, "ub": "s", "incl": 1}          # incompatible -> error
    good = [ev(f, "ok", [{"n": 3, "u": "in"}, {"n": 2, "u": "in"}], 0), ev(i, "ok", [2], 1),
            ev(e, "ok", [[["a11"], ["a12"]], [["a2"], ["null"]]], 2), ev(w, "ok", [1, 2], 3), ev(x, "err", [], 4), ev(n, "ok", [4, 2], 5)]
    bad = [dict(g) for g in good]
    bad[0] = ev(f, "ok", [{"n": 3, "u": "in"}, {"n": 2, "u": "in"}, {"n": 1, "u": "in"}], 0)     # `to` treated like `through`
    res = []
    for name, evs in (("good", good), ("bad", bad)):
        p = os.path.join(work, name + ".ndjson")
        with open(p, "w") as fh:
            for g in evs:
                fh.write(json.dumps(g) + "\n")
        r = tlc.validate_trace("Trace_Flow", "Trace_Flow.cfg", p, work, timeout=120)
        res.append((r["accepted"], r["unmatched"]))
    import shutil; shutil.rmtree(work, ignore_errors=True)
    return res[0] == (True, None) and res[1] == (False, 1)
