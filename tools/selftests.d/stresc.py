"""Binding self-test for Trace_StrEsc: events whose emitted tokens denote the literal's content (in any escape spelling)
are accepted; an event whose emitted token denotes another string (a hex escape swallowed the following space) is rejected
at that event; an observation that only the deviation model explains is accepted only when the deviation is listed."""
import json, os, sys
ROOT = os.path.dirname(os.path.dirname(os.path.dirname(os.path.abspath(__file__))))
sys.path.insert(0, ROOT)
from vlib import tlc

def cps(s): return [ord(c) for c in s]
def ev(case, lit, emit, ln, interp, qu, eq, devs=()):
    return dict(lit=cps(lit), obs=dict(emit=cps(emit), len=ln, interp=cps(interp), qu=cps(qu), eq=eq), case=case, devs=list(devs))

def run():
    work = os.path.join(ROOT, "work", "selftest-stresc")
    os.makedirs(work, exist_ok=True)
    good = [
        ev(0, '"a\\62 c"', '"abc"', 3, "'abc'", '"\\61 bc"', 1),                      # any spelling of the same content is fine
        ev(1, "'\\e9 \\\"x'", '"é\\"x"', 3, '"\\e9\\22x"', "'é\"x'", 1),
        ev(2, '"\\\\"', '"\\\\"', 2, '"\\\\"', '"\\\\"', 1, devs=["quoted_stored_escaped"]),   # length 2 for one backslash: the known deviation
        ev(3, '"\\7f"', '"\\7f"', 3, '"U"', '"U"', 0, devs=["quoted_stored_escaped", "unquote_hex_as_decimal"]),
    ]
    bad = [dict(e) for e in good]
    bad[1] = ev(1, "'\\e9 \\\"x'", '"\\e9\\"x"', 3, '"\\e9\\22x"', "'é\"x'", 1)     # \e9\" is fine, but make it wrong:
    bad[1]["obs"]["emit"] = cps('"\\e9 \\"')                                               # the x is lost
    nodev = [dict(e) for e in good]
    nodev[3] = dict(good[3], devs=["quoted_stored_escaped"])                                 # decimal decoding not listed
    res = []
    for name, evs in (("good", good), ("bad", bad), ("nodev", nodev)):
        p = os.path.join(work, name + ".ndjson")
        with open(p, "w") as f:
            for e in evs:
                f.write(json.dumps(e) + "\n")
        r = tlc.validate_trace("Trace_StrEsc", "Trace_StrEsc.cfg", p, work, timeout=120)
        res.append((r["accepted"], r["unmatched"]))
    import shutil; shutil.rmtree(work, ignore_errors=True)
    return res == [(True, None), (False, 2), (False, 4)]
