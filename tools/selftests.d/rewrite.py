"""Binding self-test for Trace_Rewrite: a faithful trace of (original, rewritten) outcomes is accepted; the same
trace with one rewritten output differing by a byte is rejected at exactly that event."""
import json, os, sys
ROOT = os.path.dirname(os.path.dirname(os.path.dirname(os.path.abspath(__file__))))
sys.path.insert(0, ROOT)
from vlib import tlc

def ev(kind, rws, o, c, case, expect=None, shape=None):
    exp = expect or {"err": 0, "out": []}
    return {"kind": kind, "omain": [], "cmain": [], "cpart": [], "triv": [{"g": 1, "k": "ws"}], "rws": rws, "expect": exp,
            "shape": shape or exp, "o": o, "c": c, "case": case, "devs": []}

def ok(t): return {"k": "ok", "v": t}
ERR = {"k": "err", "v": ""}
S = {"err": 0, "out": [{"sel": "a", "decls": [{"p": "c", "v": ["a"]}]}]}

def run():
    work = os.path.join(ROOT, "work", "selftest-rewrite")
    os.makedirs(work, exist_ok=True)
    good = [ev("model", ["RenameVar"], ok("a {\n  c: a;\n}\n"), ok("a {\n  c: a;\n}\n"), 0, S),
            ev("model", ["SwapSep", "InsertCmt"], ERR, ERR, 1, {"err": 1, "out": []}),
            ev("corpus", ["InsertWs"], ok("x {\n  y: z;\n}\n"), ok("x {\n  y: z;\n}\n"), 2)]
    bad = [dict(e) for e in good]
    bad[2] = ev("corpus", ["InsertWs"], ok("x {\n  y: z;\n}\n"), ok("x {\n  y: z ;\n}\n"), 2)
    res = []
    for name, evs in (("good", good), ("bad", bad)):
        p = os.path.join(work, name + ".ndjson")
        with open(p, "w") as f:
            for e in evs:
                f.write(json.dumps(e) + "\n")
        r = tlc.validate_trace("Trace_Rewrite", "Trace_Rewrite.cfg", p, work, timeout=120)
        res.append((r["accepted"], r["unmatched"]))
    import shutil; shutil.rmtree(work, ignore_errors=True)
    return res == [(True, None), (False, 3)]
