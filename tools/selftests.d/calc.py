"""Binding self-test for Trace_Calc: faithful hand-written observations are accepted; an output with dropped
parentheses, a min() that picked the wrong operand, a sign error and a bare product outside calc() are each
unexplained (lenient run lists exactly them) and a strict run rejects at the first of them.  Needs no rsass."""
import json, os, re, shutil, sys
ROOT = os.path.dirname(os.path.dirname(os.path.dirname(os.path.abspath(__file__))))
sys.path.insert(0, ROOT)
from vlib import tlc


def T(k, n=0, d=1, u=""):
    return {"k": k, "n": n, "d": d, "u": u}


def out(*xs):
    m = {"(": T("lp"), ")": T("rp"), ",": T("comma")}
    r = []
    for x in xs:
        if isinstance(x, tuple):
            r.append(T("num", x[0], x[1], x[2]))
        elif x in m:
            r.append(m[x])
        elif x in "+-*/":
            r.append(T("op", u=x))
        elif x.endswith("("):
            r.append(T("fn", u=x[:-1]))
        else:
            r.append(T("atom", u=x))
    return r


def ev(case, toks, st, o):
    return {"case": case, "devs": [], "toks": toks, "st": st, "out": o}


def run():
    from concurrent.futures import ThreadPoolExecutor
    work = os.path.join(ROOT, "work", "selftest-calc")
    os.makedirs(work, exist_ok=True)
    good = [
        ev(0, ["calc(", "1px", "+", "1in", ")"], "ok", out((97, 1, "px"))),
        ev(1, ["calc(", "1px", "+", "1in", ")"], "ok", out((10104167, 10000000, "in"))),           # the same length in inches
        ev(2, ["calc(", "(", "1px", "+", "2em", ")", "*", "3", ")"], "ok", out("calc(", (3, 1, "px"), "+", (6, 1, "em"), ")")),
        ev(3, ["calc(", "(", "1px", "+", "2em", ")", "*", "3", ")"], "ok", out("calc(", "(", (1, 1, "px"), "+", (2, 1, "em"), ")", "*", (3, 1, ""), ")")),
        ev(4, ["min(", "1px", ",", "1in", ")"], "ok", out((1, 1, "px"))),
        ev(5, ["min(", "1px", ",", "2em", ")"], "ok", out("min(", (1, 1, "px"), ",", (2, 1, "em"), ")")),
        ev(6, ["calc(", "1px", "*", "2px", ")"], "err", []),                                         # px*px: no CSS value
        ev(7, ["calc(", "1px", "+", "3", ")"], "ok", out((4, 1, "px"))),                             # unitless + px: not constrained
        ev(8, ["calc(", "2em", "-", "(", "var(--a)", "-", "1px", ")", ")"], "ok",
           out("calc(", (2, 1, "em"), "-", "(", "var(--a)", "-", (1, 1, "px"), ")", ")")),
        ev(9, ["calc(", "2em", "/", "3", ")"], "ok", out((6666667, 10000000, "em"))),
    ]
    bad = json.loads(json.dumps(good))
    bad[3]["out"] = out("calc(", (1, 1, "px"), "+", (2, 1, "em"), "*", (3, 1, ""), ")")          # parentheses dropped
    bad[4]["out"] = out((1, 1, "in"))                                                                # min picked the larger operand
    bad[8]["out"] = out("calc(", (2, 1, "em"), "-", "var(--a)", "-", (1, 1, "px"), ")")              # a - (b - c) printed as a - b - c
    bad[0]["out"] = out((97, 1, "px"), "*", (1, 1, ""))                                              # not a calculation
    bad[5]["st"], bad[5]["out"] = "ok", out((1, 1, "px"))                                            # incomparable min() decided
    corrupted = {0, 3, 4, 5, 8}
    late = json.loads(json.dumps(good))
    late[8]["out"] = bad[8]["out"]

    def go(job):
        name, evs, env = job
        p = os.path.join(work, name + ".ndjson")
        with open(p, "w") as f:
            for e in evs:
                f.write(json.dumps(e) + "\n")
        return tlc.validate_trace("Trace_Calc", "Trace_Calc.cfg", p, os.path.join(work, name), timeout=200, env=env)
    with ThreadPoolExecutor(3) as ex:
        rg, rl, rb = ex.map(go, [("good", good, None), ("late", late, None), ("bad", bad, {"LENIENT": "1"})])
    ok = True
    if (rg["accepted"], rg["unmatched"]) != (True, None):
        print("selftest calc: faithful trace not accepted", rg["unmatched"])
        ok = False
    if (rl["accepted"], rl["unmatched"]) != (False, 9):
        print("selftest calc: corrupted event not rejected at its position", rl["accepted"], rl["unmatched"])
        ok = False
    seen = set()
    for m in rb["msgs"]:
        mm = re.search(r'unexplained\W+(\d+)', m)
        if mm:
            seen.add(int(mm.group(1)))
    if seen != corrupted:
        print("selftest calc: unexplained events", sorted(seen), "expected", sorted(corrupted))
        ok = False
    shutil.rmtree(work, ignore_errors=True)
    return ok
