"""Binding self-test for Trace_Modules: a faithful trace is accepted, the same trace with one
corrupted observation is rejected at exactly that event."""
import json, os, sys
ROOT = os.path.dirname(os.path.dirname(os.path.dirname(os.path.abspath(__file__))))
sys.path.insert(0, ROOT)
from vlib import tlc

def use(t, as_="def", cfg=(), sp="plain"):
    return {"k": "use", "t": t, "sp": sp, "as": as_, "cfg": [{"n": n, "v": v} for n, v in cfg]}

def fwd(t, vis="all", lst=(), pre=0):
    return {"k": "fwd", "t": t, "sp": "plain", "vis": vis, "list": [{"c": c, "pre": p, "n": n} for c, p, n in lst], "pre": pre, "cfg": []}

def get(ns, kind, n, pre=0):
    return {"k": "get", "ns": ns, "kind": kind, "pre": pre, "n": n}

def ev(r, m, acc, k, v, case):
    return {"r": r, "m": m, "acc": acc, "obs": {"k": k, "v": v}, "case": case, "devs": []}

def run():
    work = os.path.join(ROOT, "work", "selftest-modules")
    os.makedirs(work, exist_ok=True)
    good = [ev([use("a", cfg=[("d", "c1")])], [], get("a", "fn", "f"), "val", ["af", "c1"], 0),
            ev([use("a", cfg=[("p", "c1")])], [], get("a", "var", "p"), "err", [], 1),            # not !default: error
            ev([use("m")], [fwd("a", "hide", [("fun", 1, "f")], 1)], get("m", "fn", "f", 1), "err", [], 2),
            ev([use("a", sp="us")], [], get("a", "var", "d"), "val", ["ad"], 3),
            ev([use("a")], [], get("", "var", "d"), "err", [], 4)]
    bad = [dict(e) for e in good]
    bad[2] = ev([use("m")], [fwd("a", "hide", [("fun", 1, "f")], 1)], get("m", "fn", "f", 1), "val", ["af", "ad"], 2)  # what fwd_prefix_filter_swapped yields
    res = []
    for name, evs in (("good", good), ("bad", bad)):
        p = os.path.join(work, name + ".ndjson")
        with open(p, "w") as f:
            for e in evs:
                f.write(json.dumps(e) + "\n")
        r = tlc.validate_trace("Trace_Modules", "Trace_Modules.cfg", p, work, timeout=120)
        res.append((r["accepted"], r["unmatched"]))
    import shutil; shutil.rmtree(work, ignore_errors=True)
    return res[0] == (True, None) and res[1] == (False, 3)
