"""Binding self-test for Trace_Forms: a faithful observation trace is accepted; one with a single form
disagreeing (what a wrong expose() entry yields) is rejected at exactly that event; an observation
whose form set is not the table's is rejected too."""
import json, os, sys
ROOT = os.path.dirname(os.path.dirname(os.path.dirname(os.path.abspath(__file__))))
sys.path.insert(0, ROOT)
from vlib import tlc

F1 = ["cg_named", "cg_pos", "cm_named", "cm_pos", "g_named", "g_pos", "m_named", "m_pos"]
F2 = F1 + ["cg_mixed", "cm_mixed", "g_mixed", "m_mixed"]

def ev(row, g, mod, f, params, args, forms, val, case, over=None):
    res = {x: {"k": "val", "v": val} for x in forms}
    res.update(over or {})
    return {"row": row, "g": g, "mod": mod, "f": f, "params": params, "args": args, "forms": sorted(forms), "res": res, "case": case, "devs": []}

def run():
    work = os.path.join(ROOT, "work", "selftest-forms")
    os.makedirs(work, exist_ok=True)
    good = [ev(3, "str-length", "string", "length", ["string"], ["s_abc"], F1, "3", 0),
            ev(18, "map-get", "map", "get", ["map", "key"], ["m_ab", "u_a"], F2, "1", 1),
            ev(12, "nth", "list", "nth", ["list", "n"], ["l_abc", "n_9"], F2, "", 2, {x: {"k": "err", "v": ""} for x in F2})]
    bad = [dict(e) for e in good]
    bad[1] = ev(18, "map-get", "map", "get", ["map", "key"], ["m_ab", "u_a"], F2, "1", 1, {"g_named": {"k": "err", "v": ""}})
    bad2 = [dict(e) for e in good]
    bad2[0] = ev(3, "str-length", "string", "length", ["string"], ["s_abc"], F1[:-1], "3", 0)    # a form was dropped
    res = []
    for name, evs in (("good", good + [bad[1], bad2[0]][:0]), ("bad", [good[0], bad[1], bad2[0]])):
        p = os.path.join(work, name + ".ndjson")
        with open(p, "w") as f:
            for e in evs:
                f.write(json.dumps(e) + "\n")
        r = tlc.validate_trace("Trace_Forms", "Trace_Forms.cfg", p, work, timeout=120)
        res.append((r["accepted"], r["unmatched"]))
    import shutil; shutil.rmtree(work, ignore_errors=True)
    # the bad trace: event 1 faithful, event 2 has one disagreeing form (the law), event 3 a dropped form (binding)
    return res == [(True, None), (False, 2)]
