"""Binding self-test for Trace_Cli: faithful invocations are accepted, one whose stdout is not the
concatenation of the library outputs is rejected at that event."""
import json, os, shutil, sys
ROOT = os.path.dirname(os.path.dirname(os.path.dirname(os.path.abspath(__file__))))
sys.path.insert(0, ROOT)
from vlib import tlc

def run():
    work = os.path.join(ROOT, "work", "selftest-cli")
    os.makedirs(work, exist_ok=True)
    e1 = {"ev": "Run", "case": 0, "files": ["bad"], "layout": "dir", "lib": [{"ok": 0, "out": ""}], "obs": {"exit": 1, "stdout": "", "err_prefix": 1}}
    e2 = {"ev": "Run", "case": 1, "files": ["plain", "dep"], "layout": "lp", "lib": [{"ok": 1, "out": "a\n"}, {"ok": 1, "out": "b\n"}],
          "obs": {"exit": 0, "stdout": "a\nb\n", "err_prefix": 0}}
    e3 = dict(e2, case=2, obs={"exit": 0, "stdout": "a\nB\n", "err_prefix": 0})
    res = []
    for name, evs in (("good", [e1, e2, e1]), ("bad", [e1, e2, e3, e1])):
        p = os.path.join(work, name + ".ndjson")
        open(p, "w").write("".join(json.dumps(e) + "\n" for e in evs))
        r = tlc.validate_trace("Trace_Cli", "Trace_Cli.cfg", p, work, timeout=120)
        res.append((r["accepted"], r["unmatched"]))
    shutil.rmtree(work, ignore_errors=True)
    return res == [(True, None), (False, 3)]
