"""Binding self-test for Trace_Bind: a faithful hand-written trace (binding events and a closure program)
is accepted, the same trace with one corrupted observation (a default evaluated in the caller's scope)
is rejected at exactly that event; a listed deviation is accepted and reported."""
import json, os, sys
ROOT = os.path.dirname(os.path.dirname(os.path.dirname(os.path.abspath(__file__))))
sys.path.insert(0, ROOT)
from vlib import tlc

def B(defs, rest, npos, named, ps="none", mnamed=(), ctx="mixin"):
    return {"kind": "bind", "ctx": ctx, "defs": defs, "rest": rest, "npos": npos, "named": named, "mnamed": list(mnamed), "psplat": ps}

def ev(inp, k, ps, rest, kw, case, devs=()):
    return {"t": "bind", "inp": inp, "obs": {"k": k, "ps": ps, "rest": rest, "kw": kw}, "case": case, "devs": list(devs)}

def run():
    work = os.path.join(ROOT, "work", "selftest-bind")
    os.makedirs(work, exist_ok=True)
    e0 = ev(B(["req", "const", "ref1"], 0, 1, ["b_x"]), "ok", [11, 26, 11], [], [], 0)         # m(11, $b_x: 26) -> c defaults to $a
    e1 = ev(B(["req", "glob"], 1, 3, ["z"], ctx="function"), "ok", [11, 12], [13], [{"n": "z", "v": 29}], 1)
    e2 = ev(B(["glob"], 0, 0, []), "ok", [40], [], [], 2)                                         # default sees the definition site
    e3 = ev(B(["req"], 0, 2, []), "err", [], [], [], 3)                                           # too many
    e4 = {"t": "bind", "inp": {"kind": "ret", "ctx": "function", "items": ["iff", "each2", "ret"]},
          "obs": {"k": "ok", "ps": [52], "rest": [], "kw": []}, "case": 4, "devs": []}
    # $x: 11; a { $x: 13; @include gm { read x } }  with gm defined at top level -> 11 (definition site), not 13
    prog = [{"op": "asg", "var": "x", "arg": "none"}, {"op": "open", "var": "-", "arg": "rule"}, {"op": "asg", "var": "x", "arg": "none"},
            {"op": "open", "var": "-", "arg": "mixin"}, {"op": "read", "var": "x", "arg": "-"}, {"op": "close", "var": "-", "arg": "-"},
            {"op": "close", "var": "-", "arg": "-"}]
    e5 = {"t": "scope", "prog": prog, "obs": {"k": "ok", "reads": [11]}, "case": 5, "devs": []}
    e6 = ev(B(["req"], 1, 1, ["a"]), "ok", [11], [], [{"n": "a", "v": 21}], 6, devs=["rest_takes_dup_named"])   # listed deviation
    # m($b-x: $c, $c: 33) called with ($c: 23): the default of b-x sees the definition-site $c (43), not the argument
    e7 = ev(B(["req", "next", "const"], 0, 1, ["c"]), "ok", [11, 43, 23], [], [], 7)
    # f($a: 21, (a: 61, z: 69)...) with a rest parameter: a is passed once (either value), keywords = (z: 69)
    e8 = ev(B(["req"], 1, 0, ["a"], mnamed=["a", "z"]), "ok", [21], [], [{"n": "z", "v": 69}], 8)
    good = [e0, e1, e2, e3, e4, e5, e6, e7, e8]
    bad = [json.loads(json.dumps(e)) for e in good]
    bad[2]["obs"]["ps"] = [41]                                                                   # caller's $g
    bad2 = [json.loads(json.dumps(e)) for e in good]
    bad2[5]["obs"]["reads"] = [13]                                                               # dynamic scoping
    bad3 = [json.loads(json.dumps(e)) for e in good]
    bad3[7]["obs"]["ps"] = [11, 23, 23]                                                          # named arguments bound before defaults
    bad3[8]["obs"]["kw"] = [{"n": "a", "v": 61}, {"n": "z", "v": 69}]                            # the overlapping name passed twice
    res = []
    for name, evs in (("good", good), ("bad", bad), ("bad2", bad2), ("bad3", bad3)):
        p = os.path.join(work, name + ".ndjson")
        with open(p, "w") as f:
            for e in evs:
                f.write(json.dumps(e) + "\n")
        r = tlc.validate_trace("Trace_Bind", "Trace_Bind.cfg", p, work, timeout=120)
        res.append((r["accepted"], r["unmatched"], any('"KNOWN", "rest_takes_dup_named"' in m for m in r["msgs"])))
    import shutil; shutil.rmtree(work, ignore_errors=True)
    return (res[0] == (True, None, True) and res[1][:2] == (False, 3) and res[2][:2] == (False, 6)
            and res[3][:2] == (False, 8))
