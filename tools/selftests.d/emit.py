"""Binding self-test for Trace_Emit: a faithful trace is accepted; the same trace with the selector copy
missing inside @media is rejected at exactly that event."""
import json, os, sys, shutil
ROOT = os.path.dirname(os.path.dirname(os.path.dirname(os.path.abspath(__file__))))
sys.path.insert(0, ROOT)
from vlib import tlc


def S(k, *s):
    return {"k": k, "s": list(s)}


def run():
    work = os.path.join(ROOT, "work", "selftest-emit")
    os.makedirs(work, exist_ok=True)
    p1 = [S("rule", "a"), S("decl", "d1"), S("media", "m"), S("decl", "d2"), S("close"), S("decl", "d3"), S("rule", "b"), S("decl", "d4"), S("close"), S("close")]
    o1 = [{"path": ["a"], "d": "d1"}, {"path": ["@media m", "a"], "d": "d2"}, {"path": ["a"], "d": "d3"}, {"path": ["a b"], "d": "d4"}]
    p2 = [S("media", "m"), S("rule", "a"), S("decl", "d1"), S("atroot", "b"), S("decl", "d2"), S("close"), S("close"), S("close")]
    o2 = [{"path": ["@media m", "a"], "d": "d1"}, {"path": ["@media m", "b"], "d": "d2"}]
    good = [{"prog": p1, "obs": o1, "case": 0, "devs": []}, {"prog": p2, "obs": o2, "case": 1, "devs": []}]
    bad = [dict(e) for e in good]
    bad[0] = dict(good[0], obs=[o1[0], {"path": ["@media m"], "d": "d2"}, o1[2], o1[3]])     # selector copy missing
    res = []
    for name, evs in (("good", good), ("bad", bad)):
        p = os.path.join(work, name + ".ndjson")
        with open(p, "w") as f:
            for e in evs:
                f.write(json.dumps(e) + "\n")
        r = tlc.validate_trace("Trace_Emit", "Trace_Emit.cfg", p, work, timeout=120)
        res.append((r["accepted"], r["unmatched"]))
    shutil.rmtree(work, ignore_errors=True)
    return res[0] == (True, None) and res[1] == (False, 1)
