"""Binding self-test for Trace_Entry: a faithful history of entry-point calls is accepted; the same history in which
compile_scss_path ignored the precision (one differing output) is rejected at exactly that call."""
import json, os, sys
ROOT = os.path.dirname(os.path.dirname(os.path.dirname(os.path.abspath(__file__))))
sys.path.insert(0, ROOT)
from vlib import tlc

def ok(t): return {"k": "ok", "v": t}
def begin(kind, style, prec, case): return {"ev": "Begin", "inp": {"kind": kind, "style": style, "prec": prec, "bytes": "bom" if case == 0 else "plain"}, "case": case}
def call(entry, res, case): return {"ev": "Call", "entry": entry, "res": res, "case": case}

def run():
    work = os.path.join(ROOT, "work", "selftest-entry")
    os.makedirs(work, exist_ok=True)
    css = "a {\n  w: 0.33333;\n}\n"
    good = [begin("prog", "expanded", 5, 0)] + [call(e, ok(css), 0) for e in ("scss", "mem", "fs", "path")] + \
           [begin("value", "compressed", 5, 1), call("scss", ok("x{y:.33333}\n"), 1), call("mem", ok("x{y:.33333}\n"), 1), call("value", ok(".33333"), 1)] + \
           [begin("value", "expanded", 5, 2), call("scss", {"k": "err", "v": ""}, 2), call("value", ok("(a: b)"), 2)]     # not valid CSS: unconstrained
    bad = [dict(e) for e in good]
    bad[4] = call("path", ok("a {\n  w: 0.3333333333;\n}\n"), 0)
    res = []
    for name, evs in (("good", good), ("bad", bad)):
        p = os.path.join(work, name + ".ndjson")
        with open(p, "w") as f:
            for e in evs:
                f.write(json.dumps(e) + "\n")
        r = tlc.validate_trace("Trace_Entry", "Trace_Entry.cfg", p, work, timeout=120)
        res.append((r["accepted"], r["unmatched"]))
    import shutil; shutil.rmtree(work, ignore_errors=True)
    return res == [(True, None), (False, 5)]
