"""Binding self-test for Trace_Framing (C07): well-framed hand-written token streams are accepted; a stream with one
framing fault is rejected at exactly that event (and the byte tokenizer produces the expected classes)."""
import json, os, sys
ROOT = os.path.dirname(os.path.dirname(os.path.dirname(os.path.abspath(__file__))))
sys.path.insert(0, ROOT)
from vlib import tlc
from engines import csstok


def ev(case, style, text, devs=()):
    return {"case": case, "style": style, "toks": csstok.frame_tokens(text), "devs": list(devs), "smarks": []}


def run():
    work = os.path.join(ROOT, "work", "selftest-framing")
    os.makedirs(work, exist_ok=True)
    good = [ev(0, "expanded", "a {\n  b: c;\n}\n"),
            ev(1, "compressed", "a{b:c}@media x{d{e:f}}\n"),
            ev(2, "expanded", '@charset "UTF-8";\na {\n  b: "é";\n}\n\n/* x\n y */\n'),
            ev(3, "compressed", '\ufeffa{b:"é";--c: {x\n y}}\n'),
            ev(4, "expanded", ""),
            ev(5, "expanded", 'a {\n  b: url(x\\).png) "}" [c d];\n}\n')]
    toks = [t["c"] for t in good[2]["toks"]]
    tok_ok = toks[:3] == ["charset_mark", "newline", "other"] and "string" in toks and "comment" in toks and \
        [t["c"] for t in good[3]["toks"]][0] == "bom" and any(t["c"] == "customprop_value" and t["f"] == 2 for t in good[3]["toks"])
    bads = {
        "no_final_newline": ev(2, "expanded", "a {\n  b: c;\n}"),
        "two_final_newlines": ev(2, "expanded", "a {\n  b: c;\n}\n\n"),
        "missing_close": ev(2, "expanded", "a {\n  b: c;\n\n"),
        "bom_on_ascii": ev(2, "compressed", "\ufeffa{b:c}\n"),
        "no_marker": ev(2, "expanded", 'a {\n  b: "é";\n}\n'),
        "wrong_marker": ev(2, "compressed", '@charset "UTF-8";\na{b:"é"}\n'),
        "newline_in_compressed": ev(2, "compressed", "a{b:c}\nd{e:f}\n"),
        "newline_in_prelude_no_dev": ev(2, "compressed", "@supports (a b\n){c{d:e}}\n"),
        "newline_outside_scope_of_dev": ev(2, "compressed", "@supports (a b\n){c{d:\ne}}\n", devs=["atrule_prelude_newline"]),
    }
    # run 1 (production trace spec): a fault at event 3 is reported as UNMATCHED 3
    # run 2 (Self_Framing: expect per event): every good / known event accepted, every faulty one rejected
    def write(name, evs):
        p = os.path.join(work, name + ".ndjson")
        with open(p, "w") as f:
            for e in evs:
                f.write(json.dumps(e) + "\n")
        return p
    r1 = tlc.validate_trace("Trace_Framing", "Trace_Framing.cfg", write("bad", good[:2] + [bads["no_final_newline"]] + good[3:]), work, timeout=120)
    allev = [dict(e, expect="accept") for e in good]
    allev.append(dict(ev(2, "compressed", "@supports (a b\n){c{d:e}}\n", devs=["atrule_prelude_newline"]), expect="accept"))
    allev += [dict(b, expect="reject") for b in bads.values()]
    r2 = tlc.validate_trace("Self_Framing", "Self_Framing.cfg", write("all", allev), work, timeout=120)
    # the expectations themselves are not vacuous: flipping one makes the run fail at that event
    flipped = list(allev); flipped[len(good) + 2] = dict(flipped[len(good) + 2], expect="accept")
    r3 = tlc.validate_trace("Self_Framing", "Self_Framing.cfg", write("flip", flipped), work, timeout=120)
    res = [(r1["accepted"], r1["unmatched"]), (r2["accepted"], r2["unmatched"]), (r3["accepted"], r3["unmatched"])]
    import shutil; shutil.rmtree(work, ignore_errors=True)
    ok = tok_ok and res == [(False, 3), (True, None), (False, len(good) + 3)]
    if not ok:
        print("framing selftest:", tok_ok, res)
    return ok
