"""Binding self-test for Trace_Reach: faithful C36 and C21 events are accepted; a dropped loop comment (C36)
and a silently missing marker (C21) are rejected at exactly those events."""
import json, os, sys, shutil
ROOT = os.path.dirname(os.path.dirname(os.path.dirname(os.path.abspath(__file__))))
sys.path.insert(0, ROOT)
from vlib import tlc


def S(k, i=0):
    return {"k": k, "id": i}


def run():
    work = os.path.join(ROOT, "work", "selftest-reach")
    os.makedirs(work, exist_ok=True)
    p1 = [S("rule", 1), S("each2", 2), S("loud", 3), S("close"), S("bang", 4), S("silent", 5), S("close")]
    p2 = [S("rule", 1), S("nsprop", 2), S("decl", 3), S("close"), S("if0", 4), S("error", 5), S("close"), S("close")]
    p3 = [S("mixin", 1), S("error", 2), S("close")]
    good = [
        {"prog": p1, "style": "expanded", "mode": "c36", "obs": {"st": "ok", "comments": ["c3-1", "c3-2", "! c4"]}, "case": 0, "devs": []},
        {"prog": p1, "style": "compressed", "mode": "c36", "obs": {"st": "ok", "comments": ["! c4"]}, "case": 1, "devs": []},
        {"prog": p2, "style": "expanded", "mode": "c21", "obs": {"st": "ok", "present": ["m3"]}, "case": 2, "devs": []},
        {"prog": p3, "style": "expanded", "mode": "c21", "obs": {"st": "err", "present": []}, "case": 3, "devs": []},
    ]
    bad = [dict(e) for e in good]
    bad[0] = dict(good[0], obs={"st": "ok", "comments": ["c3-1", "! c4"]})      # second loop iteration's comment lost
    bad2 = [dict(e) for e in good]
    bad2[2] = dict(good[2], obs={"st": "ok", "present": []})                      # marker silently dropped
    bad3 = [dict(e) for e in good]
    bad3[3] = dict(good[3], obs={"st": "ok", "present": []})                      # reached @error swallowed
    res = []
    for name, evs in (("good", good), ("bad", bad), ("bad2", bad2), ("bad3", bad3)):
        p = os.path.join(work, name + ".ndjson")
        with open(p, "w") as f:
            for e in evs:
                f.write(json.dumps(e) + "\n")
        r = tlc.validate_trace("Trace_Reach", "Trace_Reach.cfg", p, work, timeout=120)
        res.append((r["accepted"], r["unmatched"]))
    shutil.rmtree(work, ignore_errors=True)
    return res == [(True, None), (False, 1), (False, 3), (False, 4)]
