"""Binding self-test for Trace_RoundTrip (C09): faithful round trips are accepted (also with blank lines removed), a
re-read that changed a code point, failed, or lost a line is rejected at exactly that event; a deviation explains only
what lies in its scope."""
import json, os, sys
ROOT = os.path.dirname(os.path.dirname(os.path.dirname(os.path.abspath(__file__))))
sys.path.insert(0, ROOT)
from vlib import tlc
from engines import csstok


def res(st, text=""):
    return {"st": st, "lines": csstok.lines(text) if st == "ok" else []}


def ev(case, items, r1, r2, devs=()):
    return {"case": case, "items": items, "r1": r1, "r2": r2, "devs": list(devs)}


def run():
    work = os.path.join(ROOT, "work", "selftest-roundtrip")
    os.makedirs(work, exist_ok=True)
    it_str = [{"k": "d_str", "cls": "latin1", "cps": [97, 233, 98]}]
    it_q2 = [{"k": "d_str", "cls": "quotes2", "cps": [34, 39]}]
    o1 = '@charset "UTF-8";\na {\n  p: "aéb";\n}\n\nb {\n  q: r;\n}\n'
    oq = 'a {\n  p: "\\"\'";\n}\n'
    o2 = '@charset "UTF-8";\na {\n  p: "aéb";\n}\nb {\n  q: r;\n}\n'
    good = [ev(0, it_str, res("ok", o1), res("ok", o1)), ev(1, it_str, res("err"), res("none")), ev(2, it_str, res("ok", o1), res("ok", o2)),
            ev(3, [{"k": "zzz", "cls": "latin1", "cps": [233]}], res("ok", o1), res("err"))]
    it_c = [{"k": "comment", "cls": "cmt", "cps": [10, 97, 10]}]
    it_cr = [{"k": "c_rule", "cls": "cmt", "cps": [32, 97, 10, 98, 32]}]
    oc = "/*\na\n*/\n\n/* x\n\ny */\n"
    ocr = "a {\n  /* a\n  b */\n  p: v;\n}\n"
    good.append(ev(4, it_c, res("ok", oc), res("ok", oc.replace("*/\n\n/*", "*/\n/*"))))        # a blank line between comments does not count
    bad = {
        "comment_final_newline_lost": ev(2, it_c, res("ok", oc), res("ok", oc.replace("a\n*/", "a*/"))),
        "comment_blank_line_lost": ev(2, it_c, res("ok", oc), res("ok", oc.replace("x\n\ny", "x\ny"))),
        "comment_reindent_no_dev": ev(2, it_cr, res("ok", ocr), res("ok", ocr.replace("  b */", "    b */"))),
        "comment_text_changed_under_dev": ev(2, it_cr, res("ok", ocr), res("ok", ocr.replace("  b */", "    c */")), devs=["comment_reindent_grows"]),
        "comment_newline_lost_under_dev": ev(2, it_c, res("ok", oc), res("ok", oc.replace("a\n*/", "a*/")), devs=["comment_reindent_grows"]),
        "codepoint_changed": ev(2, it_str, res("ok", o1), res("ok", o2.replace("é", "e"))),
        "reread_failed": ev(2, it_str, res("ok", o1), res("err")),
        "line_lost": ev(2, it_str, res("ok", o1), res("ok", o2.replace("  q: r;\n", ""))),
        "reread_panic": ev(2, it_str, res("ok", o1), res("panic")),
        "dev_out_of_scope": ev(2, it_str, res("ok", o1), res("err"), devs=["css_reader_escaped_quote", "css_reader_ident_nonalnum"]),
        "dev_not_open": ev(2, it_q2, res("ok", oq), res("err")),
        "dev_trigger_absent": ev(2, it_q2, res("ok", oq.replace("\\", "")), res("err"), devs=["css_reader_escaped_quote"]),
    }
    cases = [("good", good), ("known", good[:2] + [ev(2, it_q2, res("ok", oq), res("err"), devs=["css_reader_escaped_quote"])] + good[3:])]
    cases += [(n, good[:2] + [b] + good[3:]) for n, b in bad.items()]
    def write(name, evs):
        p = os.path.join(work, name + ".ndjson")
        with open(p, "w") as f:
            for e in evs:
                f.write(json.dumps(e) + "\n")
        return p
    # run 1 (production trace spec): a fault at event 3 is reported as UNMATCHED 3
    r1 = tlc.validate_trace("Trace_RoundTrip", "Trace_RoundTrip.cfg", write("bad", good[:2] + [bad["codepoint_changed"]] + good[3:]), work, timeout=120)
    # run 2 (Self_RoundTrip: expect per event): good / known accepted, every faulty round trip rejected
    allev = [dict(e, expect="accept") for e in good] + [dict(cases[1][1][2], expect="accept")] + [dict(b, expect="reject") for b in bad.values()]
    allev.insert(len(good) + 1, dict(ev(2, it_cr, res("ok", ocr), res("ok", ocr.replace("  b */", "    b */")), devs=["comment_reindent_grows"]), expect="accept"))
    r2 = tlc.validate_trace("Self_RoundTrip", "Self_RoundTrip.cfg", write("all", allev), work, timeout=120)
    flipped = list(allev); flipped[len(good) + 2] = dict(flipped[len(good) + 2], expect="accept")      # the first "reject" event
    r3 = tlc.validate_trace("Self_RoundTrip", "Self_RoundTrip.cfg", write("flip", flipped), work, timeout=120)
    out = [(r1["accepted"], r1["unmatched"]), (r2["accepted"], r2["unmatched"]), (r3["accepted"], r3["unmatched"])]
    import shutil; shutil.rmtree(work, ignore_errors=True)
    ok = out == [(False, 3), (True, None), (False, len(good) + 3)]
    if not ok:
        print("roundtrip selftest:", out)
    return ok
