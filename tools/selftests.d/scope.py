"""Binding self-test for Trace_Scope: a faithful hand-written trace is accepted, the same trace with one
corrupted observation is rejected at exactly that event; and TLC finds the property's laws violated in the
model when a deviation is switched on (the laws are not vacuous)."""
import json, os, sys
ROOT = os.path.dirname(os.path.dirname(os.path.dirname(os.path.abspath(__file__))))
sys.path.insert(0, ROOT)
from vlib import tlc

def A(v, f): return {"op": "asg", "var": v, "arg": f}
def R(v): return {"op": "read", "var": v, "arg": "-"}
def O(k, v="-"): return {"op": "open", "var": v, "arg": k}
C = {"op": "close", "var": "-", "arg": "-"}

def ev(prog, k, reads, case, devs=()):
    return {"prog": prog, "obs": {"k": k, "reads": reads}, "case": case, "devs": list(devs)}

def run():
    work = os.path.join(ROOT, "work", "selftest-scope")
    os.makedirs(work, exist_ok=True)
    # $x: 11; a { $x: 13; read } read      -> 13 then 11 (a global is shadowed inside a rule)
    p0 = [A("x", "none"), O("rule"), A("x", "none"), R("x"), C, R("x")]
    # a { $x: 12; a { $x: 14 } read }      -> 14 (innermost declaring scope is updated)
    p1 = [O("rule"), A("x", "none"), O("rule"), A("x", "none"), C, R("x"), C]
    # $x: 11; @for $i { $x: 13 } read      -> 13 (top-level flow control assigns the global)
    p2 = [A("x", "none"), O("for"), A("x", "none"), C, R("x")]
    # @each $x in 3 4 { read } read        -> error (loop variable is local, then undefined)
    p3 = [O("each", "x"), R("x"), C, R("x")]
    good = [ev(p0, "ok", [13, 11], 0), ev(p1, "ok", [14], 1), ev(p2, "ok", [13], 2), ev(p3, "err", [], 3)]
    bad = [dict(e) for e in good]
    bad[1] = ev(p1, "ok", [12], 1)        # what assign_always_local yields; not listed in devs -> must be rejected
    known = [dict(e) for e in good]
    known[1] = ev(p1, "ok", [12], 1, devs=["assign_always_local", "flow_no_frame"])   # listed -> accepted and reported
    res = []
    for name, evs in (("good", good + [dict(known[1], case=4)]), ("bad", bad)):
        p = os.path.join(work, name + ".ndjson")
        with open(p, "w") as f:
            for e in evs:
                f.write(json.dumps(e) + "\n")
        r = tlc.validate_trace("Trace_Scope", "Trace_Scope.cfg", p, work, timeout=120)
        res.append((r["accepted"], r["unmatched"], any('"KNOWN", "assign_always_local"' in m for m in r["msgs"])))
    # the laws catch each deviation in the model
    viol = []
    for cfg in ("MC_Scope_lawA.cfg",):       # (MC_Scope_lawF.cfg is run by ./check C16)
        r = tlc.run_tlc("MC_Scope", cfg, work, workers=2, timeout=120)
        viol.append(r["violated"] and "LawsHold" in r["out"])
    import shutil; shutil.rmtree(work, ignore_errors=True)
    return res[0] == (True, None, True) and res[1] == (False, 2, False) and all(viol)
