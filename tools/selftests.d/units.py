"""Binding self-test for Trace_Units: a faithful trace is accepted (incl. a conversion through pi and a
listed deviation, reported as KNOWN); the same trace with one wrong number (1in + 1cm printed with the
ratio 2.5 instead of 2.54) is rejected at that event."""
import json, os, sys
ROOT = os.path.dirname(os.path.dirname(os.path.dirname(os.path.abspath(__file__))))
sys.path.insert(0, ROOT)
from vlib import tlc

def q(n, d, u):
    return {"n": n, "d": d, "u": u}

def num(text, us):
    neg = 1 if text.startswith("-") else 0
    ip, _, fp = text.lstrip("-").partition(".")
    return {"k": "num", "b": 0, "neg": neg, "ip": [int(c) for c in ip.lstrip("0")], "fp": [int(c) for c in fp],
            "us": [{"u": u, "e": e} for u, e in us]}

def other(k, b=0):
    return {"k": k, "b": b, "neg": 0, "ip": [], "fp": [], "us": []}

def ev(op, a, b, obs, case, devs=()):
    return {"c": 1 if "us" in a else 0, "op": op, "a": a, "b": b, "obs": obs, "case": case, "devs": list(devs)}

def run():
    work = os.path.join(ROOT, "work", "selftest-units")
    os.makedirs(work, exist_ok=True)
    good = [ev("+", q(1, 1, "in"), q(1, 1, "cm"), num("1.3937007874", [("in", 1)]), 0),
            ev("+", q(1, 1, "deg"), q(1, 1, "rad"), num("58.2957795131", [("deg", 1)]), 1),
            ev("<", q(1, 1, ""), q(2, 1, "px"), other("bool", 1), 2),
            ev("div", q(3, 1, "cm"), q(-2, 1, "Q"), num("-60", []), 3),
            ev("*", q(1, 2, "in"), q(3, 1, "px"), num("144", [("px", 2)]), 4),
            ev("+", q(1, 1, "px"), q(1, 1, "s"), other("err"), 5),
            ev("+", q(1, 1, "em"), q(1, 1, "ex"), num("1.6", [("em", 1)]), 6, devs=["font_units_convertible"]),
            # compound unit sets: 1in*in + 1cm*cm = 1.15500031 in*in (factor (50/127)^2, not its inverse)
            ev("+", {"n": 1, "d": 1, "us": [{"u": "in", "e": 2}]}, {"n": 1, "d": 1, "us": [{"u": "cm", "e": 2}]}, num("1.15500031", []), 7)]
    bad = [dict(e) for e in good]
    bad[0] = ev("+", q(1, 1, "in"), q(1, 1, "cm"), num("1.4", [("in", 1)]), 0)
    res = []
    for name, evs in (("good", good), ("bad", bad)):
        p = os.path.join(work, name + ".ndjson")
        with open(p, "w") as f:
            for e in evs:
                f.write(json.dumps(e) + "\n")
        r = tlc.validate_trace("Trace_Units", "Trace_Units.cfg", p, work, timeout=120)
        res.append((r["accepted"], r["unmatched"], len(r["msgs"])))
    import shutil; shutil.rmtree(work, ignore_errors=True)
    return res == [(True, None, 1), (False, 1, 0)]

if __name__ == "__main__":
    print(run())
