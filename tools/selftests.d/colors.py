"""Binding self-test for Trace_Colors: a faithful hand-written trace (one c31, one c32, several c33 events
covering every token notation of Colors!Denotes) is accepted; a trace with one corrupted token is rejected at
exactly that event; and with five corruptions (C31 range, C32 move, C33 wrong name / hsl field off by 0.1% /
alpha dropped) exactly those five events are unexplained.  Does not need rsass."""
import copy, json, os, re, shutil, sys
ROOT = os.path.dirname(os.path.dirname(os.path.dirname(os.path.abspath(__file__))))
sys.path.insert(0, ROOT)
from vlib import tlc


def cps(s):
    return [ord(c) for c in s]


RED = dict(r=255000, g=0, b=0, a=1000000, h=0, s=100000, l=50000, w=0, k=0)
# hsl(210, 50%, 50%) = rgb(63.75, 127.5, 191.25); red()/green()/blue() are rounded
C2 = dict(r=64000, g=128000, b=191000, a=500000, h=210000, s=50000, l=50000, w=25000, k=25000)

EQ = ["mix", "inv", "comp", "ah360", "ahm360", "ah180x2", "adj0", "adj_rgb", "adj_hsl", "adj_hwb", "adj_a", "sc0", "sc_rgb", "sc_hsl",
      "sc_hwb", "sc_a", "ch0", "ch_rgb", "ch_hsl", "ch_hwb", "ch_a", "li_da", "da_li", "sa_de", "de_sa", "op_tr", "tr_op"]


def base(p, case, ctor, args, alpha=-1, **kw):
    e = dict(p=p, case=case, devs=[], ctor=ctor, form="comma", args=args, alpha=alpha, amt=0, fn="id", style="expanded", hasp=0, st="ok")
    e.update(kw)
    return json.loads(json.dumps(e))       # no shared sub-objects between events


def c33(case, tok, obs, style="expanded"):
    return base("c33", case, "rgb", [255000, 0, 0], obs=obs, tok=cps(tok), style=style)


def good_trace():
    t = []
    # c31: #ff0000 with its five partners (rgb, hex6, name, hsl, hwb)
    t.append(base("c31", 0, "hex6", [255, 0, 0], obs=RED, hasp=1,
                  rt={"rgb": [1, 1], "hsl": [1, 1], "hwb": [1, 1], "self": [1, 1]}, pe=[[1, 1, 1]] * 5))
    # c32: red, amount 10%: lightness 50 -> 60 / 40, saturation 100 -> 100 / 90, alpha 1 -> 1 / .9
    t.append(base("c32", 1, "hex6", [255, 0, 0], amt=10000, obs=RED, eq={n: [1, 1] for n in EQ},
                  mv=dict(l_li=60000, l_da=40000, s_sa=100000, s_de=90000, a_op=1000000, a_tr=900000, gs=0, gl=50000, ga=1000000)))
    # c33: every notation
    t.append(c33(2, "#f00", RED))
    t.append(c33(3, "#FF0000", RED))
    t.append(c33(4, "red", RED, "compressed"))
    t.append(c33(5, "RED", RED))
    t.append(c33(6, "rgb(255, 0, 0)", RED))
    t.append(c33(7, "hsl(0, 100%, 50%)", RED))
    t.append(c33(8, "hsla(210, 50%, 50%, 0.5)", C2))
    t.append(c33(9, "rgba(63.75,127.5,191.25,.5)", C2, "compressed"))
    t.append(c33(10, "transparent", dict(r=0, g=0, b=0, a=0, h=0, s=0, l=0, w=0, k=100000), "compressed"))
    t.append(c33(11, "#3f7fbf80", dict(C2, r=63000, g=127000, b=191000, a=501961, h=210000, s=50394, l=49804, w=24706, k=25098)))
    t.append(c33(12, "hsl(10, 150%, 50%)", RED))       # saturation outside 0-100%: not constrained, skipped
    return t


def run():
    from concurrent.futures import ThreadPoolExecutor
    work = os.path.join(ROOT, "work", "selftest-colors")
    os.makedirs(work, exist_ok=True)
    good = good_trace()
    bad = copy.deepcopy(good)
    bad[0]["obs"]["s"] = 150000                        # C31: saturation out of range
    bad[1]["mv"]["l_li"] = 50000                       # C32: lighten did not move the lightness
    bad[4]["tok"] = cps("tomato")                      # C33: a name that denotes another colour
    bad[8]["tok"] = cps("hsla(210, 50%, 50.1%, 0.5)")  # C33: hsl field off by 0.1% (= 0.25 of a channel step)
    bad[9]["tok"] = cps("rgb(63.75,127.5,191.25)")     # C33: alpha dropped
    corrupted = {0, 1, 4, 8, 9}
    late = copy.deepcopy(good)
    late[9]["tok"] = cps("rgb(63.75,127.5,191.25)")    # rejected exactly at the 10th event

    def go(job):
        name, evs, env = job
        p = os.path.join(work, name + ".ndjson")
        with open(p, "w") as f:
            for e in evs:
                f.write(json.dumps(e) + "\n")
        return tlc.validate_trace("Trace_Colors", "Trace_Colors.cfg", p, os.path.join(work, name), timeout=200, env=env)
    with ThreadPoolExecutor(3) as ex:
        rg, rl, rb = ex.map(go, [("good", good, None), ("late", late, None), ("bad", bad, {"LENIENT": "1"})])
    ok = True
    if (rg["accepted"], rg["unmatched"]) != (True, None):
        print("selftest colors: faithful trace not accepted", rg["unmatched"])
        ok = False
    if (rl["accepted"], rl["unmatched"]) != (False, 10):
        print("selftest colors: corrupted event not rejected at its position", rl["accepted"], rl["unmatched"])
        ok = False
    # lenient development mode prints every unexplained event: exactly the corrupted ones
    seen = set()
    for m in rb["msgs"]:
        mm = re.search(r'unexplained\W+(\d+)', m)
        if mm:
            seen.add(int(mm.group(1)))
    if seen != corrupted:
        print("selftest colors: unexplained events", sorted(seen), "expected", sorted(corrupted))
        ok = False
    shutil.rmtree(work, ignore_errors=True)
    return ok


if __name__ == "__main__":
    print(run())
