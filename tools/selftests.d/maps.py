"""Binding self-test for Trace_Maps (stateful): a faithful trace of map actions is accepted; corrupting one observed
state (map.set appended a second entry for a key that is == to a stored one) is rejected at that event; dropping one
step makes the following step inexplicable (the model state no longer matches); an ordered-equality answer is accepted
only when the deviation mapeq_ordered is listed; a multi-key remove that leaves one of the listed keys is rejected."""
import json, os, sys
ROOT = os.path.dirname(os.path.dirname(os.path.dirname(os.path.abspath(__file__))))
sys.path.insert(0, ROOT)
from vlib import tlc

def op(f, k="", v=0, m2=(), ks=()):
    return dict(f=f, k=k, v=v, m2=list(m2), ks=list(ks))
def E(k, v): return {"k": k, "v": v}
def R(k, n=0): return {"k": k, "n": n}
def step(case, o, r, st, devs=()):
    return dict(ev="step", case=case, op=o, r=r, st=list(st), devs=list(devs))

def run():
    work = os.path.join(ROOT, "work", "selftest-maps")
    os.makedirs(work, exist_ok=True)
    good = [
        dict(ev="reset", case=0),
        step(0, op("literal", m2=[E("1", 1), E("qa", 2)]), R("none"), [E("n:1", 1), E("s:a", 2)]),
        step(0, op("set", k="1.0", v=9), R("none"), [E("n:1", 9), E("s:a", 2)]),
        step(0, op("get", k="a"), R("num", 2), [E("n:1", 9), E("s:a", 2)]),
        step(0, op("merge", m2=[E("red", 7), E("sa", 8)]), R("none"), [E("n:1", 9), E("s:a", 8), E("c:red", 7)]),
        step(0, op("remove", k="#f00"), R("none"), [E("n:1", 9), E("s:a", 8)]),
        step(0, op("eq", m2=[E("a", 8), E("1", 9)]), R("bool", 0), [E("n:1", 9), E("s:a", 8)], devs=["mapeq_ordered"]),
        dict(ev="failed", case=1, ops=[op("literal", m2=[E("qa", 1), E("a", 2)])], k="err"),
        dict(ev="reset", case=2),
        step(2, op("literal", m2=[E("a", 1), E("b", 2), E("c", 3)]), R("none"), [E("s:a", 1), E("s:b", 2), E("s:c", 3)]),
        step(2, op("remove-all", ks=["qc", "x", "sa"]), R("none"), [E("s:b", 2)]),       # several keys, not in map order
    ]
    bad = [dict(e) for e in good]
    bad[2] = step(0, op("set", k="1.0", v=9), R("none"), [E("n:1", 1), E("s:a", 2), E("n:1", 9)])
    dropped = [e for i, e in enumerate(good) if i != 4]          # the merge is missing
    nodev = [dict(e) for e in good]
    nodev[6] = dict(good[6], devs=[])
    stale = [dict(e) for e in good]
    stale[10] = step(2, op("remove-all", ks=["qc", "x", "sa"]), R("none"), [E("s:a", 1), E("s:b", 2)])   # a key listed after a later one stays
    res = []
    for name, evs in (("good", good), ("bad", bad), ("dropped", dropped), ("nodev", nodev), ("stale", stale)):
        p = os.path.join(work, name + ".ndjson")
        with open(p, "w") as f:
            for e in evs:
                f.write(json.dumps(e) + "\n")
        r = tlc.validate_trace("Trace_Maps", "Trace_Maps.cfg", p, work, timeout=120)
        res.append((r["accepted"], r["unmatched"]))
    import shutil; shutil.rmtree(work, ignore_errors=True)
    # dropped: the state observed after remove (s:a -> 8) is not what the model reaches without the merge (s:a -> 2): event 5
    return res == [(True, None), (False, 3), (False, 5), (False, 7), (False, 11)]
