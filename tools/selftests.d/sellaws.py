"""Binding self-test for Trace_SelLaws (C23/C24) and Trace_SelRT (C25): a faithful observation trace is accepted;
an irreflexive answer, an answer that breaks transitivity of the observed table, a non-monotone answer, a unify
result one operand does not cover, a reordering extend and a round trip that changes the selector are each
rejected at exactly the corrupted event."""
import json, os, sys, shutil
ROOT = os.path.dirname(os.path.dirname(os.path.dirname(os.path.abspath(__file__))))
sys.path.insert(0, ROOT)
from vlib import tlc

U = [["a"], ["a", ".c"], ["b", "sp", "a", ".c"], ["a", ",", ".d"]]
# a faithful table: row i is a superselector of column j
T = [[1, 1, 1, 0],
     [0, 1, 1, 0],
     [0, 0, 1, 0],
     [1, 1, 1, 1]]


def sup(i, j, r, fa="str", fb="str", case=0):
    return dict(k="super", a=U[i - 1], b=U[j - 1], ia=i, ib=j, fa=fa, fb=fb, r=r, case=case, devs=[])


def laws_traces():
    good = [dict(k="universe", n=4, case=-1, devs=[])]
    for i in range(1, 5):
        for j in range(1, 5):
            good.append(sup(i, j, T[i - 1][j - 1], case=len(good)))
    # off-table: a derived selector, a list member, a unify result, extend, replace, nest, append
    good.append(dict(k="super", a=["a", ">", "b"], b=["e", "sp", "a", ".c", ">", "b", ":hover"], ia=0, ib=0, fa="str", fb="str", r=1, case=len(good), devs=[]))
    good.append(dict(k="unify", a=["a"], b=[".c"], st="ok", u=[["a", ".c"]], sa=[1], sb=[1], case=len(good), devs=[]))
    good.append(dict(k="extend", s=["a", ".c", ",", "b"], x=[".c"], y=[".d"], st="ok", ps=[["a", ".c"], ["b"]],
                     e=[["a", ".c"], ["a", ".d"], ["b"]], case=len(good), devs=[]))
    good.append(dict(k="replace", s=["a", ".c"], x=[".e"], y=[".d"], st="ok", ps=[["a", ".c"]], e=[["a", ".c"]], case=len(good), devs=[]))
    good.append(dict(k="nest", a=["a"], b=["b"], sf="ok", se="ok", n=[["a", "sp", "b"]], em=[["a", "sp", "b"]], case=len(good), devs=[]))
    good.append(dict(k="append", a=["a"], b=[".c"], sf="ok", se="ok", n=[["a", ".c"]], em=[["a", ".c"]], case=len(good), devs=[]))
    bad = {}
    # irreflexive: (2,2) answered false -> event index 1 + (2-1)*4 + 2 = 7
    b = [dict(e) for e in good]; b[6] = sup(2, 2, 0, case=6); bad["irreflexive"] = (b, 7)
    # non-transitive: 1 >= 2 and 2 >= 3 were observed true, (1,3) answered false -> event 4; it is the LAST of the triple
    # only if (2,3) came before: reorder so that (1,3) comes after row 2
    b = [dict(e) for e in good]
    e13 = b.pop(3); e13 = dict(e13, r=0); b.insert(8, e13); bad["nontransitive"] = (b, 9)
    # non-monotone: a derived selector answered false
    b = [dict(e) for e in good]; b[17] = dict(b[17], r=0); bad["nonmonotone"] = (b, 18)
    # unify: operand b does not cover the result
    b = [dict(e) for e in good]; b[18] = dict(b[18], sb=[0]); bad["unify"] = (b, 19)
    # extend reorders
    b = [dict(e) for e in good]; b[19] = dict(b[19], e=[["b"], ["a", ".c"], ["a", ".d"]]); bad["extend"] = (b, 20)
    # replace changes s although x matches nothing
    b = [dict(e) for e in good]; b[20] = dict(b[20], e=[["a", ".d"]]); bad["replace"] = (b, 21)
    # nest differs from the emitted selector
    b = [dict(e) for e in good]; b[21] = dict(b[21], n=[["a", ">", "b"]]); bad["nest"] = (b, 22)
    return good, bad


def rt_traces():
    """C25: .\\31 a (escaped digit kept) and a > b are faithful; in the corrupted trace the second print loses the combinator"""
    cps = lambda s: [ord(c) for c in s]
    T = lambda t, s="": {"t": t, "v": cps(s)}
    ok = lambda toks: {"st": "ok", "toks": toks}
    e1 = dict(id="name", src=cps(".\\31 a"), den=[{"t": "class", "v": [49, 97]}], p1=ok([T("class", "\\31 a")]), p2=ok([T("class", "\\31 a")]),
              em=ok([T("class", "\\000031a")]), case=0, devs=[])
    ab = [T("elem", "a"), T("comb", ">"), T("elem", "b")]
    e2 = dict(id="chain", src=cps("a>b"), den=ab, p1=ok(ab), p2=ok(ab), em=ok(ab), case=1, devs=[])
    e3 = dict(id="name", src=cps("#\\31 a"), den=[{"t": "id", "v": [49, 97]}], p1=ok([T("id", "\\31 a")]), p2=ok([T("id", "\\31 a")]),
              em=ok([T("id", "\\31 a")]), case=2, devs=[])
    good = [e1, e2, e3]
    bad = [e1, dict(e2, p2=ok([T("elem", "a"), T("sp"), T("elem", "b")])), e3]
    return good, bad, 2


def run_one(module, cfg, work, name, evs):
    p = os.path.join(work, name + ".ndjson")
    with open(p, "w") as f:
        for e in evs:
            f.write(json.dumps(e) + "\n")
    r = tlc.validate_trace(module, cfg, p, work, timeout=300)
    return (r["accepted"], r["unmatched"])


def run():
    from concurrent.futures import ThreadPoolExecutor
    base = os.path.join(ROOT, "work", "selftest-sellaws")
    good, bad = laws_traces()
    jobs = [("Trace_SelLaws", "good", good, (True, None))]
    for name in ("irreflexive", "nontransitive"):
        evs, at = bad[name]
        jobs.append(("Trace_SelLaws", name, evs, (False, at)))
    g, b, at = rt_traces()
    jobs += [("Trace_SelRT", "rt-good", g, (True, None)), ("Trace_SelRT", "rt-bad", b, (False, at))]

    def one(job):
        module, name, evs, want = job
        work = os.path.join(base, name)          # one metadir per run: they run side by side
        os.makedirs(work, exist_ok=True)
        return run_one(module, module + ".cfg", work, name, evs) == want
    with ThreadPoolExecutor(len(jobs)) as ex:
        ok = all(ex.map(one, jobs))
    shutil.rmtree(base, ignore_errors=True)
    return bool(ok)
