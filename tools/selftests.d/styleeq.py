"""Binding self-test for Trace_StyleEq (C08): a faithful expanded/compressed pair is accepted, pairs that differ in what
the property constrains are rejected at exactly that event."""
import json, os, sys
ROOT = os.path.dirname(os.path.dirname(os.path.dirname(os.path.abspath(__file__))))
sys.path.insert(0, ROOT)
from vlib import tlc
from engines import csstok

NONE = {"st": "none", "tree": [], "msg": []}


def ok(text):
    return {"st": "ok", "tree": csstok.read_tree(text), "msg": []}


def err(msg):
    return {"st": "err", "tree": [], "msg": [ord(c) for c in msg]}


def ev(case, e, c, devs=(), n=None):
    return {"case": case, "e": e, "c": c, "n": n or NONE, "devs": list(devs)}


E = ('@charset "UTF-8";\n/* c */\na b, a > .c {\n  p: 0.5px #ff0000 rgba(0, 0, 0, 0) "é" x !important;\n  q: f(1, 2);\n}\n\n'
     '@media screen and (min-width: 0.50em) {\n  d {\n    /* only */\n  }\n  e {\n    r: white;\n  }\n}\n@import url(x.css);\n')
C = '\ufeffa b,a>.c{p:.5px red transparent "é" x!important;q:f(1,2)}@media screen and (min-width: .5em){e{r:#fff}}@import url(x.css)\n'


def run():
    work = os.path.join(ROOT, "work", "selftest-styleeq")
    os.makedirs(work, exist_ok=True)
    good = [ev(0, ok("a {\n  b: c;\n}\n"), ok("a{b:c}\n")), ev(1, err("boom"), err("boom")), ev(2, ok(E), ok(C)),
            ev(3, {"st": "panic", "tree": [], "msg": []}, ok("a{b:c}\n"))]
    bads = {
        "important_dropped": C.replace("x!important", "x"),
        "unit_dropped": C.replace(".5px", ".5"),
        "descendant_merged": C.replace("a b,", "ab,"),
        "color_changed": C.replace("red", "blue"),
        "quote_changed": C.replace('"é"', "'é'"),
        "comma_dropped": C.replace("f(1,2)", "f(1 2)"),
        "decl_dropped": C.replace(";q:f(1,2)", ""),
        "rule_dropped": C.replace("e{r:#fff}", ""),
        "digit_changed": C.replace(".5em", ".6em"),
    }
    cases = [("good", good)]
    for n, c in bads.items():
        cases.append((n, good[:2] + [ev(2, ok(E), ok(c))] + good[3:]))
    cases.append(("err_vs_ok", good[:2] + [ev(2, err("boom"), ok(C))] + good[3:]))
    cases.append(("other_message", good[:2] + [ev(2, err("boom"), err("bang"))] + good[3:]))
    # deviations: explained only inside their scope
    s_e, s_c = ok('a {\n  b: "1, 2 0.5";\n}\n'), ok('a{b:"1,2 .5"}\n')
    cases.append(("interp_no_dev", good[:2] + [ev(2, s_e, s_c)] + good[3:]))
    cases.append(("interp_dev_other_diff", good[:2] + [ev(2, s_e, ok('a{b:"1,3 .5"}\n'), devs=["interp_uses_output_style"])] + good[3:]))
    known = good[:2] + [ev(2, s_e, s_c, devs=["interp_uses_output_style"])] + good[3:]
    def write(name, evs):
        p = os.path.join(work, name + ".ndjson")
        with open(p, "w") as f:
            for e in evs:
                f.write(json.dumps(e) + "\n")
        return p
    # run 1 (production trace spec): a fault at event 3 is reported as UNMATCHED 3
    r1 = tlc.validate_trace("Trace_StyleEq", "Trace_StyleEq.cfg", write("bad", cases[1][1]), work, timeout=120)
    # run 2 (Self_StyleEq: expect per event): good / known accepted, every faulty pair rejected
    allev = [dict(e, expect="accept") for e in good] + [dict(known[2], expect="accept")]
    allev += [dict(evs[2], expect="reject") for (n, evs) in cases[1:]]
    r2 = tlc.validate_trace("Self_StyleEq", "Self_StyleEq.cfg", write("all", allev), work, timeout=120)
    flipped = list(allev); flipped[len(good) + 3] = dict(flipped[len(good) + 3], expect="accept")
    r3 = tlc.validate_trace("Self_StyleEq", "Self_StyleEq.cfg", write("flip", flipped), work, timeout=120)
    res = [(r1["accepted"], r1["unmatched"]), (r2["accepted"], r2["unmatched"]), (r3["accepted"], r3["unmatched"])]
    import shutil; shutil.rmtree(work, ignore_errors=True)
    ok_ = res == [(False, 3), (True, None), (False, len(good) + 4)]
    if not ok_:
        print("styleeq selftest:", res)
    return ok_
