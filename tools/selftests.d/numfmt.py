"""Binding self-test for Trace_Numfmt: a faithful trace is accepted; the same trace with one numeral
replaced by what the min_one_decimal deviation yields (and no finding passed in) is rejected at that event;
with the deviation passed in it is accepted again and reported as KNOWN."""
import json, os, sys
ROOT = os.path.dirname(os.path.dirname(os.path.dirname(os.path.abspath(__file__))))
sys.path.insert(0, ROOT)
from vlib import tlc

def ev(neg, ip, fp, p, style, o, case, devs=(), cls="fin", sticky=0):
    return {"cls": cls, "neg": neg, "ip": ip, "fp": fp, "sticky": sticky, "p": p, "style": style,
            "obs": {"k": o[0], "neg": o[1], "ip": o[2], "fp": o[3]}, "case": case, "devs": list(devs)}

def run():
    work = os.path.join(ROOT, "work", "selftest-numfmt")
    os.makedirs(work, exist_ok=True)
    good = [ev(0, [], [1, 2, 5], 2, "expanded", ("num", 0, [0], [1, 3]), 0),          # tie away from zero
            ev(1, [], [9, 6], 1, "compressed", ("num", 1, [1], []), 1),                # carry into the integer part
            ev(0, [1], [5], 0, "expanded", ("num", 0, [2], []), 2),                    # precision 0
            ev(0, [], [5], 10, "compressed", ("num", 0, [], [5]), 3),                  # leading zero dropped
            ev(1, [], [0] * 40, 10, "expanded", ("num", 0, [0], []), 4, sticky=1),     # no negative zero
            ev(0, [], [], 3, "expanded", ("inf", 0, [], []), 5, cls="inf")]
    bad = [dict(e) for e in good]
    bad[2] = ev(0, [1], [5], 0, "expanded", ("num", 0, [1], [5]), 2)
    known = [dict(e) for e in bad]
    known[2] = ev(0, [1], [5], 0, "expanded", ("num", 0, [1], [5]), 2, devs=["min_one_decimal"])
    res = []
    for name, evs in (("good+known", good + [dict(known[2], case=6)]), ("bad", bad)):
        p = os.path.join(work, name + ".ndjson")
        with open(p, "w") as f:
            for e in evs:
                f.write(json.dumps(e) + "\n")
        r = tlc.validate_trace("Trace_Numfmt", "Trace_Numfmt.cfg", p, work, timeout=120)
        res.append((r["accepted"], r["unmatched"], len(r["msgs"])))
    import shutil; shutil.rmtree(work, ignore_errors=True)
    return res == [(True, None, 1), (False, 3, 0)]

if __name__ == "__main__":
    print(run())
