"""Binding self-test for Trace_Lists: a faithful trace of sass:list runs is accepted; the same trace with one
corrupted step (join taking the separator of the second list although the first has one) is rejected at that event;
an observation only a deviation explains is accepted only when that deviation is listed."""
import json, os, sys
ROOT = os.path.dirname(os.path.dirname(os.path.dirname(os.path.abspath(__file__))))
sys.path.insert(0, ROOT)
from vlib import tlc

def V(t, tok="", items=(), sep="", br=0):
    return {"t": t, "tok": tok, "items": list(items), "sep": sep, "br": br}
def L(items, sep, br=0): return V("list", "", items, sep, br)
def leaf(t): return V("leaf", t)
NOTHING = leaf("")
def op(f, n=0, v=NOTHING, o=NOTHING, o2=NOTHING, sep="auto", br="auto", side="l"):
    return dict(f=f, n=n, v=v, o=o, o2=o2, sep=sep, br=br, side=side)

def run():
    work = os.path.join(ROOT, "work", "selftest-lists")
    os.makedirs(work, exist_ok=True)
    one, a, b, c = leaf("1"), leaf("a"), leaf("b"), leaf("c")
    l1 = L([one, a], "space")
    good = [
        dict(init=l1, ops=[op("nth", n=-1), op("length")], obs=[a, leaf("2")], case=0, devs=[]),
        dict(init=l1, ops=[op("join", o=L([b, c], "comma", 1))], obs=[L([one, a, b, c], "space")], case=1, devs=[]),
        dict(init=leaf("a"), ops=[op("join", o=L([b, c], "comma", 1)), op("separator")], obs=[L([a, b, c], "comma"), leaf("comma")], case=2, devs=[]),
        dict(init=V("map", "", [L([leaf("x"), one], "space")]), ops=[op("nth", n=1), op("set-nth", n=1, v=b)],
             obs=[L([leaf("x"), one], "space"), L([b], "comma")], case=3, devs=[]),
        dict(init=leaf("null"), ops=[op("length")], obs=[leaf("0")], case=4, devs=["length_null_is_zero"]),
        dict(init=l1, ops=[op("nth", n=3)], obs=[V("err")], case=5, devs=[]),
        dict(init=l1, ops=[op("zip", o=L([b, c, b], "comma", 1))], obs=[L([L([one, b], "space"), L([a, c], "space")], "comma")], case=6, devs=[]),
    ]
    bad = [dict(e) for e in good]
    bad[1] = dict(good[1], obs=[L([one, a, b, c], "comma")])
    bad2 = [dict(e) for e in good]
    bad2[4] = dict(good[4], devs=[])
    res = []
    for name, evs in (("good", good), ("bad", bad), ("bad2", bad2)):
        p = os.path.join(work, name + ".ndjson")
        with open(p, "w") as f:
            for e in evs:
                f.write(json.dumps(e) + "\n")
        r = tlc.validate_trace("Trace_Lists", "Trace_Lists.cfg", p, work, timeout=120)
        res.append((r["accepted"], r["unmatched"]))
    import shutil; shutil.rmtree(work, ignore_errors=True)
    return res == [(True, None), (False, 2), (False, 5)]
