"""Binding self-test for Trace_Strings: a faithful trace of sass:string calls is accepted, the same
trace with one corrupted observation (a byte-offset instead of a code-point position) is rejected at
exactly that event; an event explained only by an open deviation is accepted only when the deviation is listed."""
import json, os, sys
ROOT = os.path.dirname(os.path.dirname(os.path.dirname(os.path.abspath(__file__))))
sys.path.insert(0, ROOT)
from vlib import tlc

def ev(fn, s, q, obs, case, x=(), xq=0, i=0, j=0, devs=()):
    return {"fn": fn, "s": list(s), "q": q, "x": list(x), "xq": xq, "i": i, "j": j, "obs": obs, "case": case, "devs": list(devs)}

def R(k, s=(), q=0, n=0):
    return {"k": k, "s": list(s), "q": q, "n": n}

def run():
    work = os.path.join(ROOT, "work", "selftest-strings")
    os.makedirs(work, exist_ok=True)
    s = [97, 233, 128512, 769, 66]
    good = [ev("length", s, 1, R("num", n=5), 0),
            ev("index", s, 1, R("num", n=3), 1, x=[128512], xq=1),
            ev("slice", s, 0, R("str", [233, 128512], 0), 2, i=2, j=-3),
            ev("insert", s, 1, R("str", s + [120], 1), 3, x=[120], xq=0, i=-1),
            ev("slice", s, 1, R("err"), 4, i=4, j=2, devs=["slice_empty_is_error"]),
            ev("upper", s, 0, R("str", [65, 233, 128512, 769, 66], 0), 5)]
    bad = [dict(e) for e in good]
    bad[1] = ev("index", s, 1, R("num", n=4), 1, x=[128512], xq=1)      # byte offset of the astral character
    bad2 = [dict(e) for e in good]
    bad2[4] = ev("slice", s, 1, R("err"), 4, i=4, j=2, devs=[])          # deviation not listed: must be rejected
    res = []
    for name, evs in (("good", good), ("bad", bad), ("bad2", bad2)):
        p = os.path.join(work, name + ".ndjson")
        with open(p, "w") as f:
            for e in evs:
                f.write(json.dumps(e) + "\n")
        r = tlc.validate_trace("Trace_Strings", "Trace_Strings.cfg", p, work, timeout=120)
        res.append((r["accepted"], r["unmatched"]))
    import shutil; shutil.rmtree(work, ignore_errors=True)
    return res == [(True, None), (False, 2), (False, 5)]
