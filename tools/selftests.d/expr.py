"""Binding self-test for Trace_Expr: a faithful trace is accepted, the same trace with one
corrupted observation is rejected at exactly that event."""
import json, os, sys, tempfile
ROOT = os.path.dirname(os.path.dirname(os.path.dirname(os.path.abspath(__file__))))
sys.path.insert(0, ROOT)
from vlib import tlc

def ev(toks, k, v, case):
    return {"toks": toks, "obs": {"val": {"k": k, "v": v}, "fx": 0}, "case": case, "devs": []}

def run():
    work = os.path.join(ROOT, "work", "selftest-expr")
    os.makedirs(work, exist_ok=True)
    good = [ev(["1", "+", "2", "*", "3"], "n", 7, 0), ev(["false", "and", "false", "or", "true"], "b", 1, 1),
            ev(["true", "==", "1", "<", "2"], "b", 1, 2)]
    bad = [dict(e) for e in good]
    bad[1] = ev(["false", "and", "false", "or", "true"], "b", 0, 1)   # what the andor_same_level deviation yields
    res = []
    for name, evs in (("good", good), ("bad", bad)):
        p = os.path.join(work, name + ".ndjson")
        with open(p, "w") as f:
            for e in evs:
                f.write(json.dumps(e) + "\n")
        r = tlc.validate_trace("Trace_Expr", "Trace_Expr.cfg", p, work, timeout=120)
        res.append((r["accepted"], r["unmatched"]))
    import shutil; shutil.rmtree(work, ignore_errors=True)
    return res[0] == (True, None) and res[1] == (False, 2)
