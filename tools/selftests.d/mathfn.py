"""Binding self-test for Trace_Math: faithful hand-written observations are accepted (incl. a call the
specification does not constrain); a round() tie resolved to even, a min() that returned the converted value
instead of its argument and a missing unit error are unexplained, and a strict run rejects at the first.
Needs no rsass."""
import json, os, re, shutil, sys
ROOT = os.path.dirname(os.path.dirname(os.path.dirname(os.path.abspath(__file__))))
sys.path.insert(0, ROOT)
from vlib import tlc


def N(n, d=1, u=""):
    return {"k": "num", "n": n, "d": d, "u": u}


def O(k="num", neg=0, ip=0, fp=0, u=""):
    return {"k": k, "neg": neg, "ip": ip, "fp": fp, "u": u}


def ev(case, fn, args, obs, ns="math"):
    return {"case": case, "devs": [], "ns": ns, "fn": fn, "args": args, "obs": obs}


def run():
    from concurrent.futures import ThreadPoolExecutor
    work = os.path.join(ROOT, "work", "selftest-mathfn")
    os.makedirs(work, exist_ok=True)
    good = [
        ev(0, "round", [N(5, 2, "px")], O(ip=3, u="px")),                      # 2.5px -> 3px (tie away from zero)
        ev(1, "round", [N(-5, 2)], O(neg=1, ip=3)),
        ev(2, "min", [N(1, 1, "in"), N(2, 1, "px")], O(ip=2, u="px")),          # the argument itself, not 0.0208in
        ev(3, "sqrt", [N(4, 1, "px")], O(k="err")),                             # needs unitless input
        ev(4, "sin", [N(30, 1, "deg")], O(fp=500000)),
        ev(5, "sin", [N(1, 2)], O(fp=479426)),                                  # 0.5 rad: accuracy not claimed, not constrained
        ev(6, "div", [N(1, 1, "in"), N(2, 1, "px")], O(ip=48)),
        ev(7, "percentage", [N(-3, 2)], O(neg=1, ip=150, u="%")),
        ev(8, "abs", [{"k": "-inf", "n": 0, "d": 1, "u": ""}], O(k="inf")),
        ev(9, "clamp", [N(3, 1, "px"), N(5, 1, "px"), N(1, 1, "px")], O(ip=3, u="px"), "css"),      # MIN > MAX: MIN wins
        ev(10, "clamp", [N(1, 1, "in"), N(2, 1, "in"), N(1, 1, "cm")], O(ip=1, u="in"), "css"),
        ev(11, "mod", [N(-7, 2, "px"), N(1, 1, "in")], O(ip=92, fp=500000, u="px"), "css"),         # -3.5px mod 96px = 92.5px
        ev(12, "rem", [N(-7, 2), N(3, 1)], O(neg=1, fp=500000), "css"),
        ev(13, "round_up", [N(5, 4, "in"), N(48, 1, "px")], O(ip=1, fp=500000, u="in"), "css"),     # multiples of 0.5in
    ]
    bad = json.loads(json.dumps(good))
    bad[0]["obs"] = O(ip=2, u="px")                                             # banker's rounding
    bad[2]["obs"] = O(ip=0, fp=20833, u="in")                                   # converted value instead of the argument
    bad[3]["obs"] = O(ip=2, u="px")                                             # unit error missing
    bad[9]["obs"] = O(ip=1, u="px")                                             # clamp with MIN > MAX returned MAX
    bad[11]["obs"] = O(neg=1, ip=3, fp=500000, u="px")                          # mod with the sign of the dividend
    corrupted = {0, 2, 3, 9, 11}
    late = json.loads(json.dumps(good))
    late[2]["obs"] = bad[2]["obs"]

    def go(job):
        name, evs, env = job
        p = os.path.join(work, name + ".ndjson")
        with open(p, "w") as f:
            for e in evs:
                f.write(json.dumps(e) + "\n")
        return tlc.validate_trace("Trace_Math", "Trace_Math.cfg", p, os.path.join(work, name), timeout=200, env=env)
    with ThreadPoolExecutor(3) as ex:
        rg, rl, rb = ex.map(go, [("good", good, None), ("late", late, None), ("bad", bad, {"LENIENT": "1"})])
    ok = True
    if (rg["accepted"], rg["unmatched"]) != (True, None):
        print("selftest mathfn: faithful trace not accepted", rg["unmatched"])
        ok = False
    if (rl["accepted"], rl["unmatched"]) != (False, 3):
        print("selftest mathfn: corrupted event not rejected at its position", rl["accepted"], rl["unmatched"])
        ok = False
    seen = set()
    for m in rb["msgs"]:
        mm = re.search(r'unexplained\W+(\d+)', m)
        if mm:
            seen.add(int(mm.group(1)))
    if seen != corrupted:
        print("selftest mathfn: unexplained events", sorted(seen), "expected", sorted(corrupted))
        ok = False
    shutil.rmtree(work, ignore_errors=True)
    return ok
