"""Binding self-test for the law monitor Trace_Values: faithful observations are accepted (incl. the
asymmetric 1 == 0.9999999999999998 when the finding is passed in, reported as KNOWN); an observation in
which != is not the negation of ==, and the asymmetric one without the finding, are rejected at that event."""
import json, os, sys
ROOT = os.path.dirname(os.path.dirname(os.path.dirname(os.path.abspath(__file__))))
sys.path.insert(0, ROOT)
from vlib import tlc

def V(t, s="", n=0, d=1, j=0, e=0, u="", es=()):
    return {"t": t, "s": s, "n": n, "d": d, "j": j, "e": e, "u": u, "es": list(es)}

def ev(a, b, o, case, devs=(), mode="full"):
    f = ["eq_ab", "eq_ba", "ne_ab", "ne_ba", "aa", "bb", "lt", "gt"]
    return {"a": a, "b": b, "obs": dict(zip(f, o)), "case": case, "devs": list(devs), "mode": mode}

def run():
    work = os.path.join(ROOT, "work", "selftest-values")
    os.makedirs(work, exist_ok=True)
    one, near = V("num", n=1), V("num", n=1, j=-1, e=0)
    good = [ev(V("num", n=1, u="in"), V("num", n=96, u="px"), (1, 1, 0, 0, 1, 1, 0, 0), 0),
            ev(V("str", s="a", n=1), V("str", s="a", n=0), (1, 1, 0, 0, 1, 1, 2, 2), 1),
            ev(V("num", n=1), V("num", n=2), (0, 0, 1, 1, 1, 1, 1, 0), 2),
            ev(V("num", s="nan"), V("num", s="nan"), (0, 0, 1, 1, 0, 0, 0, 0), 3),
            ev(one, near, (1, 0, 0, 1, 1, 1, 0, 0), 4, devs=["numeq_relative_to_lhs"])]
    bad1 = [dict(e) for e in good]
    bad1[1] = ev(V("str", s="a", n=1), V("str", s="a", n=0), (1, 1, 1, 0, 1, 1, 2, 2), 1)     # != not the negation
    bad2 = [dict(e) for e in good[:4]] + [ev(one, near, (1, 0, 0, 1, 1, 1, 0, 0), 4)]           # asymmetry, no finding
    res = []
    for name, evs in (("good", good), ("bad1", bad1), ("bad2", bad2)):
        p = os.path.join(work, name + ".ndjson")
        with open(p, "w") as f:
            for e in evs:
                f.write(json.dumps(e) + "\n")
        r = tlc.validate_trace("Trace_Values", "Trace_Values.cfg", p, work, timeout=120)
        res.append((r["accepted"], r["unmatched"], len(r["msgs"])))
    import shutil; shutil.rmtree(work, ignore_errors=True)
    return res == [(True, None, 1), (False, 2, 0), (False, 5, 0)]

if __name__ == "__main__":
    print(run())
