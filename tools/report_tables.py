#!/usr/bin/env python3
"""tools/report_tables.py [--write] : regenerate the generated tables of DESIGN.md section 12 (fix commits, open findings,
seeded changes) from findings.d/, the git log of /repo and seeded/*/meta.json. With --write the text between the
<!-- BEGIN GENERATED name --> / <!-- END GENERATED name --> markers of DESIGN.md is replaced."""
import glob, json, os, re, subprocess, sys
sys.path.insert(0, "/verif")
ROOT = "/verif"


def findings():
    out = []
    for fn in sorted(glob.glob(ROOT + "/findings.d/*.jsonl")):
        for line in open(fn):
            line = line.strip()
            if line and not line.startswith("#"):
                out.append(json.loads(line))
    return out


def cell(s, n=220):
    s = " ".join(str(s).split()).replace("|", "/")
    return s if len(s) <= n else s[: n - 3] + "..."


def fixes():
    F = findings()
    log = subprocess.run(["git", "-C", "/repo", "log", "--format=%h %s", "--reverse"], capture_output=True, text=True).stdout.splitlines()
    rows = ["| commit | subject | property: finding | what failed |", "|---|---|---|---|"]
    for l in log:
        h, s = l.split(" ", 1)
        if not s.startswith("fix:"):
            continue
        fs = [f for f in F if f.get("status") == "fixed" and str(f.get("commit", "")).startswith(h[:7])]
        props = ", ".join(sorted({f"{f['property']}: {f.get('deviation') or f.get('key')}" for f in fs})) or "-"
        what = cell(fs[0].get("what", ""), 200) if fs else ""
        rows.append(f"| {h} | {cell(s[4:].strip(), 90)} | {cell(props, 160)} | {what} |")
    return "\n".join(rows)


def open_findings():
    rows = ["| property | finding | what fails | example |", "|---|---|---|---|"]
    for f in findings():
        if f.get("status") == "open":
            rows.append(f"| {f['property']} | {f.get('deviation') or f.get('key')} | {cell(f.get('what', ''), 260)} | `{cell(f.get('example', ''), 90).replace('`', chr(39))}` |")
    return "\n".join(rows)


def seeds():
    rows = ["| seeded change | property | what it breaks (author's words) | verdict of `./check <ID> quick` |", "|---|---|---|---|"]
    for d in sorted(glob.glob(ROOT + "/seeded/*/")):
        try:
            m = json.load(open(d + "meta.json"))
        except Exception:
            continue
        lead = m.get("lead", {})
        conf = lead.get("confirmed", "")
        verdict = lead.get("verdict") or ("CAUGHT" if "check=CAUGHT" in conf else ("MISSED" if "MISSED" in conf else "?"))
        note = lead.get("note") or ""
        rows.append(f"| {os.path.basename(d.rstrip('/'))} | {m.get('property')} | {cell(m.get('breaks', ''), 200)} | {verdict}{(': ' + cell(note, 260)) if note else ''} |")
    return "\n".join(rows)


TABLES = {"fixes": fixes, "open": open_findings, "seeds": seeds}
if "--write" in sys.argv:
    p = ROOT + "/DESIGN.md"
    t = open(p).read()
    for name, fn in TABLES.items():
        b, e = f"<!-- BEGIN GENERATED {name} -->", f"<!-- END GENERATED {name} -->"
        if b in t and e in t:
            t = t[: t.index(b) + len(b)] + "\n" + fn() + "\n" + t[t.index(e):]
        else:
            print("marker missing:", name)
    open(p, "w").write(t)
else:
    for name, fn in TABLES.items():
        print("##", name)
        print(fn())
