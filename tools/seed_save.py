#!/usr/bin/env python3
"""tools/seed_save.py <ID>/<variant> <name> [note] : copy a confirmed seed from /tmp/seed-<ID>-out/<variant> to /verif/seeded/<ID>-<name>/
and record the lead's confirmation (the SEEDQ line of /tmp/seedq*.log) in meta.json."""
import glob, json, os, re, shutil, sys
item, name = sys.argv[1], sys.argv[2]
note = sys.argv[3] if len(sys.argv) > 3 else ""
pid, var = item.split("/")
src = f"/tmp/seed-{pid}-out/{var}"
dst = f"/verif/seeded/{pid}-{name}"
os.makedirs(dst, exist_ok=True)
for f in os.listdir(src):
    if os.path.isfile(os.path.join(src, f)):
        shutil.copy(os.path.join(src, f), dst)
line = ""
for lf in sorted(glob.glob("/tmp/seedq*.log")):
    for l in open(lf):
        if l.startswith(f"SEEDQ {item}:"):
            line = l.strip()
re_line = ""
for lf in sorted(glob.glob("/tmp/recheck*.log")):
    for l in open(lf):
        if l.startswith(f"RECHECK {item}:"):
            re_line = l.strip()
m = json.load(open(dst + "/meta.json"))
m["lead"] = {"confirmed": "in scratch worktree /tmp/wt-seedq (tools/seed_queue.sh): " + line, "note": note}
if re_line:
    m["lead"]["recheck"] = "after the check was strengthened (tools/seed_recheck.sh): " + re_line
    if "check=CAUGHT" in re_line and "check=CAUGHT" not in line:
        m["lead"]["verdict"] = "first MISSED, CAUGHT after strengthening"
json.dump(m, open(dst + "/meta.json", "w"), indent=1)
print(dst, "|", line[:160])
