//! Multi-threaded compilation histories for the process engine (C05/C06).
//!
//! spec: {"threads": [[case, ...], ...], "yield_seed": u64, "rounds": n}
//! Every thread runs its cases in order on an 8 MiB stack; all threads start
//! together behind a barrier.  With a non-zero yield_seed the hook yield
//! points (cfg kaj_rsass_verif) perturb the schedule pseudo-randomly.

use serde_json::{json, Value};
use std::io::Write;
use std::sync::atomic::{AtomicU64, Ordering};
use std::sync::{Arc, Barrier, Mutex};

static YSTATE: AtomicU64 = AtomicU64::new(0);

#[allow(dead_code)]
fn yielder(_site: &'static str) {
    // xorshift on a shared word; races on it only add noise
    let mut x = YSTATE.load(Ordering::Relaxed);
    x ^= x << 13;
    x ^= x >> 7;
    x ^= x << 17;
    YSTATE.store(x, Ordering::Relaxed);
    match x % 8 {
        0 | 1 => std::thread::yield_now(),
        2 => {
            for _ in 0..(x >> 8) % 2000 {
                std::hint::spin_loop();
            }
        }
        3 => std::thread::sleep(std::time::Duration::from_micros((x >> 8) % 50)),
        _ => {}
    }
}

pub fn run(specp: &str, outp: &str) -> std::io::Result<()> {
    let spec: Value = serde_json::from_str(&std::fs::read_to_string(specp)?)
        .map_err(|e| std::io::Error::new(std::io::ErrorKind::InvalidData, e))?;
    let seed = spec.get("yield_seed").and_then(Value::as_u64).unwrap_or(0);
    #[cfg(kaj_rsass_verif)]
    if seed != 0 {
        YSTATE.store(seed | 1, Ordering::Relaxed);
        rsass::verif::set_yield(Some(yielder));
    }
    let _ = seed;
    let threads = spec.get("threads").and_then(Value::as_array).cloned().unwrap_or_default();
    let barrier = Arc::new(Barrier::new(threads.len().max(1)));
    let out = Arc::new(Mutex::new(std::fs::File::create(outp)?));
    let mut handles = vec![];
    for (t, cases) in threads.into_iter().enumerate() {
        let barrier = barrier.clone();
        let out = out.clone();
        handles.push(
            std::thread::Builder::new()
                .stack_size(8 * 1024 * 1024)
                .spawn(move || {
                    barrier.wait();
                    let cases = cases.as_array().cloned().unwrap_or_default();
                    let mut results = Vec::with_capacity(cases.len());
                    for (seq, case) in cases.iter().enumerate() {
                        let mut r = crate::run_case(case);
                        if let Value::Object(m) = &mut r {
                            m.insert("thread".into(), json!(t));
                            m.insert("seq".into(), json!(seq));
                        }
                        results.push(r);
                    }
                    let mut f = out.lock().unwrap();
                    for r in results {
                        let _ = writeln!(f, "{r}");
                    }
                })?,
        );
    }
    let mut dead = 0;
    for h in handles {
        if h.join().is_err() {
            dead += 1;
        }
    }
    if dead > 0 {
        let mut f = out.lock().unwrap();
        writeln!(f, "{}", json!({"status": "toolerr", "msg": "thread died"}))?;
    }
    Ok(())
}
