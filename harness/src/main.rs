//! vh — the conformance executor: runs cases against the real rsass library
//! built from /repo's working tree (path dependency) and reports what it saw.
//!
//! `vh exec <cases.ndjson> <results.ndjson> [--timeout-ms N]`
//!   one JSON case per line in, one JSON result per line out.  Before a case
//!   is run a line `{"start": id}` is written and flushed, so that when the
//!   process is killed (stack overflow, abort) the parent can attribute the
//!   death to exactly one case and restart with the rest.
//! `vh history <spec.json> <results.ndjson>`
//!   multi-threaded compilation histories (C05/C06).
//!
//! The executor decides nothing: all oracles live in the TLA+ specification,
//! all rendering / projection in the Python orchestrator.

use rsass::input::{Context, LoadError, Loader, SourceFile, SourceName};
use rsass::output::{Format, Style};
use serde_json::{json, Map, Value};
use std::collections::BTreeMap;
use std::io::{BufRead, BufReader, Read, Write};
use std::panic::{catch_unwind, AssertUnwindSafe};
use std::sync::atomic::{AtomicU64, Ordering};
use std::sync::{Arc, Mutex};
use std::time::{Duration, Instant};

mod history;

// ---------------------------------------------------------------- loader

#[derive(Debug, Clone, Default)]
pub struct Fault {
    /// 1-based index of the loader call that fails (0 = none)
    pub at: u64,
    /// "find" (find_file returns Err) or "read" (Read fails)
    pub kind: String,
}

pub struct MemLoader {
    files: Arc<BTreeMap<String, Vec<u8>>>,
    /// load path prefixes tried after the plain name ("" is implicit first)
    paths: Vec<String>,
    log: Arc<Mutex<Vec<(String, String)>>>,
    calls: Arc<AtomicU64>,
    faults: Vec<Fault>,
}
impl std::fmt::Debug for MemLoader {
    fn fmt(&self, f: &mut std::fmt::Formatter) -> std::fmt::Result {
        write!(f, "MemLoader")
    }
}

pub struct MemFile {
    data: Vec<u8>,
    pos: usize,
    fail: bool,
}
impl Read for MemFile {
    fn read(&mut self, buf: &mut [u8]) -> std::io::Result<usize> {
        if self.fail {
            return Err(std::io::Error::new(
                std::io::ErrorKind::Other,
                "injected read fault",
            ));
        }
        let n = std::cmp::min(buf.len(), self.data.len() - self.pos);
        buf[..n].copy_from_slice(&self.data[self.pos..self.pos + n]);
        self.pos += n;
        Ok(n)
    }
}

impl Loader for MemLoader {
    type File = MemFile;
    fn find_file(&self, url: &str) -> Result<Option<MemFile>, LoadError> {
        let idx = self.calls.fetch_add(1, Ordering::SeqCst) + 1;
        let fault = self.faults.iter().find(|f| f.at == idx);
        if let Some(f) = fault {
            if f.kind == "find" {
                self.log.lock().unwrap().push((url.into(), "err".into()));
                return Err(LoadError::Input(
                    url.into(),
                    std::io::Error::new(
                        std::io::ErrorKind::PermissionDenied,
                        "injected lookup fault",
                    ),
                ));
            }
        }
        if !url.is_empty() {
            let mut bases = vec![String::new()];
            bases.extend(self.paths.iter().cloned());
            for base in bases {
                let full = if base.is_empty() {
                    url.to_string()
                } else {
                    format!("{}/{}", base.trim_end_matches('/'), url)
                };
                let Some(canon) = fs_resolve(&self.files, &full) else { continue };
                if let Some(data) = self.files.get(&canon) {
                    let fail = fault.map_or(false, |f| f.kind == "read");
                    self.log.lock().unwrap().push((
                        url.into(),
                        if fail { "readerr".into() } else { format!("found:{full}") },
                    ));
                    return Ok(Some(MemFile { data: data.clone(), pos: 0, fail }));
                }
            }
        }
        self.log.lock().unwrap().push((url.into(), "none".into()));
        Ok(None)
    }
}

/// Resolve a path the way a file system would: `.` and `..` components are
/// followed, `..` only through directories that exist (a directory exists
/// when some file lives below it).  Returns the canonical file name.
fn fs_resolve(files: &BTreeMap<String, Vec<u8>>, path: &str) -> Option<String> {
    let mut comps: Vec<&str> = vec![];
    for c in path.split('/') {
        match c {
            "" | "." => {}
            ".." => {
                // the directory walked so far must exist
                let dir = format!("{}/", comps.join("/"));
                if comps.is_empty() || !files.keys().any(|k| k.starts_with(&dir)) {
                    return None;
                }
                comps.pop();
            }
            c => comps.push(c),
        }
    }
    let canon = comps.join("/");
    if files.contains_key(&canon) { Some(canon) } else { None }
}

// ---------------------------------------------------------------- helpers

pub fn bytes_of(v: &Value) -> Vec<u8> {
    match v {
        Value::String(s) => s.as_bytes().to_vec(),
        Value::Object(o) => {
            if let Some(Value::String(h)) = o.get("hex") {
                (0..h.len() / 2)
                    .map(|i| u8::from_str_radix(&h[2 * i..2 * i + 2], 16).unwrap_or(0))
                    .collect()
            } else {
                vec![]
            }
        }
        _ => vec![],
    }
}

pub fn put_bytes(m: &mut Map<String, Value>, key: &str, b: &[u8]) {
    match std::str::from_utf8(b) {
        Ok(s) => {
            m.insert(key.into(), Value::String(s.into()));
        }
        Err(_) => {
            m.insert(key.into(), Value::Null);
            let hex: String = b.iter().map(|x| format!("{x:02x}")).collect();
            m.insert(format!("{key}_hex"), Value::String(hex));
        }
    }
}

pub fn format_of(case: &Value) -> Format {
    let style = match case.get("style").and_then(Value::as_str) {
        Some("compressed") => Style::Compressed,
        Some("introspection") => Style::Introspection,
        _ => Style::Expanded,
    };
    let precision = case
        .get("precision")
        .and_then(Value::as_u64)
        .map_or(Format::default().precision, |p| p as usize);
    Format { style, precision }
}

static LAST_PANIC: Mutex<Option<(String, String)>> = Mutex::new(None);

fn install_panic_hook() {
    std::panic::set_hook(Box::new(|info| {
        let loc = info
            .location()
            .map(|l| format!("{}:{}", l.file(), l.line()))
            .unwrap_or_default();
        let msg = if let Some(s) = info.payload().downcast_ref::<&str>() {
            (*s).to_string()
        } else if let Some(s) = info.payload().downcast_ref::<String>() {
            s.clone()
        } else {
            "?".to_string()
        };
        *LAST_PANIC.lock().unwrap() = Some((loc, msg));
    }));
}

fn err_kind(e: &rsass::Error) -> &'static str {
    match e {
        rsass::Error::Input(_) => "Input",
        rsass::Error::IoError(_) => "IoError",
        rsass::Error::BadCall(..) => "BadCall",
        rsass::Error::ImportLoop(..) => "ImportLoop",
        rsass::Error::ParseError(_) => "ParseError",
        rsass::Error::Invalid(..) => "Invalid",
        rsass::Error::S(_) => "S",
    }
}

// ---------------------------------------------------------------- one case

pub fn run_case(case: &Value) -> Value {
    let mut out = Map::new();
    out.insert("id".into(), case.get("id").cloned().unwrap_or(Value::Null));
    let api = case.get("api").and_then(Value::as_str).unwrap_or("transform");
    let format = format_of(case);
    let trace = case.get("trace").and_then(Value::as_bool).unwrap_or(false);

    let mut files = BTreeMap::new();
    if let Some(Value::Object(fs)) = case.get("files") {
        for (k, v) in fs {
            files.insert(k.clone(), bytes_of(v));
        }
    }
    let files = Arc::new(files);
    let log = Arc::new(Mutex::new(Vec::new()));
    let calls = Arc::new(AtomicU64::new(0));
    let mut faults = vec![];
    if let Some(Value::Array(fl)) = case.get("faults") {
        for f in fl {
            faults.push(Fault {
                at: f.get("at").and_then(Value::as_u64).unwrap_or(0),
                kind: f.get("kind").and_then(Value::as_str).unwrap_or("find").into(),
            });
        }
    }
    let paths: Vec<String> = case
        .get("load_paths")
        .and_then(Value::as_array)
        .map(|a| a.iter().filter_map(|x| x.as_str().map(String::from)).collect())
        .unwrap_or_default();

    *LAST_PANIC.lock().unwrap() = None;
    #[cfg(kaj_rsass_verif)]
    if trace {
        rsass::verif::install();
    }
    let result = catch_unwind(AssertUnwindSafe(|| -> Result<Vec<u8>, rsass::Error> {
        match api {
            "compile_scss" => {
                let src = bytes_of(case.get("src").unwrap_or(&Value::Null));
                rsass::compile_scss(&src, format)
            }
            "compile_value" => {
                let src = bytes_of(case.get("src").unwrap_or(&Value::Null));
                rsass::compile_value(&src, format)
            }
            "compile_scss_path" => {
                let p = case.get("path").and_then(Value::as_str).unwrap_or("");
                rsass::compile_scss_path(p.as_ref(), format)
            }
            "fs_transform" => {
                // FsContext rooted at `dir`, optional load paths, entry file
                let p = case.get("path").and_then(Value::as_str).unwrap_or("");
                let (mut ctx, src) = rsass::input::FsContext::for_path(p.as_ref())?;
                for lp in &paths {
                    ctx.push_path(lp.as_ref());
                }
                ctx.with_format(format).transform(src)
            }
            "number" => {
                let bits = case.get("bits").and_then(Value::as_str).unwrap_or("0");
                let x = f64::from_bits(u64::from_str_radix(bits, 16).unwrap_or(0));
                let n = rsass::value::Number::from(x);
                Ok(n.format(format).to_string().into_bytes())
            }
            _ => {
                let entry = case.get("entry").and_then(Value::as_str).unwrap_or("main.scss");
                let data = match case.get("src") {
                    Some(v) if !v.is_null() => bytes_of(v),
                    _ => files.get(entry).cloned().unwrap_or_default(),
                };
                let as_css = match case.get("format").and_then(Value::as_str) {
                    Some("css") => true,
                    Some("scss") => false,
                    _ => entry.ends_with(".css"),
                };
                let loader = MemLoader {
                    files: files.clone(),
                    paths: paths.clone(),
                    log: log.clone(),
                    calls: calls.clone(),
                    faults: faults.clone(),
                };
                let name = SourceName::root(entry);
                let src = if as_css {
                    SourceFile::css_bytes(data, name)
                } else {
                    SourceFile::scss_bytes(data, name)
                };
                Context::for_loader(loader).with_format(format).transform(src)
            }
        }
    }));
    #[cfg(kaj_rsass_verif)]
    if trace {
        let evs: Vec<Value> = rsass::verif::take()
            .into_iter()
            .map(|s| serde_json::from_str(&s).unwrap_or(Value::String(s)))
            .collect();
        out.insert("events".into(), Value::Array(evs));
    }
    let _ = trace;
    match result {
        Ok(Ok(css)) => {
            out.insert("status".into(), "ok".into());
            put_bytes(&mut out, "out", &css);
        }
        Ok(Err(e)) => {
            out.insert("status".into(), "err".into());
            out.insert("kind".into(), err_kind(&e).into());
            match catch_unwind(AssertUnwindSafe(|| e.to_string())) {
                Ok(s) => {
                    out.insert("err".into(), s.into());
                }
                Err(_) => {
                    out.insert("status".into(), "panic".into());
                    out.insert("where".into(), "render".into());
                    if let Some((loc, msg)) = LAST_PANIC.lock().unwrap().clone() {
                        out.insert("loc".into(), loc.into());
                        out.insert("msg".into(), msg.into());
                    }
                }
            }
        }
        Err(_) => {
            out.insert("status".into(), "panic".into());
            out.insert("where".into(), "compile".into());
            if let Some((loc, msg)) = LAST_PANIC.lock().unwrap().clone() {
                out.insert("loc".into(), loc.into());
                out.insert("msg".into(), msg.into());
            }
        }
    }
    // C39: after a faulted run, the same input again with a working loader, in the same process
    if case.get("rerun_clean").and_then(Value::as_bool).unwrap_or(false) {
        let mut again = case.clone();
        if let Value::Object(m) = &mut again {
            m.remove("faults");
            m.remove("rerun_clean");
            m.insert("trace".into(), Value::Bool(false));
        }
        out.insert("clean".into(), run_case(&again));
    }
    let l = log.lock().unwrap();
    if !l.is_empty() || case.get("want_calls").is_some() {
        out.insert(
            "calls".into(),
            Value::Array(l.iter().map(|(u, r)| json!([u, r])).collect()),
        );
    }
    Value::Object(out)
}

// ---------------------------------------------------------------- exec

fn exec(inp: &str, outp: &str, timeout_ms: u64) -> std::io::Result<()> {
    let rd = BufReader::new(std::fs::File::open(inp)?);
    let out = Arc::new(Mutex::new(std::fs::OpenOptions::new()
        .create(true)
        .append(true)
        .open(outp)?));
    // watchdog state: (current id, started)
    let current: Arc<Mutex<Option<(Value, Instant)>>> = Arc::new(Mutex::new(None));
    {
        let current = current.clone();
        let out = out.clone();
        std::thread::spawn(move || loop {
            std::thread::sleep(Duration::from_millis(100));
            let c = current.lock().unwrap().clone();
            if let Some((id, t0)) = c {
                if t0.elapsed() > Duration::from_millis(timeout_ms) {
                    let mut f = out.lock().unwrap();
                    let _ = writeln!(f, "{}", json!({"id": id, "status": "timeout"}));
                    let _ = f.flush();
                    std::process::exit(3);
                }
            }
        });
    }
    let worker = std::thread::Builder::new()
        .stack_size(8 * 1024 * 1024)
        .spawn(move || -> std::io::Result<()> {
            for line in rd.lines() {
                let line = line?;
                if line.trim().is_empty() {
                    continue;
                }
                let case: Value = match serde_json::from_str(&line) {
                    Ok(v) => v,
                    Err(e) => {
                        let mut f = out.lock().unwrap();
                        writeln!(f, "{}", json!({"status": "toolerr", "msg": e.to_string()}))?;
                        continue;
                    }
                };
                let id = case.get("id").cloned().unwrap_or(Value::Null);
                {
                    let mut f = out.lock().unwrap();
                    writeln!(f, "{}", json!({"start": id}))?;
                    f.flush()?;
                }
                *current.lock().unwrap() = Some((id, Instant::now()));
                let res = run_case(&case);
                *current.lock().unwrap() = None;
                let mut f = out.lock().unwrap();
                writeln!(f, "{res}")?;
            }
            out.lock().unwrap().flush()?;
            Ok(())
        })?;
    match worker.join() {
        Ok(r) => r,
        Err(_) => std::process::exit(4),
    }
}

fn main() {
    install_panic_hook();
    let args: Vec<String> = std::env::args().collect();
    let mut timeout_ms = 10_000;
    if let Some(p) = args.iter().position(|a| a == "--timeout-ms") {
        timeout_ms = args.get(p + 1).and_then(|s| s.parse().ok()).unwrap_or(10_000);
    }
    let r = match args.get(1).map(String::as_str) {
        Some("exec") if args.len() >= 4 => exec(&args[2], &args[3], timeout_ms),
        Some("history") if args.len() >= 4 => history::run(&args[2], &args[3]),
        _ => {
            eprintln!("usage: vh exec <cases> <results> [--timeout-ms N] | vh history <spec> <results>");
            std::process::exit(2);
        }
    };
    if let Err(e) = r {
        eprintln!("vh: {e}");
        std::process::exit(2);
    }
}
