---------------------------- MODULE Diag_StrEsc ----------------------------
EXTENDS StrEsc, Json, IOUtils, TLCExt
Rec == ndJsonDeserialize(IOEnv.TRACE)
VARIABLE l
Init == l = 1
Diag(e) ==
  LET d == CssDecode(e.lit) IN
  IF d.ok = 0 THEN PrintT(<<"MSG", "BADLIT", e.case>>)
  ELSE LET bad == BadFields(e.obs, d.s)
           rs == RsObs(e.lit, {"quoted_stored_escaped", "unquote_hex_as_decimal", "emit_escape_boundary"})
           unk == {f \in bad : ~KnownField(f, e.obs, rs)} IN
       IF unk = {} THEN TRUE
       ELSE PrintT(<<"MSG", "UNEXPLAINED", e.case, ToJson(unk), ToJson(rs)>>)
Next == l <= Len(Rec) /\ Diag(Rec[l]) /\ l' = l + 1
Spec == Init /\ [][Next]_l
=============================================================================
