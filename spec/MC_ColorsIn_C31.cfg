SPECIFICATION Spec
INVARIANTS LawIdealInRange LawRefBound LawPartnersSame Emit
CHECK_DEADLOCK FALSE
