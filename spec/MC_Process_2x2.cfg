SPECIFICATION Spec
CONSTANTS
  Threads = {"t1", "t2"}
  Progs <- ProgTable
  Dev = {}
  ProgSel = {"rd", "wr", "wg", "df", "fc", "uid"}
  MaxJobs = 2
INVARIANTS Deterministic BuiltinImmutable Unique CounterMatches MutexOk MatchesAlone Emit
CHECK_DEADLOCK FALSE
