SPECIFICATION Spec
CONSTANTS
  Mode = "ref"
  Tier = "thorough"
  RefN = 60
INVARIANTS RefLawsHold NeverRejects FinalTable Emit
CHECK_DEADLOCK FALSE
