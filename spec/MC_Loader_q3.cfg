SPECIFICATION Spec
CONSTANTS
  Files = {"r", "b"}
  Root = "r"
  SubFiles = {"b"}
  MaxDepth = 8
  FileSeq <- Seq2
  MaxStmts = 3
  GenKinds = {"use", "forward", "import", "loadcss"}
  GenSpellings = {"plain", "dot"}
  DevChoices <- DevIdeal
  MaxFaultAt = 0
INVARIANTS UrlsResolve LockDiscipline DepthBound LoopOnlyOnCycle NeverOverflow InitOnce OkOnlyAcyclic Emit
PROPERTY Termination
CHECK_DEADLOCK FALSE
