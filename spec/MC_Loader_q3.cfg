SPECIFICATION Spec
CONSTANTS
  Files = {"r", "a"}
  Root = "r"
  MaxDepth = 8
  FileSeq <- Seq2
  MaxStmts = 3
  GenKinds = {"use", "forward", "import", "loadcss"}
  GenSpellings = {"plain", "dot"}
  DevChoices <- DevIdeal
INVARIANTS LockDiscipline DepthBound LoopOnlyOnCycle NeverOverflow InitOnce OkOnlyAcyclic Emit
PROPERTY Termination
CHECK_DEADLOCK FALSE
