----------------------------- MODULE Trace_Units -----------------------------
(* Trace validation for C11: every recorded evaluation {op, a, b, obs} must   *)
(* be explained by Units!Observe - the ideal table, or (reported as KNOWN) a  *)
(* deviation listed as an open finding.  The unit exponents / error class /   *)
(* boolean are compared exactly, the printed number against the exact         *)
(* rational (x pi^k) by digit-sequence arithmetic at relative 1e-9 + 1e-10.   *)
EXTENDS Units, Json, IOUtils, TLCExt

Rec == ndJsonDeserialize(IOEnv.TRACE)

VARIABLE l
Init == l = 1

Explained(e) ==
  LET x == [op |-> e.op, a |-> e.a, b |-> e.b]
      Obs(Dev) == IF e.c = 1 THEN ObserveC(x, Dev) ELSE Observe(x, Dev)     \* c = 1: compound unit sets
      ideal == Obs({}) IN
  IF ideal.k = "undef" THEN TRUE
  ELSE IF Matches(ideal, e.obs) THEN TRUE
  ELSE \E d \in SeqToSet(e.devs) \cap AllDevs :
         LET r == Obs({d}) IN
         /\ r # ideal /\ r.k # "undef"
         /\ Matches(r, e.obs)
         /\ PrintT(<<"MSG", "KNOWN", d, e.case>>)

Next == /\ l <= Len(Rec)
        /\ Explained(Rec[l]) = TRUE      \* as a value: evaluated once, not split into sub-actions
        /\ l' = l + 1
Spec == Init /\ [][Next]_l

Accepted == IF TLCGet("stats").diameter - 1 = Len(Rec) THEN TRUE
            ELSE PrintT(<<"UNMATCHED", TLCGet("stats").diameter>>) /\ FALSE
=============================================================================
