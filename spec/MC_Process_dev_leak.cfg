SPECIFICATION Spec
CONSTANTS
  Threads = {"t1", "t2"}
  Progs <- ProgTable
  Dev = {"user_def_leaks"}
  MaxJobs = 1
INVARIANTS MatchesAlone
CHECK_DEADLOCK FALSE
