SPECIFICATION Spec
CONSTANTS
  Threads = {"t1", "t2"}
  Progs <- ProgTable
  Dev = {"user_def_leaks"}
  ProgSel = {"rd", "wr", "df", "pu", "uid", "uid2"}
  MaxJobs = 1
INVARIANTS MatchesAlone
CHECK_DEADLOCK FALSE
