SPECIFICATION Spec
CONSTANTS
  Prop = "C31"
  RgbGrid <- RgbGridT
  RgbForms = {"comma", "space"}
  RgbpGrid <- RgbpGridFull
  PctGrid <- PctGridT
  HueGrid <- HueGridT
  HslForms = {"comma", "space"}
  HwbForms = {"space"}
  AlphaGrid <- AlphaGridFull
  HexDigits = {0, 1, 5, 8, 10, 15}
  HexBytes = {0, 1, 85, 128, 254, 255}
  NameForms = {"lower", "upper"}
  Deltas = {}
  Amounts = {}
  Fns = {}
  FnsNamed = {}
  Styles = {}
INVARIANTS LawIdealInRange LawRefBound LawPartnersSame Emit
CHECK_DEADLOCK FALSE
