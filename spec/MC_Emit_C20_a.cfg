SPECIFICATION Spec
CONSTANTS
  Kinds = {"rule", "media", "supports", "unknown", "atroot0", "atroot", "keyframes", "fontface"}
  TopSels <- TopPlain
  NestSels <- NestPlain
  AtRootSels <- RootAmp
  MaxNodes = 7
  MaxDepth = 3
  MaxDecl = 4
INVARIANTS InvMachine Emit
CHECK_DEADLOCK FALSE
