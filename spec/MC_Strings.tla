----------------------------- MODULE MC_Strings -----------------------------
(* Bounded-exhaustive generator for C26: build a string code point by code  *)
(* point (builder action), then choose one call of a sass:string function   *)
(* with every index in [-len-2, len+2]; one conformance vector per call.    *)
EXTENDS Strings, Json

CONSTANTS Alphabet,     \* code points
          MinLen, MaxLen,
          FnSet,        \* functions to emit calls for
          SubMaxLen     \* substrings for index: all strings over Alphabet up to this length

VARIABLES s, phase, call
vars == <<s, phase, call>>

NoCall == [fn |-> "none", s |-> <<>>, q |-> 0, x |-> <<>>, xq |-> 0, i |-> 0, j |-> 0]

Init == s = <<>> /\ phase = "build" /\ call = NoCall

AddCp == /\ phase = "build" /\ Len(s) < MaxLen
         /\ \E c \in Alphabet : s' = Append(s, c)
         /\ UNCHANGED <<phase, call>>

Idx == (0 - Len(s) - 2)..(Len(s) + 2)

(* texts to insert: empty, one non-ASCII code point, two code points (ASCII + astral) *)
InsTexts == {<<>>, <<233>>, <<97, 128512>>}

RECURSIVE StrsUpTo(_)
StrsUpTo(n) == IF n = 0 THEN {<<>>}
               ELSE LET R == StrsUpTo(n - 1) IN R \cup {Append(t, c) : t \in {r \in R : Len(r) = n - 1}, c \in Alphabet}

Call(fn, q, x, xq, i, j) == [fn |-> fn, s |-> s, q |-> q, x |-> x, xq |-> xq, i |-> i, j |-> j]

Choose ==
  /\ phase = "build" /\ Len(s) >= MinLen
  /\ phase' = "done" /\ UNCHANGED s
  /\ \E q \in {0, 1} :
       \/ /\ "length" \in FnSet /\ call' = Call("length", q, <<>>, 0, 0, 0)
       \/ /\ "case" \in FnSet /\ \E f \in {"upper", "lower"} : call' = Call(f, q, <<>>, 0, 0, 0)
       \/ /\ "index" \in FnSet /\ \E x \in StrsUpTo(SubMaxLen) : call' = Call("index", q, x, 1, 0, 0)
       \/ /\ "insert" \in FnSet /\ \E x \in InsTexts, i \in Idx : call' = Call("insert", q, x, 1 - q, i, 0)
       \/ /\ "slice" \in FnSet /\ \E i \in Idx, j \in Idx : call' = Call("slice", q, <<>>, 0, i, j)

Next == AddCp \/ Choose
Spec == Init /\ [][Next]_vars

Done == phase = "done"

Laws == Done => /\ LawLength(call) /\ LawQuoted(call) /\ LawInsert(call)
                /\ LawSlice(call) /\ LawIndex(call) /\ LawCase(call)

Emit == Done => PrintT(<<"VEC", ToJson([fn |-> call.fn, s |-> call.s, q |-> call.q, x |-> call.x, xq |-> call.xq,
                                         i |-> call.i, j |-> call.j,
                                         expect |-> Apply(call, {}), dev |-> DevMap(call)])>>)
=============================================================================
