------------------------------- MODULE StrEsc -------------------------------
(***************************************************************************)
(* CSS/Sass string escaping (property C27).  All text is a sequence of     *)
(* code points.                                                            *)
(*                                                                         *)
(* Ideal part (the property):                                              *)
(*   CssDecode(token)     the string a quoted CSS string token denotes     *)
(*                        (CSS Syntax: backslash + 1-6 hex digits + one    *)
(*                        optional whitespace; backslash + newline is a    *)
(*                        continuation; backslash + any other character is *)
(*                        that character), or "not a string token"         *)
(*   Piece(c, kind)       the spellings of one code point in a literal     *)
(*   laws                 CssDecode(emitted token) = content,              *)
(*                        length = Len(content),                           *)
(*                        quote(unquote(s)) = s                            *)
(*                                                                         *)
(* Deviation part: Rs* operators model what the pinned tree does with a    *)
(* quoted literal (parser/strings.rs sass_string_dq/_sq,                   *)
(* normalized_escaped_char_q, cleanup_escape_ws; css/string.rs Display,    *)
(* unquote, quote, pref_dquotes, PartialEq; sass/string.rs evaluate):      *)
(* the value is kept in a normalised *escaped* form and every operation    *)
(* works on that form.  Named deviations (RsObs(t, D) predicts the tree    *)
(* with the deviations D present, so that a repaired defect can be         *)
(* switched off on its own):                                               *)
(*   quoted_stored_escaped    the base: values are kept escaped;           *)
(*                            string.length counts the escaped form, ==    *)
(*                            compares escaped forms, unquote/interpolation*)
(*                            re-read and re-escape that form              *)
(*   unquote_hex_as_decimal   CssString::unquote accumulates the digits of *)
(*                            a hex escape in base 10                      *)
(*   emit_escape_boundary     cleanup_escape_ws drops a space that is      *)
(*                            content or a needed terminator; Display      *)
(*                            leaves private-use escapes unterminated      *)
(***************************************************************************)
EXTENDS Integers, Sequences, FiniteSets, TLC

BS == 92
DQ == 34
SQ == 39
SP == 32
TAB == 9
LF == 10
REPL == 65533

IsHex(c) == (c >= 48 /\ c <= 57) \/ (c >= 65 /\ c <= 70) \/ (c >= 97 /\ c <= 102)
HexVal(c) == IF c <= 57 THEN c - 48 ELSE IF c <= 70 THEN c - 55 ELSE c - 87
IsNl(c) == c \in {10, 12, 13}
IsWs(c) == c \in {9, 10, 12, 13, 32}
ValidCp(v) == v > 0 /\ v <= 1114111 /\ ~(v >= 55296 /\ v <= 57343)

Has(s, c) == \E p \in 1..Len(s) : s[p] = c

RECURSIVE HexDigits(_)
(* lower-case hexadecimal digits of n > 0 (as code points) *)
HexDigits(n) == IF n < 16 THEN <<IF n < 10 THEN 48 + n ELSE 87 + n>>
                ELSE Append(HexDigits(n \div 16), IF n % 16 < 10 THEN 48 + (n % 16) ELSE 87 + (n % 16))
Upper(s) == [p \in 1..Len(s) |-> IF s[p] >= 97 /\ s[p] <= 102 THEN s[p] - 32 ELSE s[p]]
RECURSIVE Pad6(_)
Pad6(s) == IF Len(s) >= 6 THEN s ELSE Pad6(<<48>> \o s)

---------------------------------------------------------------------------
(* CSS string tokens *)

RECURSIVE HexRun(_, _, _)
(* number of hex digits of t starting at i, at most max *)
HexRun(t, i, max) == IF max = 0 \/ i > Len(t) \/ ~IsHex(t[i]) THEN 0 ELSE 1 + HexRun(t, i + 1, max - 1)
RECURSIVE HexNum(_, _, _, _)
HexNum(t, i, n, acc) == IF n = 0 THEN acc ELSE HexNum(t, i + 1, n - 1, acc * 16 + HexVal(t[i]))

Bad == [ok |-> 0, s |-> <<>>, end |-> 0]

RECURSIVE DecFrom(_, _, _, _)
(* decode t from position i up to the first unescaped quote q *)
DecFrom(t, i, q, acc) ==
  IF i > Len(t) THEN Bad
  ELSE LET c == t[i] IN
       IF c = q THEN [ok |-> 1, s |-> acc, end |-> i]
       ELSE IF IsNl(c) THEN Bad
       ELSE IF c # BS THEN DecFrom(t, i + 1, q, Append(acc, c))
       ELSE IF i = Len(t) THEN Bad
       ELSE LET d == t[i + 1] IN
            IF IsNl(d) THEN DecFrom(t, i + 2, q, acc)
            ELSE IF IsHex(d) THEN
                 LET n == HexRun(t, i + 1, 6)
                     v == HexNum(t, i + 1, n, 0)
                     j == i + 1 + n
                     j2 == IF j <= Len(t) /\ IsWs(t[j]) THEN j + 1 ELSE j IN
                 DecFrom(t, j2, q, Append(acc, IF ValidCp(v) THEN v ELSE REPL))
            ELSE DecFrom(t, i + 2, q, Append(acc, d))

(* [ok |-> 1, s |-> content] iff tok is exactly one well-formed quoted string token *)
CssDecode(tok) ==
  IF Len(tok) < 2 \/ tok[1] \notin {DQ, SQ} THEN [ok |-> 0, s |-> <<>>]
  ELSE LET r == DecFrom(tok, 2, tok[1], <<>>) IN
       IF r.ok = 1 /\ r.end = Len(tok) THEN [ok |-> 1, s |-> r.s] ELSE [ok |-> 0, s |-> <<>>]

Denotes(tok, content) == LET d == CssDecode(tok) IN d.ok = 1 /\ d.s = content

---------------------------------------------------------------------------
(* spellings of one code point inside a literal quoted with q *)
Kinds == {"raw", "bs", "hex", "hexsp", "hextab", "HEXsp", "hex6", "hex6sp"}

KindAllowed(c, kind, q) ==
  CASE kind = "raw" -> c # q /\ c # BS /\ ~IsNl(c) /\ c # 35     \* '#' is always written escaped here
    [] kind = "bs"  -> ~IsHex(c) /\ ~IsNl(c)
    [] OTHER        -> TRUE

Piece(c, kind) ==
  CASE kind = "raw"    -> <<c>>
    [] kind = "bs"     -> <<BS, c>>
    [] kind = "hex"    -> <<BS>> \o HexDigits(c)
    [] kind = "hexsp"  -> <<BS>> \o HexDigits(c) \o <<SP>>
    [] kind = "hextab" -> <<BS>> \o HexDigits(c) \o <<TAB>>
    [] kind = "HEXsp"  -> <<BS>> \o Upper(HexDigits(c)) \o <<SP>>
    [] kind = "hex6"   -> <<BS>> \o Pad6(HexDigits(c))
    [] kind = "hex6sp" -> <<BS>> \o Pad6(HexDigits(c)) \o <<SP>>

(* may `next` (the first code point of what follows) come directly after a piece of this kind? *)
MayFollow(kind, next) ==
  CASE kind = "hex"  -> ~IsHex(next) /\ ~IsWs(next)
    [] kind = "hex6" -> ~IsWs(next)
    [] OTHER         -> TRUE

---------------------------------------------------------------------------
(* ---- what the pinned tree does (deviation model) ---- *)

IsControl(c) == c <= 31 \/ (c >= 127 /\ c <= 159)
IsPrivate(c) == (c >= 57344 /\ c <= 63743) \/ (c >= 983040 /\ c <= 1048573) \/ (c >= 1048576 /\ c <= 1114109)
IsAsciiAlnum(c) == (c >= 48 /\ c <= 57) \/ (c >= 65 /\ c <= 90) \/ (c >= 97 /\ c <= 122)
IsAsciiGraphic(c) == c >= 33 /\ c <= 126
(* Unicode alphanumeric, for the code points the generators use; -1 = not known to this model *)
AlnumClass(c) ==
  IF c < 128 THEN (IF IsAsciiAlnum(c) THEN 1 ELSE 0)
  ELSE IF c \in {170, 181, 186} \/ (c >= 192 /\ c <= 255 /\ c # 215 /\ c # 247) THEN 1     \* Latin-1 letters
  ELSE IF c >= 128 /\ c <= 191 /\ c \notin {178, 179, 185, 188, 189, 190} THEN 0             \* C1 controls, Latin-1 punctuation
  ELSE IF c \in {215, 247} THEN 0                                                              \* multiplication / division sign
  ELSE IF (c >= 913 /\ c <= 929) \/ (c >= 931 /\ c <= 937) \/ (c >= 945 /\ c <= 969) \/ (c >= 1040 /\ c <= 1103) THEN 1  \* Greek, Cyrillic
  ELSE IF c >= 19968 /\ c <= 40959 THEN 1                                                      \* CJK
  ELSE IF c \in {769, 776, 8212, 8232, 8364, 65533} \/ IsPrivate(c) \/ (c >= 128512 /\ c <= 128591) THEN 0
  ELSE -1

EscNorm(c) ==    \* normalized_escaped_char_q
  IF c = 0 THEN <<REPL>>
  ELSE IF IsControl(c) /\ c # TAB THEN <<BS>> \o HexDigits(c) \o <<SP>>
  ELSE IF c \in {45, BS, SP} THEN <<BS, c>>
  ELSE <<c>>

IsPlainQ(c) == c \notin {BS, 35, SQ, DQ, 10, 13, 12}      \* simple_qstring_part
RECURSIVE PlainRun(_, _)
PlainRun(t, i) == IF i > Len(t) \/ ~IsPlainQ(t[i]) THEN 0 ELSE 1 + PlainRun(t, i + 1)

(* the Raw parts of a quoted literal t (t[1] = quote, t[Len(t)] = closing quote); <<-1>> marks "outside the model" *)
RECURSIVE RsParts(_, _, _)
RsParts(t, i, parts) ==
  LET q == t[1] IN
  IF i >= Len(t) THEN parts
  ELSE LET c == t[i] IN
    IF IsPlainQ(c) THEN LET n == PlainRun(t, i) IN
                        IF i + n > Len(t) THEN Append(parts, <<-1>>) ELSE RsParts(t, i + n, Append(parts, SubSeq(t, i, i + n - 1)))
    ELSE IF c = 35 THEN (IF t[i + 1] = 123 THEN Append(parts, <<-1>>) ELSE RsParts(t, i + 1, Append(parts, <<35>>)))
    ELSE IF c \in {SQ, DQ} THEN (IF c = q THEN Append(parts, <<-1>>) ELSE RsParts(t, i + 1, Append(parts, <<c>>)))
    ELSE IF c # BS \/ i + 1 >= Len(t) + 1 THEN Append(parts, <<-1>>)       \* raw newline / dangling backslash: parse error
    ELSE LET d == t[i + 1] IN
      IF d = q /\ i + 1 < Len(t) THEN RsParts(t, i + 2, Append(parts, <<q>>))
      ELSE IF i + 1 >= Len(t) THEN Append(parts, <<-1>>)
      ELSE IF q = SQ /\ d = LF THEN RsParts(t, i + 2, Append(parts, <<>>))
      ELSE IF d = BS THEN RsParts(t, i + 2, Append(parts, <<BS, BS>>))
      ELSE IF IsHex(d) THEN
           LET n == HexRun(t, i + 1, 6)
               v == HexNum(t, i + 1, n, 0)
               j == i + 1 + n
               sp == j < Len(t) /\ t[j] = SP
               valid == v = 0 \/ ValidCp(v) IN
           IF valid THEN RsParts(t, IF sp THEN j + 1 ELSE j, Append(parts, EscNorm(v)))
           ELSE RsParts(t, i + 2, Append(parts, EscNorm(d)))
      ELSE RsParts(t, i + 2, Append(parts, EscNorm(d)))

(* cleanup_escape_ws.  With emit_escape_boundary the trailing space of a  *)
(* part is dropped although it is content (the part is an escaped space)  *)
(* or although the next part starts with a space (which then becomes the  *)
(* terminator); without it (the repaired rule) only a redundant           *)
(* terminator of a hex escape is dropped.                                 *)
RsCleanup(parts, D) ==
  LET buggy == "emit_escape_boundary" \in D IN
  [k \in 1..Len(parts) |->
     LET s == parts[k] IN
     IF Len(s) >= 2 /\ s[1] = BS /\ s[Len(s)] = SP /\ (buggy \/ s # <<BS, SP>>)
     THEN IF k = Len(parts) THEN SubSeq(s, 1, Len(s) - 1)
          ELSE LET nx == parts[k + 1] IN
               IF nx # <<>> /\ ~IsHex(nx[1]) /\ nx[1] # TAB /\ (buggy \/ nx[1] # SP) THEN SubSeq(s, 1, Len(s) - 1) ELSE s
     ELSE s]

RECURSIVE Concat(_)
Concat(parts) == IF parts = <<>> THEN <<>> ELSE Head(parts) \o Concat(Tail(parts))

RsInModel(t) == LET ps == RsParts(t, 2, <<>>) IN \A k \in 1..Len(ps) : ps[k] # <<-1>>
RsStored(t, D) == Concat(RsCleanup(RsParts(t, 2, <<>>), D))

PrefQuote(v) == IF Has(v, DQ) /\ ~Has(v, SQ) THEN SQ ELSE DQ

(* Display of a CssString.  With emit_escape_boundary a private-use code  *)
(* point is written as a hex escape without terminator; without it (the   *)
(* repaired rule) a space follows when the next character is a hex digit, *)
(* a space or a tab.                                                      *)
RECURSIVE RsDisplayBody(_, _, _)
RsDisplayBody(v, q, D) ==
  IF v = <<>> THEN <<>>
  ELSE LET c == Head(v)
           term == IF "emit_escape_boundary" \notin D /\ Len(v) >= 2 /\ (IsHex(v[2]) \/ v[2] \in {SP, TAB}) THEN <<SP>> ELSE <<>> IN
       (IF c = q THEN <<BS, c>> ELSE IF IsPrivate(c) THEN <<BS>> \o HexDigits(c) \o term ELSE <<c>>) \o RsDisplayBody(Tail(v), q, D)
RsDisplay(v, q, D) == <<q>> \o RsDisplayBody(v, q, D) \o <<q>>
(* a declaration value is written with every newline replaced by a space (css/rule.rs Property::write) *)
RsEmit(v, D) == LET d == RsDisplay(v, PrefQuote(v), D) IN [p \in 1..Len(d) |-> IF d[p] = LF THEN SP ELSE d[p]]

(* CssString::unquote of a quoted value.  With unquote_hex_as_decimal the *)
(* digits of a hex escape are accumulated in base 10.                     *)
RECURSIVE DigitRun(_, _)
DigitRun(v, i) == IF i > Len(v) \/ ~IsHex(v[i]) THEN 0 ELSE 1 + DigitRun(v, i + 1)
RECURSIVE DigNum(_, _, _, _, _)
DigNum(v, i, n, acc, base) == IF n = 0 THEN acc ELSE DigNum(v, i + 1, n - 1, acc * base + HexVal(v[i]), base)
RECURSIVE RsUnq(_, _, _)
RsUnq(v, i, base) ==
  IF i > Len(v) THEN <<>>
  ELSE IF v[i] # BS THEN <<v[i]>> \o RsUnq(v, i + 1, base)
  ELSE LET n == DigitRun(v, i + 1) IN
       IF n = 0 THEN (IF i + 1 > Len(v) THEN <<>>
                      ELSE (IF v[i + 1] = LF THEN <<BS, 97>> ELSE <<v[i + 1]>>) \o RsUnq(v, i + 2, base))
       ELSE IF n > 7 THEN <<-1>>
       ELSE LET val == DigNum(v, i + 1, n, 0, base)
                j == i + 1 + n
                j2 == IF j <= Len(v) /\ v[j] = SP THEN j + 1 ELSE j IN
            <<IF val <= 1114111 /\ ~(val >= 55296 /\ val <= 57343) THEN val ELSE REPL>> \o RsUnq(v, j2, base)
RsUnquote(v, D) == RsUnq(v, 1, IF "unquote_hex_as_decimal" \in D THEN 10 ELSE 16)

(* SassString::evaluate: interpolation of a value into a quoted string *)
RECURSIVE RsReesc(_, _, _)
RsReesc(v, i, carry) ==
  IF i > Len(v) THEN <<>>
  ELSE LET c == v[i]
           pre == IF carry /\ (IsHex(c) \/ c = TAB) THEN <<SP>> ELSE <<>> IN
       IF c = BS THEN pre \o <<BS, BS>> \o RsReesc(v, i + 1, FALSE)
       ELSE IF AlnumClass(c) = 1 \/ IsAsciiGraphic(c) \/ c \in {SP, TAB, REPL} THEN pre \o <<c>> \o RsReesc(v, i + 1, FALSE)
       ELSE IF ~IsControl(c) /\ c # LF /\ c # TAB THEN pre \o <<BS, c>> \o RsReesc(v, i + 1, FALSE)
       ELSE pre \o <<BS>> \o HexDigits(c) \o RsReesc(v, i + 1, TRUE)

RECURSIVE DoubleBs(_)
DoubleBs(v) == IF v = <<>> THEN <<>> ELSE (IF Head(v) = BS THEN <<BS, BS>> ELSE <<Head(v)>>) \o DoubleBs(Tail(v))

(* Everything the tree is predicted to show for the literal t when the    *)
(* deviations D are present.  The model as a whole is the deviation       *)
(* quoted_stored_escaped (values kept in escaped form); the other two     *)
(* switch individual defects on top of it.  known = 0: not covered.       *)
NoTok == <<-1>>
NoObs == [known |-> 0, emit |-> NoTok, len |-> -1, interp |-> NoTok, qu |-> NoTok, eq |-> -1]
RsObs(t, D) ==
  IF "quoted_stored_escaped" \notin D \/ ~RsInModel(t) THEN NoObs
  ELSE LET v  == RsStored(t, D)
           u  == RsUnquote(v, D)
           iv == RsReesc(RsDisplayBody(u, -1, D), 1, FALSE)      \* Display of the unquoted value, re-escaped
           qv == DoubleBs(u)                                      \* string.quote of the unquoted value
           classKnown == \A p \in 1..Len(u) : u[p] >= 0 /\ AlnumClass(u[p]) >= 0 IN
       [known  |-> 1,
        emit   |-> RsEmit(v, D),
        len    |-> Len(v),
        interp |-> IF classKnown THEN RsEmit(iv, D) ELSE NoTok,
        qu     |-> IF Has(u, -1) THEN NoTok ELSE RsEmit(qv, D),
        eq     |-> IF Has(u, -1) THEN -1
                   ELSE IF PrefQuote(v) = PrefQuote(qv) THEN (IF v = qv THEN 1 ELSE 0)
                   ELSE (IF RsUnquote(v, D) = RsUnquote(qv, D) THEN 1 ELSE 0)]

---------------------------------------------------------------------------
(* The judgement of one observation obs = [emit, len, interp, qu, eq] of   *)
(* the literal t whose content (by CssDecode) is c.  Each observable is    *)
(* either what the property demands, or exactly what the deviation model  *)
(* predicts with the open deviations D switched on.                        *)
IdealField(f, obs, c) ==
  CASE f = "emit"   -> Denotes(obs.emit, c)
    [] f = "len"    -> obs.len = Len(c)
    [] f = "interp" -> Denotes(obs.interp, c)
    [] f = "qu"     -> Denotes(obs.qu, c)
    [] f = "eq"     -> obs.eq = 1

Fields == {"emit", "len", "interp", "qu", "eq"}
BadFields(obs, c) == {f \in Fields : ~IdealField(f, obs, c)}

FieldOf(f, o) ==
  CASE f = "emit" -> o.emit [] f = "interp" -> o.interp [] f = "qu" -> o.qu
    [] f = "len" -> <<o.len>> [] f = "eq" -> <<o.eq>>

(* f is explained by the deviation model *)
KnownField(f, obs, rs) ==
  /\ rs.known = 1
  /\ FieldOf(f, rs) \notin {NoTok, <<-1>>}
  /\ FieldOf(f, obs) = FieldOf(f, rs)

(* the deviations responsible for the predicted value of f: the switches  *)
(* whose removal changes the prediction, else the base deviation          *)
Switches == {"unquote_hex_as_decimal", "emit_escape_boundary"}
Responsible(f, t, D) ==
  LET rs == RsObs(t, D)
      sw == {d \in Switches \cap D : FieldOf(f, RsObs(t, D \ {d})) # FieldOf(f, rs)} IN
  IF sw = {} THEN {"quoted_stored_escaped"} ELSE sw
=============================================================================
