-------------------------------- MODULE Bind --------------------------------
(***************************************************************************)
(* Argument binding of user-defined functions, mixins and content blocks,  *)
(* and the first-@return rule (property C18).  The closure / @content      *)
(* scoping part of C18 is modelled by Scope.tla (callable block kinds).    *)
(*                                                                         *)
(* Abstracts sass/formal_args.rs (FormalArgs::eval), sass/call_args.rs     *)
(* (CallArgs::evaluate: splats), css/call_args.rs (take_positional,        *)
(* only_named, check_no_named), sass/callable.rs (Closure::eval_value),    *)
(* sass/mixin.rs (MixinDecl::get), variablescope.rs (eval_body: @return)   *)
(* and sass/functions/meta.rs (keywords).                                  *)
(*                                                                         *)
(* Input kind "bind":                                                      *)
(*   defs   one entry per declared parameter (names a, b-x, c, d by        *)
(*          position):                                                     *)
(*          "req" | "const" (a constant default) | "ref1".."ref3" (default *)
(*          = the 1st..3rd parameter) | "glob" (default = $g, a global     *)
(*          that the call site shadows with a local of its own) | "next"   *)
(*          (default = a variable named like the NEXT parameter; the       *)
(*          definition site has variables $b-x: 42, $c: 43, $d: 44)        *)
(*   rest   1 = a rest parameter $r... follows                             *)
(*   npos   number of positional arguments (values 11, 12, ..)             *)
(*   named  names of the explicit named arguments as spelled (b_x = b-x),  *)
(*          values 21..29                                                  *)
(*   mnamed keys of a trailing map splat `$mp...` (values 61..69); a key   *)
(*          may repeat an explicit name                                    *)
(*   psplat "none" | "all" | "tail": positional arguments passed directly, *)
(*          all through a list splat, or all but the first through it;     *)
(*          "fwd": positional and explicit named arguments reach the call  *)
(*          as a forwarded argument list `$args...` (named = its keywords) *)
(* Observable: values of the parameters, elements of the rest list, its    *)
(* keywords sorted by name - or "err".  Where a name is passed explicitly  *)
(* and by the map splat the property admits several outcomes (Admissible). *)
(*                                                                         *)
(* Input kind "ret": a function body of items followed by `@return 59`:    *)
(*   "ret" @return | "ift" @if true {@return} | "iff" @if false {@return}  *)
(*   "each1".."each3" @each over 3 elements returning at that element      *)
(*   "each0" the same loop never returning | "while" @while true {@return} *)
(* item i returns 50 + i.  Observable: the returned value.                 *)
(*                                                                         *)
(* Named deviations (what the pinned tree did instead; both repaired in    *)
(* /repo, kept so that a regression is recognised for what it is):         *)
(*   rest_takes_dup_named  with a rest parameter, a named argument for a   *)
(*                         parameter already bound by position is not an   *)
(*                         error: it lands in the rest keywords            *)
(*   rest_by_name          a single leftover named argument spelled like   *)
(*                         the rest parameter *becomes* the rest value     *)
(*                         (not an argument list: keywords() fails)        *)
(* and one that is open:                                                   *)
(*   dup_named_call_unparsed  a function call that names the same argument *)
(*                         twice ($b-x and $b_x) is not an error: the      *)
(*                         parser backtracks and the call is emitted as    *)
(*                         plain CSS text (or fails on an unrelated        *)
(*                         undefined variable); mixin includes do fail     *)
(***************************************************************************)
EXTENDS Integers, Sequences, FiniteSets, TLC

AllDevs == {"rest_takes_dup_named", "rest_by_name", "dup_named_call_unparsed"}

ParamNames == <<"a", "b-x", "c", "d">>
RestName   == "r"
Norm(n)    == IF n = "b_x" THEN "b-x" ELSE n          \* - and _ are equivalent in argument names

(* the value passed for a named argument, by its spelling *)
NamedVal(s) == CASE s = "a" -> 21 [] s = "b-x" -> 22 [] s = "c" -> 23 [] s = "d" -> 24 [] s = "b_x" -> 26
                 [] s = "y" -> 27 [] s = "r" -> 28 [] s = "z" -> 29
MapVal(n)    == NamedVal(n) + 40          \* the value a key of the map splat carries (61..69)
PosVal(i)    == 10 + i
OuterVal(i)  == 40 + i                    \* definition-site variables named like the parameters: $b-x: 42, $c: 43, $d: 44
ConstDef(j)  == 30 + j
GlobVal      == 40          \* $g at the definition site; the call site has a local $g: 41
NameOrder    == <<"a", "b-x", "c", "d", "r", "y", "z">>      \* keywords are reported sorted by name

ErrObs   == [k |-> "err", ps |-> <<>>, rest |-> <<>>, kw |-> <<>>]
UndefObs == [k |-> "undef", ps |-> <<>>, rest |-> <<>>, kw |-> <<>>]

Min(a, b) == IF a < b THEN a ELSE b
SeqSet(q) == {q[i] : i \in DOMAIN q}

RECURSIVE BindFrom(_, _, _, _)
(* bind parameters j.. left to right; vals = values bound so far; "missing" = a required one has no value *)
BindFrom(inp, j, vals, namedOf) ==
  IF j > Len(inp.defs) THEN vals
  ELSE LET name == ParamNames[j]
           d    == inp.defs[j]
           v    == IF j <= inp.npos THEN PosVal(j)                         \* positional arguments by position
                   ELSE IF name \in DOMAIN namedOf THEN namedOf[name]      \* then named arguments by name
                   ELSE CASE d = "const" -> ConstDef(j)                    \* then defaults, left to right, in the callee scope
                          [] d = "ref1"  -> vals[1]
                          [] d = "ref2"  -> vals[2]
                          [] d = "ref3"  -> vals[3]
                          [] d = "glob"  -> GlobVal
                          [] d = "next"  -> OuterVal(j + 1)       \* the later parameter is not bound yet: definition site
                          [] d = "req"   -> -1
       IN IF v = -1 THEN <<-1>> ELSE BindFrom(inp, j + 1, Append(vals, v), namedOf)

RECURSIVE SortedKw(_, _, _)
SortedKw(names, namedOf, i) ==
  IF i > Len(NameOrder) THEN <<>>
  ELSE (IF NameOrder[i] \in names THEN <<[n |-> NameOrder[i], v |-> namedOf[NameOrder[i]]]>> ELSE <<>>)
       \o SortedKw(names, namedOf, i + 1)

(* the named arguments of a call: explicit ones (as spelled) and the keys   *)
(* of a map splat; W = overlapping names for which the explicit value wins *)
ExplicitNames(inp) == {Norm(inp.named[i]) : i \in 1..Len(inp.named)}
MapNames(inp)      == SeqSet(inp.mnamed)
Overlap(inp)       == ExplicitNames(inp) \cap MapNames(inp)
DupExplicit(inp)   == Cardinality(ExplicitNames(inp)) < Len(inp.named)       \* the same argument named twice

BindWith(inp, dev, W) ==
  LET k       == Len(inp.defs)
      en      == ExplicitNames(inp)
      mn      == MapNames(inp)
      names   == en \cup mn
      namedOf == [n \in names |->
                    IF n \in mn /\ n \notin W THEN MapVal(n)
                    ELSE NamedVal(CHOOSE sp \in SeqSet(inp.named) : Norm(sp) = n)]
      bypos   == {ParamNames[j] : j \in 1..Min(inp.npos, k)}
      params  == {ParamNames[j] : j \in 1..k}
  IN
  IF DupExplicit(inp) THEN
       \* the same argument named twice is an error; the pinned tree does not recognise such a
       \* *function* call as a call at all (plain CSS text comes out): nothing is predicted
       (IF "dup_named_call_unparsed" \in dev /\ inp.ctx = "function" THEN UndefObs ELSE ErrObs)
  ELSE IF inp.npos > k /\ inp.rest = 0 THEN ErrObs                          \* too many positional arguments
  ELSE IF bypos \cap names # {} /\ ~(inp.rest = 1 /\ "rest_takes_dup_named" \in dev)
       THEN ErrObs                                                          \* passed both by position and by name
  ELSE LET vals == BindFrom(inp, 1, <<>>, namedOf) IN
       IF vals = <<-1>> THEN ErrObs                                         \* missing argument
       ELSE LET extra == IF "rest_takes_dup_named" \in dev THEN names \ (params \ bypos) ELSE names \ params IN
            IF inp.rest = 0 THEN (IF extra # {} THEN ErrObs                 \* unknown named argument
                                  ELSE [k |-> "ok", ps |-> vals, rest |-> <<>>, kw |-> <<>>])
            ELSE IF "rest_by_name" \in dev /\ inp.npos <= k /\ extra = {RestName} THEN ErrObs
            ELSE [k |-> "ok", ps |-> vals,
                  rest |-> [i \in 1..(IF inp.npos > k THEN inp.npos - k ELSE 0) |-> PosVal(k + i)],
                  kw |-> SortedKw(extra, namedOf, 1)]

(* reference reading: a key of the map splat replaces an explicit argument of the same name *)
BindExpect(inp, dev) == BindWith(inp, dev, {})

(* What the property fixes when a name is passed explicitly (or as a       *)
(* keyword of a forwarded argument list) AND as a key of the map splat:    *)
(* the call is an error ("duplicated"), or the name is passed exactly once *)
(* with either value - never twice, never reported by keywords when it is  *)
(* a declared parameter.                                                    *)
BindAdmissible(inp) ==
  IF Overlap(inp) = {} \/ DupExplicit(inp) THEN {BindExpect(inp, {})}
  ELSE {BindWith(inp, {}, W) : W \in SUBSET Overlap(inp)} \cup {ErrObs}

(* declarative reading of the same rule, parameter by parameter *)
LawBind(inp, o) ==
  LET k      == Len(inp.defs)
      names  == ExplicitNames(inp) \cup MapNames(inp)
      params == {ParamNames[j] : j \in 1..k}
      given(j) == j <= inp.npos \/ ParamNames[j] \in names
  IN
  /\ (o.k = "err") <=>
        \/ DupExplicit(inp)                                                            \* duplicated
        \/ (inp.rest = 0 /\ inp.npos > k)                                              \* too many
        \/ \E j \in 1..Min(inp.npos, k) : ParamNames[j] \in names                      \* duplicated (position and name)
        \/ (inp.rest = 0 /\ names \ params # {})                                       \* unknown
        \/ \E j \in 1..k : ~given(j) /\ inp.defs[j] = "req"                            \* missing
  /\ (o.k = "ok") =>
        /\ Len(o.ps) = k
        /\ \A j \in 1..k :
             /\ j <= inp.npos => o.ps[j] = PosVal(j)
             /\ (j > inp.npos /\ ParamNames[j] \in names) => o.ps[j] \in {21, 22, 23, 24, 26, 61, 62, 63, 64}
             \* a default never sees a later parameter: "next" reads the definition-site variable
             /\ ~given(j) => o.ps[j] = (CASE inp.defs[j] = "const" -> ConstDef(j) [] inp.defs[j] = "ref1" -> o.ps[1]
                                          [] inp.defs[j] = "ref2" -> o.ps[2] [] inp.defs[j] = "ref3" -> o.ps[3]
                                          [] inp.defs[j] = "glob" -> GlobVal [] inp.defs[j] = "next" -> OuterVal(j + 1))
        /\ Len(o.rest) = (IF inp.rest = 1 /\ inp.npos > k THEN inp.npos - k ELSE 0)
        /\ {o.kw[i].n : i \in DOMAIN o.kw} = (IF inp.rest = 1 THEN names \ params ELSE {})
  \* every admissible outcome passes each name once: keywords hold each extra name once and no declared parameter
  /\ \A a \in BindAdmissible(inp) :
        (a.k = "ok") => /\ \A i, j \in DOMAIN a.kw : i # j => a.kw[i].n # a.kw[j].n
                        /\ {a.kw[i].n : i \in DOMAIN a.kw} \cap params = {}

---------------------------------------------------------------------------
(* first @return reached                                                    *)

RECURSIVE FirstReturn(_, _)
FirstReturn(items, i) ==
  IF i > Len(items) THEN 59
  ELSE IF items[i] \in {"ret", "ift", "each1", "each2", "each3", "while"} THEN 50 + i
  ELSE FirstReturn(items, i + 1)

RetExpect(inp) == [k |-> "ok", ps |-> <<FirstReturn(inp.items, 1)>>, rest |-> <<>>, kw |-> <<>>]

Returns(it) == it \in {"ret", "ift", "each1", "each2", "each3", "while"}
LawRet(inp, o) ==
  /\ o.k = "ok" /\ Len(o.ps) = 1
  /\ \A i \in DOMAIN inp.items :
       (o.ps[1] = 50 + i) <=> (Returns(inp.items[i]) /\ \A h \in 1..(i - 1) : ~Returns(inp.items[h]))
  /\ (o.ps[1] = 59) <=> (\A i \in DOMAIN inp.items : ~Returns(inp.items[i]))

---------------------------------------------------------------------------
Expect(inp, dev) == IF inp.kind = "bind" THEN BindExpect(inp, dev) ELSE RetExpect(inp)
Ideal(inp) == Expect(inp, {})
Admissible(inp) == IF inp.kind = "bind" THEN BindAdmissible(inp) ELSE {RetExpect(inp)}
RECURSIVE SetSeq(_)
SetSeq(S) == IF S = {} THEN <<>> ELSE LET x == CHOOSE x \in S : TRUE IN <<x>> \o SetSeq(S \ {x})
(* the admissible observables as a sequence, the reference one first; empty when there is only one *)
AdmSeq(inp) == LET A == Admissible(inp) IN IF Cardinality(A) <= 1 THEN <<>> ELSE <<Ideal(inp)>> \o SetSeq(A \ {Ideal(inp)})
Pinned(inp) == Expect(inp, AllDevs)
Law(inp) == IF inp.kind = "bind" THEN LawBind(inp, Ideal(inp)) ELSE LawRet(inp, Ideal(inp))

DevMap(inp) ==
  LET ideal == Ideal(inp)
      r     == Pinned(inp)
      rel   == {d \in AllDevs : Expect(inp, AllDevs \ {d}) # r}
      keys  == IF r = ideal THEN {} ELSE IF rel = {} THEN AllDevs ELSE rel
  IN [d \in keys |-> r]

Ctxs == {"mixin", "function", "content"}
Defs == {"req", "const", "ref1", "ref2", "ref3", "glob", "next"}
MapKeys == {"a", "b-x", "c", "d", "r", "y", "z"}
Spellings == {"a", "b-x", "b_x", "c", "d", "r", "y", "z"}
WellFormed(inp) ==
  /\ inp.ctx \in Ctxs
  /\ CASE inp.kind = "bind" ->
            /\ Len(inp.defs) <= 4 /\ SeqSet(inp.defs) \subseteq Defs
            /\ \A j \in DOMAIN inp.defs : (inp.defs[j] = "ref1" => j > 1) /\ (inp.defs[j] = "ref2" => j > 2) /\ (inp.defs[j] = "ref3" => j > 3) /\ (inp.defs[j] = "next" => j <= 3)
            /\ inp.rest \in {0, 1} /\ inp.npos \in 0..6
            /\ SeqSet(inp.named) \subseteq Spellings
            /\ \A i, j \in DOMAIN inp.named : i # j => inp.named[i] # inp.named[j]     \* the same spelling twice does not parse
            /\ SeqSet(inp.mnamed) \subseteq MapKeys
            /\ \A i, j \in DOMAIN inp.mnamed : i # j => inp.mnamed[i] # inp.mnamed[j]
            /\ inp.psplat \in {"none", "all", "tail", "fwd"}
            /\ (inp.psplat = "all" => inp.npos >= 1) /\ (inp.psplat = "tail" => inp.npos >= 2)
       [] inp.kind = "ret" ->
            /\ inp.ctx = "function" /\ Len(inp.items) <= 4
            /\ SeqSet(inp.items) \subseteq {"ret", "ift", "iff", "each0", "each1", "each2", "each3", "while"}
       [] OTHER -> FALSE
=============================================================================
