SPECIFICATION Spec
CONSTANTS
  Leaves = {"1px", "2px", "1in", "2em", "3", "50%", "1x", "var(--a)"}
  Ops = {"+"}
  Tops = {"min(", "max(", "clamp("}
  Fns = {}
  MaxOps = 0
  MaxPar = 0
INVARIANTS LawParses LawPrintParse LawFaithfulSound LawNumber LawNumberNoFail Emit
CHECK_DEADLOCK FALSE
