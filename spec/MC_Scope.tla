----------------------------- MODULE MC_Scope -----------------------------
(* Bounded-exhaustive generator of scope programs (builder actions), the   *)
(* laws of the ideal semantics as invariants, and one conformance vector   *)
(* per complete program.                                                   *)
EXTENDS Scope, Json

CONSTANTS Vars,       \* variable names used (subset of AllVars)
          Flags,      \* assignment kinds: none global default null inc
          OpenKinds,  \* block kinds without a bound variable
          BoundKinds, \* block kinds opened with a bound variable (loop variable / parameter) from Vars
          MaxLen,     \* total number of statements (builder steps), closes included
          MaxDepth,
          CheckDev,   \* deviations under which the laws are checked ({} = the ideal semantics)
          FreshOnly   \* TRUE: a variable is never assigned inside a block nested in a block that declares or
                      \* binds it (programs that only declare fresh variables or shadow globals: used for C18)

VARIABLES prog, stack, decl, phase
vars == <<prog, stack, decl, phase>>

(* decl[i] = variables assigned or bound directly in the i-th open block (decl[1]: the top level) *)
Init == prog = <<>> /\ stack = <<>> /\ decl = <<{}>> /\ phase = "build"

Room(extra) == Len(prog) + extra + Len(stack) <= MaxLen     \* every open block still needs its close

LastOp == IF prog = <<>> THEN "none" ELSE prog[Len(prog)].op

AddAsg == /\ phase = "build" /\ Room(2)                        \* an assignment is only observable before a read
          /\ \E v \in Vars, f \in Flags :
               /\ (FreshOnly => \A i \in 2..(Len(decl) - 1) : v \notin decl[i])
               /\ prog' = Append(prog, Asg(v, f))
               /\ decl' = [decl EXCEPT ![Len(decl)] = @ \cup {v}]
          /\ UNCHANGED <<stack, phase>>

AddRead == /\ phase = "build" /\ Room(1)
           /\ \E v \in Vars : prog' = Append(prog, Read(v))
           /\ UNCHANGED <<stack, decl, phase>>

CanOpen(k) ==
  /\ (SeqSet(stack) \cap FnKinds # {} => k \in FlowKinds)
  /\ (k \in LocalDef => SeqSet(stack) \subseteq {"rule", "media", "atrule"})

AddOpen == /\ phase = "build" /\ Len(stack) < MaxDepth /\ Room(3)   \* open + a read + close
           /\ \/ \E k \in OpenKinds : CanOpen(k) /\ prog' = Append(prog, Open(k, "-")) /\ stack' = Append(stack, k)
                                       /\ decl' = Append(decl, {})
              \/ \E k \in BoundKinds, v \in Vars : CanOpen(k) /\ prog' = Append(prog, Open(k, v)) /\ stack' = Append(stack, k)
                                                    /\ decl' = Append(decl, {v})
           /\ UNCHANGED phase

AddClose == /\ phase = "build" /\ stack # <<>> /\ LastOp # "open"
            /\ prog' = Append(prog, Close)
            /\ stack' = SubSeq(stack, 1, Len(stack) - 1)
            /\ decl' = SubSeq(decl, 1, Len(decl) - 1)
            /\ UNCHANGED phase

(* canonical complete programs: the last statement that is not a close is a read *)
RECURSIVE LastNonClose(_, _)
LastNonClose(p, i) == IF i = 0 THEN "none" ELSE IF p[i].op = "close" THEN LastNonClose(p, i - 1) ELSE p[i].op

Finish == /\ phase = "build" /\ stack = <<>> /\ LastNonClose(prog, Len(prog)) = "read"
          /\ phase' = "done"
          /\ UNCHANGED <<prog, stack, decl>>

Next == AddAsg \/ AddRead \/ AddOpen \/ AddClose \/ Finish
Spec == Init /\ [][Next]_vars

Done == phase = "done"

(* the property's sentences hold of the semantics the vectors are computed with *)
LawsHold == Done => (Laws(LogOf(prog, CheckDev)) /\ Laws(Run(prog, CheckDev, "iter").log))
LawWellFormed == Done => WellFormed(prog)
(* on fresh-declaration programs the pinned tree's assignment defects (C16) cannot show *)
NoDevs == (Done /\ FreshOnly) => DevMap(prog) = <<>>

Emit == Done =>
  LET ideal == Ideal(prog) IN
  (ideal.k # "undef") => PrintT(<<"VEC", ToJson([prog |-> prog, expect |-> ideal, dev |-> DevMap(prog)])>>)
=============================================================================
