SPECIFICATION Spec
CONSTANTS
  Operands = {"0", "1", "2", "3", "true", "false"}
  Ops = {"*", "%", "+", "-", "<", "<=", ">", ">=", "==", "!=", "and", "or"}
  Uns = {"not", "neg"}
  MaxOps = 5
  MaxUn = 2
  MaxPar = 2
INVARIANTS LawParenStable LawWellShaped LawTotal Emit
CHECK_DEADLOCK FALSE
