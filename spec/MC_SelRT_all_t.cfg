SPECIFICATION Spec
CONSTANTS
  Mode = "all"
  MaxLen = 3
  Kinds = {"raw", "bs", "hex", "hex6"}
INVARIANTS SpecRoundTrip Emit
CHECK_DEADLOCK FALSE
