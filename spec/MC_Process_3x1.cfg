SPECIFICATION Spec
CONSTANTS
  Threads = {"t1", "t2", "t3"}
  Progs <- ProgTable
  Dev = {}
  ProgSel = {"rd", "wr", "wg", "wd", "uw", "fc", "dp", "df", "pu", "uid", "uid2"}
  MaxJobs = 1
INVARIANTS Deterministic BuiltinImmutable Unique CounterMatches MutexOk MatchesAlone Emit
CHECK_DEADLOCK FALSE
