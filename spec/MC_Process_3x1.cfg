SPECIFICATION Spec
CONSTANTS
  Threads = {"t1", "t2", "t3"}
  Progs <- ProgTable
  Dev = {}
  MaxJobs = 1
INVARIANTS Deterministic BuiltinImmutable Unique CounterMatches MutexOk MatchesAlone Emit
CHECK_DEADLOCK FALSE
