SPECIFICATION Spec
CONSTANTS
  Vars = {"x"}
  Flags = {"none"}
  OpenKinds = {"rule", "media", "lmixin", "mixin", "function", "content", "contentm"}
  BoundKinds = {"mixin", "function", "content", "lmixin", "lmixind", "lfunctiond"}
  MaxLen = 8
  MaxDepth = 3
  CheckDev = {}
  FreshOnly = TRUE
INVARIANTS LawsHold LawWellFormed NoDevs Emit
CHECK_DEADLOCK FALSE
