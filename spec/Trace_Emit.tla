----------------------------- MODULE Trace_Emit -----------------------------
(* Trace validation for the emit engine: every recorded compilation of a    *)
(* rule tree {prog, obs, devs, case} must be explained by Emit!Expected -     *)
(* or by the destination machine under a deviation listed as an open        *)
(* finding (then it is reported).  The design invariant (machine = tree)    *)
(* is evaluated on every recorded program as well.                          *)
EXTENDS Emit, Json, IOUtils, TLCExt

Rec == ndJsonDeserialize(IOEnv.TRACE)

VARIABLE l
Init == l = 1

SeqToSet(s) == {s[i] : i \in DOMAIN s}

Explained(e) ==
  LET ideal == Expected(e.prog) IN
  IF ~MachineMatchesTree(e.prog) THEN FALSE
  ELSE IF e.obs = ideal THEN TRUE
  ELSE \E d \in (SeqToSet(e.devs) \cap AllDevs20) :
          /\ Observe20(e.prog, {d}) = e.obs
          /\ PrintT(<<"MSG", "KNOWN", d, e.case>>)

Next == /\ l <= Len(Rec)
        /\ Explained(Rec[l]) = TRUE
        /\ l' = l + 1
Spec == Init /\ [][Next]_l

Accepted == IF TLCGet("stats").diameter - 1 = Len(Rec) THEN TRUE
            ELSE PrintT(<<"UNMATCHED", TLCGet("stats").diameter>>) /\ FALSE
=============================================================================
