SPECIFICATION Spec
CONSTANTS
  MaxLen = 5
  StepMode = FALSE
  DeclSet = {"id", "strna", "urlq", "list"}
  CpropSet = {"nl"}
  CmtSet = {"multi", "na"}
  RuleSet = {"asc", "na"}
INVARIANT DesignAccepted
INVARIANT Sensitive
INVARIANT EmitVec
CHECK_DEADLOCK FALSE
