------------------------------ MODULE Modules ------------------------------
(***************************************************************************)
(* The Sass module system as property C37 states it: @use / @forward,      *)
(* `with` configuration, namespaces, `as *`, show / hide / prefix          *)
(* filters, built-in modules.                                               *)
(*                                                                         *)
(* Abstracts rsass/src/output/transform.rs (Item::Use, Item::Forward),     *)
(* variablescope.rs (do_use, with_forwarded, expose, expose_star,          *)
(* set_variable module path), sass/item.rs (Expose::allow_fun/allow_var),  *)
(* parser/imports.rs (use2, forward2, with_arg, as_arg).                   *)
(*                                                                         *)
(* A program is a graph of at most three files:                            *)
(*   library files "a", "b": four members each                             *)
(*       $d: <x>d !default;  $p: <x>p;                                     *)
(*       @function f() { @return <x>f $d }   @mixin m { v: <x>m $p }       *)
(*   a middle file "m": a sequence of load statements (targets: library    *)
(*       files, built-ins) and one own member  $o: mo                      *)
(*   a wrapper file "w" whose whole content is `@forward "sass:math";`      *)
(*   the root "r": load statements (targets a, b, m, w, built-in math) and  *)
(*       ONE access whose result is the observable.                        *)
(*                                                                         *)
(* load statements                                                         *)
(*   [k |-> "use", t, sp, as |-> "def"|"n"|"star", cfg]                    *)
(*   [k |-> "fwd", t, sp, vis |-> "all"|"show"|"hide", list, pre, cfg]     *)
(*   t   target file ("a","b","m") or built-in ("math")                    *)
(*   sp  URL spelling: "plain" a | "us" _a | "ext" a.scss | "dir" d/a      *)
(*   cfg sequence of [n |-> variable name, v |-> value token]              *)
(*   list sequence of [c |-> "var"|"fun", pre |-> 0|1, n |-> name]: the    *)
(*       names written after show/hide (pre = written with the prefix p-)  *)
(*   pre 1 = `as p-*`                                                      *)
(* access                                                                  *)
(*   [k |-> "get", ns, kind |-> "var"|"fn"|"mix", pre, n]   ns "" = bare   *)
(*   [k |-> "set", ns, kind |-> "var", pre, n]   `ns.$n: s1` then read     *)
(*        (ns "" = a top-level `$n: s1`, which after `as *` addresses the   *)
(*        module's variable)                                                *)
(*                                                                         *)
(* Named deviations (what the pinned tree does instead):                   *)
(*   with_unchecked   `with` pre-defines the variables in the fresh module *)
(*        scope and never checks them: a non-!default variable is silently *)
(*        not configured, an unknown one becomes a member of the module    *)
(*   ns_raw_basename  the default namespace is the raw last URL segment    *)
(*        (`_a` -> "-a", `a.scss` -> "a.scss"), so `a.` finds no module    *)
(*   use_as_then_with_unparsed  `@use "u" as n with (..)` (the order Sass  *)
(*        defines) is a parse error; only `with (..) as n` is accepted     *)
(*   builtin_marker_lost_in_forward  a built-in variable reached through a *)
(*        @forward with `as p-*` or `show` can be assigned to (the read-only *)
(*        marker of the built-in scope is itself renamed / filtered away)    *)
(*   star_builtin_assignable  after `@use .. as *` a top-level `$pi: v`     *)
(*        silently shadows the built-in variable instead of being an error   *)
(*   fwd_prefix_filter_swapped  with `as p-*`, functions are filtered by   *)
(*        the variable list of show/hide and variables by the function list*)
(***************************************************************************)
EXTENDS Integers, Sequences, FiniteSets, TLC

LibFiles == {"a", "b"}
Builtins == {"math"}
WrapFiles == {"w"}          \* w.scss: `@forward "sass:math";`

(* ro = 1: the member is a variable of a built-in module (read-only wherever it is reached from) *)
Mem(k, pre, n, v) == [k |-> k, pre |-> pre, n |-> n, v |-> v, ro |-> 0]
IsRO(I, k, pre, n) == \E x \in I : x.k = k /\ x.pre = pre /\ x.n = n /\ x.ro = 1
Has(I, k, pre, n) == \E x \in I : x.k = k /\ x.pre = pre /\ x.n = n
Get(I, k, pre, n) == (CHOOSE x \in I : x.k = k /\ x.pre = pre /\ x.n = n).v
Functional(I) == \A x, y \in I : (x.k = y.k /\ x.pre = y.pre /\ x.n = y.n) => x.v = y.v

(* result of loading a module *)
Ok(I)    == [st |-> "ok", mem |-> I]
ErrM     == [st |-> "err", mem |-> {}]
UndefM   == [st |-> "undef", mem |-> {}]

CfgNames(cfg) == {cfg[i].n : i \in DOMAIN cfg}
CfgDup(cfg)   == \E i, j \in DOMAIN cfg : i < j /\ cfg[i].n = cfg[j].n
CfgVal(cfg, n) == cfg[CHOOSE i \in DOMAIN cfg : cfg[i].n = n].v

---------------------------------------------------------------------------
(* A library file configured with cfg.  Only `d` is declared !default.     *)
Lib(x, cfg, Dev) ==
  IF CfgDup(cfg) THEN ErrM                      \* the same variable may only be configured once
  ELSE IF "with_unchecked" \notin Dev /\ ~(CfgNames(cfg) \subseteq {"d"}) THEN ErrM   \* unknown or not !default
  ELSE LET dv == IF "d" \in CfgNames(cfg) THEN CfgVal(cfg, "d") ELSE x \o "d"
           pv == x \o "p"
           extra == {Mem("var", 0, n, <<CfgVal(cfg, n)>>) : n \in CfgNames(cfg) \ {"d", "p"}}
       IN Ok({Mem("var", 0, "d", <<dv>>), Mem("var", 0, "p", <<pv>>),
              Mem("fn", 0, "f", <<x \o "f", dv>>), Mem("mix", 0, "m", <<x \o "m", pv>>)} \cup extra)

MathMembers == {[k |-> "var", pre |-> 0, n |-> "pi", v |-> <<"pi">>, ro |-> 1]}
Builtin(cfg) == IF cfg # <<>> THEN ErrM ELSE Ok(MathMembers)     \* built-in modules cannot be configured

(* @forward filter: rename with the prefix, then show/hide on the renamed names *)
ListHas(st, c, pre, n) == \E i \in DOMAIN st.list : st.list[i].c = c /\ st.list[i].pre = pre /\ st.list[i].n = n
FClass(k, st, Dev) ==
  IF "fwd_prefix_filter_swapped" \in Dev /\ st.pre = 1 /\ k # "mix"
  THEN (IF k = "var" THEN "fun" ELSE "var")
  ELSE (IF k = "var" THEN "var" ELSE "fun")
Visible(y, st, Dev) ==
  LET inl == ListHas(st, FClass(y.k, st, Dev), y.pre, y.n) IN
  CASE st.vis = "all"  -> TRUE
    [] st.vis = "show" -> inl
    [] st.vis = "hide" -> ~inl
Fwd(I, st, Dev) ==
  LET lost == "builtin_marker_lost_in_forward" \in Dev /\ (st.pre = 1 \/ st.vis = "show") IN
  {y \in {[x EXCEPT !.pre = IF st.pre = 1 THEN 1 ELSE @, !.ro = IF lost THEN 0 ELSE @] : x \in I} : Visible(y, st, Dev)}

(* the wrapper file: nothing of its own, forwards sass:math unfiltered; it declares no !default variable *)
Wrap(cfg, Dev) ==
  IF cfg = <<>> THEN Ok(MathMembers)
  ELSE IF CfgDup(cfg) THEN ErrM
  ELSE IF "with_unchecked" \in Dev
       THEN Ok({x \in MathMembers : ~(x.n \in CfgNames(cfg))} \cup {Mem("var", 0, n, <<CfgVal(cfg, n)>>) : n \in CfgNames(cfg)})
  ELSE ErrM

Leaf(t, cfg, Dev) == IF t \in Builtins THEN Builtin(cfg) ELSE IF t \in WrapFiles THEN Wrap(cfg, Dev) ELSE Lib(t, cfg, Dev)

(* The middle file: own member $o plus what its @forward statements let through *)
Mid(stmts, cfg, Dev) ==
  LET subs == [i \in DOMAIN stmts |-> Leaf(stmts[i].t, stmts[i].cfg, Dev)]
      fw   == UNION {Fwd(subs[i].mem, stmts[i], Dev) : i \in {j \in DOMAIN stmts : stmts[j].k = "fwd"}}
      own  == {Mem("var", 0, "o", <<"mo">>)}
  IN
  IF \E i \in DOMAIN stmts : stmts[i].t \notin (LibFiles \cup Builtins \cup WrapFiles) THEN UndefM
  ELSE IF \E i \in DOMAIN stmts : subs[i].st = "err" THEN ErrM
  ELSE IF ~Functional(fw \cup own) THEN UndefM                 \* conflicting forwards: not modelled
  ELSE IF cfg = <<>> THEN Ok(fw \cup own)
  ELSE IF CfgDup(cfg) THEN ErrM
  ELSE IF "with_unchecked" \in Dev
       THEN Ok({x \in fw : ~(x.k = "var" /\ x.pre = 0 /\ x.n \in CfgNames(cfg))}
               \cup {Mem("var", 0, n, <<CfgVal(cfg, n)>>) : n \in CfgNames(cfg) \ {"o"}} \cup own)
  ELSE IF \E n \in CfgNames(cfg) : n = "d" /\ Has(fw, "var", 0, n) THEN UndefM   \* configuration through a forward: not constrained by C37
  ELSE ErrM                                                      \* m declares no !default variable

Load(st, prog, Dev) ==
  IF st.t = "m" THEN Mid(prog.m, st.cfg, Dev) ELSE Leaf(st.t, st.cfg, Dev)

---------------------------------------------------------------------------
(* Root scope *)
NsOf(st, Dev) ==
  IF st.as = "n" THEN "n"
  ELSE IF st.t \in Builtins THEN st.t
  ELSE IF "ns_raw_basename" \in Dev /\ st.sp \in {"us", "ext"} THEN "?raw"
  ELSE st.t

UseUnparsed(st, Dev) ==
  "use_as_then_with_unparsed" \in Dev /\ st.k = "use" /\ st.as # "def" /\ st.cfg # <<>>

Val(v)   == [k |-> "val", v |-> v]
ErrObs   == [k |-> "err", v |-> <<>>]
UndefObs == [k |-> "undef", v |-> <<>>]

CssCall(pre, n) == (IF pre = 1 THEN "p-" ELSE "") \o n \o "()"

(* every load of a file in the program, as <<file, cfg, spelling>> *)
AllLoads(prog) ==
  LET rl == {<<"r", i>> : i \in DOMAIN prog.r}
      ml == IF \E i \in DOMAIN prog.r : prog.r[i].t = "m" THEN {<<"m", i>> : i \in DOMAIN prog.m} ELSE {}
  IN rl \cup ml
StOf(prog, l) == IF l[1] = "r" THEN prog.r[l[2]] ELSE prog.m[l[2]]

(* an assignment is constrained by the property iff (under the ideal rules) it addresses a   *)
(* variable of a built-in module - directly, through `as *`, or through any chain of         *)
(* forwards - or addresses nothing at all (no such namespace / member: an error in any       *)
(* reading).  Assignments to variables of user modules, new globals, and assignments in      *)
(* programs that also carry a configuration are not decided here.                            *)
SetConstrained(prog) ==
  LET L == prog.r
      a == prog.acc
      res == [i \in DOMAIN L |-> Load(L[i], prog, {})]
      uses == {i \in DOMAIN L : L[i].k = "use"}
      nsd  == {i \in uses : L[i].as # "star"}
      starmem == UNION {res[i].mem : i \in {j \in uses : L[j].as = "star"}}
      hit == {i \in nsd : NsOf(L[i], {}) = a.ns}
  IN
  /\ \A l \in AllLoads(prog) : StOf(prog, l).cfg = <<>>
  /\ IF a.ns = "" THEN IsRO(starmem, "var", a.pre, a.n)
     ELSE \/ hit = {}
          \/ LET I == res[CHOOSE i \in hit : TRUE].mem IN ~Has(I, "var", a.pre, a.n) \/ IsRO(I, "var", a.pre, a.n)

(* what this specification does not decide (the property does not fix it) *)
NotModelled(prog) ==
  LET L == prog.r
      uses == {i \in DOMAIN L : L[i].k = "use"}
      nsd  == {i \in uses : L[i].as # "star"}
      AL == AllLoads(prog)
  IN
  \/ \E i, j \in nsd : i < j /\ NsOf(L[i], {}) = NsOf(L[j], {})           \* two modules, one namespace
  \/ Cardinality({i \in uses : L[i].as = "star"}) > 1                      \* name conflicts between `as *` modules
  \/ \E x, y \in AL : x # y /\ StOf(prog, x).t = StOf(prog, y).t /\ StOf(prog, x).t \notin Builtins
                      /\ (StOf(prog, x).cfg # <<>> \/ StOf(prog, y).cfg # <<>>
                          \/ StOf(prog, x).sp # "plain" \/ StOf(prog, y).sp # "plain")   \* a module loaded twice with configuration / two spellings
  \/ \E i \in DOMAIN L : Load(L[i], prog, {}).st = "undef"
  \/ \E i \in DOMAIN L : L[i].t \in Builtins /\ L[i].sp # "plain"
  \/ (prog.acc.k = "set" /\ ~SetConstrained(prog))            \* only assignment to built-in variables is constrained

ObserveM(prog, Dev) ==      \* the observable of a modelled program
  LET L == prog.r
      a == prog.acc
      res == [i \in DOMAIN L |-> Load(L[i], prog, Dev)]
      uses == {i \in DOMAIN L : L[i].k = "use"}
      nsd  == {i \in uses : L[i].as # "star"}
      starmem == UNION {res[i].mem : i \in {j \in uses : L[j].as = "star"}}
      hit == {i \in nsd : NsOf(L[i], Dev) = a.ns}
  IN
  IF \E i \in DOMAIN L : UseUnparsed(L[i], Dev) \/ res[i].st # "ok" THEN ErrObs
  ELSE IF a.k = "set" THEN         \* `ns.$n: s1` (or top-level `$n: s1`), then the variable is read
       (IF a.ns = "" THEN
           (IF IsRO(starmem, "var", a.pre, a.n) /\ "star_builtin_assignable" \notin Dev THEN ErrObs ELSE Val(<<"s1">>))
        ELSE IF hit = {} THEN ErrObs
        ELSE LET I == res[CHOOSE i \in hit : TRUE].mem IN
             IF ~Has(I, "var", a.pre, a.n) THEN ErrObs               \* no such member: nothing can be declared from outside
             ELSE IF IsRO(I, "var", a.pre, a.n) THEN ErrObs          \* built-in modules cannot be assigned to
             ELSE Val(<<"s1">>))
  ELSE IF a.ns = "" THEN
       (IF Has(starmem, a.kind, a.pre, a.n) THEN Val(Get(starmem, a.kind, a.pre, a.n))
        ELSE IF a.kind = "fn" THEN Val(<<CssCall(a.pre, a.n)>>)    \* an unknown function is a plain CSS function
        ELSE ErrObs)
  ELSE IF hit = {} THEN ErrObs                         \* no module with that namespace
  ELSE LET I == res[CHOOSE i \in hit : TRUE].mem IN
       IF Has(I, a.kind, a.pre, a.n) THEN Val(Get(I, a.kind, a.pre, a.n)) ELSE ErrObs

Observe(prog, Dev) == IF NotModelled(prog) THEN UndefObs ELSE ObserveM(prog, Dev)

AllDevs == {"with_unchecked", "ns_raw_basename", "use_as_then_with_unparsed", "fwd_prefix_filter_swapped",
            "builtin_marker_lost_in_forward", "star_builtin_assignable"}

(* the deviations that can show on this program at all (syntactic) *)
Relevant(prog) ==
  LET S == {StOf(prog, l) : l \in AllLoads(prog)} IN
  (IF \E st \in S : st.cfg # <<>> THEN {"with_unchecked"} ELSE {})
  \cup (IF \E st \in S : st.sp \in {"us", "ext"} THEN {"ns_raw_basename"} ELSE {})
  \cup (IF \E st \in S : UseUnparsed(st, AllDevs) THEN {"use_as_then_with_unparsed"} ELSE {})
  \cup (IF \E st \in S : st.k = "fwd" /\ st.pre = 1 /\ st.vis # "all" THEN {"fwd_prefix_filter_swapped"} ELSE {})
  \cup (IF prog.acc.k = "set" /\ \E st \in S : st.k = "fwd" /\ (st.pre = 1 \/ st.vis = "show") THEN {"builtin_marker_lost_in_forward"} ELSE {})
  \cup (IF prog.acc.k = "set" /\ prog.acc.ns = "" THEN {"star_builtin_assignable"} ELSE {})

(* sets of deviations (they interact) whose prediction differs from the ideal one; *)
(* only called on modelled programs                                                  *)
DevMap(prog) ==
  LET ideal == ObserveM(prog, {})
      cand  == [S \in (SUBSET Relevant(prog)) \ {{}} |-> ObserveM(prog, S)] IN
  {[d |-> S, o |-> cand[S]] : S \in {S \in DOMAIN cand : cand[S] # ideal}}

---------------------------------------------------------------------------
(* Laws of the module system (a second formulation of the property),       *)
(* checked by TLC on every generated program: with Dev = {} they hold; with *)
(* a deviation switched on TLC finds them violated (MC_Modules_neg*.cfg),   *)
(* which shows that the deviation is a violation of the property and not a  *)
(* modelling artefact.                                                       *)

ValueTokens(prog, Dev) == LET o == Observe(prog, Dev) IN {o.v[i] : i \in DOMAIN o.v}
MemberTokens == {x \o s : x \in {"a", "b"}, s \in {"d", "p", "f", "m"}} \cup {"mo", "pi"}
ConfigTokens == {"c1", "c2", "c3"}

(* members are reachable only through a namespace: a bare access without   *)
(* any `as *` use never yields a member of some module                      *)
LawNamespaceOnly(prog, Dev) ==
  (prog.acc.k = "get" /\ prog.acc.ns = "" /\ ~\E i \in DOMAIN prog.r : prog.r[i].k = "use" /\ prog.r[i].as = "star")
    => ValueTokens(prog, Dev) \cap (MemberTokens \cup ConfigTokens) = {}

(* `with` sets only the !default variable: a configured value shows only    *)
(* where $d shows, and any configuration naming another variable is an      *)
(* error                                                                    *)
LawConfigOnlyDefault(prog, Dev) ==
  LET o == Observe(prog, Dev)
      AL == AllLoads(prog) IN
  o.k = "val" =>
    /\ \A l \in AL : StOf(prog, l).t \in LibFiles => CfgNames(StOf(prog, l).cfg) \subseteq {"d"}
    /\ \A l \in AL : StOf(prog, l).t \in (Builtins \cup WrapFiles) => StOf(prog, l).cfg = <<>>
    /\ (ValueTokens(prog, Dev) \cap ConfigTokens # {} => (prog.acc.kind \in {"var", "fn"} /\ prog.acc.n \in {"d", "f"}))

(* show S and hide S are complementary, for every member that reaches the   *)
(* filter: flipping show <-> hide flips visibility                           *)
Flip(st) == IF st.k = "fwd" /\ st.vis # "all" THEN [st EXCEPT !.vis = IF st.vis = "show" THEN "hide" ELSE "show"] ELSE st
LawShowHideComplement(prog, Dev) ==
  LET p2 == [prog EXCEPT !.m = [i \in DOMAIN prog.m |-> Flip(prog.m[i])]]
      o1 == Observe(prog, Dev)
      o2 == Observe(p2, Dev) IN
  (/\ Len(prog.m) = 1 /\ prog.m[1].k = "fwd" /\ prog.m[1].vis # "all" /\ prog.m[1].t \in LibFiles
   /\ CfgNames(prog.m[1].cfg) \subseteq {"d"} /\ ~CfgDup(prog.m[1].cfg)
   /\ prog.acc.k = "get" /\ prog.acc.pre = prog.m[1].pre /\ prog.acc.n \in {"d", "p", "f", "m"}
   /\ (prog.acc.n = "f") = (prog.acc.kind = "fn") /\ (prog.acc.n = "m") = (prog.acc.kind = "mix")
   /\ o1.k # "undef" /\ o2.k # "undef"
   /\ \E i \in DOMAIN prog.r : prog.r[i].k = "use" /\ prog.r[i].t = "m" /\ prog.r[i].cfg = <<>>
        /\ (IF prog.r[i].as = "star" THEN prog.acc.ns = "" ELSE prog.acc.ns = NsOf(prog.r[i], {}))
   /\ \A i \in DOMAIN prog.r : prog.r[i].cfg = <<>> /\ (prog.r[i].t = "m" \/ prog.r[i].k = "fwd" \/ prog.r[i].as # "star"))
  => ((o1.k = "val" /\ o1.v # <<CssCall(prog.acc.pre, prog.acc.n)>>) # (o2.k = "val" /\ o2.v # <<CssCall(prog.acc.pre, prog.acc.n)>>))

(* show/hide filter exactly the listed members (names as written after the  *)
(* prefix is applied; `$` entries name variables, the others functions and  *)
(* mixins): stated on whole programs `@use "m"` + one @forward of a library *)
LawFilterExact(prog, Dev) ==
  LET st == prog.m[1]
      a  == prog.acc
      listed == \E i \in DOMAIN st.list : st.list[i].n = a.n /\ st.list[i].pre = a.pre
                                           /\ st.list[i].c = (IF a.kind = "var" THEN "var" ELSE "fun")
      o == Observe(prog, Dev) IN
  (/\ Len(prog.m) = 1 /\ st.k = "fwd" /\ st.t \in LibFiles /\ st.cfg = <<>>
   /\ Len(prog.r) = 1 /\ prog.r[1].k = "use" /\ prog.r[1].t = "m" /\ prog.r[1].as = "def" /\ prog.r[1].cfg = <<>>
   /\ a.k = "get" /\ a.ns = "m" /\ a.pre = st.pre
   /\ ((a.kind = "var" /\ a.n \in {"d", "p"}) \/ (a.kind = "fn" /\ a.n = "f") \/ (a.kind = "mix" /\ a.n = "m"))
   /\ o.k # "undef")
  => ((o.k = "val") <=> (st.vis = "all" \/ (st.vis = "show" /\ listed) \/ (st.vis = "hide" /\ ~listed)))

(* built-in modules can be neither configured nor assigned to *)
LawBuiltin(prog, Dev) ==
  ((\E l \in AllLoads(prog) : StOf(prog, l).t \in (Builtins \cup WrapFiles) /\ StOf(prog, l).cfg # <<>>) \/ prog.acc.k = "set")
    => Observe(prog, Dev).k \in {"err", "undef"}
=============================================================================
