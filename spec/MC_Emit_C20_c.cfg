SPECIFICATION Spec
CONSTANTS
  Kinds = {"rule", "media", "atroot"}
  TopSels <- TopList
  NestSels <- NestLists
  AtRootSels <- RootList
  MaxNodes = 6
  MaxDepth = 3
  MaxDecl = 3
INVARIANTS InvMachine Emit
CHECK_DEADLOCK FALSE
