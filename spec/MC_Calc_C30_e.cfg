SPECIFICATION Spec
CONSTANTS
  Leaves = {"1px", "2px", "1in", "2em", "3", "50%", "1x", "var(--a)"}
  Ops = {"+", "-", "*", "/"}
  Tops = {"calc("}
  Fns = {}
  MaxOps = 1
  MaxPar = 1
INVARIANTS LawParses LawPrintParse LawFaithfulSound LawNumber LawNumberNoFail Emit
CHECK_DEADLOCK FALSE
