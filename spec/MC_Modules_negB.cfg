SPECIFICATION Spec
CONSTANTS
  MaxW = 2
  MaxRoot = 1
  MaxMid = 1
  RootTargets = {"m"}
  MidTargets = {"math"}
  Spellings = {"plain"}
  CfgPool = "none"
  ListPool = "pi"
  AccNs = {"m"}
  LawDev = {"builtin_marker_lost_in_forward"}
  AccMembers <- AccMembersPi
INVARIANTS InvBuiltin
CHECK_DEADLOCK FALSE
