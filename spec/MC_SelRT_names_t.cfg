SPECIFICATION Spec
CONSTANTS
  Mode = "names"
  MaxLen = 3
  Kinds = {"raw", "bs", "hex", "hex6"}
INVARIANTS SpecRoundTrip Emit
CHECK_DEADLOCK FALSE
