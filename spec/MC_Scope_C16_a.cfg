SPECIFICATION Spec
CONSTANTS
  Vars = {"x"}
  Flags = {"none", "global", "default", "null", "inc"}
  OpenKinds = {"rule", "media", "atrule", "if", "each", "for", "while", "lmixin", "lmixind", "lfunctiond", "mixin", "function", "content"}
  BoundKinds = {"each", "for", "mixin", "function", "content", "lmixin", "lmixind", "lfunctiond"}
  MaxLen = 6
  MaxDepth = 2
  CheckDev = {}
  FreshOnly = FALSE
INVARIANTS LawsHold LawWellFormed Emit
CHECK_DEADLOCK FALSE
