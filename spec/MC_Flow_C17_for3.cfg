SPECIFICATION Spec
CONSTANTS
  Kind = "for"
  Ctxs = {"mixin", "fn"}
  CondSet = {}
  MaxConds = 0
  ElseSet = {}
  NCondSet = {}
  AVals <- Range2
  BVals <- Range2
  TVals <- Range2
  UnitsA = {"", "px", "pc", "in", "cm", "mm", "s", "ms"}
  UnitsB = {"", "px", "pc", "in", "cm", "mm", "s", "ms"}
  MaxOut = 14
  Shapes = {}
  NVars = {}
  ItemCodes = {}
  MaxItems = 0
  ISeps = {}
INVARIANTS LawHolds LawWellFormed Emit
CHECK_DEADLOCK FALSE
