SPECIFICATION Spec
CONSTANTS
  Operands = {"1", "2", "true", "false"}
  Ops = {"*", "+", "<", "==", "and", "or"}
  Uns = {"not", "neg"}
  MaxOps = 3
  MaxUn = 0
  MaxPar = 0
INVARIANTS LawParenStable LawWellShaped LawTotal Emit
CHECK_DEADLOCK FALSE
