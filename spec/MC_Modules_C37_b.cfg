SPECIFICATION Spec
CONSTANTS
  MaxW = 3
  MaxRoot = 1
  MaxMid = 1
  RootTargets = {"m"}
  Spellings = {"plain"}
  CfgPool = "basic"
  ListPool = "full"
  AccNs = {"", "a", "m", "n"}
  LawDev = {}
  AccMembers <- AccMembersFwd
INVARIANTS InvNamespaceOnly InvConfigOnlyDefault InvShowHideComplement InvFilterExact InvBuiltin Emit
CHECK_DEADLOCK FALSE
