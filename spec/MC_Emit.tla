------------------------------ MODULE MC_Emit ------------------------------
(* Bounded-exhaustive generator of rule trees (flat programs with           *)
(* open/close, built left to right) for C20 + one conformance vector per    *)
(* complete tree; the design invariant compares the destination stack       *)
(* machine with the declarative tree on every one of them.                  *)
EXTENDS Emit, Json

CONSTANTS Kinds,        \* container kinds in use: subset of {"rule","media","supports","unknown","atroot0","atroot","keyframes","fontface"}
          TopSels,      \* selectors (token sequences) of rules that have no style rule around them
          NestSels,     \* selectors of nested rules
          AtRootSels,   \* selectors of @at-root <selector>
          MaxNodes, MaxDepth, MaxDecl

(* selector sets for the cfg files (cfg syntax has no tuples): use  NestSels <- NestPlain  etc. *)
TopPlain   == {<<"a">>}
NestPlain  == {<<"b">>}
NestAmp    == {<<"b">>, <<"&", "-x">>}
NestList   == {<<"b">>, <<"b", ",", "c">>, <<"&", ":hover">>}
RootPlain  == {<<"c">>}
RootAmp    == {<<"c">>, <<"c", "sp", "&">>}
(* selector lists: parent lists of 1-2 selectors, @at-root lists of 2 members with / without & per member *)
TopList    == {<<"a">>, <<"a", ",", ".c">>}
NestLists  == {<<"b">>, <<"b", ",", "e">>}
RootList   == {<<"c", ",", "d">>, <<"c", ",", "d", "sp", "&">>, <<"d", "sp", "&", ",", "c">>,
               <<"c", "sp", "&", ",", "&", "-x">>, <<"c", ",", "&", ">", "d">>}

VARIABLES prog, open, nodes, ndecl, phase
vars == <<prog, open, nodes, ndecl, phase>>

(* open: stack of frames [c |-> context kind, rs |-> 1 when a style rule selector is in effect, n |-> children] *)
Frame(c, rs) == [c |-> c, rs |-> rs, n |-> 0]
TopF == open[Len(open)]
AtTop == Len(open) = 0
Ctx == IF AtTop THEN "top" ELSE TopF.c
Rs  == IF AtTop THEN 0 ELSE TopF.rs

DN(n) == CASE n = 1 -> "d1" [] n = 2 -> "d2" [] n = 3 -> "d3" [] n = 4 -> "d4" [] n = 5 -> "d5" [] OTHER -> "d6"

Init == prog = <<>> /\ open = <<>> /\ nodes = 0 /\ ndecl = 0 /\ phase = "build"

Room == phase = "build" /\ nodes < MaxNodes /\ (AtTop => Len(prog) = 0)
Bump == IF AtTop THEN open ELSE [open EXCEPT ![Len(open)].n = @ + 1]

Push(st, f) == /\ prog' = Append(prog, st) /\ open' = Append(Bump, f) /\ nodes' = nodes + 1
               /\ UNCHANGED <<ndecl, phase>>

AddDecl ==
  /\ Room /\ ndecl < MaxDecl
  /\ (Ctx \in {"rule", "kf", "fontface"} \/ (Ctx = "at" /\ Rs = 1))
  /\ prog' = Append(prog, Stmt("decl", <<DN(ndecl + 1)>>)) /\ open' = Bump
  /\ nodes' = nodes + 1 /\ ndecl' = ndecl + 1 /\ UNCHANGED phase

OpenRule == \E s \in (IF Rs = 1 THEN NestSels ELSE TopSels) :
  /\ Room /\ Len(open) < MaxDepth /\ "rule" \in Kinds
  /\ Ctx \in {"top", "rule", "at", "atroot0"}
  /\ Push(Stmt("rule", s), Frame("rule", 1))

OpenAt == \E k \in ({"media", "supports", "unknown"} \cap Kinds) :
  /\ Room /\ Len(open) < MaxDepth
  /\ Ctx \in {"top", "rule", "at", "atroot0"}
  /\ Push(Stmt(k, <<IF k = "media" THEN (IF \E i \in 1..Len(prog) : prog[i].k = "media" THEN "n" ELSE "m")
                    ELSE IF k = "supports" THEN "s" ELSE "x">>), Frame("at", Rs))

OpenAtRoot0 ==
  /\ Room /\ Len(open) < MaxDepth /\ "atroot0" \in Kinds
  /\ Ctx \in {"rule", "at"} /\ Rs = 1
  /\ Push(Stmt("atroot", <<>>), Frame("atroot0", 0))

OpenAtRoot == \E s \in AtRootSels :
  /\ Room /\ Len(open) < MaxDepth /\ "atroot" \in Kinds
  /\ Ctx \in {"rule", "at"} /\ Rs = 1
  /\ Push(Stmt("atroot", s), Frame("rule", 1))

OpenKeyframes ==
  /\ Room /\ Len(open) < MaxDepth /\ "keyframes" \in Kinds
  /\ Ctx \in {"rule", "at"} /\ Rs = 1
  /\ Push(Stmt("keyframes", <<"k">>), Frame("keyframes", 0))

OpenKf == \E s \in {"from", "to"} :
  /\ Room /\ Len(open) < MaxDepth + 1 /\ Ctx = "keyframes"
  /\ (s = "to" => TopF.n > 0)
  /\ Push(Stmt("kf", <<s>>), Frame("kf", 1))

OpenFontFace ==
  /\ Room /\ Len(open) < MaxDepth /\ "fontface" \in Kinds
  /\ Ctx = "rule"
  /\ Push(Stmt("fontface", <<>>), Frame("fontface", 0))

Close ==
  /\ phase = "build" /\ ~AtTop /\ TopF.n > 0
  /\ prog' = Append(prog, Stmt("close", <<>>)) /\ open' = Front(open)
  /\ UNCHANGED <<nodes, ndecl, phase>>

Finish ==
  /\ phase = "build" /\ AtTop /\ Len(prog) > 0 /\ ndecl > 0
  /\ phase' = "done" /\ UNCHANGED <<prog, open, nodes, ndecl>>

Next == AddDecl \/ OpenRule \/ OpenAt \/ OpenAtRoot0 \/ OpenAtRoot \/ OpenKeyframes \/ OpenKf \/ OpenFontFace \/ Close \/ Finish
Spec == Init /\ [][Next]_vars

Done == phase = "done"

(* design check: the destination stack machine = the declarative tree *)
InvMachine == Done => MachineMatchesTree(prog)

Emit == Done => LET e == Expected(prog) IN
          PrintT(<<"VEC", ToJson([prog |-> prog, expect |-> e, dev |-> DevMap20(prog, e)])>>)
=============================================================================
