SPECIFICATION Spec
CONSTANTS
  Kinds = {"rule", "media", "unknown", "atroot0", "atroot"}
  TopSels <- TopPlain
  NestSels <- NestAmp
  AtRootSels <- RootAmp
  MaxNodes = 7
  MaxDepth = 3
  MaxDecl = 3
INVARIANTS InvMachine Emit
CHECK_DEADLOCK FALSE
