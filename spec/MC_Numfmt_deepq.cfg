SPECIFICATION Spec
CONSTANTS
  WMax = 2
  BigWs <- BigWs_deep
  Ms = {17}
  KStep = 2002
  Ps = {15, 16, 17, 20}
  Styles = {"expanded", "compressed"}
  Negs = {0, 1}
INVARIANTS Laws DevsBreakLaw Emit
CHECK_DEADLOCK FALSE
