SPECIFICATION Spec
CONSTANTS
  Vars = {"x"}
  Flags = {"none"}
  OpenKinds = {"rule", "if", "for"}
  BoundKinds = {"each"}
  MaxLen = 5
  MaxDepth = 2
  CheckDev = {"flow_no_frame"}
  FreshOnly = FALSE
INVARIANTS LawsHold
CHECK_DEADLOCK FALSE
