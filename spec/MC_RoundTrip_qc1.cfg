SPECIFICATION Spec
CONSTANTS
  MaxItems = 1
  KS = {"comment", "c_rule", "c_rule_end", "c_media", "c_mrule"}
  CS = {"latin1", "astralsym", "dquote", "backslash", "space"}
  SH = {"mid"}
  CT = {"empty", "sp", "one", "nl_start", "nl_mid", "nl_end", "banner", "banner2", "ind_close", "crlf", "crlf_end", "cr", "blank_in", "stars", "sp_nl", "only_nl", "nlnl_end", "tabs", "deep"}
  FN = {}
INVARIANT Generated
INVARIANT EmitVec
CHECK_DEADLOCK FALSE
