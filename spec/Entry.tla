------------------------------- MODULE Entry -------------------------------
(***************************************************************************)
(* Property C38: the library entry points agree with each other.           *)
(*                                                                         *)
(* One compilation job is an input [kind, style, prec, ...] and the set of *)
(* entry points it is pushed through; `outs` records the result of every   *)
(* entry point called so far for the current input.  The actions are the   *)
(* entry points of rsass/src/lib.rs and input/context.rs:                  *)
(*   CompileScss(r)      rsass::compile_scss(bytes, format)                *)
(*   Transform(r)        Context::for_loader(..).with_format(f)            *)
(*                         .transform(SourceFile::scss_bytes(bytes, name)) *)
(*   FsTransform(r)      FsContext::for_path(p)? + transform(source)       *)
(*   CompileScssPath(r)  rsass::compile_scss_path(p, format)               *)
(*   CompileValue(r)     rsass::compile_value(v, format)                   *)
(* The invariant Agreement is the property:                                *)
(*   - every stylesheet entry point returns the same bytes (or all fail)   *)
(*     for a stylesheet that loads nothing relative;                       *)
(*   - compile_value(v) is exactly the text the declaration `x{y:v}`       *)
(*     prints for v, for every v that is valid CSS (= the declaration      *)
(*     compiles).                                                          *)
(* A result is [k |-> "ok" | "err" | other class, v |-> output text].      *)
(***************************************************************************)
EXTENDS Integers, Sequences, FiniteSets, TLC

Styles == {"expanded", "compressed"}
Precisions == {0, 5, 10}
(* byte-level spellings of the same source, which the entry points could treat differently:   *)
(* plain | a leading UTF-8 byte order mark | CRLF line ends | no final newline | a trailing   *)
(* NUL byte | a byte that is not UTF-8 (inside a string) | `@charset "UTF-8";` as first line  *)
(* | the empty input.  The property quantifies over bytes: whatever an entry point does with  *)
(* them (accept, reject), the others must do the same.                                         *)
ByteVariants == {"plain", "bom", "crlf", "nonl", "nul", "bad_utf8", "charset", "empty"}
(* the variants that leave the stylesheet's content alone (the framing law of compile_value   *)
(* speaks about the declaration x{y:v} itself)                                                 *)
ContentPreserving == {"plain", "bom", "crlf", "nonl", "charset"}
SheetEntries == {"scss", "mem", "fs", "path"}
AllEntries == SheetEntries \cup {"value"}

VARIABLES inp, outs
evars == <<inp, outs>>

NoInput == [kind |-> "none", style |-> "expanded", prec |-> 5, bytes |-> "plain"]
EInit == inp = NoInput /\ outs = <<>>

(* the text a declaration y: v takes in the rule x, per output style *)
Framed(style, v) == IF style = "compressed" THEN "x{y:" \o v \o "}\n" ELSE "x {\n  y: " \o v \o ";\n}\n"

Same(a, b) == \/ (a.k = "ok" /\ b.k = "ok" /\ a.v = b.v)
              \/ (a.k = "err" /\ b.k = "err")

(* v is valid CSS: the declaration x{y:v} compiles and is emitted (null and empty lists are omitted, maps are errors) *)
ValidCss(o) == "scss" \in DOMAIN o /\ o["scss"].k = "ok" /\ o["scss"].v # ""

Agreement(i, o) ==
  /\ \A e1, e2 \in DOMAIN o \cap SheetEntries : Same(o[e1], o[e2])
  /\ (i.kind = "value" /\ "value" \in DOMAIN o /\ ValidCss(o))
        => (o["value"].k = "ok" /\ o["scss"].v = Framed(i.style, o["value"].v))
  /\ (i.kind # "value" => "value" \notin DOMAIN o)

Put(f, k, v) == [x \in DOMAIN f \cup {k} |-> IF x = k THEN v ELSE f[x]]

Begin(i) == /\ i.style \in Styles /\ i.prec \in Precisions /\ i.kind \in {"prog", "value"}
            /\ i.bytes \in ByteVariants /\ (i.kind = "value" => i.bytes \in ContentPreserving)
            /\ inp' = i /\ outs' = <<>>

Call(entry, r) == /\ inp.kind # "none"
                  /\ entry \in AllEntries /\ entry \notin DOMAIN outs
                  /\ (entry = "value" => inp.kind = "value")
                  /\ outs' = Put(outs, entry, r)
                  /\ UNCHANGED inp

CompileScss(r)     == Call("scss", r)
Transform(r)       == Call("mem", r)
FsTransform(r)     == Call("fs", r)
CompileScssPath(r) == Call("path", r)
CompileValue(r)    == Call("value", r)

InvAgreement == Agreement(inp, outs)
=============================================================================
