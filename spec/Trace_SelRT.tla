---------------------------- MODULE Trace_SelRT ----------------------------
(* Trace validation for C25: every recorded observation                      *)
(*   {id, src, den, p1: {st, toks}, p2: {st, toks}, em: {st, toks}, case, devs} *)
(* (den = the token sequence the source was rendered from by MC_SelRT;       *)
(* p1 = printed selector.parse(S), p2 = printed selector.parse(p1), em = the *)
(* selector emitted for `S {x: y}`, as classified tokens with RAW code       *)
(* points) must satisfy the round-trip laws of SelRT.tla, or fall into the   *)
(* scope of a deviation listed as an open finding (then it is reported).     *)
EXTENDS SelRT, Json, IOUtils, TLCExt

Rec == ndJsonDeserialize(IOEnv.TRACE)

VARIABLE l
Init == l = 1

SeqToSet(s) == {s[i] : i \in DOMAIN s}
Known(e, d) == d \in SeqToSet(e.devs) /\ PrintT(<<"MSG", "KNOWN", d, e.case>>)

Explained(e) ==
  IF RoundTripOK(e) THEN TRUE
  ELSE \/ (DevDigitStart(e) /\ Known(e, "ident_start_unescaped"))
       \/ (DevSymbol(e) /\ Known(e, "nonascii_symbol_raw_rejected"))
       \/ (DevSymbolDigit(e) /\ Known(e, "nonascii_symbol_raw_rejected") /\ Known(e, "ident_start_unescaped"))
       \/ (DevAttrNs(e) /\ Known(e, "attr_universal_ns_rule_rejected"))
       \/ (DevTwoIds(e) /\ Known(e, "second_id_replaces_first"))

Next == /\ l <= Len(Rec)
        /\ Explained(Rec[l]) = TRUE     \* evaluated as a value: no sub-action per disjunct
        /\ l' = l + 1
Spec == Init /\ [][Next]_l

Accepted == IF TLCGet("stats").diameter - 1 = Len(Rec) THEN TRUE
            ELSE PrintT(<<"UNMATCHED", TLCGet("stats").diameter>>) /\ FALSE
=============================================================================
