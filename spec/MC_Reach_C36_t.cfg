SPECIFICATION Spec
CONSTANTS
  Leaves = {"loud", "bang", "silent", "decl"}
  Conts = {"rule", "nsprop", "media", "atrule", "mixin", "content", "if1", "if0", "each2", "while2"}
  MaxStmts = 5
  MaxDepth = 3
  Strict = TRUE
  Styles = {"expanded", "compressed"}
  Need = {"loud", "bang", "silent"}
  MaxOf <- LimC36t
INVARIANTS InvLaws Emit36
CHECK_DEADLOCK FALSE
