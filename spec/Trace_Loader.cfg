SPECIFICATION Spec
CONSTANTS
  Files = {"r", "a", "b", "c"}
  Root = "r"
  MaxDepth = 8
INVARIANTS TraceLockDiscipline TraceDepthBound TraceInitOnce TraceFaultReported
CONSTRAINT Track
POSTCONDITION Accepted
CHECK_DEADLOCK FALSE
