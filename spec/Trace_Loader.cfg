SPECIFICATION Spec
CONSTANTS
  Files = {"r", "a", "b", "c"}
  Root = "r"
  SubFiles = {"b"}
  MaxDepth = 8
INVARIANTS UrlsResolve TraceLockDiscipline TraceDepthBound TraceInitOnce TraceFaultReported
CONSTRAINT Track
POSTCONDITION Accepted
CHECK_DEADLOCK FALSE
