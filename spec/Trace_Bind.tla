----------------------------- MODULE Trace_Bind -----------------------------
(* Trace validation for the callable engine (C18).  Two kinds of recorded  *)
(* events, both on inputs the specification did not choose:                *)
(*   t = "bind"  {inp, obs, devs, case}: a signature x call shape or a     *)
(*               function body with several @return - explained by Bind;   *)
(*   t = "scope" {prog, obs, devs, case}: a closure / @content program -   *)
(*               explained by Scope (lexical parents of callable blocks).  *)
(* An observation that differs from the ideal is accepted only when the    *)
(* complete model of the pinned tree predicts it and a deviation it needs  *)
(* is listed as an open finding (then it is reported).                     *)
EXTENDS Bind, Json, IOUtils, TLCExt

S == INSTANCE Scope

Rec == ndJsonDeserialize(IOEnv.TRACE)

VARIABLE l
Init == l = 1

ExplainedBind(e) ==
  /\ WellFormed(e.inp)
  /\ LET ideal == Ideal(e.inp) IN
     IF ideal.k = "undef" THEN TRUE
     ELSE IF e.obs \in Admissible(e.inp) THEN TRUE      \* = ideal, except where a name is passed explicitly and by a map splat
     ELSE LET dm == DevMap(e.inp) IN
          \E d \in (DOMAIN dm) \cap SeqSet(e.devs) :
             /\ (dm[d].k = "undef" \/ e.obs = dm[d])
             /\ PrintT(<<"MSG", "KNOWN", d, e.case>>)

(* no deviation of C18 is modelled in Scope: callable programs must follow the ideal semantics *)
ExplainedScope(e) ==
  /\ S!WellFormed(e.prog)
  /\ LET ideal == S!Ideal(e.prog) IN
     IF ideal.k = "undef" THEN TRUE ELSE e.obs = ideal

Explained(e) == IF e.t = "bind" THEN ExplainedBind(e) ELSE ExplainedScope(e)

Next == /\ l <= Len(Rec)
        /\ Explained(Rec[l]) = TRUE       \* evaluated as a value (not split into sub-actions)
        /\ l' = l + 1
Spec == Init /\ [][Next]_l

Accepted == IF TLCGet("stats").diameter - 1 = Len(Rec) THEN TRUE
            ELSE PrintT(<<"UNMATCHED", TLCGet("stats").diameter>>) /\ FALSE
=============================================================================
