------------------------------ MODULE Resolve ------------------------------
(***************************************************************************)
(* Resolution of a load URL to a file (property C04).                       *)
(*                                                                         *)
(* Abstracts input/context.rs Context::find_file / do_find_file / relative *)
(* and input/fsloader.rs FsLoader::find_file (the load-path loop).          *)
(*                                                                         *)
(* A case: a load statement of kind use | forward | import for the URL `u`  *)
(* written in an importer that lives either in the root directory or in    *)
(* the subdirectory `sub`; a set of existing files, each a pair             *)
(* <<location, candidate index>>.  Locations:                               *)
(*   "dir"  the importer's own directory                                    *)
(*   "lp1", "lp2"   the load paths, in order (URL tried unchanged there)    *)
(*   "lp1s", "lp2s" the load paths joined with the importer's directory    *)
(*                  (only exist when the importer is in `sub`; the ideal   *)
(*                  search never looks there)                               *)
(* Candidate file names, in order (Cand):                                   *)
(*   use/forward: u.scss _u.scss u/index.scss u/_index.scss u.css _u.css    *)
(*   import:      u.import.scss _u.import.scss u.scss _u.scss               *)
(*                u/index.import.scss u/_index.import.scss u/index.scss     *)
(*                u/_index.scss u.css _u.css                                *)
(*                                                                         *)
(* Ideal: the URL is tried relative to the importing file first (all       *)
(* candidates in order), then unchanged in each load path in order.        *)
(* Named deviations of the pinned tree:                                     *)
(*   candidate_major_search  the loop is candidate-major: each candidate   *)
(*        name is offered to the loader, which walks importer dir and load *)
(*        paths for it, before the next candidate is tried                  *)
(*   loadpath_prefixed_only  for an importer in a subdirectory the load    *)
(*        paths are searched for `sub/u...`, never for `u...`               *)
(***************************************************************************)
EXTENDS Integers, Sequences, FiniteSets, TLC

NCand(kind) == IF kind = "import" THEN 10 ELSE 6

(* the locations searched, in order *)
Locs(where, Dev) ==
  IF where = "sub" /\ "loadpath_prefixed_only" \in Dev
  THEN <<"dir", "lp1s", "lp2s">>
  ELSE <<"dir", "lp1", "lp2">>

AllLocs(where) == IF where = "sub" THEN {"dir", "lp1", "lp2", "lp1s", "lp2s"} ELSE {"dir", "lp1", "lp2"}

NotFound == [k |-> "notfound", loc |-> "-", idx |-> 0]
Win(l, i) == [k |-> "win", loc |-> l, idx |-> i]

(* first index in 1..n satisfying P, or 0 *)
FirstIdx(n, P(_)) == IF \E i \in 1..n : P(i) THEN CHOOSE i \in 1..n : P(i) /\ \A j \in 1..(i - 1) : ~P(j) ELSE 0

Winner(kind, where, present, Dev) ==
  LET locs == Locs(where, Dev)
      n    == NCand(kind) IN
  IF "candidate_major_search" \in Dev
  THEN LET ci == FirstIdx(n, LAMBDA i : \E li \in 1..3 : <<locs[li], i>> \in present) IN
       IF ci = 0 THEN NotFound
       ELSE Win(locs[FirstIdx(3, LAMBDA li : <<locs[li], ci>> \in present)], ci)
  ELSE LET li == FirstIdx(3, LAMBDA l : \E i \in 1..n : <<locs[l], i>> \in present) IN
       IF li = 0 THEN NotFound
       ELSE Win(locs[li], FirstIdx(n, LAMBDA i : <<locs[li], i>> \in present))

(* targets for which nothing can be found: the load fails, except that an    *)
(* @import of a .css, http(s)://, // or url() target is a plain CSS import    *)
UrlClasses == {"bare", "css", "http", "https", "slashes", "urlfn"}
Unfound(kind, cls) ==
  IF kind = "import" /\ cls \in {"css", "http", "https", "slashes", "urlfn"}
  THEN [k |-> "plain", loc |-> "-", idx |-> 0]
  ELSE NotFound

(* Loader failures on such loads (property C39): the number of loader calls   *)
(* the load makes when nothing is found (an explicit .css extension is looked *)
(* up as it is, everything else through the candidate list), and the outcome  *)
(* when the `at`-th call fails: a lookup error on any call that is made, or a *)
(* read error on the call that finds the file, must end the compilation with  *)
(* an error; an armed fault that never fires changes nothing.                 *)
UnfoundCalls(kind, cls) == IF cls = "css" THEN 1 ELSE NCand(kind)
FaultOutcome(kind, cls, present, at, fk) ==
  IF /\ at >= 1 /\ at <= UnfoundCalls(kind, cls)
     /\ (fk = "find" \/ (fk = "read" /\ present = 1 /\ cls = "css" /\ at = 1))
  THEN "err" ELSE "baseline"

AllDevs == {"candidate_major_search", "loadpath_prefixed_only"}

DevMap(kind, where, present) ==
  LET ideal == Winner(kind, where, present, {}) IN
  {[d |-> S, o |-> Winner(kind, where, present, S)] :
       S \in {S \in (SUBSET AllDevs) \ {{}} : Winner(kind, where, present, S) # ideal}}

(* laws of the ideal search *)
(* a file in the importer's directory always beats the load paths          *)
LawDirFirst(kind, where, present) ==
  (\E i \in 1..NCand(kind) : <<"dir", i>> \in present) => Winner(kind, where, present, {}).loc = "dir"
(* the winner exists and nothing earlier in the search order does           *)
LawFirstExisting(kind, where, present) ==
  LET w == Winner(kind, where, present, {}) IN
  IF w.k = "notfound" THEN \A l \in {"dir", "lp1", "lp2"}, i \in 1..NCand(kind) : <<l, i>> \notin present
  ELSE /\ <<w.loc, w.idx>> \in present
       /\ \A i \in 1..(w.idx - 1) : <<w.loc, i>> \notin present
(* adding files in locations that are never searched changes nothing        *)
LawIgnoresForeign(kind, where, present) ==
  Winner(kind, where, present, {}) = Winner(kind, where, {p \in present : p[1] \in {"dir", "lp1", "lp2"}}, {})
=============================================================================
