SPECIFICATION Spec
CONSTANTS
  Kind = "bind"
  CtxSet = {"mixin", "function", "content"}
  MaxParams = 3
  DefSet = {"req", "const", "ref1", "ref2", "glob", "next"}
  RestSet = {0, 1}
  MaxPos = 4
  NamedPool = {"a", "b-x", "b_x", "c", "r", "z"}
  MaxNamed = 2
  MapPool = {"a", "c", "z"}
  MaxMap = 2
  PSplats = {"none", "all", "tail", "fwd"}
  ItemSet = {}
  MaxItems = 0
INVARIANTS LawHolds LawWellFormed Emit
CHECK_DEADLOCK FALSE
