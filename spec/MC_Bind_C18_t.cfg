SPECIFICATION Spec
CONSTANTS
  Kind = "bind"
  CtxSet = {"mixin", "function", "content"}
  MaxParams = 3
  DefSet = {"req", "const", "ref1", "ref2", "glob"}
  RestSet = {0, 1}
  MaxPos = 4
  NamedPool = {"a", "b-x", "b_x", "c", "r", "z"}
  MaxNamed = 3
  PSplats = {"none", "all", "tail"}
  NSplats = {"none", "all"}
  ItemSet = {}
  MaxItems = 0
INVARIANTS LawHolds LawWellFormed Emit
CHECK_DEADLOCK FALSE
