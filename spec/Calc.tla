-------------------------------- MODULE Calc --------------------------------
(***************************************************************************)
(* CSS calculations as Sass simplifies them (C30).                          *)
(*                                                                         *)
(* Abstracts rsass/src/sass/functions/math/css.rs (global calc / min / max  *)
(* / clamp), parser/css_function.rs (the calc grammar), value/operator.rs   *)
(* (Operator::eval on numbers) and css/binop.rs (printing with parentheses).*)
(*                                                                         *)
(* A calculation is a token sequence; Parse builds the tree with the CSS     *)
(* grammar (times and divide bind tighter than + -, left-associative, parens, *)
(* min()/max()/clamp()).  Norm(tree) is its meaning: a polynomial with exact *)
(* rational coefficients over symbols = representative units (all absolute   *)
(* lengths are px), unknown units, opaque atoms (var(--a)) and unsimplifiable*)
(* min/max/clamp terms.  The property: the emitted value parses to a tree    *)
(* with the same Norm (so it is never a different number, and never loses    *)
(* operands or structure that matters), and it IS a plain number whenever    *)
(* all operands are numbers with mutually compatible units.                  *)
(*                                                                         *)
(* Not constrained (Norm is undefined, the case is skipped): a unitless       *)
(* number added to / compared with a number with units (Sass arithmetic and   *)
(* CSS calc() disagree), division by a sum, arithmetic overflow of this       *)
(* model's 32-bit rationals.                                                  *)
(***************************************************************************)
EXTENDS Integers, Sequences, FiniteSets, TLC

Abs(x) == IF x < 0 THEN -x ELSE x
Min2(a, b) == IF a < b THEN a ELSE b

---------------------------------------------------------------------------
(* Rationals <<n, d>>, d > 0, in lowest terms; NaR = <<0, 0>> marks overflow  *)
(* of the 32-bit integers (the case is then not decided)                       *)
MAXI == 2147483647
Fits(a, b) == a = 0 \/ b = 0 \/ Abs(a) <= MAXI \div Abs(b)       \* a * b stays inside 32 bits
FitsHalf(a, b) == a = 0 \/ b = 0 \/ Abs(a) <= (MAXI \div 2) \div Abs(b)   \* a * b stays below 2^30 (two such products can be added)
NaR == <<0, 0>>
IsNaR(r) == r[2] = 0
RECURSIVE Gcd(_, _)
Gcd(a, b) == IF b = 0 THEN a ELSE Gcd(b, a % b)
Rat(n, d) ==      \* d # 0
  LET g == Gcd(Abs(n), Abs(d))
      s == IF d < 0 THEN -1 ELSE 1 IN
  IF g = 0 THEN <<0, 1>> ELSE <<s * (n \div g), s * (d \div g)>>
RMul(a, b) ==
  IF IsNaR(a) \/ IsNaR(b) THEN NaR
  ELSE IF a[1] = 0 \/ b[1] = 0 THEN <<0, 1>>
  ELSE LET g1 == Gcd(Abs(a[1]), b[2])
           g2 == Gcd(Abs(b[1]), a[2])
           n1 == a[1] \div g1
           n2 == b[1] \div g2
           d1 == a[2] \div g2
           d2 == b[2] \div g1 IN
       IF ~Fits(n1, n2) \/ ~Fits(d1, d2) THEN NaR ELSE <<n1 * n2, d1 * d2>>
RInv(a) == IF IsNaR(a) \/ a[1] = 0 THEN NaR ELSE IF a[1] < 0 THEN <<-a[2], -a[1]>> ELSE <<a[2], a[1]>>
RNeg(a) == IF IsNaR(a) THEN NaR ELSE <<-a[1], a[2]>>
RAdd(a, b) ==
  IF IsNaR(a) \/ IsNaR(b) THEN NaR
  ELSE LET g  == Gcd(a[2], b[2])
           m1 == b[2] \div g
           m2 == a[2] \div g IN
       IF ~FitsHalf(a[1], m1) \/ ~FitsHalf(b[1], m2) \/ ~Fits(a[2], m1) THEN NaR
       ELSE Rat(a[1] * m1 + b[1] * m2, a[2] * m1)
RLess(a, b) == LET d == RAdd(a, RNeg(b)) IN d[1] < 0         \* a, b not NaR; small operands only

(* Comparison of rationals with a relative tolerance needs products of 32-bit numbers: a tiny      *)
(* unsigned bignum, little-endian sequences of NB digits in base 10^4.                              *)
NB == 10
BDigit(x, i) == IF i = 1 THEN x % 10000 ELSE IF i = 2 THEN (x \div 10000) % 10000 ELSE IF i = 3 THEN x \div 100000000 ELSE 0
RECURSIVE BCarry(_, _, _)
BCarry(raw, i, c) ==          \* raw: NB columns (each < 2^30), returns the normalised digits from column i on
  IF i > NB THEN <<>> ELSE LET v == raw[i] + c IN <<v % 10000>> \o BCarry(raw, i + 1, v \div 10000)
BMulInt(x, y) ==              \* x, y >= 0
  BCarry([k \in 1..NB |-> LET S == {<<i, j>> \in (1..3) \X (1..3) : i + j - 1 = k} IN
                          IF S = {} THEN 0
                          ELSE LET RECURSIVE Sum(_)
                                   Sum(T) == IF T = {} THEN 0 ELSE LET t == CHOOSE t \in T : TRUE IN
                                             BDigit(x, t[1]) * BDigit(y, t[2]) + Sum(T \ {t}) IN Sum(S)], 1, 0)
BScale(a, k) == BCarry([i \in 1..NB |-> a[i] * k], 1, 0)          \* k <= 20000
BShift2(a) == [i \in 1..NB |-> IF i <= 2 THEN 0 ELSE a[i - 2]]       \* times 10^8 (top digits must be 0)
RECURSIVE BCmpFrom(_, _, _)
BCmpFrom(a, b, i) == IF i = 0 THEN 0 ELSE IF a[i] < b[i] THEN -1 ELSE IF a[i] > b[i] THEN 1 ELSE BCmpFrom(a, b, i - 1)
BCmp(a, b) == BCmpFrom(a, b, NB)
RECURSIVE BSubFrom(_, _, _, _)
BSubFrom(a, b, i, borrow) ==   \* a >= b
  IF i > NB THEN <<>>
  ELSE LET v == a[i] - b[i] - borrow IN
       IF v < 0 THEN <<v + 10000>> \o BSubFrom(a, b, i + 1, 1) ELSE <<v>> \o BSubFrom(a, b, i + 1, 0)
BAbsDiff(a, b) == IF BCmp(a, b) >= 0 THEN BSubFrom(a, b, 1, 0) ELSE BSubFrom(b, a, 1, 0)

(* |a - b| <= 2e-6 * max(1, |a|), exactly, for any rationals with 32-bit terms *)
RNear(a, b) ==
  IF IsNaR(a) \/ IsNaR(b) THEN FALSE
  ELSE IF a = b THEN TRUE
  ELSE IF (a[1] < 0 /\ b[1] > 0) \/ (a[1] > 0 /\ b[1] < 0) THEN FALSE
  ELSE LET p == BMulInt(Abs(a[1]), b[2])
           q == BMulInt(Abs(b[1]), a[2])
           dd == BMulInt(a[2], b[2])
           big == IF BCmp(p, dd) >= 0 THEN p ELSE dd IN
       BCmp(BShift2(BAbsDiff(p, q)), BScale(big, 200)) <= 0

---------------------------------------------------------------------------
(* Monomials: functions symbol -> nonzero exponent.  Symbols are tuples:      *)
(*   <<"u", unit>>   a unit (representative of its dimension, or unknown)      *)
(*   <<"a", text>>   an opaque atom such as var(--a)                           *)
(*   <<"f", name, args>>  min/max/clamp that cannot be decided; args = Norms   *)
One == [s \in {} |-> 0]                       \* the empty monomial
MPow(sym, k) == [s \in {sym} |-> k]
MExp(m, s) == IF s \in DOMAIN m THEN m[s] ELSE 0
MMul(m1, m2) ==
  LET e(s) == MExp(m1, s) + MExp(m2, s) IN
  [s \in {s \in DOMAIN m1 \cup DOMAIN m2 : e(s) # 0} |-> e(s)]
MInv(m) == [s \in DOMAIN m |-> -m[s]]

(* Polynomials: functions monomial -> nonzero rational *)
PZero == [m \in {} |-> <<0, 1>>]
PTerm(c, m) == IF c[1] = 0 /\ ~IsNaR(c) THEN PZero ELSE [x \in {m} |-> c]
PCoef(p, m) == IF m \in DOMAIN p THEN p[m] ELSE <<0, 1>>
PBad(p) == \E m \in DOMAIN p : IsNaR(p[m])
PAdd(p, q) ==
  LET c(m) == RAdd(PCoef(p, m), PCoef(q, m)) IN
  [m \in {m \in DOMAIN p \cup DOMAIN q : IsNaR(c(m)) \/ c(m)[1] # 0} |-> c(m)]
PScale(p, r) == [m \in DOMAIN p |-> RMul(p[m], r)]
PNeg(p) == PScale(p, <<-1, 1>>)
PShift(p, c, m0) == [m \in {MMul(m1, m0) : m1 \in DOMAIN p} |->
                       LET src == CHOOSE m1 \in DOMAIN p : MMul(m1, m0) = m IN RMul(p[src], c)]
RECURSIVE PMulAcc(_, _, _)
PMulAcc(p, q, todo) ==          \* p * q = sum over the terms of q
  IF todo = {} THEN PZero
  ELSE LET m == CHOOSE x \in todo : TRUE IN
       PAdd(PShift(p, q[m], m), PMulAcc(p, q, todo \ {m}))
PMul(p, q) == PMulAcc(p, q, DOMAIN q)
IsTerm(p) == Cardinality(DOMAIN p) = 1
TermMono(p) == CHOOSE m \in DOMAIN p : TRUE
TermCoef(p) == p[TermMono(p)]

---------------------------------------------------------------------------
(* Trees.  Every node has the same fields:                                   *)
(*   t = "num": n/d the value, u the unit;  t = "atom": u the text;            *)
(*   t = "bin": op in + - * /, kids <<a, b>>;  t = "fn": op the name, kids args *)
(*   t = "fail": no parse                                                       *)
Node(t, op, n, d, u, kids) == [t |-> t, op |-> op, n |-> n, d |-> d, u |-> u, kids |-> kids]
NumNode(n, d, u) == Node("num", "", n, d, u, <<>>)
AtomNode(u) == Node("atom", "", 0, 1, u, <<>>)
Bin(op, a, b) == Node("bin", op, 0, 1, "", <<a, b>>)
Fn(f, args) == Node("fn", f, 0, 1, "", args)
Fail == Node("fail", "", 0, 1, "", <<>>)

(* Tokens: [k, n, d, u]                                                       *)
(*   k = "num" (n/d, unit u), "atom" (u), "op" (u), "lp", "rp", "comma",       *)
(*       "fn" (u = name; stands for `name(`), "bad"                            *)
Tok(k, n, d, u) == [k |-> k, n |-> n, d |-> d, u |-> u]

(* the input alphabet of the generator (token strings) *)
InTok(s) ==
  CASE s = "1px" -> Tok("num", 1, 1, "px") [] s = "2px" -> Tok("num", 2, 1, "px")
    [] s = "3px" -> Tok("num", 3, 1, "px")
    [] s = "1in" -> Tok("num", 1, 1, "in") [] s = "2em" -> Tok("num", 2, 1, "em")
    [] s = "3" -> Tok("num", 3, 1, "") [] s = "2" -> Tok("num", 2, 1, "")
    [] s = "50%" -> Tok("num", 50, 1, "%")
    [] s = "1x" -> Tok("num", 1, 1, "x") [] s = "2x" -> Tok("num", 2, 1, "x")
    [] s = "var(--a)" -> Tok("atom", 0, 1, "var(--a)") [] s = "var(--b)" -> Tok("atom", 0, 1, "var(--b)")
    [] s \in {"+", "-", "*", "/"} -> Tok("op", 0, 1, s)
    [] s = "(" -> Tok("lp", 0, 1, "") [] s = ")" -> Tok("rp", 0, 1, "") [] s = "," -> Tok("comma", 0, 1, "")
    [] s \in {"calc(", "min(", "max(", "clamp("} ->
         Tok("fn", 0, 1, CASE s = "calc(" -> "calc" [] s = "min(" -> "min" [] s = "max(" -> "max" [] OTHER -> "clamp")
    [] OTHER -> Tok("bad", 0, 1, s)
InToks(ss) == [i \in DOMAIN ss |-> InTok(ss[i])]

(* Grammar.  Each parse operator returns <<node, next position>>; node.t = "fail" on error. *)
RECURSIVE PSum(_, _), PSumLoop(_, _, _), PProd(_, _), PProdLoop(_, _, _), PUnit(_, _), PArgs(_, _, _)
IsTok(toks, pos, k) == pos <= Len(toks) /\ toks[pos].k = k
IsOp(toks, pos, ops) == pos <= Len(toks) /\ toks[pos].k = "op" /\ toks[pos].u \in ops

PArgs(toks, pos, acc) ==        \* pos: start of an argument; returns <<seq of args or <<Fail>>, position after ")">>
  LET a == PSum(toks, pos) IN
  IF a[1].t = "fail" THEN <<<<Fail>>, pos>>
  ELSE IF IsTok(toks, a[2], "comma") THEN PArgs(toks, a[2] + 1, Append(acc, a[1]))
  ELSE IF IsTok(toks, a[2], "rp") THEN <<Append(acc, a[1]), a[2] + 1>>
  ELSE <<<<Fail>>, pos>>

PUnit(toks, pos) ==
  IF pos > Len(toks) THEN <<Fail, pos>>
  ELSE LET t == toks[pos] IN
    IF t.k = "num" THEN <<NumNode(t.n, t.d, t.u), pos + 1>>
    ELSE IF t.k = "atom" THEN <<AtomNode(t.u), pos + 1>>
    ELSE IF t.k = "lp" THEN
        LET s == PSum(toks, pos + 1) IN
        IF s[1].t # "fail" /\ IsTok(toks, s[2], "rp") THEN <<s[1], s[2] + 1>> ELSE <<Fail, pos>>
    ELSE IF t.k = "fn" THEN
        LET r == PArgs(toks, pos + 1, <<>>) IN
        IF r[1] = <<Fail>> THEN <<Fail, pos>>
        ELSE IF t.u = "calc" THEN (IF Len(r[1]) = 1 THEN <<r[1][1], r[2]>> ELSE <<Fail, pos>>)
        ELSE IF t.u = "clamp" /\ Len(r[1]) # 3 THEN <<Fail, pos>>
        ELSE <<Fn(t.u, r[1]), r[2]>>
    ELSE <<Fail, pos>>

PProdLoop(toks, left, pos) ==
  IF ~IsOp(toks, pos, {"*", "/"}) THEN <<left, pos>>
  ELSE LET r == PUnit(toks, pos + 1) IN
       IF r[1].t = "fail" THEN <<Fail, pos>>
       ELSE PProdLoop(toks, Bin(toks[pos].u, left, r[1]), r[2])
PProd(toks, pos) ==
  LET l == PUnit(toks, pos) IN IF l[1].t = "fail" THEN l ELSE PProdLoop(toks, l[1], l[2])

PSumLoop(toks, left, pos) ==
  IF ~IsOp(toks, pos, {"+", "-"}) THEN <<left, pos>>
  ELSE LET r == PProd(toks, pos + 1) IN
       IF r[1].t = "fail" THEN <<Fail, pos>>
       ELSE PSumLoop(toks, Bin(toks[pos].u, left, r[1]), r[2])
PSum(toks, pos) ==
  LET l == PProd(toks, pos) IN IF l[1].t = "fail" THEN l ELSE PSumLoop(toks, l[1], l[2])

(* a complete value: a number, or calc(...) / min(...) / max(...) / clamp(...) *)
ParseValue(toks) ==
  IF toks = <<>> THEN Fail
  ELSE IF toks[1].k \notin {"num", "fn"} THEN Fail
  ELSE LET r == PUnit(toks, 1) IN
       IF r[1].t # "fail" /\ r[2] = Len(toks) + 1 THEN r[1] ELSE Fail

---------------------------------------------------------------------------
(* Units: the representative symbol and the exact factor *)
UnitFactor(u) ==
  CASE u = "px" -> <<1, 1>> [] u = "in" -> <<96, 1>> [] u = "pt" -> <<4, 3>> [] u = "pc" -> <<16, 1>>
    [] u = "cm" -> <<4800, 127>> [] u = "mm" -> <<480, 127>> [] u = "q" -> <<120, 127>>
    [] OTHER -> <<1, 1>>
UnitMono(u) ==
  IF u = "" THEN One
  ELSE IF u \in {"px", "in", "pt", "pc", "cm", "mm", "q"} THEN MPow(<<"u", "px">>, 1)
  ELSE MPow(<<"u", u>>, 1)

(* Norm: [ok, p, ms].  ok = FALSE: not constrained (see the module comment).  p: the polynomial;   *)
(* ms: the monomials of all terms that were added up, including those that cancelled (the units     *)
(* of a zero matter: 0px + 3 mixes, 1in * 0px is no CSS number).                                      *)
(* why: "" defined, "ovf" 32-bit overflow of this model, "mix" unitless mixed with units, "div" division by a sum *)
UndefBy(why) == [ok |-> FALSE, p |-> PZero, ms |-> {}, why |-> why]
Def(p, ms) == IF PBad(p) THEN UndefBy("ovf") ELSE [ok |-> TRUE, p |-> p, ms |-> ms, why |-> ""]
Worst(a, b) == IF ~a.ok THEN a ELSE b

(* a sum / comparison that mixes a pure number with a term that has units or symbols *)
Mixes(ms) == One \in ms /\ \E m \in ms : m # One

RECURSIVE Norm(_)
Norm(tr) ==
  CASE tr.t = "num" -> Def(PTerm(RMul(Rat(tr.n, tr.d), UnitFactor(tr.u)), UnitMono(tr.u)), {UnitMono(tr.u)})
    [] tr.t = "atom" -> Def(PTerm(<<1, 1>>, MPow(<<"a", tr.u>>, 1)), {MPow(<<"a", tr.u>>, 1)})
    [] tr.t = "bin" ->
         LET a == Norm(tr.kids[1])
             b == Norm(tr.kids[2]) IN
         IF ~a.ok \/ ~b.ok THEN Worst(a, b)
         ELSE IF tr.op \in {"+", "-"} THEN
              (IF Mixes(a.ms \cup b.ms) THEN UndefBy("mix")
               ELSE Def(PAdd(a.p, IF tr.op = "-" THEN PNeg(b.p) ELSE b.p), a.ms \cup b.ms))
         ELSE IF tr.op = "*" THEN Def(PMul(a.p, b.p), {MMul(m1, m2) : m1 \in a.ms, m2 \in b.ms})
         ELSE (IF ~IsTerm(b.p) \/ b.ms # {TermMono(b.p)} THEN UndefBy("div")
               ELSE Def(PShift(a.p, RInv(TermCoef(b.p)), MInv(TermMono(b.p))),
                        {MMul(m1, MInv(TermMono(b.p))) : m1 \in a.ms}))
    [] tr.t = "fn" ->
         LET as == [i \in DOMAIN tr.kids |-> Norm(tr.kids[i])] IN
         IF \E i \in DOMAIN as : ~as[i].ok THEN as[CHOOSE i \in DOMAIN as : ~as[i].ok]
         ELSE LET ps == [i \in DOMAIN as |-> as[i].p]
                  ms == UNION {as[i].ms : i \in DOMAIN as} IN
              IF Mixes(ms) THEN UndefBy("mix")
              ELSE IF Cardinality(ms) = 1
                      /\ (\A i \in DOMAIN ps : ps[i] = PZero \/ (IsTerm(ps[i]) /\ TermMono(ps[i]) \in ms))
                      /\ (\A m \in ms : \A s \in DOMAIN m : s[1] = "u")
              THEN LET c(i) == IF ps[i] = PZero THEN <<0, 1>> ELSE TermCoef(ps[i])
                       lo(S) == CHOOSE i \in S : \A j \in S : ~RLess(c(j), c(i))
                       hi(S) == CHOOSE i \in S : \A j \in S : ~RLess(c(i), c(j))
                       all == DOMAIN ps IN
                   IF tr.op = "min" THEN Def(ps[lo(all)], ms)
                   ELSE IF tr.op = "max" THEN Def(ps[hi(all)], ms)
                   ELSE \* clamp(MIN, VAL, MAX) = max(MIN, min(VAL, MAX))
                        LET v == IF RLess(c(3), c(2)) THEN 3 ELSE 2 IN
                        Def(ps[IF RLess(c(v), c(1)) THEN 1 ELSE v], ms)
              ELSE Def(PTerm(<<1, 1>>, MPow(<<"f", tr.op, ps>>, 1)), {MPow(<<"f", tr.op, ps>>, 1)})
    [] OTHER -> UndefBy("div")

(* approximate equality of Norms: same monomials (function symbols compared recursively), coefficients near *)
RECURSIVE PNear(_, _), SymNear(_, _), MonoNear(_, _)
SymNear(s, t) ==
  IF s[1] # t[1] THEN FALSE
  ELSE IF s[1] # "f" THEN s = t
  ELSE s[2] = t[2] /\ Len(s[3]) = Len(t[3]) /\ \A i \in DOMAIN s[3] : PNear(s[3][i], t[3][i])
MonoNear(m1, m2) ==
  /\ Cardinality(DOMAIN m1) = Cardinality(DOMAIN m2)
  /\ \A s \in DOMAIN m1 : \E t \in DOMAIN m2 : SymNear(s, t) /\ m1[s] = m2[t]
PNear(p, q) ==
  /\ Cardinality(DOMAIN p) = Cardinality(DOMAIN q)
  /\ \A m \in DOMAIN p : \E k \in DOMAIN q : MonoNear(m, k) /\ RNear(p[m], q[k])

(* approximate equality of trees: same shape, operators, atoms, units; numbers near *)
RECURSIVE TreeNear(_, _)
TreeNear(x, y) ==
  /\ x.t = y.t /\ x.op = y.op /\ x.u = y.u /\ Len(x.kids) = Len(y.kids)
  /\ (x.t = "num" => RNear(Rat(x.n, x.d), Rat(y.n, y.d)))
  /\ \A i \in DOMAIN x.kids : TreeNear(x.kids[i], y.kids[i])

---------------------------------------------------------------------------
(* classification of the input *)
RECURSIVE HasKind(_, _)
HasKind(tr, kinds) == tr.t \in kinds \/ \E i \in DOMAIN tr.kids : HasKind(tr.kids[i], kinds)
RECURSIVE HasUnit(_, _)
HasUnit(tr, us) == (tr.t = "num" /\ tr.u \in us) \/ \E i \in DOMAIN tr.kids : HasUnit(tr.kids[i], us)

(* a monomial that is a CSS unit (or none): one unit symbol to the first power *)
CssMono(m) == m = One \/ (Cardinality(DOMAIN m) = 1 /\ \A s \in DOMAIN m : s[1] = "u" /\ m[s] = 1)
(* only units / atoms to the first power: a linear form that calc() can always print *)
LinearMono(m) == m = One \/ (Cardinality(DOMAIN m) = 1 /\ \A s \in DOMAIN m : s[1] \in {"u", "a"} /\ m[s] = 1)

(* a purely numeric sub-calculation whose value carries a unit CSS cannot express *)
RECURSIVE ComplexSub(_)
ComplexSub(tr) ==
  \/ (tr.t = "bin" /\ ~HasKind(tr, {"atom", "fn"}) /\ LET n == Norm(tr) IN n.ok /\ \E m \in n.ms : ~CssMono(m))
  \/ \E i \in DOMAIN tr.kids : ComplexSub(tr.kids[i])

(* a min / max / clamp call one of whose arguments is numeric with a unit CSS cannot express *)
RECURSIVE FnComplexArg(_)
FnComplexArg(tr) ==
  \/ (tr.t = "fn" /\ \E i \in DOMAIN tr.kids :
          LET k == tr.kids[i]
              n == Norm(k) IN
          ~HasKind(k, {"atom"}) /\ n.ok /\ \E m \in n.ms : ~CssMono(m))
  \/ \E i \in DOMAIN tr.kids : FnComplexArg(tr.kids[i])

(* the dimensions of the number leaves: they are mutually compatible iff there is at most one *)
RECURSIVE LeafMonos(_)
LeafMonos(tr) == (IF tr.t = "num" /\ tr.u # "" THEN {UnitMono(tr.u)} ELSE {})
                 \cup UNION {LeafMonos(tr.kids[i]) : i \in DOMAIN tr.kids}

(* all operands are numbers with mutually compatible units and the value is one number with a   *)
(* CSS unit: it must be emitted as a number                                                       *)
MustBeNumber(tr, nin) ==
  /\ nin.ok /\ ~HasKind(tr, {"atom"}) /\ Cardinality(LeafMonos(tr)) <= 1
  /\ Cardinality(nin.ms) = 1 /\ \A m \in nin.ms : CssMono(m)

(* an error instead of a value is tolerated unless the calculation is a plain number or a plain   *)
(* linear form over known units and atoms (which calc() can always express)                        *)
MustNotFail(tr, nin) ==
  /\ nin.ok /\ ~HasUnit(tr, {"x"}) /\ nin.ms # {}
  /\ \A m \in nin.ms : LinearMono(m)

---------------------------------------------------------------------------
(* What css/binop.rs prints (deviations): the left operand never gets parentheses; the right       *)
(* operand gets them when its operator is lower in the order + < - < * < /, or for a - (b - c).   *)
OpOrd(op) == CASE op = "+" -> 1 [] op = "-" -> 2 [] op = "*" -> 3 [] OTHER -> 4
RECURSIVE PrintDev(_)
PrintDev(tr) ==
  CASE tr.t = "num" -> <<Tok("num", tr.n, tr.d, tr.u)>>
    [] tr.t = "atom" -> <<Tok("atom", 0, 1, tr.u)>>
    [] tr.t = "fn" ->
         LET RECURSIVE Args(_)
             Args(i) == IF i > Len(tr.kids) THEN <<>>
                        ELSE (IF i > 1 THEN <<Tok("comma", 0, 1, "")>> ELSE <<>>) \o PrintDev(tr.kids[i]) \o Args(i + 1) IN
         <<Tok("fn", 0, 1, tr.op)>> \o Args(1) \o <<Tok("rp", 0, 1, "")>>
    [] tr.t = "bin" ->
         LET a == tr.kids[1]
             b == tr.kids[2]
             par == b.t = "bin" /\ (OpOrd(b.op) < OpOrd(tr.op) \/ (tr.op = "-" /\ b.op = "-")) IN
         PrintDev(a) \o <<Tok("op", 0, 1, tr.op)>>
         \o (IF par THEN <<Tok("lp", 0, 1, "")>> \o PrintDev(b) \o <<Tok("rp", 0, 1, "")>> ELSE PrintDev(b))
    [] OTHER -> <<Tok("bad", 0, 1, "")>>

(* numeric sub-calculations are evaluated before printing *)
RECURSIVE Simplify(_)
Simplify(tr) ==
  IF tr.t \notin {"bin", "fn"} THEN tr
  ELSE LET n == Norm(tr)
           unitOf(m) == IF m = One THEN "" ELSE (CHOOSE s \in DOMAIN m : TRUE)[2] IN
       IF n.ok /\ ~HasKind(tr, {"atom"}) /\ Cardinality(n.ms) = 1 /\ (\A m \in n.ms : CssMono(m))
       THEN (IF n.p = PZero THEN NumNode(0, 1, unitOf(CHOOSE m \in n.ms : TRUE))
             ELSE LET c == TermCoef(n.p) IN NumNode(c[1], c[2], unitOf(TermMono(n.p))))
       ELSE Node(tr.t, tr.op, tr.n, tr.d, tr.u, [i \in DOMAIN tr.kids |-> Simplify(tr.kids[i])])

Wrap(toks) == <<Tok("fn", 0, 1, "calc")>> \o toks \o <<Tok("rp", 0, 1, "")>>

(* does the tree contain the shapes whose parentheses css/binop.rs drops? *)
RECURSIVE LhsParenShape(_), DivDivShape(_)
LhsParenShape(tr) ==
  \/ (tr.t = "bin" /\ tr.op \in {"*", "/"} /\ tr.kids[1].t = "bin" /\ tr.kids[1].op \in {"+", "-"})
  \/ \E i \in DOMAIN tr.kids : LhsParenShape(tr.kids[i])
DivDivShape(tr) ==
  \/ (tr.t = "bin" /\ tr.op = "/" /\ tr.kids[2].t = "bin" /\ tr.kids[2].op = "/")
  \/ \E i \in DOMAIN tr.kids : DivDivShape(tr.kids[i])

---------------------------------------------------------------------------
(* The verdict on one observation.  st = "ok" (out = tokens of the emitted value), "err", other.   *)
(* Returns the set of failed checks (empty = sound).                                                 *)
Checks(inToks, st, outToks) ==
  LET tin == ParseValue(inToks)
      nin == Norm(tin) IN
  IF tin.t = "fail" THEN {"input"}                       \* generator / renderer error, never expected
  ELSE IF ~nin.ok THEN {}
  ELSE IF st = "err" THEN (IF MustNotFail(tin, nin) /\ ~ComplexSub(tin) THEN {"error"} ELSE {})
  ELSE IF st # "ok" THEN {"crash"}
  ELSE LET tout == ParseValue(outToks)
           nout == Norm(tout) IN
       IF tout.t = "fail" THEN {"not_a_calculation"}
       ELSE IF ~nout.ok THEN (IF nout.why = "ovf" THEN {} ELSE {"different_structure"})
       ELSE (IF PNear(nin.p, nout.p) THEN {} ELSE {"different_value"})
            \cup (IF MustBeNumber(tin, nin) /\ tout.t # "num" THEN {"not_simplified"} ELSE {})

(* deviations: the failing checks they explain on this observation *)
CalcDevs == {"calc_lhs_paren_dropped", "calc_div_div_paren_dropped", "calc_complex_unit_number_printed",
             "calc_paren_division_not_simplified", "clamp_unknown_percent_simplified",
             "minmax_complex_unit_operand_decided"}
Covers(d, inToks, st, outToks) ==
  LET tin == ParseValue(inToks)
      nin == Norm(tin) IN
  IF tin.t = "fail" \/ st # "ok" \/ ~nin.ok THEN {}
  ELSE IF d \in {"calc_lhs_paren_dropped", "calc_div_div_paren_dropped"} THEN
       (* css/binop.rs drops parentheses: the emitted text is what PrintDev prints, parsed by the real grammar *)
       LET tout == ParseValue(outToks)
           nout == Norm(tout)
           shape == (d = "calc_lhs_paren_dropped" /\ LhsParenShape(Simplify(tin)))
                    \/ (d = "calc_div_div_paren_dropped" /\ DivDivShape(Simplify(tin)))
           dt == ParseValue(Wrap(PrintDev(Simplify(tin))))
           dn == Norm(dt) IN
       IF ~shape \/ tout.t = "fail" THEN {}
       ELSE IF nout.ok /\ dn.ok /\ PNear(dn.p, nout.p) THEN {"different_value"}
       ELSE IF ~nout.ok /\ ~dn.ok /\ TreeNear(dt, tout) THEN {"different_structure"}
       ELSE {}
  ELSE IF d = "calc_complex_unit_number_printed" THEN
       (* a numeric (sub-)result whose unit is no CSS unit (1/%, %*%) is printed as `N / 1u` or `N * 1u`, at top *)
       (* level even without calc(); what is emitted then has no defined relation to the input                     *)
       IF ComplexSub(tin) THEN {"not_a_calculation", "different_value", "different_structure"} ELSE {}
  ELSE IF d = "calc_paren_division_not_simplified" THEN
       (* calc((a / b)): the parenthesised division is passed through unevaluated (do_eval, Value::Paren) *)
       LET tout == ParseValue(outToks)
           n == Len(inToks) IN
       IF tin.t = "bin" /\ tin.op = "/" /\ n >= 5 /\ inToks[2].k = "lp" /\ inToks[n - 1].k = "rp"
          /\ tout.t # "fail" /\ TreeNear(tin, tout)
       THEN {"not_simplified"} ELSE {}
  ELSE IF d = "minmax_complex_unit_operand_decided" THEN
       (* min()/max()/clamp() with an operand whose unit is a product or quotient (px*%, px/%) is decided although  *)
       (* such a value cannot be compared with a length: min(50% * 2px, 1px) and max(50% * 2px, 1px) both give 1px  *)
       IF FnComplexArg(tin) THEN {"different_value", "different_structure"} ELSE {}
  ELSE IF d = "clamp_unknown_percent_simplified" THEN
       (* clamp() whose arguments mix an unknown unit and % is decided although they cannot be compared *)
       LET tout == ParseValue(outToks) IN
       IF tin.t = "fn" /\ tin.op = "clamp"
          /\ (\A i \in DOMAIN tin.kids : tin.kids[i].t = "num" /\ tin.kids[i].u \notin {"", "px", "in", "em"})
          /\ Cardinality(LeafMonos(tin)) > 1
          /\ tout.t = "num" /\ \E i \in DOMAIN tin.kids : PNear(Norm(tin.kids[i]).p, Norm(tout).p)
       THEN {"different_value"} ELSE {}
  ELSE {}
=============================================================================
