SPECIFICATION Spec
CONSTANTS
  Alphabet = {97, 66, 233, 128512, 769}
  MinLen = 0
  MaxLen = 3
  FnSet = {"length", "case", "index", "insert", "slice"}
  SubMaxLen = 2
INVARIANTS Laws Emit
CHECK_DEADLOCK FALSE
