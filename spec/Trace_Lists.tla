----------------------------- MODULE Trace_Lists -----------------------------
(* Trace validation for C28: every recorded run {init, ops, obs, devs, case} *)
(* of sass:list functions must be explained by Lists!Run - the ideal list   *)
(* model, or a deviation listed as an open finding (then it is reported).   *)
EXTENDS Lists, Json, IOUtils, TLCExt

Rec == ndJsonDeserialize(IOEnv.TRACE)

VARIABLE l
Init == l = 1

SeqToSet(q) == {q[i] : i \in DOMAIN q}

Explained(e) ==
  LET ideal == Run(e.init, e.ops, {}) IN
  IF ideal[1].t = "undef" THEN TRUE      \* outside the specified domain
  ELSE IF e.obs = ideal THEN TRUE
  ELSE \E d \in SeqToSet(e.devs) :
         LET o == Run(e.init, e.ops, {d}) IN
         /\ o # ideal
         /\ e.obs = o
         /\ PrintT(<<"MSG", "KNOWN", d, e.case>>)

Next == /\ l <= Len(Rec)
        /\ Explained(Rec[l]) = TRUE
        /\ l' = l + 1
Spec == Init /\ [][Next]_l

Accepted == IF TLCGet("stats").diameter - 1 = Len(Rec) THEN TRUE
            ELSE PrintT(<<"UNMATCHED", TLCGet("stats").diameter>>) /\ FALSE
=============================================================================
