------------------------------ MODULE MC_Math ------------------------------
(* Generator of math function calls (function x boundary numbers x unit      *)
(* classes, and the table of special values) with the expected observable     *)
(* computed by Math!Expect; laws of the model checked on every call.          *)
EXTENDS Math, Json

CONSTANTS Tier          \* "quick" | "thorough"

VARIABLES call, phase
vars == <<call, phase>>

V(n, d) == <<n, d>>
(* boundary values: 0, +-0.5 ties, +-1.5, +-2.5, integers, huge (with a tie), tiny *)
Bound  == {V(0, 1), V(1, 2), V(-1, 2), V(3, 2), V(-3, 2), V(5, 2), V(-5, 2), V(1, 1), V(-1, 1), V(2, 1), V(7, 4), V(-9, 4),
           V(1000000001, 2), V(-1000000001, 2), V(1, 1048576), V(-1, 1048576)}
Small  == {V(0, 1), V(1, 2), V(-1, 2), V(3, 2), V(-5, 2), V(1, 1), V(2, 1), V(-3, 1)}
Tiny4  == {V(-5, 2), V(-1, 2), V(1, 2), V(3, 2)}
Clamp5 == {V(-5, 2), V(-1, 2), V(1, 2), V(3, 2), V(3, 1)}      \* every ordering of MIN, VAL, MAX occurs, also MIN > MAX
ULen   == {"", "px", "in", "cm"}
Step6  == {V(-7, 2), V(-1, 1), V(1, 2), V(5, 4), V(3, 1), V(7, 1)}
UAll   == {"", "px", "in", "em", "%", "deg"}
USome  == {"", "px", "in", "em"}
N(v, u) == Num(v[1], v[2], u)
Specials(u) == {Special("inf", u), Special("-inf", u), Special("nan", u)}

Nums(vals, units) == {N(v, u) : v \in vals, u \in units}

TableArgs(fn) ==
  CASE fn \in {"sin", "cos", "tan"} ->
         {<<Num(t, 1, "deg")>> : t \in {-90, -30, 0, 30, 45, 60, 90, 120, 135, 150, 180, 210, 270, 330, 360, 390}}
         \cup {<<Num(t, 4, "turn")>> : t \in {0, 1, 2, 3, 4}} \cup {<<Num(t, 1, "grad")>> : t \in {0, 50, 100, 200, 300}}
         \cup {<<Num(0, 1, "rad")>>, <<Num(0, 1, "")>>, <<Num(1, 1, "px")>>, <<Num(30, 1, "%")>>, <<Num(1, 1, "s")>>}
    [] fn \in {"asin", "acos", "atan"} ->
         {<<N(v, "")>> : v \in {V(0, 1), V(1, 2), V(-1, 2), V(1, 1), V(-1, 1)}} \cup {<<Num(1, 1, "px")>>, <<Num(1, 2, "deg")>>, <<Num(1, 1, "%")>>}
    [] fn = "atan2" ->
         {<<N(y, u), N(x, w)>> : y \in {V(0, 1), V(1, 1), V(-1, 1), V(2, 1)}, x \in {V(0, 1), V(1, 1), V(-1, 1), V(2, 1)},
                                  u \in {"", "px", "in", "em"}, w \in {"", "px", "em"}}
    [] fn = "sqrt" -> {<<N(v, u)>> : v \in {V(0, 1), V(1, 1), V(4, 1), V(9, 1), V(16, 1), V(1, 4), V(9, 4), V(25, 16), V(2, 1)}, u \in {"", "px"}}
    [] fn = "pow" ->
         {<<N(b, ""), N(e, "")>> : b \in {V(2, 1), V(4, 1), V(1, 2), V(-2, 1), V(9, 4), V(0, 1), V(1, 1)},
                                    e \in {V(0, 1), V(1, 1), V(2, 1), V(10, 1), V(-1, 1), V(-2, 1), V(1, 2)}}
         \cup {<<Num(2, 1, "px"), Num(2, 1, "")>>, <<Num(2, 1, ""), Num(2, 1, "px")>>}
    [] fn = "log" ->
         {<<N(x, ""), N(b, "")>> : x \in {V(1, 1), V(2, 1), V(8, 1), V(1, 8), V(100, 1), V(1000, 1), V(1, 10), V(9, 1), V(81, 1)},
                                    b \in {V(2, 1), V(10, 1), V(3, 1)}}
         \cup {<<Num(1, 1, "")>>, <<Num(2, 1, "px")>>, <<Num(8, 1, "px"), Num(2, 1, "")>>}
    [] fn = "exp" -> {<<Num(0, 1, "")>>, <<Num(1, 1, "px")>>, <<Num(0, 1, "px")>>}
    [] fn = "hypot" ->
         {<<Num(a, 1, u), Num(b, 1, w)>> : a \in {3, 6, 5, -3}, b \in {4, 8, 12, -4}, u \in {"", "px", "em"}, w \in {"", "px", "em", "in"}}

Calls(fn) ==
  CASE fn \in {"abs", "ceil", "floor", "round"} ->
         {<<a>> : a \in Nums(Bound, UAll) \cup UNION {Specials(u) : u \in {"", "px"}}}
    [] fn = "percentage" -> {<<a>> : a \in Nums(Bound, {"", "px", "%"}) \cup Specials("")}
    [] fn = "div" -> {<<a, b>> : a \in Nums(Small, USome), b \in Nums(Small, USome)}
    [] fn \in {"min", "max"} ->
         {<<a, b>> : a \in Nums(Small, USome \cup {"cm"}), b \in Nums(Small, USome \cup {"cm"})}
         \cup {<<a, b, c>> : a \in Nums(Tiny4, USome), b \in Nums(Tiny4, {"", "px", "in"}), c \in Nums(Tiny4, {"", "px", "em"})}
    [] fn = "clamp" ->
         {<<a, b, c>> : a \in Nums(Clamp5, ULen), b \in Nums(Clamp5, ULen \cup {"em"}), c \in Nums(Clamp5, ULen)}
    [] fn \in StepFns ->
         {<<a, b>> : a \in Nums(Step6, ULen \cup {"em"}), b \in Nums(Step6 \cup {V(0, 1)}, ULen)}
    [] OTHER -> TableArgs(fn)

MathFns == {"abs", "ceil", "floor", "round", "percentage", "div", "min", "max", "clamp",
            "sin", "cos", "tan", "asin", "acos", "atan", "atan2", "sqrt", "pow", "log", "exp", "hypot"}

Init == call = [ns |-> "math", fn |-> "none", args |-> <<>>] /\ phase = "fn"
PickFn == /\ phase = "fn"
          /\ \/ \E f \in MathFns : call' = [ns |-> "math", fn |-> f, args |-> <<>>]
             \/ \E f \in CssFns : call' = [ns |-> "css", fn |-> f, args |-> <<>>]
          /\ phase' = "args"
PickArgs == /\ phase = "args"
            /\ \E a \in Calls(call.fn) : call' = [call EXCEPT !.args = a]
            /\ phase' = "done"
Next == PickFn \/ PickArgs
Spec == Init /\ [][Next]_vars

Done == phase = "done"

LawRound  == Done /\ call.fn \in {"abs", "ceil", "floor", "round"} => RoundLaws(call.args[1])
LawSelect == Done /\ call.fn \in {"min", "max", "clamp"} => SelectLaws(call.fn, call.args)
(* min <= max on the same arguments, whenever both are decided *)
LawMinMax == Done /\ call.fn = "min" =>
               LET lo == Apply("min", call.args)
                   hi == Apply("max", call.args) IN
               (lo.k = "num" /\ hi.k = "num") => ~Less(ToBase(hi), ToBase(lo))
(* the observable is well formed *)
LawObs == Done => LET o == Expect(call.ns, call.fn, call.args) IN o.fp >= 0 /\ o.fp < 1000000 /\ o.ip >= 0
LawStep  == Done /\ call.fn \in StepFns => StepLaws(call.fn, call.args[1], call.args[2])
LawClamp == Done /\ call.fn = "clamp" => ClampLaw(call.args)

Emit == (Done /\ Expect(call.ns, call.fn, call.args).k # "undef") =>
          PrintT(<<"VEC", ToJson([ns |-> call.ns, fn |-> call.fn, args |-> call.args, expect |-> Expect(call.ns, call.fn, call.args)])>>)
=============================================================================
