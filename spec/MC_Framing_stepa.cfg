SPECIFICATION Spec
CONSTANTS
  MaxLen = 4
  StepMode = TRUE
  DeclSet = {"id", "pna", "strna"}
  CpropSet = {"na"}
  CmtSet = {"na"}
  RuleSet = {"asc", "na"}
  AtAttr = {"-", "na", "name"}
  Extra = {"sup", "kf", "imp"}
INVARIANT DesignAccepted
INVARIANT StepAccepted
CHECK_DEADLOCK FALSE
