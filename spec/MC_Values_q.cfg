SPECIFICATION Spec
CONSTANTS
  USel = "q"
INVARIANTS WellFormedU Laws Transitive DevBreaksSymmetry Emit
CHECK_DEADLOCK FALSE
