----------------------------- MODULE Trace_Flow -----------------------------
(* Trace validation for the control-flow engine: every recorded execution  *)
(* {inp, obs, devs, case} of an input the specification did not choose     *)
(* must be explained by Flow!Expect (no deviation is known for C17).       *)
EXTENDS Flow, Json, IOUtils, TLCExt

Rec == ndJsonDeserialize(IOEnv.TRACE)

VARIABLE l
Init == l = 1

Explained(e) ==
  /\ WellFormed(e.inp)
  /\ LET ideal == Expect(e.inp) IN
     IF ideal.k = "undef" THEN TRUE          \* outside what the property fixes
     ELSE e.obs = ideal

Next == /\ l <= Len(Rec)
        /\ Explained(Rec[l]) = TRUE       \* evaluated as a value (not split into sub-actions)
        /\ l' = l + 1
Spec == Init /\ [][Next]_l

Accepted == IF TLCGet("stats").diameter - 1 = Len(Rec) THEN TRUE
            ELSE PrintT(<<"UNMATCHED", TLCGet("stats").diameter>>) /\ FALSE
=============================================================================
