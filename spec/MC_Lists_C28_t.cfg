SPECIFICATION Spec
CONSTANTS
  ItemToks = {"1", "a", "p1a"}
  MaxItems = 3
  MaxOps = 2
  Profile = "deep"
INVARIANTS Laws Emit
CHECK_DEADLOCK FALSE
