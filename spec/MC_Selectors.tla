--------------------------- MODULE MC_Selectors ---------------------------
(* Bounded-exhaustive generator of selector nests as token strings (builder *)
(* actions, left to right = one canonical build order per nest) and one     *)
(* conformance vector per complete nest.                                    *)
EXTENDS Selectors, Json

CONSTANTS Simples,      \* plain simple-selector tokens
          Sfx,          \* suffix tokens (directly after "&")
          Combs,        \* combinator tokens between compounds
          LeadCombs,    \* combinators allowed at the start of a nested complex selector
          Fns,          \* selector pseudo-classes ":not(" ...
          MaxLevels,    \* nesting levels
          MaxList,      \* complex selectors per rule
          MaxArgList,   \* complex selectors per pseudo-class argument
          MaxComps,     \* compounds per complex selector
          MaxSimp,      \* simple selectors per compound
          MaxTotal,     \* simple selectors (incl. & and pseudo-classes) in the whole nest
          MaxFn, MaxDepth,
          Amp,          \* {"top"} / {"arg"} / {"top","arg"} / {}: where & may be written
          MaxAmp        \* number of & in the whole nest

VARIABLES toks, phase, level, stk, total, nfn, namp
vars == <<toks, phase, level, stk, total, nfn, namp>>

Fresh == [n |-> 1, comps |-> 0, amp |-> 0, cmp |-> <<>>]
Top   == stk[Len(stk)]
SetTop(f) == [stk EXCEPT ![Len(stk)] = f]
Depth == Len(stk) - 1
InCmp(t) == \E i \in 1..Len(Top.cmp) : Top.cmp[i] = t

Init == toks = <<>> /\ phase = "cstart" /\ level = 1 /\ stk = <<Fresh>> /\ total = 0 /\ nfn = 0 /\ namp = 0

(* a simple selector may be written here: a new compound, or one more in the current one *)
CanAdd(t) ==
  /\ phase \in {"cstart", "needcmp", "incmp"}
  /\ total < MaxTotal
  /\ (phase = "incmp" => (Len(Top.cmp) < MaxSimp /\ ~InCmp(t) /\ Kind(t) # "elem"))
  /\ (phase # "incmp" => Top.comps < MaxComps)

Added(t) == IF phase = "incmp" THEN [Top EXCEPT !.cmp = Append(@, t)]
            ELSE [Top EXCEPT !.cmp = <<t>>, !.comps = @ + 1]

AddSimple == \E t \in Simples :
  /\ CanAdd(t)
  /\ toks' = Append(toks, t) /\ stk' = SetTop(Added(t)) /\ phase' = "incmp" /\ total' = total + 1
  /\ UNCHANGED <<level, nfn, namp>>

AddAmp ==
  /\ level > 1 /\ phase \in {"cstart", "needcmp"} /\ Top.amp = 0 /\ namp < MaxAmp
  /\ stk[1].amp # 2                                  \* not in a complex selector with a leading combinator
  /\ (IF Depth = 0 THEN "top" ELSE "arg") \in Amp
  /\ CanAdd("&")
  /\ toks' = Append(toks, "&") /\ stk' = SetTop([Added("&") EXCEPT !.amp = 1]) /\ phase' = "incmp"
  /\ total' = total + 1 /\ namp' = namp + 1
  /\ UNCHANGED <<level, nfn>>

AddSfx == \E t \in Sfx :
  /\ phase = "incmp" /\ Top.cmp = <<"&">>
  /\ toks' = Append(toks, t) /\ stk' = SetTop([Top EXCEPT !.cmp = Append(@, t)])
  /\ UNCHANGED <<phase, level, total, nfn, namp>>

AddComb == \E c \in Combs :
  /\ phase = "incmp" /\ Top.comps < MaxComps
  /\ toks' = Append(toks, c) /\ phase' = "needcmp"
  /\ UNCHANGED <<level, stk, total, nfn, namp>>

LeadComb == \E c \in LeadCombs :
  /\ phase = "cstart" /\ level > 1 /\ Depth = 0
  /\ toks' = Append(toks, c) /\ phase' = "needcmp" /\ stk' = SetTop([Top EXCEPT !.amp = 2])
  /\ UNCHANGED <<level, total, nfn, namp>>

Comma ==
  /\ phase = "incmp" /\ Top.n < (IF Depth = 0 THEN MaxList ELSE MaxArgList)
  /\ toks' = Append(toks, ",") /\ phase' = "cstart"
  /\ stk' = SetTop([n |-> Top.n + 1, comps |-> 0, amp |-> 0, cmp |-> <<>>])
  /\ UNCHANGED <<level, total, nfn, namp>>

OpenFn == \E f \in Fns :
  /\ CanAdd(f) /\ nfn < MaxFn /\ Depth < MaxDepth
  /\ toks' = Append(toks, f) /\ stk' = Append(SetTop(Added(f)), Fresh) /\ phase' = "cstart"
  /\ total' = total + 1 /\ nfn' = nfn + 1
  /\ UNCHANGED <<level, namp>>

CloseFn ==
  /\ phase = "incmp" /\ Depth > 0
  /\ toks' = Append(toks, ")") /\ stk' = Front(stk)
  /\ UNCHANGED <<phase, level, total, nfn, namp>>

NextLevel ==
  /\ phase = "incmp" /\ Depth = 0 /\ level < MaxLevels
  /\ toks' = Append(toks, "{") /\ level' = level + 1 /\ stk' = <<Fresh>> /\ phase' = "cstart"
  /\ UNCHANGED <<total, nfn, namp>>

Finish ==
  /\ phase = "incmp" /\ Depth = 0
  /\ phase' = "done"
  /\ UNCHANGED <<toks, level, stk, total, nfn, namp>>

Next == AddSimple \/ AddAmp \/ AddSfx \/ AddComb \/ LeadComb \/ Comma \/ OpenFn \/ CloseFn \/ NextLevel \/ Finish
Spec == Init /\ [][Next]_vars

Done == phase = "done"

InvLaws == Done => Laws(toks)

Emit == Done => LET o == Observe(toks, {}) IN
          (o.st # "undef") => PrintT(<<"VEC", ToJson([toks |-> toks, expect |-> o, dev |-> DevMap(toks, o)])>>)
=============================================================================
