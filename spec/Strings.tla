------------------------------ MODULE Strings ------------------------------
(***************************************************************************)
(* Sass strings as sequences of Unicode code points (integers) plus a      *)
(* quoted flag, and the sass:string functions on them (property C26).      *)
(* The CSS escape syntax of string tokens (property C27) is in StrEsc.tla. *)
(*                                                                         *)
(* Abstracts rsass/src/sass/functions/string.rs (length, index, insert,    *)
(* slice, to-upper-case, to-lower-case) over css::CssString.               *)
(*                                                                         *)
(* Positions are 1-based; a negative index -k addresses the k-th code      *)
(* point from the end.  Norm maps an index to the position it addresses.   *)
(*                                                                         *)
(* Named deviation (what the pinned tree does instead):                    *)
(*   slice_empty_is_error   slice raises "Bad indexes" when the start      *)
(*                          offset lies beyond the end offset instead of   *)
(*                          returning the empty string                     *)
(***************************************************************************)
EXTENDS Integers, Sequences, FiniteSets, TLC

Max2(a, b) == IF a > b THEN a ELSE b
Min2(a, b) == IF a < b THEN a ELSE b
Clamp(x, lo, hi) == IF x < lo THEN lo ELSE IF x > hi THEN hi ELSE x
SetMin(S) == CHOOSE x \in S : \A y \in S : x <= y

(* position addressed by index i in a string of n code points *)
Norm(i, n) == IF i < 0 THEN n + i + 1 ELSE i

---------------------------------------------------------------------------
(* result values: one record shape, every field single-typed               *)
(*   k = "str" (s, q) | "num" (n) | "null" | "err" | "undef"                *)
RStr(s, q) == [k |-> "str",   s |-> s,    q |-> q, n |-> 0]
RNum(n)    == [k |-> "num",   s |-> <<>>, q |-> 0, n |-> n]
RNull      == [k |-> "null",  s |-> <<>>, q |-> 0, n |-> 0]
RErr       == [k |-> "err",   s |-> <<>>, q |-> 0, n |-> 0]
RUndef     == [k |-> "undef", s |-> <<>>, q |-> 0, n |-> 0]

---------------------------------------------------------------------------
(* the functions, on code-point sequences *)

SLength(s) == Len(s)

Occurs(s, sub, p) == /\ p + Len(sub) - 1 <= Len(s)
                     /\ SubSeq(s, p, p + Len(sub) - 1) = sub

(* first position at which sub occurs in s, 0 when it does not occur *)
SIndex(s, sub) ==
  LET P == {p \in 1..(Len(s) + 1) : Occurs(s, sub, p)} IN
  IF P = {} THEN 0 ELSE SetMin(P)

(* number of code points of s that stay in front of the inserted text:     *)
(* i > 0 inserts before position i; i < 0 inserts so that the inserted     *)
(* text ends at position i counted from the end (-1: at the very end);     *)
(* everything is clamped to the string (0 and far negatives: the front).   *)
InsertOffset(n, i) == IF i < 0 THEN Clamp(Norm(i, n), 0, n) ELSE Clamp(i - 1, 0, n)

SInsert(s, x, i) ==
  LET off == InsertOffset(Len(s), i) IN
  SubSeq(s, 1, off) \o x \o SubSeq(s, off + 1, Len(s))

(* the code points at positions p with Norm(i) <= p <= Norm(j) that exist  *)
SSlice(s, i, j) ==
  LET lo == Max2(Norm(i, Len(s)), 1)
      hi == Min2(Norm(j, Len(s)), Len(s)) IN
  IF lo > hi THEN <<>> ELSE SubSeq(s, lo, hi)

UpperCp(c) == IF c >= 97 /\ c <= 122 THEN c - 32 ELSE c
LowerCp(c) == IF c >= 65 /\ c <= 90 THEN c + 32 ELSE c
SUpper(s) == [p \in 1..Len(s) |-> UpperCp(s[p])]
SLower(s) == [p \in 1..Len(s) |-> LowerCp(s[p])]

(* slice_empty_is_error: offsets as the pinned tree computes them *)
SliceStartOff(n, i) == Clamp(Norm(i, n) - 1, 0, n)
SliceEndOff(n, j)   == Max2(Norm(j, n), 0)
SliceBadIndexes(n, i, j) == SliceStartOff(n, i) > SliceEndOff(n, j)

---------------------------------------------------------------------------
(* One call.  a = [fn, s, q, x, xq, i, j]: the string argument (s, q), a   *)
(* second string (x, xq) for index/insert, integers i, j.                  *)
Fns == {"length", "index", "insert", "slice", "upper", "lower"}

Apply(a, Dev) ==
  CASE a.fn = "length" -> RNum(SLength(a.s))
    [] a.fn = "index"  -> (LET p == SIndex(a.s, a.x) IN IF p = 0 THEN RNull ELSE RNum(p))
    [] a.fn = "insert" -> RStr(SInsert(a.s, a.x, a.i), a.q)
    [] a.fn = "slice"  ->
         IF "slice_empty_is_error" \in Dev /\ SliceBadIndexes(Len(a.s), a.i, a.j) THEN RErr
         ELSE RStr(SSlice(a.s, a.i, a.j), a.q)
    [] a.fn = "upper"  -> RStr(SUpper(a.s), a.q)
    [] a.fn = "lower"  -> RStr(SLower(a.s), a.q)
    [] OTHER -> RUndef

AllDevs == {"slice_empty_is_error"}

DevMap(a) ==
  LET ideal == Apply(a, {}) IN
  [d \in {d \in AllDevs : Apply(a, {d}) # ideal} |-> Apply(a, {d})]

---------------------------------------------------------------------------
(* Laws of the ideal functions; TLC checks them on every generated call.   *)

LawLength(a) ==
  LET r == Apply(a, {}) n == Len(a.s) IN
  CASE a.fn = "insert" -> Len(r.s) = n + Len(a.x)
    [] a.fn = "slice"  -> Len(r.s) <= n
    [] a.fn \in {"upper", "lower"} -> Len(r.s) = n
    [] OTHER -> TRUE

(* the quoted flag of the string argument is kept *)
LawQuoted(a) ==
  LET r == Apply(a, {}) IN r.k = "str" => r.q = a.q

(* the inserted text is found where it was put, the rest is untouched *)
LawInsert(a) ==
  a.fn = "insert" =>
    LET r == SInsert(a.s, a.x, a.i) off == InsertOffset(Len(a.s), a.i) IN
    /\ SSlice(r, off + 1, off + Len(a.x)) = a.x
    /\ SSlice(r, 1, off) \o SSlice(r, off + Len(a.x) + 1, Len(r)) = a.s
    /\ (a.i > 0 /\ a.i <= Len(a.s) => off = a.i - 1)
    /\ (a.i = -1 => off = Len(a.s))

(* slice: in-range indices give exactly j-i+1 code points; a negative     *)
(* index is the same as the positive position it addresses                *)
LawSlice(a) ==
  a.fn = "slice" =>
    LET n == Len(a.s) r == SSlice(a.s, a.i, a.j) IN
    /\ (1 <= a.i /\ a.i <= a.j /\ a.j <= n =>
           Len(r) = a.j - a.i + 1 /\ \A p \in 1..Len(r) : r[p] = a.s[a.i + p - 1])
    /\ (a.i < 0 /\ Norm(a.i, n) >= 1 => r = SSlice(a.s, Norm(a.i, n), a.j))
    /\ (a.j < 0 /\ Norm(a.j, n) >= 1 => r = SSlice(a.s, a.i, Norm(a.j, n)))
    /\ (Norm(a.i, n) > Norm(a.j, n) => r = <<>>)
    /\ SSlice(a.s, 1, -1) = a.s

(* index: the reported position is an occurrence and the first one *)
LawIndex(a) ==
  a.fn = "index" =>
    LET p == SIndex(a.s, a.x) IN
    IF p = 0 THEN \A k \in 1..(Len(a.s) + 1) : ~Occurs(a.s, a.x, k)
    ELSE /\ SSlice(a.s, p, p + Len(a.x) - 1) = a.x
         /\ \A k \in 1..(p - 1) : ~Occurs(a.s, a.x, k)

(* case functions touch ASCII letters only and are idempotent *)
LawCase(a) ==
  a.fn \in {"upper", "lower"} =>
    LET r == Apply(a, {}).s IN
    /\ \A p \in 1..Len(r) : (a.s[p] > 127 => r[p] = a.s[p])
    /\ SUpper(SUpper(a.s)) = SUpper(a.s) /\ SLower(SUpper(a.s)) = SLower(a.s)
=============================================================================
