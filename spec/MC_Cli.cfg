SPECIFICATION Spec
CONSTANTS MaxFiles = 3
INVARIANTS ExitOk ExitErr Emit
CHECK_DEADLOCK FALSE
