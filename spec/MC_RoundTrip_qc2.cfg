SPECIFICATION Spec
CONSTANTS
  MaxItems = 2
  KS = {"comment", "c_rule", "c_mrule", "d_str", "media"}
  CS = {"latin1"}
  SH = {"mid"}
  CT = {"empty", "nl_end", "banner", "nl_mid", "blank_in", "stars", "crlf_end"}
  FN = {}
INVARIANT Generated
INVARIANT EmitVec
CHECK_DEADLOCK FALSE
