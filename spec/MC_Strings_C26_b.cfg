SPECIFICATION Spec
CONSTANTS
  Alphabet = {97, 128512, 769}
  MinLen = 4
  MaxLen = 4
  FnSet = {"length", "case", "index", "insert", "slice"}
  SubMaxLen = 2
INVARIANTS Laws Emit
CHECK_DEADLOCK FALSE
