SPECIFICATION Spec
CONSTANTS
  Leaves = {"1px", "2em", "var(--a)"}
  Ops = {"-", "*", "/"}
  Tops = {"calc("}
  Fns = {}
  MaxOps = 3
  MaxPar = 1
INVARIANTS LawParses LawPrintParse LawFaithfulSound LawNumber LawNumberNoFail Emit
CHECK_DEADLOCK FALSE
