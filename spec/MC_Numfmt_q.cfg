SPECIFICATION Spec
CONSTANTS
  WMax = 2
  BigWs <- BigWs_q
  Ms = {0, 1, 2, 3, 4, 5, 6, 7}
  KStep = 2
  Ps = {0, 1, 2, 3, 4, 5, 6, 7, 8, 10, 20}
  Styles = {"expanded", "compressed"}
  Negs = {0, 1}
INVARIANTS Laws DevsBreakLaw Emit
CHECK_DEADLOCK FALSE
