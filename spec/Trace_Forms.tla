----------------------------- MODULE Trace_Forms -----------------------------
(* Trace validation for the law C34.  One event = one observation           *)
(*   {row, g, mod, f, params, args, forms, res, devs, case}:                 *)
(* the results `res[form]` of every passing form for one table row and one   *)
(* argument tuple.  The event is explained iff it is bound to the table      *)
(* (row, names and the set of forms are the table's) and Forms!FormsAgree    *)
(* holds - or an open named deviation explains exactly this disagreement.    *)
EXTENDS Forms, Json, IOUtils, TLCExt

Rec == ndJsonDeserialize(IOEnv.TRACE)

VARIABLE l
Init == l = 1

SeqToSet(s) == {s[i] : i \in DOMAIN s}

Bound(e) ==
  /\ e.row \in DOMAIN Table
  /\ LET r == Table[e.row] IN
     /\ r.g = e.g /\ r.mod = e.mod /\ r.f = e.f
     /\ Len(e.args) >= r.req /\ Len(e.args) <= Len(r.params)
     /\ Len(e.params) = Len(e.args)
     /\ \A i \in DOMAIN e.params : e.params[i] = r.params[i].n
     /\ SeqToSet(e.forms) = FormsOf(r, Len(e.args))
     /\ SeqToSet(e.forms) \subseteq DOMAIN e.res

Explained(e) ==
  /\ Bound(e)
  /\ LET forms == SeqToSet(e.forms) IN
     IF FormsAgree(e.res, forms) THEN TRUE
     ELSE \E d \in SeqToSet(e.devs) :
            /\ ExplainedBy(d, Table[e.row], e.args, e.res, forms)
            /\ PrintT(<<"MSG", "KNOWN", d, e.case>>)

Next == /\ l <= Len(Rec)
        /\ Explained(Rec[l]) = TRUE     \* evaluated as a value: no sub-action per disjunct
        /\ l' = l + 1
Spec == Init /\ [][Next]_l

Accepted == IF TLCGet("stats").diameter - 1 = Len(Rec) THEN TRUE
            ELSE PrintT(<<"UNMATCHED", TLCGet("stats").diameter>>) /\ FALSE
=============================================================================
