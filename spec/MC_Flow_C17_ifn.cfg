SPECIFICATION Spec
CONSTANTS
  Kind = "if"
  Ctxs = {"top", "mixin", "fn"}
  CondSet = {"true", "false", "null", "0"}
  MaxConds = 2
  ElseSet = {2, 3}
  NCondSet = {"true", "false", "null", "0"}
  AVals = {}
  BVals = {}
  TVals = {}
  UnitsA = {}
  UnitsB = {}
  MaxOut = 100
  Shapes = {}
  NVars = {}
  ItemCodes = {}
  MaxItems = 0
  ISeps = {}
INVARIANTS LawHolds LawWellFormed Emit
CHECK_DEADLOCK FALSE
