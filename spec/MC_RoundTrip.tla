---------------------------- MODULE MC_RoundTrip ----------------------------
(* C09 generator: every stylesheet of <= MaxItems items over the kinds KS, each *)
(* item with one content class of CS in one of the shapes SH                    *)
(*   solo  <<c>>      mid  a c b      dig  c 1      two  c c                      *)
(* (c = the class's representative code point(s)).  TLC checks that every        *)
(* generated stylesheet lies in the subset (RoundTrip!InSubset) and the laws of   *)
(* the relation, and prints the stylesheet as a vector; Python renders it, rsass *)
(* compiles it (SCSS, expanded) and re-reads its own output as plain CSS;        *)
(* Trace_RoundTrip.tla evaluates RoundTrip!RoundTripOK on the two outputs.        *)
EXTENDS RoundTrip, TLC, Json

CONSTANTS MaxItems, KS, CS, SH

Rep == [ascii |-> <<120>>, latin1 |-> <<233>>, latin1sym |-> <<167>>, bmp |-> <<20013>>, bmpsym |-> <<9731>>,
        astral |-> <<66560>>, astralsym |-> <<128512>>, private |-> <<57344>>, privastral |-> <<983040>>,
        combining |-> <<769>>, dquote |-> <<34>>, squote |-> <<39>>, quotes2 |-> <<34, 39>>, backslash |-> <<92>>,
        control |-> <<7>>, newline |-> <<10>>, tab |-> <<9>>, space |-> <<32>>, none |-> <<>>]

Content(cls, sh) == CASE sh = "solo" -> Rep[cls]
                      [] sh = "mid"  -> <<97>> \o Rep[cls] \o <<98>>
                      [] sh = "dig"  -> Rep[cls] \o <<49>>
                      [] sh = "two"  -> Rep[cls] \o Rep[cls]

VARIABLES items, phase
vars == <<items, phase>>
Init == items = <<>> /\ phase = "build"

Add == /\ phase = "build" /\ Len(items) < MaxItems
       /\ \E k \in KS :
            IF k \in NoSlot THEN items' = Append(items, [k |-> k, cls |-> "none", cps |-> <<>>])
            ELSE \E c \in CS, s \in SH :
                   /\ ~(k = "comment" /\ c \in {"newline", "control"})
                   /\ items' = Append(items, [k |-> k, cls |-> c, cps |-> Content(c, s)])
       /\ UNCHANGED phase
Finish == phase = "build" /\ items # <<>> /\ phase' = "done" /\ UNCHANGED items
Next == Add \/ Finish
Spec == Init /\ [][Next]_vars

(* every generated stylesheet is in the construct subset the property lists *)
Generated == phase = "done" => InSubset(items)
EmitVec == phase = "done" => PrintT(<<"VEC", ToJson([items |-> items])>>)

(* ---- laws of the relation (it is not vacuous and not lax) ---------------------------------------- *)
L1 == <<<<97, 32, 123>>, <<32, 32, 98, 58, 32, 34, 233, 34, 59>>, <<125>>, <<>>>>          \* a {\n  b: "é";\n}\n
L2 == <<<<97, 32, 123>>, <<>>, <<32, 32, 98, 58, 32, 34, 233, 34, 59>>, <<32>>, <<125>>, <<>>, <<>>>>     \* + blank lines
L3 == <<<<97, 32, 123>>, <<32, 32, 98, 58, 32, 34, 101, 34, 59>>, <<125>>, <<>>>>          \* é -> e
L4 == <<<<97, 32, 123>>, <<125>>, <<32, 32, 98, 58, 32, 34, 233, 34, 59>>, <<>>>>          \* lines swapped
L5 == <<<<97, 32, 123>>, <<32, 32, 98, 58, 32, 34, 92, 34, 39, 34, 59>>, <<125>>, <<>>>>   \* a {\n  b: "\"'";\n}\n
L6 == <<<<97, 32, 123>>, <<32, 32, 98, 58, 32, 34, 34, 39, 34, 59>>, <<125>>, <<>>>>       \* the quote not escaped
R(st, l) == [st |-> st, lines |-> l]
ASSUME Laws ==
  /\ RoundTripOK(R("ok", L1), R("ok", L1))
  /\ RoundTripOK(R("ok", L1), R("ok", L2)) /\ RoundTripOK(R("ok", L2), R("ok", L1))
  /\ ~RoundTripOK(R("ok", L1), R("ok", L3))
  /\ ~RoundTripOK(R("ok", L1), R("ok", L4))
  /\ ~RoundTripOK(R("ok", L1), R("ok", SubSeq(L1, 1, 2)))
  /\ ~RoundTripOK(R("ok", L1), R("err", <<>>))
  /\ ~RoundTripOK(R("ok", <<>>), R("ok", L1))
  /\ RoundTripOK(R("ok", <<>>), R("ok", <<<<>>>>))
(* the deviations' scopes are what was observed, nothing more *)
It(k, c, cps) == [k |-> k, cls |-> c, cps |-> cps]
ASSUME Scopes ==
  /\ InScope("css_reader_ident_nonalnum", It("d_ident", "astralsym", <<128512>>))
  /\ InScope("css_reader_ident_nonalnum", It("r_class", "private", <<57344>>))
  /\ ~InScope("css_reader_ident_nonalnum", It("d_ident", "bmp", <<20013>>))
  /\ ~InScope("css_reader_ident_nonalnum", It("d_str", "astralsym", <<128512>>))
  /\ InScope("css_reader_escaped_quote", It("d_str", "quotes2", <<34, 39>>))
  /\ InScope("css_reader_escaped_quote", It("d_urlq", "dquote", <<34>>))
  /\ ~InScope("css_reader_escaped_quote", It("d_str", "dquote", <<34>>))
  /\ ~InScope("css_reader_escaped_quote", It("d_urlq", "squote", <<39>>))
  /\ ~Predicted(Deviations, <<It("d_str", "dquote", <<34>>)>>, R("ok", L1), R("err", <<>>))
  /\ ~Predicted(Deviations, <<It("d_ident", "astralsym", <<128512>>)>>, R("ok", L1), R("ok", L3))
  /\ ~Predicted(Deviations, <<It("d_str", "quotes2", <<34, 39>>)>>, R("ok", L1), R("panic", <<>>))
  /\ Predicted(Deviations, <<It("d_str", "ascii", <<120>>), It("d_str", "quotes2", <<34, 39>>)>>, R("ok", L5), R("err", <<>>))
  /\ ~Predicted(Deviations, <<It("d_str", "quotes2", <<34, 39>>)>>, R("ok", L6), R("err", <<>>))        \* no escaped quote in out1
  /\ ~Predicted(Deviations, <<It("d_ident", "astralsym", <<128512>>)>>, R("ok", L1), R("err", <<>>))    \* the character is not in out1
=============================================================================
