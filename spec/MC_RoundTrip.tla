---------------------------- MODULE MC_RoundTrip ----------------------------
(* C09 generator: every stylesheet of <= MaxItems items over the kinds KS, each *)
(* item with one content class of CS in one of the shapes SH                    *)
(*   solo  <<c>>      mid  a c b      dig  c 1      two  c c                      *)
(* (c = the class's representative code point(s)).  TLC checks that every        *)
(* generated stylesheet lies in the subset (RoundTrip!InSubset) and the laws of   *)
(* the relation, and prints the stylesheet as a vector; Python renders it, rsass *)
(* compiles it (SCSS, expanded) and re-reads its own output as plain CSS;        *)
(* Trace_RoundTrip.tla evaluates RoundTrip!RoundTripOK on the two outputs.        *)
EXTENDS RoundTrip, TLC, Json

CONSTANTS MaxItems, KS, CS, SH,
          CT,       \* names of the comment texts used (class "cmt")
          FN        \* names of the function names used (kinds d_callx, m_callx)

Rep == [ascii |-> <<120>>, latin1 |-> <<233>>, latin1sym |-> <<167>>, bmp |-> <<20013>>, bmpsym |-> <<9731>>,
        astral |-> <<66560>>, astralsym |-> <<128512>>, private |-> <<57344>>, privastral |-> <<983040>>,
        combining |-> <<769>>, dquote |-> <<34>>, squote |-> <<39>>, quotes2 |-> <<34, 39>>, backslash |-> <<92>>,
        control |-> <<7>>, newline |-> <<10>>, tab |-> <<9>>, space |-> <<32>>, none |-> <<>>,
        digit |-> <<49>>, hyphen |-> <<45>>, cmt |-> <<32>>]

Content(cls, sh) == CASE sh = "solo" -> Rep[cls]
                      [] sh = "mid"  -> <<97>> \o Rep[cls] \o <<98>>
                      [] sh = "dig"  -> Rep[cls] \o <<49>>
                      [] sh = "two"  -> Rep[cls] \o Rep[cls]
                      [] sh = "lead" -> Rep[cls] \o <<122>>             \* c z   (the class character starts the content)
                      [] sh = "leadhex" -> Rep[cls] \o <<97, 49>>       \* c a 1 (... followed by a hex digit letter)

(* comment texts: the whole text between the delimiters.  a = 97, b = 98, LF = 10, CR = 13 *)
CmtText == [
  empty     |-> <<>>,                                 \* /**/
  sp        |-> <<32>>,                               \* /* */
  one       |-> <<32, 97, 32>>,                       \* /* a */
  nl_start  |-> <<10, 97, 32>>,                       \* line break right after the opening
  nl_mid    |-> <<32, 97, 10, 98, 32>>,
  nl_end    |-> <<32, 97, 10>>,                       \* the closing delimiter at column 0 of its own line
  banner    |-> <<10, 97, 10>>,                       \* /*\na\n*/
  banner2   |-> <<10, 97, 10, 98, 10>>,
  ind_close |-> <<32, 97, 10, 32, 32>>,               \* indented closing delimiter
  crlf      |-> <<32, 97, 13, 10, 98, 32>>,
  crlf_end  |-> <<13, 10, 97, 13, 10>>,
  cr        |-> <<32, 97, 13, 98, 32>>,
  blank_in  |-> <<32, 97, 10, 10, 98, 32>>,           \* a blank line inside the comment
  stars     |-> <<10, 32, 42, 32, 97, 10, 32>>,       \* /*\n * a\n */
  sp_nl     |-> <<32, 97, 32, 10>>,
  only_nl   |-> <<10>>,
  nlnl_end  |-> <<32, 97, 10, 10>>,
  tabs      |-> <<9, 97, 10, 9>>,
  deep      |-> <<32, 97, 10, 32, 32, 32, 32, 32, 32, 98, 10, 32, 32, 32, 233, 32>> ]

(* function names, lower and mixed case (compared case-sensitively like everything else) *)
FnName == [
  translate  |-> <<116, 114, 97, 110, 115, 108, 97, 116, 101>>,
  translateX |-> <<116, 114, 97, 110, 115, 108, 97, 116, 101, 88>>,
  rotateZ    |-> <<114, 111, 116, 97, 116, 101, 90>>,
  scaleY     |-> <<115, 99, 97, 108, 101, 89>>,
  Foo        |-> <<70, 111, 111>>,
  X          |-> <<88>>,
  aB1        |-> <<97, 66, 49>> ]

VARIABLES items, phase
vars == <<items, phase>>
Init == items = <<>> /\ phase = "build"

Add == /\ phase = "build" /\ Len(items) < MaxItems
       /\ \E k \in KS :
            IF k \in NoSlot THEN items' = Append(items, [k |-> k, cls |-> "none", cps |-> <<>>])
            ELSE IF k \in FnKinds THEN \E f \in FN : items' = Append(items, [k |-> k, cls |-> "ascii", cps |-> FnName[f]])
            ELSE \/ \E c \in CS, s \in SH :
                      /\ ~(k \in CommentKinds /\ c \in {"newline", "control"})
                      /\ items' = Append(items, [k |-> k, cls |-> c, cps |-> Content(c, s)])
                 \/ /\ k \in CommentKinds
                    /\ \E t \in CT : items' = Append(items, [k |-> k, cls |-> "cmt", cps |-> CmtText[t]])
       /\ UNCHANGED phase
Finish == phase = "build" /\ items # <<>> /\ phase' = "done" /\ UNCHANGED items
Next == Add \/ Finish
Spec == Init /\ [][Next]_vars

(* every generated stylesheet is in the construct subset the property lists *)
Generated == phase = "done" => InSubset(items)
EmitVec == phase = "done" => PrintT(<<"VEC", ToJson([items |-> items])>>)

(* ---- laws of the relation (it is not vacuous and not lax) ---------------------------------------- *)
L1 == <<<<97, 32, 123>>, <<32, 32, 98, 58, 32, 34, 233, 34, 59>>, <<125>>, <<>>>>          \* a {\n  b: "é";\n}\n
L2 == <<<<97, 32, 123>>, <<>>, <<32, 32, 98, 58, 32, 34, 233, 34, 59>>, <<32>>, <<125>>, <<>>, <<>>>>     \* + blank lines
L3 == <<<<97, 32, 123>>, <<32, 32, 98, 58, 32, 34, 101, 34, 59>>, <<125>>, <<>>>>          \* é -> e
L4 == <<<<97, 32, 123>>, <<125>>, <<32, 32, 98, 58, 32, 34, 233, 34, 59>>, <<>>>>          \* lines swapped
C1 == <<<<47, 42>>, <<97>>, <<42, 47>>, <<>>>>                     \* /*\na\n*/\n
C2 == <<<<47, 42>>, <<97, 42, 47>>, <<>>>>                          \* /*\na*/\n   (the line break before the closing lost)
C3 == <<<<47, 42, 32, 97>>, <<>>, <<98, 32, 42, 47>>, <<>>>>        \* /* a\n\nb */\n
C4 == <<<<47, 42, 32, 97>>, <<98, 32, 42, 47>>, <<>>>>              \* the blank line inside the comment lost
C5 == <<<<97, 32, 123>>, <<32, 32, 47, 42, 32, 97>>, <<32, 32, 98, 32, 42, 47>>, <<125>>, <<>>>>              \* a {\n  /* a\n  b */\n}
C6 == <<<<97, 32, 123>>, <<32, 32, 47, 42, 32, 97>>, <<32, 32, 32, 32, 98, 32, 42, 47>>, <<125>>, <<>>>>      \* continuation line deeper
C7 == <<<<97, 32, 123>>, <<32, 32, 47, 42, 32, 97>>, <<32, 32, 32, 32, 99, 32, 42, 47>>, <<125>>, <<>>>>      \* ... and another letter
C8 == <<<<97, 32, 123>>, <<32, 32, 98, 58, 32, 34, 47, 42, 34, 59>>, <<>>, <<125>>, <<>>>>                    \* "/*" in a string opens nothing
C9 == <<<<97, 32, 123>>, <<32, 32, 98, 58, 32, 34, 47, 42, 34, 59>>, <<125>>, <<>>>>
U1 == <<<<112, 58, 32, 117, 114, 108, 40, 34, 92, 34, 34, 41, 59>>>>      \* p: url("\"");
U2 == <<<<112, 58, 32, 117, 114, 108, 40, 39, 34, 39, 41, 59>>>>          \* p: url('"');
U3 == <<<<112, 58, 32, 117, 114, 108, 40, 39, 34, 49, 39, 41, 59>>>>      \* p: url('"1');
U4 == <<<<112, 58, 32, 117, 114, 108, 40, 34, 41, 59>>>>                  \* p: url(");      (not quoted)
U5 == <<<<47, 42, 32, 34, 97, 34, 32, 42, 47>>>>                          \* /* "a" */
U6 == <<<<47, 42, 32, 39, 97, 39, 32, 42, 47>>>>                          \* /* 'a' */
L5 == <<<<97, 32, 123>>, <<32, 32, 98, 58, 32, 34, 92, 34, 39, 34, 59>>, <<125>>, <<>>>>   \* a {\n  b: "\"'";\n}\n
L6 == <<<<97, 32, 123>>, <<32, 32, 98, 58, 32, 34, 34, 39, 34, 59>>, <<125>>, <<>>>>       \* the quote not escaped
R(st, l) == [st |-> st, lines |-> l]
ASSUME Laws ==
  /\ RoundTripOK(R("ok", L1), R("ok", L1))
  /\ RoundTripOK(R("ok", L1), R("ok", L2)) /\ RoundTripOK(R("ok", L2), R("ok", L1))
  /\ ~RoundTripOK(R("ok", L1), R("ok", L3))
  /\ ~RoundTripOK(R("ok", L1), R("ok", L4))
  /\ ~RoundTripOK(R("ok", L1), R("ok", SubSeq(L1, 1, 2)))
  /\ ~RoundTripOK(R("ok", L1), R("err", <<>>))
  /\ ~RoundTripOK(R("ok", <<>>), R("ok", L1))
  /\ RoundTripOK(R("ok", <<>>), R("ok", <<<<>>>>))
  /\ RoundTripOK(R("ok", U1), R("ok", U2)) /\ RoundTripOK(R("ok", U2), R("ok", U1))      \* re-quoted: the same string
  /\ ~RoundTripOK(R("ok", U1), R("ok", U3)) /\ ~RoundTripOK(R("ok", U1), R("ok", U4))    \* other content / not a string any more
  /\ ~RoundTripOK(R("ok", U5), R("ok", U6))                                              \* comment text is compared exactly
  /\ RoundTripOK(R("ok", C1), R("ok", C1)) /\ ~RoundTripOK(R("ok", C1), R("ok", C2))      \* comment text is compared exactly
  /\ RoundTripOK(R("ok", C3), R("ok", C3)) /\ ~RoundTripOK(R("ok", C3), R("ok", C4))      \* also its blank lines
  /\ RoundTripOK(R("ok", C8), R("ok", C9))                                                \* blank lines outside comments do not count
  /\ ~RoundTripOK(R("ok", C5), R("ok", C6))
  /\ SameLinesD(C5, C6, {"comment_reindent_grows"}) /\ ~SameLinesD(C5, C7, {"comment_reindent_grows"})
  /\ ~SameLinesD(C1, C2, {"comment_reindent_grows"}) /\ ~SameLinesD(C3, C4, {"comment_reindent_grows"})
  /\ InComment(C5) = <<0, 0, 1, 0, 0>> /\ InComment(C8) = <<0, 0, 0, 0, 0>>
(* the deviations' scopes are what was observed, nothing more *)
It(k, c, cps) == [k |-> k, cls |-> c, cps |-> cps]
ASSUME Scopes ==
  /\ InScope("css_reader_ident_nonalnum", It("d_ident", "astralsym", <<128512>>))
  /\ InScope("css_reader_ident_nonalnum", It("r_class", "private", <<57344>>))
  /\ ~InScope("css_reader_ident_nonalnum", It("d_ident", "bmp", <<20013>>))
  /\ ~InScope("css_reader_ident_nonalnum", It("d_str", "astralsym", <<128512>>))
  /\ InScope("css_reader_escaped_quote", It("d_str", "quotes2", <<34, 39>>))
  /\ InScope("css_reader_escaped_quote", It("d_urlq", "dquote", <<34>>))
  /\ ~InScope("css_reader_escaped_quote", It("d_str", "dquote", <<34>>))
  /\ ~InScope("css_reader_escaped_quote", It("d_urlq", "squote", <<39>>))
  /\ ~Predicted(Deviations, <<It("d_str", "dquote", <<34>>)>>, R("ok", L1), R("err", <<>>))
  /\ ~Predicted(Deviations, <<It("d_ident", "astralsym", <<128512>>)>>, R("ok", L1), R("ok", L3))
  /\ ~Predicted(Deviations, <<It("d_str", "quotes2", <<34, 39>>)>>, R("ok", L1), R("panic", <<>>))
  /\ Predicted(Deviations, <<It("d_str", "ascii", <<120>>), It("d_str", "quotes2", <<34, 39>>)>>, R("ok", L5), R("err", <<>>))
  /\ ~Predicted(Deviations, <<It("d_str", "quotes2", <<34, 39>>)>>, R("ok", L6), R("err", <<>>))        \* no escaped quote in out1
  /\ ~Predicted(Deviations, <<It("d_ident", "astralsym", <<128512>>)>>, R("ok", L1), R("err", <<>>))    \* the character is not in out1
=============================================================================
