SPECIFICATION Spec
CONSTANTS
  Mode = "plain"
  MaxFiles = 0
  GenKinds = {"use", "forward", "import"}
  GenPre = {"none"}
  GenWhere = {"root", "sub"}
INVARIANTS EmitPlain
CHECK_DEADLOCK FALSE
