SPECIFICATION Spec
CONSTANTS
  ItemToks = {"1", "a", "qa", "p1a"}
  MaxItems = 3
  MaxOps = 1
  Profile = "wide"
INVARIANTS Laws Emit
CHECK_DEADLOCK FALSE
