SPECIFICATION Spec
CONSTANTS
  Mode = "all"
  MaxLen = 2
  Kinds = {"raw", "bs", "hex", "hex6"}
INVARIANTS SpecRoundTrip Emit
CHECK_DEADLOCK FALSE
