SPECIFICATION Spec
CONSTANTS
  Alphabet = {97, 66, 233, 128512, 769}
  MinLen = 4
  MaxLen = 4
  FnSet = {"length", "case", "insert"}
  SubMaxLen = 0
INVARIANTS Laws Emit
CHECK_DEADLOCK FALSE
