-------------------------------- MODULE Flow --------------------------------
(***************************************************************************)
(* Sass control flow (property C17): which branch of an @if chain runs,    *)
(* which values @for visits (direction, through/to, unit of $i, conversion *)
(* of a compatible unit on the end value), what @each binds per iteration  *)
(* (list elements, map entries as key/value pairs, destructuring with null *)
(* padding) and how often @while repeats.                                  *)
(*                                                                         *)
(* Abstracts output/transform.rs::handle_item and variablescope.rs::       *)
(* eval_body (Item::IfStatement / Each / For / While), value/range.rs      *)
(* (ValueRange), sass/srcrange.rs (SrcRange::evaluate), css/value.rs       *)
(* (Value::iter_items) and Scope::define_multi.                            *)
(*                                                                         *)
(* An input is a record with a field kind in {"if","for","each","while"};  *)
(* Expect(inp) is the sequence of emitted declarations:                    *)
(*   if     the numbers of the probes that ran: <<j>> = the body of branch *)
(*          j (number of conditions + 1 for @else; an @else block may also *)
(*          hold a nested @if with probes + 2 / + 3), <<>> = none          *)
(*   for    the values of $i as [n, u]                                     *)
(*   each   per iteration the value of every variable as a flat sequence   *)
(*          of atom tokens                                                 *)
(*   while  the iteration numbers                                          *)
(* or k = "err" (the directive is an error), k = "undef" (not fixed by the *)
(* property).                                                              *)
(* No deviation of the pinned tree is known for this property (Devs = {}). *)
(***************************************************************************)
EXTENDS Integers, Sequences, FiniteSets, TLC

AllDevs == {}

Ok(out)  == [k |-> "ok", out |-> out]
ErrObs   == [k |-> "err", out |-> <<>>]
UndefObs == [k |-> "undef", out |-> <<>>]

---------------------------------------------------------------------------
(* Truthiness: only false and null are falsey.  Condition tokens are       *)
(* opaque names; the renderer maps them to SCSS literals.                  *)
CondToks == {"true", "false", "null", "0", "1", "str_empty", "str_x", "()", "(1 2)", "(a: 1)", "red"}
Truthy(t) == t \notin {"false", "null"}

---------------------------------------------------------------------------
(* @if / @else if / @else                                                   *)

(* input: conds = the conditions of @if / @else if ..; else = 0 no @else,   *)
(* 1 `@else { P(n+1) }`, 2 `@else { @if nc { P(n+2) } P(n+1) }`,            *)
(* 3 `@else { @if nc { P(n+2) } @else { P(n+3) } P(n+1) }` (an @else block *)
(* that merely STARTS with an @if is not an `@else if` link); P(j) emits j. *)
(* The directive is an AST: an if node [c, then, else] whose else body is    *)
(* either the next link of the chain or the final block; bodies are         *)
(* sequences of items "emit" / "if".                                        *)

Emit1(j) == [t |-> "emit", j |-> j]
IfNode(c, th, el) == [t |-> "if", c |-> c, th |-> th, el |-> el]

ElseBody(inp) ==
  LET n == Len(inp.conds) IN
  CASE inp.else = 0 -> <<>>
    [] inp.else = 1 -> <<Emit1(n + 1)>>
    [] inp.else = 2 -> <<IfNode(inp.ncond, <<Emit1(n + 2)>>, <<>>), Emit1(n + 1)>>
    [] inp.else = 3 -> <<IfNode(inp.ncond, <<Emit1(n + 2)>>, <<Emit1(n + 3)>>), Emit1(n + 1)>>

RECURSIVE ChainAst(_, _)
(* @if c_i {P(i)} @else <rest of the chain>: an `@else if` is an else body that is exactly one if node *)
ChainAst(inp, i) ==
  IF i > Len(inp.conds) THEN ElseBody(inp)
  ELSE <<IfNode(inp.conds[i], <<Emit1(i)>>, ChainAst(inp, i + 1))>>

RECURSIVE RunBody(_, _)
(* operational: run the items of a body in order; an if node runs exactly one of its two bodies *)
RunBody(body, k) ==
  IF k > Len(body) THEN <<>>
  ELSE LET it == body[k] IN
       (IF it.t = "emit" THEN <<it.j>>
        ELSE IF Truthy(it.c) THEN RunBody(it.th, 1) ELSE RunBody(it.el, 1))
       \o RunBody(body, k + 1)

IfExpect(inp) == Ok(RunBody(ChainAst(inp, 1), 1))

(* declarative: exactly the first branch whose condition is truthy runs, and it runs completely *)
LawIf(inp, o) ==
  LET n == Len(inp.conds)
      allfalse == \A i \in 1..n : ~Truthy(inp.conds[i])
      nested == IF inp.else < 2 THEN <<>>
                ELSE IF Truthy(inp.ncond) THEN <<n + 2>>
                ELSE IF inp.else = 3 THEN <<n + 3>> ELSE <<>>
  IN
  /\ o.k = "ok"
  /\ \A j \in 1..n : (o.out = <<j>>) <=> (Truthy(inp.conds[j]) /\ \A i \in 1..(j - 1) : ~Truthy(inp.conds[i]))
  /\ allfalse => o.out = (IF inp.else = 0 THEN <<>> ELSE nested \o <<n + 1>>)
  /\ ~allfalse => Len(o.out) = 1 /\ o.out[1] \in 1..n

---------------------------------------------------------------------------
(* Units: a tiny table.  Scale[u] = size of one u in a common integer base *)
(* unit of its dimension (lengths: 1/36576 in; times: ms).                 *)
Units == {"", "px", "pt", "pc", "in", "cm", "mm", "s", "ms", "%"}
Dim(u) == CASE u = "" -> "none"
            [] u \in {"px", "pt", "pc", "in", "cm", "mm"} -> "length"
            [] u \in {"s", "ms"} -> "time"
            [] u = "%" -> "percent"
Scale(u) == CASE u = "px" -> 381 [] u = "pt" -> 508 [] u = "pc" -> 6096 [] u = "in" -> 36576
              [] u = "cm" -> 14400 [] u = "mm" -> 1440
              [] u = "s" -> 1000 [] u = "ms" -> 1
              [] u = "%" -> 1 [] u = "" -> 1

(* may a number with unit ub be used where unit ua is expected? *)
Compatible(ua, ub) == ua = "" \/ ub = "" \/ Dim(ua) = Dim(ub)

(* the end value b (unit ub) expressed in ua: <<"int", v>>, <<"frac">> or <<"incompatible">> *)
ConvertEnd(b, ub, ua) ==
  IF ua = "" \/ ub = "" \/ ua = ub THEN <<"int", b>>
  ELSE IF Dim(ua) # Dim(ub) THEN <<"incompatible">>
  ELSE IF (b * Scale(ub)) % Scale(ua) = 0 THEN <<"int", (b * Scale(ub)) \div Scale(ua)>>
  ELSE <<"frac">>

---------------------------------------------------------------------------
(* @for $i from a through|to b                                              *)

RECURSIVE ForSteps(_, _, _, _)
(* operational: start at i, step by dir until i = stop *)
ForSteps(i, stop, dir, u) ==
  IF i = stop THEN <<>> ELSE <<[n |-> i, u |-> u]>> \o ForSteps(i + dir, stop, dir, u)

ForExpect(inp) ==
  LET c == ConvertEnd(inp.b, inp.ub, inp.ua) IN
  IF c[1] = "incompatible" THEN ErrObs
  ELSE IF c[1] = "frac" THEN UndefObs          \* a fractional end value: not addressed by the property
  ELSE LET bc   == c[2]
           dir  == IF bc < inp.a THEN -1 ELSE 1
           stop == IF inp.incl = 1 THEN bc + dir ELSE bc
       IN Ok(ForSteps(inp.a, stop, dir, inp.ua))

Abs(x) == IF x < 0 THEN -x ELSE x

(* declarative: every integer from a to b (converted), b excluded for `to`, *)
(* counting down when b < a, each with a's unit                            *)
LawFor(inp, o) ==
  LET c == ConvertEnd(inp.b, inp.ub, inp.ua) IN
  IF ~Compatible(inp.ua, inp.ub) THEN o.k = "err"
  ELSE IF c[1] = "frac" THEN o.k = "undef"
  ELSE LET bc == c[2]
           n  == Abs(bc - inp.a) + (IF inp.incl = 1 THEN 1 ELSE 0)
       IN /\ o.k = "ok" /\ Len(o.out) = n
          /\ \A k \in 1..n : o.out[k] = [n |-> (IF bc < inp.a THEN inp.a - (k - 1) ELSE inp.a + (k - 1)), u |-> inp.ua]

---------------------------------------------------------------------------
(* @each $v1, .., $vn in <iterable>                                         *)
(* input: n = number of variables; shape in {"space","comma","bracket",    *)
(* "map","single","empty"}; items = sequence of item codes:                 *)
(*   0 = an atom, -1 = null, 2..4 = a nested list of that many atoms        *)
(* (for "map": the code describes the value of the entry; the key is an     *)
(* atom).  isep = separator used to write nested lists (rendering only).    *)
(* The atoms are determined by position (tables below), so the observable   *)
(* shows which element went where.                                          *)

AtomTok  == <<"a1", "a2", "a3", "a4", "a5", "a6">>
KeyTok   == <<"k1", "k2", "k3", "k4", "k5", "k6">>
ElemTok  == << <<"a11", "a12", "a13", "a14">>, <<"a21", "a22", "a23", "a24">>, <<"a31", "a32", "a33", "a34">>,
              <<"a41", "a42", "a43", "a44">>, <<"a51", "a52", "a53", "a54">>, <<"a61", "a62", "a63", "a64">> >>
NullTok  == <<"null">>

(* the flat token sequence of item i *)
ItemToks(i, code) ==
  IF code = 0 THEN <<AtomTok[i]>> ELSE IF code = -1 THEN NullTok ELSE SubSeq(ElemTok[i], 1, code)

(* the elements of item i when it is destructured as a list: a nested list *)
(* gives its elements, anything else is a list of itself                   *)
ItemElems(shape, i, code) ==
  IF shape = "map" THEN << <<KeyTok[i]>>, ItemToks(i, code) >>
  ELSE IF code >= 2 THEN [j \in 1..code |-> <<ElemTok[i][j]>>]
  ELSE << ItemToks(i, code) >>

(* the whole item as one value (single variable) *)
ItemWhole(shape, i, code) ==
  IF shape = "map" THEN <<KeyTok[i]>> \o ItemToks(i, code) ELSE ItemToks(i, code)

Bindings(shape, n, i, code) ==
  IF n = 1 THEN << ItemWhole(shape, i, code) >>
  ELSE LET els == ItemElems(shape, i, code) IN
       [j \in 1..n |-> IF j <= Len(els) THEN els[j] ELSE NullTok]

EachExpect(inp) ==
  IF inp.shape = "empty" THEN Ok(<<>>)
  ELSE Ok([i \in 1..Len(inp.items) |-> Bindings(inp.shape, inp.n, i, inp.items[i])])

(* declarative: one iteration per element / entry in order; variable j     *)
(* holds position j of the element, null beyond its length; a map entry    *)
(* is the pair key, value                                                   *)
LawEach(inp, o) ==
  /\ o.k = "ok"
  /\ Len(o.out) = (IF inp.shape = "empty" THEN 0 ELSE Len(inp.items))
  /\ \A i \in 1..Len(o.out) :
       LET code == inp.items[i] IN
       /\ Len(o.out[i]) = inp.n
       /\ inp.n = 1 => o.out[i][1] = (IF inp.shape = "map" THEN <<KeyTok[i]>> ELSE <<>>) \o ItemToks(i, code)
       /\ inp.n > 1 =>
            \A j \in 1..inp.n :
              o.out[i][j] =
                IF inp.shape = "map" THEN (CASE j = 1 -> <<KeyTok[i]>> [] j = 2 -> ItemToks(i, code) [] OTHER -> NullTok)
                ELSE IF code >= 2 THEN (IF j <= code THEN <<ElemTok[i][j]>> ELSE NullTok)
                ELSE (IF j = 1 THEN ItemToks(i, code) ELSE NullTok)

---------------------------------------------------------------------------
(* @while: the condition takes the values conds[1], conds[2], ..            *)

RECURSIVE WhileSteps(_, _)
WhileSteps(conds, i) ==
  IF i > Len(conds) \/ ~Truthy(conds[i]) THEN <<>> ELSE <<i>> \o WhileSteps(conds, i + 1)

WhileExpect(inp) ==
  IF \A i \in DOMAIN inp.conds : Truthy(inp.conds[i]) THEN UndefObs     \* would not terminate within the list
  ELSE Ok(WhileSteps(inp.conds, 1))

LawWhile(inp, o) ==
  (o.k = "ok") =>
     LET m == Len(o.out) IN
     /\ \A i \in 1..m : o.out[i] = i /\ Truthy(inp.conds[i])
     /\ m < Len(inp.conds) /\ ~Truthy(inp.conds[m + 1])

---------------------------------------------------------------------------
Expect(inp) ==
  CASE inp.kind = "if"    -> IfExpect(inp)
    [] inp.kind = "for"   -> ForExpect(inp)
    [] inp.kind = "each"  -> EachExpect(inp)
    [] inp.kind = "while" -> WhileExpect(inp)

Law(inp) ==
  LET o == Expect(inp) IN
  CASE inp.kind = "if"    -> LawIf(inp, o)
    [] inp.kind = "for"   -> LawFor(inp, o)
    [] inp.kind = "each"  -> LawEach(inp, o)
    [] inp.kind = "while" -> LawWhile(inp, o)

(* no deviations known: the map is empty *)
DevMap(inp) == [d \in {} |-> UndefObs]

(* inputs the trace spec accepts *)
SeqSet(q) == {q[i] : i \in DOMAIN q}
Contexts == {"top", "mixin", "fn"}
WellFormed(inp) ==
  /\ inp.ctx \in Contexts
  /\ CASE inp.kind = "if"    -> /\ Len(inp.conds) >= 1 /\ SeqSet(inp.conds) \subseteq CondToks /\ inp.else \in 0..3
                                /\ (IF inp.else >= 2 THEN inp.ncond \in CondToks ELSE inp.ncond = "-")
       [] inp.kind = "for"   -> inp.ua \in Units /\ inp.ub \in Units /\ inp.incl \in {0, 1} /\ inp.a \in Int /\ inp.b \in Int
       [] inp.kind = "each"  -> /\ inp.n \in 1..3 /\ inp.shape \in {"space", "comma", "bracket", "map", "single", "empty"}
                                /\ Len(inp.items) <= 6 /\ SeqSet(inp.items) \subseteq {-1, 0, 2, 3, 4}
                                /\ (inp.shape = "single" => Len(inp.items) = 1 /\ inp.items[1] = 0)
                                /\ (inp.shape = "empty" => inp.items = <<>>)
                                /\ (inp.shape \notin {"single", "empty"} => Len(inp.items) >= 1)
                                /\ (inp.shape = "space" => Len(inp.items) >= 2)    \* a one-element space list is the element
                                /\ inp.isep \in {"space", "comma"}
       [] inp.kind = "while" -> Len(inp.conds) >= 1 /\ SeqSet(inp.conds) \subseteq CondToks
       [] OTHER -> FALSE
=============================================================================
