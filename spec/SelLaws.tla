------------------------------ MODULE SelLaws ------------------------------
(***************************************************************************)
(* Laws of the Sass selector functions (C23, C24) as MONITORS over         *)
(* observations.  Nothing here says what is-superselector / unify / extend *)
(* must return for a given input; the monitors only state the relations    *)
(* the properties demand between answers:                                  *)
(*                                                                         *)
(*  C23  SuperMonitor: state R = the observed truth table over a universe  *)
(*       of selector lists; action Observe(a, b, r); an observation is     *)
(*       accepted iff  (a = b  or  b is a complex selector derived from a  *)
(*       member of a by adding simple selectors / ancestors / parents)     *)
(*       => r = true,  and R stays transitive.                             *)
(*  C24  SelectorAlgebra: unify(a,b) = u  => a and b are (observed)        *)
(*       superselectors of every member of u; extend keeps the members of  *)
(*       s in order as a subsequence; replace(s,x,y) = s when no simple    *)
(*       selector of x occurs in s; nest(a,b) / append(a,b) = the selector *)
(*       emitted for a{b{..}} / a{&b{..}}.                                 *)
(*                                                                         *)
(* Selectors are token sequences in the format of Selectors.tla ("sp" =    *)
(* descendant combinator, ":not(" .. ")" brackets an argument list); the   *)
(* grammar (ParseListFrom) and IsSubseq are reused from that module.       *)
(*                                                                         *)
(* A reference relation RefSuper is defined ONLY to show that the laws are *)
(* jointly satisfiable on the universe (vacuity guard, checked by TLC in   *)
(* MC_SelLaws); it is never compared with an answer of rsass.              *)
(*                                                                         *)
(* Named deviations (what the pinned tree does; accepted only while listed *)
(* as open findings, and only inside the stated scope predicate):          *)
(*   list_form_combinator   a selector given as a Sass list (the form the  *)
(*       selector functions return) that contains `>`, `+` or `~` is read  *)
(*       into another structure than the same text: reflexivity and        *)
(*       monotonicity fail between / on such forms                         *)
(*   super_child_through_siblings   is-superselector only accepts an       *)
(*       immediately preceding `>` in the sub-selector, so an operand with *)
(*       `>` is not recognised as superselector of a unify result that     *)
(*       interleaves sibling compounds                                     *)
(*   unify_keeps_general_pseudo   of two pseudo-classes of the same name   *)
(*       CompoundSelector::unify keeps the one that is a superselector of  *)
(*       the other (the weaker constraint) and drops the stronger one      *)
(*   amp_via_unify   the selector emitted for a{&b{..}} goes through       *)
(*       CompoundSelector::unify: duplicate simple selectors are dropped,  *)
(*       a pseudo-element is moved last and further pseudo-elements are    *)
(*       dropped; selector.append keeps them as written                    *)
(***************************************************************************)
EXTENDS Selectors

PeToks    == {"::before", "::after"}
ElemLike  == {"a", "b", "e", "f", "*"}          \* type selectors of the generated alphabet
IdLike    == {"#i", "#j"}                       \* id selectors of the generated alphabet
SibCombs  == {"+", "~"}
ExplCombs == {">", "+", "~"}
Structural == {",", ")", "sp", ">", "+", "~"}

Parse(toks) == ParseListFrom(toks, 1, <<>>).v

RECURSIVE ToksCompound(_), ToksComplex(_), ToksList(_)
ToksCompound(cmp) ==
  IF Len(cmp) = 0 THEN <<>>
  ELSE (IF cmp[1].k = "fn" THEN <<cmp[1].t>> \o ToksList(cmp[1].arg) \o <<")">> ELSE <<cmp[1].t>>) \o ToksCompound(Tail(cmp))
ToksComplex(c) ==
  IF Len(c) = 0 THEN <<>>
  ELSE (IF c[1].comb = "" THEN <<>> ELSE <<c[1].comb>>) \o ToksCompound(c[1].cmp) \o ToksComplex(Tail(c))
ToksList(L) ==
  IF Len(L) = 0 THEN <<>> ELSE IF Len(L) = 1 THEN ToksComplex(L[1]) ELSE ToksComplex(L[1]) \o <<",">> \o ToksList(Tail(L))

HasTok(toks, S) == \E i \in 1..Len(toks) : toks[i] \in S
HasPe(toks)     == HasTok(toks, PeToks)
SimpleSet(toks) == {toks[i] : i \in 1..Len(toks)} \ Structural

IsPe(s) == s.t \in PeToks
FirstPe(cmp) == IF \E i \in 1..Len(cmp) : IsPe(cmp[i]) THEN CHOOSE i \in 1..Len(cmp) : IsPe(cmp[i]) /\ \A j \in 1..(i - 1) : ~IsPe(cmp[j]) ELSE 0
PeCount(cmp) == Cardinality({i \in 1..Len(cmp) : IsPe(cmp[i])})
From(s, p)   == SubSeq(s, p, Len(s))

---------------------------------------------------------------------------
(* Derive: what "adding simple selectors to a compound / adding ancestors  *)
(* or parents" means.  Pseudo-elements are not simple selectors (Selectors *)
(* Level 4) and are never added; nothing is added behind a pseudo-element. *)

(* generator side: one step *)
InsertSimple(cmp, s) ==
  IF \E i \in 1..Len(cmp) : cmp[i] = s THEN <<>>
  ELSE IF s.t \in ElemLike THEN (IF cmp[1].t \in ElemLike THEN <<>> ELSE <<s>> \o cmp)
  ELSE IF s.t \in IdLike /\ \E i \in 1..Len(cmp) : cmp[i].t \in IdLike THEN <<>>       \* one id per compound
  ELSE LET p == FirstPe(cmp) IN
       IF p = 0 THEN Append(cmp, s) ELSE SubSeq(cmp, 1, p - 1) \o <<s>> \o From(cmp, p)

SimpleOf(toks) == Parse(toks)[1][1].cmp[1]

(* ancestors / parents are added in front of the selector or at a descendant combinator (`X Y` -> `X Z Y`, *)
(* `X > Z Y`, `X Z > Y`: X stays an ancestor of Y); `infixes` are complex selectors, and a copy of the      *)
(* compound on the left of the combinator is inserted as well (a repeated name closer to the target)       *)
InsertAt(c, k, mid, cb1, cb2) ==        \* between c[k-1] and c[k] (c[k].comb = "sp")
  SubSeq(c, 1, k - 1) \o WithComb(mid, cb1) \o <<[c[k] EXCEPT !.comb = cb2]>> \o SubSeq(c, k + 1, Len(c))

DeriveComplexSet(c, adds, prefixes, infixes) ==
  {d \in {[c EXCEPT ![k].cmp = InsertSimple(c[k].cmp, SimpleOf(s))] : k \in 1..Len(c), s \in adds} :
        \A k \in 1..Len(d) : Len(d[k].cmp) > 0}
  \cup {Parse(p)[1] \o WithComb(c, cb) : p \in prefixes, cb \in {"sp", ">"}}
  \cup UNION {{InsertAt(c, k, mid, cb[1], cb[2]) :
                  mid \in {Parse(x)[1] : x \in infixes} \cup {<<[comb |-> "", cmp |-> c[k - 1].cmp]>>},
                  cb \in {<<"sp", "sp">>, <<">", "sp">>, <<"sp", ">">>}}
              : k \in {k \in 2..Len(c) : c[k].comb = "sp"}}

(* monitor side: the closure, as a predicate on two complex selectors *)
CompoundExt(mc, bc) ==
  /\ IsSubseq(mc, bc)
  /\ PeCount(bc) = PeCount(mc)
  /\ LET p == FirstPe(bc)  q == FirstPe(mc) IN (p = 0 /\ q = 0) \/ (p > 0 /\ q > 0 /\ From(bc, p) = From(mc, q))

(* EmbedDer(m, k, b, j): m[1..k] is found in b[1..j] with m[k] at b[j]: every compound only gained simple  *)
(* selectors, an explicit combinator of m is kept with its two compounds adjacent, and where m has a        *)
(* descendant combinator b has the same or added ancestors / parents (only descendant and child             *)
(* combinators in between); in front of m[1] anything may stand that ends in a descendant / child combinator *)
RECURSIVE EmbedDer(_, _, _, _)
EmbedDer(m, k, b, j) ==
  /\ j >= k
  /\ CompoundExt(m[k].cmp, b[j].cmp)
  /\ IF k = 1 THEN (IF j = 1 THEN b[1].comb = m[1].comb ELSE (m[1].comb = "" /\ b[j].comb \in {"sp", ">"}))
     ELSE IF m[k].comb # "sp" THEN b[j].comb = m[k].comb /\ EmbedDer(m, k - 1, b, j - 1)
     ELSE \/ (b[j].comb = "sp" /\ EmbedDer(m, k - 1, b, j - 1))
          \/ \E i \in (k - 1)..(j - 2) : /\ \A q \in (i + 1)..j : b[q].comb \in {"sp", ">"}
                                          /\ EmbedDer(m, k - 1, b, i)
IsDerivedComplex(m, b) == Len(b) >= Len(m) /\ EmbedDer(m, Len(m), b, Len(b))

(* the observations the property forces to be true *)
MustTrue(A, B) == A = B \/ (Len(B) = 1 /\ \E i \in 1..Len(A) : IsDerivedComplex(A[i], B[1]))

---------------------------------------------------------------------------
(* SuperMonitor.  R[i][j] in {-1 (not observed), 0, 1} over universe indices *)

NoObs == -1
EmptyR(n) == Sq([i \in 1..n |-> Sq([j \in 1..n |-> NoObs])])

InTable(e) == e.ia > 0 /\ e.ib > 0 /\ e.fa = "str" /\ e.fb = "str" /\ e.r >= 0
Upd(R, e)  == IF InTable(e) THEN [R EXCEPT ![e.ia][e.ib] = e.r] ELSE R

(* the triples the new entry (a, b) completes *)
TransStep(R2, a, b) ==
  LET n == Len(R2)  r == R2[a][b] IN
  /\ (r = 1 => \A c \in 1..n : /\ (R2[b][c] = 1 => R2[a][c] # 0)
                                /\ (R2[c][a] = 1 => R2[c][b] # 0))
  /\ (r = 0 => \A y \in 1..n : ~(R2[a][y] = 1 /\ R2[y][b] = 1))

Transitive(R) == \A a \in 1..Len(R) : \A b \in 1..Len(R) : R[a][b] = 1 => \A c \in 1..Len(R) : R[b][c] = 1 => R[a][c] # 0
Reflexive(R)  == \A a \in 1..Len(R) : R[a][a] # 0

SuperOK(e, R2) ==
  /\ (MustTrue(Parse(e.a), Parse(e.b)) => e.r = 1)
  /\ (InTable(e) => TransStep(R2, e.ia, e.ib))

ListFormScope(e) == (e.fa = "list" /\ HasTok(e.a, ExplCombs)) \/ (e.fb = "list" /\ HasTok(e.b, ExplCombs))

---------------------------------------------------------------------------
(* SelectorAlgebra (C24).  Observed selector lists are sequences of token   *)
(* sequences (one per complex selector).                                    *)

UnifySkip(e) == e.st # "ok" \/ HasPe(e.a) \/ HasPe(e.b)
UnifyBad(e)  == {<<x, i>> \in {1, 2} \X (1..Len(e.u)) : (IF x = 1 THEN e.sa[i] ELSE e.sb[i]) # 1}
UnifyOK(e)   == UnifySkip(e) \/ UnifyBad(e) = {}
Answer(e, p) == IF p[1] = 1 THEN e.sa[p[2]] ELSE e.sb[p[2]]
Operand(e, p) == IF p[1] = 1 THEN e.a ELSE e.b
(* the class of the deviation super_child_through_siblings: the operand has a `>`, the member sibling combinators *)
UnifyChildSib(e) == {p \in UnifyBad(e) : HasTok(Operand(e, p), {">"}) /\ HasTok(e.u[p[2]], SibCombs) /\ Answer(e, p) = 0}
(* the class of the deviation unify_keeps_general_pseudo: a pseudo-class with a selector argument of the operand is *)
(* missing in the member, which has another one of the same name (the more general of the two was kept)             *)
FnSet(toks) == LET L == Parse(toks) IN
  UNION {UNION {{L[i][k].cmp[n] : n \in {n \in 1..Len(L[i][k].cmp) : L[i][k].cmp[n].k = "fn"}} : k \in 1..Len(L[i])} : i \in 1..Len(L)}
LostFn(x, c) == \E f \in FnSet(x) : f \notin FnSet(c) /\ \E g \in FnSet(c) : g.t = f.t
UnifyLostFn(e) == {p \in UnifyBad(e) : LostFn(Operand(e, p), e.u[p[2]]) /\ Answer(e, p) = 0}

ExtendOK(e)  == e.st # "ok" \/ IsSubseq(e.ps, e.e)

NoMatch(s, x) == SimpleSet(x) \cap SimpleSet(s) = {} /\ "*" \notin SimpleSet(x)
ReplaceOK(e) == e.st # "ok" \/ ~NoMatch(e.s, e.x) \/ e.e = e.ps

(* both sides answered, or both refused; a panic is data of C01, not of this law *)
SameOK(e) == IF e.sf = "panic" \/ e.se = "panic" THEN TRUE
             ELSE IF e.sf = "ok" /\ e.se = "ok" THEN e.n = e.em
             ELSE e.sf = e.se
NestOK(e)   == SameOK(e)
AppendOK(e) == SameOK(e)

(* the class of the deviation amp_via_unify: in the last compound of every member the emitted selector has *)
(* the same simple selectors as the append result, in the same order, only duplicates dropped; of several  *)
(* pseudo-elements only the first is kept, and it stands last                                               *)
NonPe(cmp) == SelectSeq(cmp, LAMBDA s : ~IsPe(s))
AmpNorm(nt, et) ==
  LET c == Parse(nt)[1]  d == Parse(et)[1]  n == Len(c) IN
  /\ Len(d) = n
  /\ \A k \in 1..n : d[k].comb = c[k].comb /\ (k < n => d[k].cmp = c[k].cmp)
  /\ LET nc == c[n].cmp  ec == d[n].cmp  np == NonPe(nc)  ep == NonPe(ec) IN
     /\ IsSubseq(ep, np)
     /\ {ep[i] : i \in 1..Len(ep)} = {np[i] : i \in 1..Len(np)}
     /\ ec = ep \o (IF FirstPe(nc) = 0 THEN <<>> ELSE <<nc[FirstPe(nc)]>>)
AppendDev(e) == /\ e.sf = "ok" /\ e.se = "ok" /\ Len(e.n) = Len(e.em)
                /\ \A i \in 1..Len(e.n) : AmpNorm(e.n[i], e.em[i])

---------------------------------------------------------------------------
(* Reference relation (vacuity guard only).  Compounds: every simple        *)
(* selector of A except `*` occurs in B and both name the same              *)
(* pseudo-elements; complex selectors: a relation-preserving embedding.     *)

RefCompound(A, B) ==
  /\ \A i \in 1..Len(A) : A[i].t = "*" \/ \E j \in 1..Len(B) : B[j] = A[i]
  /\ {B[j] : j \in {j \in 1..Len(B) : IsPe(B[j])}} = {A[i] : i \in {i \in 1..Len(A) : IsPe(A[i])}}

(* positions of B that are necessarily ancestors / the parent / preceding siblings of position m *)
AncPos(B, m) == {p \in 1..(m - 1) : B[p + 1].comb \in {"sp", ">"}}
SibPos(B, m) == {p \in 1..(m - 1) : \A q \in (p + 1)..m : B[q].comb \in SibCombs}
ParPos(B, m) == {p \in 1..(m - 1) : B[p + 1].comb = ">" /\ \A q \in (p + 2)..m : B[q].comb \in SibCombs}
AdjPos(B, m) == IF m > 1 /\ B[m].comb = "+" THEN {m - 1} ELSE {}

RECURSIVE RefEmbed(_, _, _, _)
RefEmbed(A, n, B, m) ==
  /\ RefCompound(A[n].cmp, B[m].cmp)
  /\ (n = 1 \/ LET S == CASE A[n].comb = "sp" -> AncPos(B, m)
                          [] A[n].comb = ">"  -> ParPos(B, m)
                          [] A[n].comb = "~"  -> SibPos(B, m)
                          [] OTHER            -> AdjPos(B, m)
               IN \E p \in S : RefEmbed(A, n - 1, B, p))
RefComplex(A, B) == RefEmbed(A, Len(A), B, Len(B))
RefSuper(LA, LB) == \A j \in 1..Len(LB) : \E i \in 1..Len(LA) : RefComplex(LA[i], LB[j])
=============================================================================
