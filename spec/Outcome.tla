------------------------------ MODULE Outcome ------------------------------
(* The life cycle of one compilation as the property C01 states it: a call  *)
(* returns CSS or an error value, and an error value can be rendered as     *)
(* text.  There is no state for a panic, an abort, a stack overflow or a    *)
(* hang: an execution that contains one is not a behaviour of this spec.    *)
EXTENDS Integers, Sequences, TLC, Json, IOUtils, TLCExt

Rec == ndJsonDeserialize(IOEnv.TRACE)
VARIABLES l, st
Init == l = 1 /\ st = "idle"
Is(e) == l <= Len(Rec) /\ Rec[l].ev = e

Start       == Is("Start")       /\ st \in {"idle", "ok", "rendered"} /\ st' = "running"  /\ l' = l + 1
ReturnedOk  == Is("ReturnedOk")  /\ st = "running"                    /\ st' = "ok"       /\ l' = l + 1
ReturnedErr == Is("ReturnedErr") /\ st = "running"                    /\ st' = "err"      /\ l' = l + 1
(* the error value rendered with Display *)
Rendered    == Is("Rendered")    /\ st = "err"                        /\ st' = "rendered" /\ l' = l + 1

Next == Start \/ ReturnedOk \/ ReturnedErr \/ Rendered
Spec == Init /\ [][Next]_<<l, st>>
Accepted == IF TLCGet("stats").diameter - 1 = Len(Rec) THEN TRUE
            ELSE PrintT(<<"UNMATCHED", TLCGet("stats").diameter>>) /\ FALSE
=============================================================================
