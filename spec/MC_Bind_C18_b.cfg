SPECIFICATION Spec
CONSTANTS
  Kind = "bind"
  CtxSet = {"mixin"}
  MaxParams = 3
  DefSet = {"req", "const", "ref2", "next"}
  RestSet = {0, 1}
  MaxPos = 3
  NamedPool = {"a", "b_x", "c", "z"}
  MaxNamed = 2
  MapPool = {"a", "c"}
  MaxMap = 1
  PSplats = {"none", "all"}
  ItemSet = {}
  MaxItems = 0
INVARIANTS LawHolds LawWellFormed Emit
CHECK_DEADLOCK FALSE
