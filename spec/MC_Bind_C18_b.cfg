SPECIFICATION Spec
CONSTANTS
  Kind = "bind"
  CtxSet = {"mixin"}
  MaxParams = 3
  DefSet = {"req", "const", "ref1", "ref2", "glob"}
  RestSet = {0, 1}
  MaxPos = 4
  NamedPool = {"a", "b_x", "c", "z"}
  MaxNamed = 3
  PSplats = {"none", "all"}
  NSplats = {"none", "all"}
  ItemSet = {}
  MaxItems = 0
INVARIANTS LawHolds LawWellFormed Emit
CHECK_DEADLOCK FALSE
