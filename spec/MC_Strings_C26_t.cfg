SPECIFICATION Spec
CONSTANTS
  Alphabet = {66, 128512, 769}
  MinLen = 5
  MaxLen = 5
  FnSet = {"length", "case", "index", "insert", "slice"}
  SubMaxLen = 2
INVARIANTS Laws Emit
CHECK_DEADLOCK FALSE
