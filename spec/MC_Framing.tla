----------------------------- MODULE MC_Framing -----------------------------
(* C07: the framing automaton checked against the abstract writer for all    *)
(* small output trees (the design emits well-framed text), stepped token by  *)
(* token through the automaton's action, plus sensitivity laws (every single *)
(* framing fault applied to a designed output is rejected) and hand-made bad *)
(* streams.  Every tree is also printed as a vector: Python renders it to    *)
(* SCSS, rsass compiles it in both styles and Trace_Framing must accept the  *)
(* real bytes.                                                                *)
EXTENDS Framing, TLC, Json

CONSTANTS MaxLen,      \* bound on the total number of statements (opens + leaves + closes)
          StepMode,    \* TRUE: walk the automaton token by token (action Consume)
          DeclSet,     \* declaration value kinds used
          CpropSet, CmtSet, RuleSet,
          AtAttr,      \* where the non-ASCII text of an at-rule sits: subset of {"-", "na", "name"}
          Extra        \* further statement kinds enabled: subset of {"sup", "kf", "imp"}

VARIABLES prog, stack, phase, pos, st
vars == <<prog, stack, phase, pos, st>>

Init == prog = <<>> /\ stack = <<>> /\ phase = "build" /\ pos = 0 /\ st = Start

Ctx == IF stack = <<>> THEN "top" ELSE stack[Len(stack)]
Room == MaxLen - Len(prog) - Len(stack)
S(k, a) == [k |-> k, a |-> a]

Open(k, a) == /\ Room >= 2
              /\ Len(stack) < 3
              /\ prog' = Append(prog, S(k, a)) /\ stack' = Append(stack, k)
Leaf(k, a) == /\ Room >= 1
              /\ prog' = Append(prog, S(k, a)) /\ stack' = stack

Build ==
  /\ phase = "build"
  /\ UNCHANGED <<phase, pos, st>>
  /\ \/ Ctx \in {"top", "media", "atb", "sup"} /\ \E a \in RuleSet : Open("rule", a)
     \/ Ctx \in {"top", "atb"} /\ \E a \in AtAttr \ {"name"} : Open("media", a)
     \/ Ctx \in {"top", "media"} /\ \E a \in AtAttr : Open("atb", a)
     \/ "sup" \in Extra /\ Ctx \in {"top", "media"} /\ \E a \in AtAttr \ {"name"} : Open("sup", a)
     \/ "kf" \in Extra /\ Ctx \in {"top", "media"} /\ \E a \in AtAttr \ {"name"} : Open("kf", a)
     \/ "kf" \in Extra /\ Ctx = "kf" /\ \E a \in RuleSet : Open("kfs", a)
     \/ "imp" \in Extra /\ Ctx = "top" /\ \E a \in AtAttr \ {"name"} : Leaf("imp", a)
     \/ Ctx \in {"rule", "atb", "kfs"} /\ \E a \in DeclSet : Leaf("decl", a)
     \/ Ctx = "rule" /\ \E a \in CpropSet : Leaf("cprop", a)
     \/ Ctx # "kf" /\ \E a \in CmtSet : Leaf("cmt", a)
     \/ Ctx \in {"top", "atb"} /\ \E a \in AtAttr : Leaf("ats", a)
     \/ /\ stack # <<>>
        /\ prog' = Append(prog, S("close", "-")) /\ stack' = SubSeq(stack, 1, Len(stack) - 1)

Finish == /\ phase = "build" /\ stack = <<>> /\ prog # <<>>
          /\ phase' = "done" /\ UNCHANGED <<prog, stack, pos, st>>

(* after "done": walk the automaton over the two renderings, one token per step *)
StyleOf(p) == IF p = "E" THEN "expanded" ELSE "compressed"
Toks(p) == Write(StyleOf(p), prog)

StartRun == /\ StepMode /\ phase = "done"
            /\ phase' = "E" /\ pos' = 1 /\ st' = Start /\ UNCHANGED <<prog, stack>>
Consume == /\ phase \in {"E", "C"} /\ pos <= Len(Toks(phase))
           /\ st' = Step(st, Toks(phase)[pos]) /\ pos' = pos + 1
           /\ UNCHANGED <<prog, stack, phase>>
NextStyle == /\ phase = "E" /\ pos > Len(Toks("E"))
             /\ phase' = "C" /\ pos' = 1 /\ st' = Start /\ UNCHANGED <<prog, stack>>

Next == Build \/ Finish \/ StartRun \/ Consume \/ NextStyle
Spec == Init /\ [][Next]_vars

(* ---- invariants ----------------------------------------------------------------------- *)
(* the design's output is accepted, in both styles *)
DesignAccepted == phase = "done" => /\ Accepts("expanded", Write("expanded", prog))
                                    /\ Accepts("compressed", Write("compressed", prog))

(* token by token: no prefix of a designed output is a framing error, the end state accepts *)
StepAccepted == phase \in {"E", "C"} =>
                  /\ st.bad = "ok"
                  /\ (pos > Len(Toks(phase)) => Accept(StyleOf(phase), st))

Remove(t, i) == SubSeq(t, 1, i - 1) \o SubSeq(t, i + 1, Len(t))
Insert(t, i, x) == SubSeq(t, 1, i) \o <<x>> \o SubSeq(t, i + 1, Len(t))    \* after position i

(* every single framing fault applied to a designed output is rejected (the automaton is not lax) *)
SensitiveFor(style) ==
  LET t == Write(style, prog)
      mark == IF style = "compressed" THEN Tok("bom", 0) ELSE Tok("charset_mark", 0)
      wrong == IF style = "compressed" THEN Tok("charset_mark", 0) ELSE Tok("bom", 0)
  IN t # <<>> =>
     /\ ~Accepts(style, Remove(t, Len(t)))                         \* final newline missing
     /\ ~Accepts(style, Append(t, NL))                             \* two final newlines
     /\ (AnyNA(t) => ~Accepts(style, Remove(t, 1)))                \* marker forgotten
     /\ (AnyNA(t) => ~Accepts(style, <<wrong>> \o Remove(t, 1)))   \* the other style's marker
     /\ (~AnyNA(t) => ~Accepts(style, <<mark>> \o t))              \* marker on ASCII output
     /\ \A i \in DOMAIN t :
          /\ (t[i].c \in {"open", "close", "lbrack", "rbrack", "lparen", "rparen"} => ~Accepts(style, Remove(t, i)))
          /\ (t[i].c \in {"string", "comment", "url"} => ~Accepts(style, Insert(Remove(t, i), i - 1, Tok(t[i].c, t[i].f + 4))))
          /\ (style = "compressed" /\ i < Len(t) => ~Accepts(style, Insert(t, i, NL)))   \* a newline leaks into compressed output
          /\ (style = "compressed" /\ t[i].c = "string" => ~Accepts(style, Insert(Remove(t, i), i - 1, Tok("comment", 2))))
Sensitive == phase = "done" => SensitiveFor("expanded") /\ SensitiveFor("compressed")

(* custom property values may carry line breaks in compressed style: the exception of F4 is used *)
Vec == [prog |-> prog, ne |-> Len(Write("expanded", prog)), nc |-> Len(Write("compressed", prog))]
EmitVec == phase = "done" => PrintT(<<"VEC", ToJson(Vec)>>)

(* ---- hand-made streams ------------------------------------------------------------------ *)
T(c) == Tok(c, 0)
Good == {
  [style |-> "expanded",   toks |-> <<>>],
  [style |-> "compressed", toks |-> <<>>],
  [style |-> "expanded",   toks |-> <<T("other"), T("open"), NL, T("other"), NL, T("close"), NL>>],
  [style |-> "compressed", toks |-> <<T("other"), T("open"), T("other"), T("close"), NL>>],
  [style |-> "expanded",   toks |-> <<T("charset_mark"), NL, T("other"), T("open"), NL, Tok("string", 1), NL, T("close"), NL>>],
  [style |-> "compressed", toks |-> <<T("bom"), T("other"), T("open"), Tok("string", 1), T("close"), NL>>],
  [style |-> "compressed", toks |-> <<T("other"), T("open"), T("other"), Tok("customprop_value", 2), T("close"), NL>>],
  [style |-> "expanded",   toks |-> <<T("other"), T("open"), NL, T("close"), NL, NL, Tok("comment", 2), NL>>],
  [style |-> "compressed", toks |-> <<T("other"), T("open"), Tok("comment", 10), T("other"), T("close"), NL>>] }

Bad == {
  [style |-> "expanded",   why |-> "final_newline", toks |-> <<T("other"), T("open"), T("close")>>],
  [style |-> "expanded",   why |-> "final_newline", toks |-> <<T("other"), T("open"), T("close"), NL, NL>>],
  [style |-> "expanded",   why |-> "unbalanced", toks |-> <<T("other"), T("open"), NL, T("other"), T("open"), NL, T("close"), NL>>],
  [style |-> "expanded",   why |-> "close_without_open", toks |-> <<T("other"), T("open"), T("close"), T("close"), NL>>],
  [style |-> "expanded",   why |-> "close_mismatch", toks |-> <<T("other"), T("open"), T("lbrack"), T("close"), T("rbrack"), NL>>],
  [style |-> "expanded",   why |-> "marker", toks |-> <<T("other"), T("open"), Tok("string", 1), T("close"), NL>>],
  [style |-> "expanded",   why |-> "marker", toks |-> <<T("charset_mark"), NL, T("other"), T("open"), T("close"), NL>>],
  [style |-> "expanded",   why |-> "marker", toks |-> <<T("bom"), T("other"), T("open"), Tok("string", 1), T("close"), NL>>],
  [style |-> "compressed", why |-> "marker", toks |-> <<T("charset_mark"), NL, Tok("nonascii", 1), T("open"), T("close"), NL>>],
  [style |-> "compressed", why |-> "marker", toks |-> <<T("bom"), T("other"), T("open"), T("close"), NL>>],
  [style |-> "compressed", why |-> "marker_not_first", toks |-> <<T("other"), T("bom"), Tok("nonascii", 1), NL>>],
  [style |-> "compressed", why |-> "newline_in_compressed", toks |-> <<T("other"), T("open"), T("other"), NL, T("close"), NL>>],
  [style |-> "compressed", why |-> "newline_in_compressed", toks |-> <<T("other"), T("open"), T("other"), Tok("comment", 2), T("close"), NL>>],
  [style |-> "compressed", why |-> "unterminated", toks |-> <<T("other"), T("open"), Tok("string", 4), NL>>],
  [style |-> "expanded",   why |-> "unterminated", toks |-> <<T("other"), T("open"), NL, Tok("comment", 4)>>],
  [style |-> "expanded",   why |-> "encoding", toks |-> <<T("badenc")>>] }

ASSUME HandMade == /\ \A g \in Good : Accepts(g.style, g.toks)
                   /\ \A b \in Bad : ~Accepts(b.style, b.toks) /\ Why(b.style, Run(b.toks)) = b.why
=============================================================================
