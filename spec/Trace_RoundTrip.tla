--------------------------- MODULE Trace_RoundTrip ---------------------------
(* C09: one event per stylesheet: {case, items, mode, r1, r2, devs}              *)
(*   r1 = result of compiling the rendered text (expanded) as SCSS (mode "scss")  *)
(*   or as plain CSS (mode "css"), r2 = result of compiling r1's output as plain  *)
(*   CSS; result = [st, lines]                                                    *)
(* Explained iff RoundTrip!RoundTripOK(r1, r2); not judged when the stylesheet is  *)
(* outside the construct subset or the first compilation did not succeed.         *)
EXTENDS RoundTrip, Json, IOUtils, TLC, TLCExt

Rec == ndJsonDeserialize(IOEnv.TRACE)

VARIABLE l
Init == l = 1

SeqToSet(q) == {q[i] : i \in DOMAIN q}

Explained(e) ==
  IF ~InSubset(e.items) THEN PrintT(<<"MSG", "SKIP", "not_in_subset", e.case>>)
  ELSE IF e.r1.st # "ok" THEN PrintT(<<"MSG", "SKIP", "first_compile", e.case>>)
  ELSE IF RoundTripOK(e.r1, e.r2) THEN TRUE
  ELSE LET D == SeqToSet(e.devs) \cap Deviations IN
       IF "comment_reindent_grows" \in D /\ e.r2.st = "ok" /\ SameLinesD(e.r1.lines, e.r2.lines, {"comment_reindent_grows"})
          THEN PrintT(<<"MSG", "KNOWN", "comment_reindent_grows", e.case>>)
       ELSE IF Predicted(D, e.items, e.r1, e.r2)
          THEN PrintT(<<"MSG", "KNOWN", {d \in D : \E i \in DOMAIN e.items : InScope(d, e.items[i])}, e.case>>)
       ELSE PrintT(<<"MSG", "REJECT", e.case, e.r2.st>>) /\ FALSE

Next == /\ l <= Len(Rec)
        /\ Explained(Rec[l]) = TRUE
        /\ l' = l + 1
Spec == Init /\ [][Next]_l

Accepted == IF TLCGet("stats").diameter - 1 = Len(Rec) THEN TRUE
            ELSE PrintT(<<"UNMATCHED", TLCGet("stats").diameter>>) /\ FALSE
=============================================================================
