SPECIFICATION Spec
CONSTANTS
  Keys = {"1", "1.0", "qa", "a", "red", "#f00"}
  Keys3 = {"1", "qa", "#f00"}
  MaxOps = 3
VIEW ViewM
INVARIANTS InvKeysUnique InvLaws InvRun
CHECK_DEADLOCK FALSE
