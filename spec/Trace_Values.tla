---------------------------- MODULE Trace_Values ----------------------------
(* Trace validation / law monitor for C12.  Every event is one ordered pair   *)
(* of abstract values (a, b) and the booleans rsass computed for              *)
(*   a==b, b==a, a!=b, b!=a, a==a, b==b, a<b, a>b   (lt/gt = 2: not asked).   *)
(* An event is accepted when the observed booleans satisfy the laws of the    *)
(* property (symmetry, != is the negation, reflexivity except NaN, trichotomy *)
(* on comparable numbers) AND agree with the reference relations Values!Eq /  *)
(* Values!Lt wherever those are fixed - or when a deviation listed as an open *)
(* finding predicts exactly these booleans (reported as KNOWN).               *)
EXTENDS Values, Json, IOUtils, TLCExt

Rec == ndJsonDeserialize(IOEnv.TRACE)

VARIABLE l
Init == l = 1

RECURSIVE WellFormed(_)
WellFormed(v) == (v.t = "num" => StepOK(v)) /\ \A i \in DOMAIN v.es : WellFormed(v.es[i])

IsObs(o) == \A f \in {"eq_ab", "eq_ba", "ne_ab", "ne_ba", "aa", "bb"} : o[f] \in {0, 1}

Explained(e) ==
  LET a == e.a
      b == e.b
      o == e.obs
      ref == ObservePair(a, b, {}) IN
  /\ WellFormed(a) /\ WellFormed(b) /\ IsObs(o)
  (* mode "laws": Flow A pairs, whose agreement with the reference was already decided *)
  (* against the vector TLC emitted; only the laws remain to be monitored             *)
  /\ \/ (LawsObserved(a, b, o) /\ (e.mode = "laws" \/ Agrees(ref, o)))
     \/ \E d \in SeqToSet(e.devs) \cap ValueDevs :
          LET r == ObservePair(a, b, {d}) IN
          /\ r # ref
          /\ Agrees(r, o)
          (* the deviation only gives up symmetry (and the reference where it says 2) *)
          /\ LawNegation(o) /\ LawReflexive(a, b, o) /\ LawTrichotomy(a, b, o)
          /\ PrintT(<<"MSG", "KNOWN", d, e.case>>)

Next == /\ l <= Len(Rec)
        /\ Explained(Rec[l]) = TRUE      \* as a value: evaluated once, not split into sub-actions
        /\ l' = l + 1
Spec == Init /\ [][Next]_l

Accepted == IF TLCGet("stats").diameter - 1 = Len(Rec) THEN TRUE
            ELSE PrintT(<<"UNMATCHED", TLCGet("stats").diameter>>) /\ FALSE
=============================================================================
