SPECIFICATION Spec
CONSTANTS
  Tier = "quick"
INVARIANTS LawRound LawSelect LawMinMax LawObs Emit
CHECK_DEADLOCK FALSE
