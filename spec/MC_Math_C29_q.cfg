SPECIFICATION Spec
CONSTANTS
  Tier = "quick"
INVARIANTS LawRound LawSelect LawMinMax LawObs LawStep LawClamp Emit
CHECK_DEADLOCK FALSE
