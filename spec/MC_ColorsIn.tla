---------------------------- MODULE MC_ColorsIn ----------------------------
(* Annotation run for Flow B: colour inputs chosen at random by the driver      *)
(* (file IOEnv.INPUTS, one JSON object per line) get what only the              *)
(* specification can know - the partner notations with provably the same rgba - *)
(* and the laws of the model are checked on them as well.                       *)
EXTENDS Colors, Json, IOUtils

In == ndJsonDeserialize(IOEnv.INPUTS)
Block == 100

VARIABLES i, phase
vars == <<i, phase>>

Init == i = 0 /\ phase = "block"
PickBlock == /\ phase = "block"
             /\ \E b \in 0..((Len(In) - 1) \div Block) : i' = b
             /\ phase' = "gen"
Gen == /\ phase = "gen"
       /\ \E j \in (i * Block + 1)..Min2(Len(In), (i + 1) * Block) : i' = j
       /\ phase' = "done"
Next == PickBlock \/ Gen
Spec == Init /\ [][Next]_vars

Done == phase = "done"
C == In[i]
Id == Ideal(C.ctor, C.args, C.alpha)

LawIdealInRange == Done => LET id == Id IN IdealInRange(id)
LawRefBound     == Done => LET id == Id IN RefBound(id)
LawPartnersSame == Done => LET id == Id
                               ps == Partners(C.ctor, C.args, C.alpha) IN PartnersSame(id, ps)

Emit == Done => PrintT(<<"VEC", ToJson([idx |-> i, ctor |-> C.ctor, form |-> C.form, args |-> C.args, alpha |-> C.alpha,
                                        amt |-> C.amt, fn |-> C.fn, style |-> C.style,
                                        partners |-> Partners(C.ctor, C.args, C.alpha)])>>)
=============================================================================
