SPECIFICATION Spec
CONSTANTS
  ItemToks = {"1", "a"}
  MaxItems = 2
  MaxOps = 2
  Profile = "deep"
INVARIANTS Laws Emit
CHECK_DEADLOCK FALSE
