SPECIFICATION Spec
CONSTANTS
  Mode = "repeat"
  MaxLen = 0
  MaxDepth = 64
  MaxMut = 0
  MinLen = 0
  Climb = 0
  Alphabet <- SoupAlphabet
INVARIANTS DepthOk EmitRepeat
CHECK_DEADLOCK FALSE
