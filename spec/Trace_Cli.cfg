SPECIFICATION Spec
INVARIANTS TraceExitOk TraceExitErr
CONSTRAINT Track
POSTCONDITION Accepted
CHECK_DEADLOCK FALSE
