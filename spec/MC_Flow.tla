------------------------------ MODULE MC_Flow ------------------------------
(* Bounded-exhaustive generator of control-flow inputs (one kind per       *)
(* configuration), the declarative laws as invariants, one conformance     *)
(* vector per input.                                                       *)
EXTENDS Flow, Json

CONSTANTS Kind,                      \* "if" | "for" | "each" | "while"
          Ctxs,                      \* rendering contexts: top, mixin, fn
          CondSet, MaxConds,         \* if / while: condition tokens, chain length
          ElseSet, NCondSet,         \* if: forms of the @else block (0..3), conditions of the @if nested in it
          AVals, BVals, TVals,       \* for: start values, literal end values, end values given in a's unit (converted to ub)
          UnitsA, UnitsB,
          MaxOut,                    \* for: longest emitted sequence
          Shapes, NVars, ItemCodes, MaxItems, ISeps    \* each

(* value sets for the configurations (cfg files cannot write negative numbers) *)
Range6 == -6..6
Range2 == -2..2
Range12 == -12..12
NearInch == 93..98          \* around 1in = 96px
NearPica == 14..18          \* around 1pc = 16px
Codes3 == {-1, 0, 2, 3}
Codes4 == {-1, 0, 2, 3, 4}
NoInts == {}

VARIABLES inp, phase
vars == <<inp, phase>>

Init == inp = [kind |-> "none"] /\ phase = "start"

(* ---- @if --------------------------------------------------------------- *)
IfStart == /\ Kind = "if" /\ phase = "start"
           /\ \E c \in Ctxs : inp' = [kind |-> "if", ctx |-> c, conds |-> <<>>, else |-> 0, ncond |-> "-"]
           /\ phase' = "build"
IfAdd == /\ Kind = "if" /\ phase = "build" /\ Len(inp.conds) < MaxConds
         /\ \E t \in CondSet : inp' = [inp EXCEPT !.conds = Append(@, t)]
         /\ UNCHANGED phase
IfFinish == /\ Kind = "if" /\ phase = "build" /\ Len(inp.conds) >= 1
            /\ \/ \E e \in ElseSet \cap {0, 1} : inp' = [inp EXCEPT !.else = e]
               \/ \E e \in ElseSet \cap {2, 3}, nc \in NCondSet : inp' = [inp EXCEPT !.else = e, !.ncond = nc]
            /\ phase' = "done"

(* ---- @while ------------------------------------------------------------ *)
WhileStart == /\ Kind = "while" /\ phase = "start"
              /\ \E c \in Ctxs : inp' = [kind |-> "while", ctx |-> c, conds |-> <<>>]
              /\ phase' = "build"
(* canonical lists: truthy values, then one falsey value ends the loop *)
WhileAdd == /\ Kind = "while" /\ phase = "build" /\ Len(inp.conds) < MaxConds
            /\ \E t \in CondSet :
                 /\ inp' = [inp EXCEPT !.conds = Append(@, t)]
                 /\ phase' = IF Truthy(t) THEN "build" ELSE "done"

(* ---- @for -------------------------------------------------------------- *)
ForStart == /\ Kind = "for" /\ phase = "start"
            /\ \E c \in Ctxs, a \in AVals, ua \in UnitsA :
                 inp' = [kind |-> "for", ctx |-> c, a |-> a, ua |-> ua, b |-> 0, ub |-> "", incl |-> 0]
            /\ phase' = "build"
(* number of values the loop visits (closed form), 0 when it is an error / undefined *)
ForCount(r) == LET c == ConvertEnd(r.b, r.ub, r.ua) IN
               IF c[1] # "int" THEN 0 ELSE Abs(c[2] - r.a) + r.incl
ForFinish == /\ Kind = "for" /\ phase = "build"
             /\ \E ub \in UnitsB, incl \in {0, 1} :
                  \/ \E b \in BVals :
                       \* for incompatible units one representative pair of values is enough
                       /\ (Compatible(inp.ua, ub) \/ (inp.a = 1 /\ b = 3))
                       /\ inp' = [inp EXCEPT !.b = b, !.ub = ub, !.incl = incl]
                  \/ \E t \in TVals :
                       \* the end value t of a's unit written in another compatible unit, when that is a whole number
                       /\ inp.ua # "" /\ ub # "" /\ ub # inp.ua /\ Dim(inp.ua) = Dim(ub)
                       /\ (t * Scale(inp.ua)) % Scale(ub) = 0
                       /\ (t * Scale(inp.ua)) \div Scale(ub) \notin BVals
                       /\ inp' = [inp EXCEPT !.b = (t * Scale(inp.ua)) \div Scale(ub), !.ub = ub, !.incl = incl]
             /\ ForCount(inp') <= MaxOut          \* keep the emitted sequences short
             /\ phase' = "done"

(* ---- @each ------------------------------------------------------------- *)
EachStart == /\ Kind = "each" /\ phase = "start"
             /\ \E c \in Ctxs, n \in NVars, sh \in Shapes, is \in ISeps :
                  /\ (sh \in {"single", "empty"} => is = "space")
                  /\ inp' = [kind |-> "each", ctx |-> c, n |-> n, shape |-> sh, isep |-> is,
                             items |-> IF sh = "single" THEN <<0>> ELSE <<>>]
                  /\ phase' = IF sh \in {"single", "empty"} THEN "done" ELSE "build"
EachAdd == /\ Kind = "each" /\ phase = "build" /\ Len(inp.items) < MaxItems
           /\ \E code \in ItemCodes : inp' = [inp EXCEPT !.items = Append(@, code)]
           /\ UNCHANGED phase
HasNested(items) == \E i \in DOMAIN items : items[i] >= 2
EachFinish == /\ Kind = "each" /\ phase = "build"
              /\ Len(inp.items) >= (IF inp.shape = "space" THEN 2 ELSE 1)
              /\ (inp.isep = "comma" => HasNested(inp.items))        \* the inner separator only matters with a nested list
              /\ phase' = "done" /\ UNCHANGED inp

Next == IfStart \/ IfAdd \/ IfFinish \/ WhileStart \/ WhileAdd \/ ForStart \/ ForFinish \/ EachStart \/ EachAdd \/ EachFinish
Spec == Init /\ [][Next]_vars

Done == phase = "done"

LawHolds == Done => Law(inp)
LawWellFormed == Done => WellFormed(inp)

Emit == Done =>
  LET e == Expect(inp) IN
  (e.k # "undef" /\ Len(e.out) <= MaxOut) => PrintT(<<"VEC", ToJson([inp |-> inp, expect |-> e, dev |-> DevMap(inp)])>>)
=============================================================================
