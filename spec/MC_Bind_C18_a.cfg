SPECIFICATION Spec
CONSTANTS
  Kind = "bind"
  CtxSet = {"mixin", "function", "content"}
  MaxParams = 2
  DefSet = {"req", "const", "ref1", "glob"}
  RestSet = {0, 1}
  MaxPos = 3
  NamedPool = {"a", "b-x", "b_x", "r", "z"}
  MaxNamed = 2
  PSplats = {"none", "all", "tail"}
  NSplats = {"none", "all"}
  ItemSet = {}
  MaxItems = 0
INVARIANTS LawHolds LawWellFormed Emit
CHECK_DEADLOCK FALSE
