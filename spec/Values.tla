------------------------------- MODULE Values -------------------------------
(***************************************************************************)
(* C12 - equality and ordering of SassScript values.  Abstracts             *)
(*   rsass/src/value/number.rs   Number PartialEq (relative epsilon), PartialOrd *)
(*   rsass/src/value/numeric.rs  Numeric PartialEq / PartialOrd (unit conversion) *)
(*   rsass/src/css/value.rs      css::Value PartialEq                        *)
(*   rsass/src/css/string.rs, value/colors/*.rs                              *)
(*                                                                         *)
(* Values are records with the same fields for every type:                  *)
(*   [t, s, n, d, j, e, u, es]                                               *)
(*   t = "num":   the f64  n/d + j * 2^(e-52)  (j # 0 only for dyadic n/d     *)
(*                with 2^e <= |n/d| < 2^(e+1): j steps of one ulp), unit u;   *)
(*                s = "" | "nan" | "inf" | "-inf" | "negzero"                 *)
(*   t = "str":   content token s, n = 0 unquoted / 1 double / 2 single quotes *)
(*   t = "color": n = r*65536 + g*256 + b, d = alpha in percent, s = notation  *)
(*   t = "list":  s = separator "space" | "comma" | "none", n = 1 if bracketed, *)
(*                es = elements                                              *)
(*   t = "map":   es = pairs, each a record with t = "pair", es = <<key, value>> *)
(*   t = "bool":  n = 0/1;   t = "null";   t = "fn": s = function name          *)
(*                                                                         *)
(* Eq(a, b, Dev) / Lt(a, b, Dev) are the reference relations with three      *)
(* results: 1 holds, 0 does not hold, 2 = not fixed unambiguously by the      *)
(* Sass semantics at the granularity of this model (numbers that differ by    *)
(* a few ulps - Sass compares with a tolerance whose exact size is not part   *)
(* of the property -, unitless against unit, NaN against itself).  Maps are   *)
(* compared order-free: same size and every entry of one has an entry of the  *)
(* other with an equal key and an equal value (a missing key is NOT a null).  *)
(*                                                                         *)
(* Named deviation:                                                          *)
(*   numeq_relative_to_lhs   Number::eq is |a-b| / |a| <= 2^-52, relative to  *)
(*                           the LEFT operand only: not symmetric.  Exact     *)
(*                           prediction for numbers with the same unit; for   *)
(*                           convertible units the f64 conversion noise       *)
(*                           decides (nearly) equal quantities: == < > are    *)
(*                           not predicted there, the other laws still hold   *)
(*                           (repaired in the tree: symmetric epsilon)        *)
(*   numeq_conversion_noise  what remains after that repair: quantities that  *)
(*                           are exactly equal in convertible units are       *)
(*                           compared after an f64 conversion of the RIGHT    *)
(*                           operand with a 1-ulp tolerance, so == < > depend *)
(*                           on the rounding noise and on the argument order  *)
(***************************************************************************)
EXTENDS Units

ValueDevs == {"numeq_relative_to_lhs", "numeq_conversion_noise"}

V(t, s, n, d, j, e, u, es) == [t |-> t, s |-> s, n |-> n, d |-> d, j |-> j, e |-> e, u |-> u, es |-> es]
NumV(n, d, u)       == V("num", "", n, d, 0, 0, u, <<>>)
NumStep(n, d, j, e, u) == V("num", "", n, d, j, e, u, <<>>)
NumSpecial(s, u)    == V("num", s, 0, 1, 0, 0, u, <<>>)
StrV(s, q)          == V("str", s, q, 1, 0, 0, "", <<>>)
ColorV(s, rgb, a)   == V("color", s, rgb, a, 0, 0, "", <<>>)
ListV(sep, br, es)  == V("list", sep, br, 1, 0, 0, "", es)
PairV(k, v)         == V("pair", "", 0, 1, 0, 0, "", <<k, v>>)
MapV(pairs)         == V("map", "", 0, 1, 0, 0, "", pairs)
BoolV(b)            == V("bool", "", b, 1, 0, 0, "", <<>>)
NullV               == V("null", "", 0, 1, 0, 0, "", <<>>)
FnV(s)              == V("fn", s, 0, 1, 0, 0, "", <<>>)

---------------------------------------------------------------------------
(* exact values of numbers *)
Eps52 == Dec(0, <<2,2,2,0,4,4,6,0,4,9,2,5,0,3,1,3,0,8,0,8,4,7,2,6,3,3,3,6,1,8,1,6,4,0,6,2,5>>, 52)   \* 2^-52
Pow2I(k) == IF k = 0 THEN 1 ELSE 2 ^ k
(* 2^(e-52) for -30 <= e <= 30 *)
Ulp(e) == IF e >= 0 THEN DMulSmall(Eps52, Pow2I(e)) ELSE DDivSmall(Eps52, Pow2I(-e), -e).q

IsPow2(d) == \E k \in 0..30 : d = Pow2I(k)
Finite(a) == a.t = "num" /\ a.s \in {"", "negzero"}
(* the step description is well formed: dyadic base, e its binary exponent *)
StepOK(a) == a.j = 0 \/ (IsPow2(a.d) /\ a.n # 0 /\ a.e \in -30..30
                         /\ (IF a.e >= 0 THEN Pow2I(a.e) * a.d <= DAbsI(a.n) /\ DAbsI(a.n) < 2 * Pow2I(a.e) * a.d
                             ELSE a.d <= DAbsI(a.n) * Pow2I(-a.e) /\ DAbsI(a.n) * Pow2I(-a.e) < 2 * a.d))
(* exact decimal value of a finite number (exact when d is 2^a 5^b; otherwise 40 digits) *)
Exact(a) == LET base == DFromRat(a.n, a.d, IF IsPow2(a.d) THEN (CHOOSE k \in 0..30 : a.d = Pow2I(k)) ELSE 40).q IN
            IF a.j = 0 THEN base ELSE DAdd(base, DMulSmall(Ulp(a.e), a.j))

(* |x - y| <= |x| * 2^-52, the comparison rsass makes (the f64 division is   *)
(* monotone and 2^-52 is a power of two, so the rounded quotient compares    *)
(* like the exact one)                                                       *)
WithinEpsOfLhs(x, y) ==
  IF DIsZero(x) THEN DIsZero(y)
  ELSE LET h1 == DDivSmall(DAbs(x), 67108864, 26)
           h2 == DDivSmall(h1.q, 67108864, 26) IN
       DCmpMag(DDiffMag(DAdd(x, DNeg(y)), DZero), h2.q) <= 0

(* relative difference above 10^-6: far outside any equality tolerance *)
ClearlyDifferent(x, y) ==
  LET diff == DAbs(DAdd(x, DNeg(y)))
      m    == IF DCmpMag(x, y) >= 0 THEN DAbs(x) ELSE DAbs(y) IN
  DCmpMag(DShift(diff, 6), m) > 0

Rat(a) == RNorm(a.n, a.d)

---------------------------------------------------------------------------
(* three-valued combination: all 1 -> 1, some 0 -> 0, otherwise 2 *)
Comb(rs) == IF \E i \in DOMAIN rs : rs[i] = 0 THEN 0
            ELSE IF \E i \in DOMAIN rs : rs[i] = 2 THEN 2 ELSE 1
Neg3(r) == IF r = 2 THEN 2 ELSE 1 - r

NumEq(a, b, Dev) ==
  IF a.s = "nan" \/ b.s = "nan" THEN (IF a.s = "nan" /\ b.s = "nan" THEN 2 ELSE 0)
  ELSE IF ~Finite(a) \/ ~Finite(b) THEN
       (IF a.s # b.s THEN 0 ELSE IF a.u = b.u THEN 1 ELSE 2)
  ELSE LET c  == Class(a.u, b.u, {})
           xa == Exact(a)
           xb == Exact(b) IN
       IF c = "same" THEN
            IF "numeq_relative_to_lhs" \in Dev THEN (IF WithinEpsOfLhs(xa, xb) THEN 1 ELSE 0)
            ELSE IF Rat(a) = Rat(b) THEN (IF a.j = b.j /\ (a.j = 0 \/ a.e = b.e) THEN 1 ELSE 2)
            ELSE IF ClearlyDifferent(xa, xb) THEN 0 ELSE 2
       ELSE IF c = "unitless" THEN (IF ClearlyDifferent(xa, xb) THEN 0 ELSE 2)
       ELSE IF c = "conv" THEN
            LET bb == VScale(VRat(Rat(b)), Factor(b.u, a.u, {}))
                s  == VSign(VAdd(VRat(Rat(a)), VNeg(bb))) IN
            IF s = 2 THEN 2
            (* rsass converts b with f64 factors and then applies the relative   *)
            (* epsilon: for (nearly) equal quantities the outcome depends on the *)
            (* rounding noise of the conversion                                  *)
            ELSE IF s = 0 THEN (IF Dev \cap {"numeq_relative_to_lhs", "numeq_conversion_noise"} # {} THEN 2 ELSE IF a.j = 0 /\ b.j = 0 THEN 1 ELSE 2)
            ELSE IF \A i \in DOMAIN bb : bb[i].pi = 0
                 THEN (IF ClearlyDifferent(xa, ValDec(bb)) THEN 0 ELSE 2)
                 ELSE 2
       ELSE 0

RECURSIVE Eq(_, _, _)
Eq(a, b, Dev) ==
  IF (a.t = "list" /\ b.t = "map") \/ (a.t = "map" /\ b.t = "list")
  THEN (IF a.es = <<>> /\ b.es = <<>>
        THEN (IF a.n = 0 /\ b.n = 0 THEN 1 ELSE 2)     \* () == empty map; [] against the empty map is left open
        ELSE 0)
  ELSE IF a.t # b.t THEN 0
  ELSE CASE a.t = "num"   -> NumEq(a, b, Dev)
         [] a.t = "str"   -> IF a.s = b.s THEN 1 ELSE 0
         [] a.t = "color" -> IF a.n = b.n /\ a.d = b.d THEN 1 ELSE 0
         [] a.t = "bool"  -> IF a.n = b.n THEN 1 ELSE 0
         [] a.t = "null"  -> 1
         [] a.t = "fn"    -> IF a.s = b.s THEN 1 ELSE 0
         [] a.t = "pair"  -> Comb(<<Eq(a.es[1], b.es[1], Dev), Eq(a.es[2], b.es[2], Dev)>>)
         [] a.t = "list"  ->
              IF a.es = <<>> /\ b.es = <<>> THEN (IF a.n = b.n THEN 1 ELSE 0)
              ELSE IF a.n # b.n \/ a.s # b.s \/ Len(a.es) # Len(b.es) THEN 0
              ELSE Comb([i \in DOMAIN a.es |-> Eq(a.es[i], b.es[i], Dev)])
         [] a.t = "map"   ->
              (* order-free: every entry of a has an entry of b with an equal key and an equal value *)
              IF Len(a.es) # Len(b.es) THEN 0
              ELSE Comb([i \in DOMAIN a.es |->
                     IF \E k \in DOMAIN b.es : Eq(a.es[i].es[1], b.es[k].es[1], Dev) = 1 /\ Eq(a.es[i].es[2], b.es[k].es[2], Dev) = 1
                     THEN 1
                     ELSE IF \E k \in DOMAIN b.es : Eq(a.es[i].es[1], b.es[k].es[1], Dev) # 0 /\ Eq(a.es[i].es[2], b.es[k].es[2], Dev) # 0
                     THEN 2 ELSE 0])
         [] OTHER -> 2

(* a < b for numbers *)
Lt(a, b, Dev) ==
  IF a.t # "num" \/ b.t # "num" \/ ~Finite(a) \/ ~Finite(b) THEN 2
  ELSE LET c  == Class(a.u, b.u, {})
           xa == Exact(a)
           xb == Exact(b) IN
       IF c = "same" THEN
            IF "numeq_relative_to_lhs" \in Dev
            THEN (IF WithinEpsOfLhs(xa, xb) THEN 0 ELSE IF DCmp(xa, xb) < 0 THEN 1 ELSE 0)
            ELSE IF Rat(a) = Rat(b) THEN (IF a.j = b.j /\ (a.j = 0 \/ a.e = b.e) THEN 0 ELSE 2)
            ELSE IF ClearlyDifferent(xa, xb) THEN (IF DCmp(xa, xb) < 0 THEN 1 ELSE 0) ELSE 2
       ELSE IF c = "unitless" THEN
            (IF ClearlyDifferent(xa, xb) THEN (IF DCmp(xa, xb) < 0 THEN 1 ELSE 0) ELSE 2)
       ELSE IF c = "conv" THEN
            LET bb == VScale(VRat(Rat(b)), Factor(b.u, a.u, {}))
                s  == VSign(VAdd(VRat(Rat(a)), VNeg(bb))) IN
            IF s = 2 THEN 2
            ELSE IF s = 0 THEN (IF Dev \cap {"numeq_relative_to_lhs", "numeq_conversion_noise"} # {} THEN 2 ELSE IF a.j = 0 /\ b.j = 0 THEN 0 ELSE 2)
            ELSE IF \A i \in DOMAIN bb : bb[i].pi = 0
                 THEN (IF ClearlyDifferent(xa, ValDec(bb)) THEN (IF s < 0 THEN 1 ELSE 0) ELSE 2)
                 ELSE 2
       ELSE 2

(* a > b: rsass evaluates a.partial_cmp(b), i.e. the epsilon is again relative to a *)
Gt(a, b, Dev) ==
  IF "numeq_relative_to_lhs" \in Dev /\ a.t = "num" /\ b.t = "num" /\ Finite(a) /\ Finite(b) /\ Class(a.u, b.u, {}) = "same"
  THEN (LET xa == Exact(a)
             xb == Exact(b) IN IF WithinEpsOfLhs(xa, xb) THEN 0 ELSE IF DCmp(xa, xb) > 0 THEN 1 ELSE 0)
  ELSE Lt(b, a, Dev)

RECURSIVE HasNaN(_)
HasNaN(a) == (a.t = "num" /\ a.s = "nan") \/ \E i \in DOMAIN a.es : HasNaN(a.es[i])

(* numbers for which "exactly one of <, ==, >" is claimed *)
Comparable(a, b) == Finite(a) /\ Finite(b) /\ Class(a.u, b.u, {}) \in {"same", "conv"}

(* the observable of one ordered pair: the eight booleans rsass is asked for *)
ObservePair(a, b, Dev) ==
  LET eab == Eq(a, b, Dev)
      eba == Eq(b, a, Dev) IN
  [eq_ab |-> eab, eq_ba |-> eba, ne_ab |-> Neg3(eab), ne_ba |-> Neg3(eba),
   aa |-> IF HasNaN(a) THEN 2 ELSE Eq(a, a, Dev), bb |-> IF HasNaN(b) THEN 2 ELSE Eq(b, b, Dev),
   lt |-> Lt(a, b, Dev), gt |-> Gt(a, b, Dev)]

Fields == {"eq_ab", "eq_ba", "ne_ab", "ne_ba", "aa", "bb", "lt", "gt"}
(* o agrees with the reference r wherever r is fixed *)
Agrees(r, o) == \A f \in Fields : r[f] = 2 \/ o[f] = r[f]

PairDevMap(a, b) ==
  LET ideal == ObservePair(a, b, {}) IN
  [d \in {d \in ValueDevs : ObservePair(a, b, {d}) # ideal} |-> ObservePair(a, b, {d})]

---------------------------------------------------------------------------
(* The laws of the property, as a monitor over observed booleans (0/1, 2 =   *)
(* not asked).                                                               *)
LawSymmetric(o)   == o.eq_ab = o.eq_ba
LawNegation(o)    == o.ne_ab = 1 - o.eq_ab /\ o.ne_ba = 1 - o.eq_ba
LawReflexive(a, b, o) == (~HasNaN(a) => o.aa = 1) /\ (~HasNaN(b) => o.bb = 1)
LawTrichotomy(a, b, o) == Comparable(a, b) => (o.lt \in {0, 1} /\ o.gt \in {0, 1} /\ o.lt + o.eq_ab + o.gt = 1)
LawsObserved(a, b, o) == LawSymmetric(o) /\ LawNegation(o) /\ LawReflexive(a, b, o) /\ LawTrichotomy(a, b, o)

(* the same laws for the three-valued reference: they hold wherever it is fixed *)
LawsReference(a, b) ==
  LET r == ObservePair(a, b, {}) IN
  /\ r.eq_ab = r.eq_ba
  /\ (~HasNaN(a) => r.aa = 1)
  /\ (Comparable(a, b) /\ r.lt # 2 /\ r.gt # 2 /\ r.eq_ab # 2 => r.lt + r.eq_ab + r.gt = 1)
  /\ (r.lt = 1 => r.gt # 1)
=============================================================================
