SPECIFICATION Spec
CONSTANTS
  Kinds = {"rule"}
  TopSels <- TopPlain
  NestSels <- NestList
  AtRootSels <- RootPlain
  MaxNodes = 8
  MaxDepth = 3
  MaxDecl = 5
INVARIANTS InvMachine Emit
CHECK_DEADLOCK FALSE
