SPECIFICATION Spec
CONSTANTS
  Cps = {92, 1, 32, 97, 57344}
  KindSet = {"raw", "bs", "hexsp"}
  Quotes = {34}
  MaxLen = 3
  MaxCont = 0
INVARIANTS LawDecode LawLen Emit
CHECK_DEADLOCK FALSE
