-------------------------------- MODULE Math --------------------------------
(***************************************************************************)
(* The sass:math functions (C29, scoped).                                   *)
(*                                                                         *)
(* Abstracts rsass/src/sass/functions/math.rs, math/round.rs,                *)
(* math/distance.rs and the number type (value/number.rs, numeric.rs).       *)
(*                                                                         *)
(* Claimed (this module decides it):                                        *)
(*   - unit behaviour of every function (abs/ceil/floor/round keep the unit; *)
(*     percentage = x * 100%; div divides units; min/max/clamp return one of *)
(*     their arguments; pow/sqrt/log/exp/asin/acos/atan need unitless input; *)
(*     sin/cos/tan take angles or unitless radians; asin/acos/atan/atan2     *)
(*     return degrees; hypot keeps the unit of its first argument);          *)
(*   - exact values on (dyadic) rationals for abs, ceil, floor, round (ties   *)
(*     away from zero), div, percentage, min, max, clamp, incl. +-infinity    *)
(*     and NaN for the rounding functions;                                    *)
(*   - a table of exact special values of the transcendental functions;       *)
(*   - errors for units that the function cannot take and for incompatible    *)
(*     units in atan2 / hypot;                                                *)
(*   - the global (CSS calculation) forms abs / round / min / max / clamp      *)
(*     agree with the module functions; clamp(MIN, VAL, MAX) is                *)
(*     max(MIN, min(VAL, MAX)) for every ordering (MIN > MAX: MIN wins);       *)
(*     CSS mod(), rem() and round(<strategy>, A, B) with unit conversion.      *)
(* NOT claimed: the numeric accuracy of sqrt/pow/log/exp/sin/cos/tan/asin/    *)
(* acos/atan/atan2/hypot on arguments outside the table (TLA+ has no reals). *)
(* Not constrained (Undef): unitless mixed with units in min/max/clamp,       *)
(* incompatible units in min/max (an error or an unsimplified min()/max()     *)
(* are both acceptable, cf. C30), results with compound units.               *)
(*                                                                         *)
(* Numbers: [k, n, d, u]   k = "num" (n/d, d > 0, unit u) | "inf" | "-inf" |  *)
(* "nan" (u kept).  Results additionally: k = "err" | "undef".               *)
(***************************************************************************)
EXTENDS Integers, Sequences, FiniteSets, TLC

Abs(x) == IF x < 0 THEN -x ELSE x
RECURSIVE Gcd(_, _)
Gcd(a, b) == IF b = 0 THEN a ELSE Gcd(b, a % b)
Num(n, d, u) == LET g == Gcd(Abs(n), d) IN [k |-> "num", n |-> n \div g, d |-> d \div g, u |-> u]
Special(k, u) == [k |-> k, n |-> 0, d |-> 1, u |-> u]
Err   == Special("err", "")
Undef == Special("undef", "")
IsNum(x) == x.k = "num"

(* floor division that is correct for negative numerators *)
FloorDiv(n, d) == IF n >= 0 THEN n \div d ELSE -((-n + d - 1) \div d)
Less(a, b) == a.n * b.d < b.n * a.d            \* a, b "num" with small terms

---------------------------------------------------------------------------
(* units *)
Lengths == {"px", "in", "cm"}
Angles  == {"deg", "turn", "grad", "rad"}
Compatible(u, v) == u = v \/ (u \in Lengths /\ v \in Lengths) \/ (u \in Angles /\ v \in Angles)
(* exact factor to the base unit of the class (px, deg); rad has none: handled separately *)
Factor(u) == CASE u = "in" -> <<96, 1>> [] u = "cm" -> <<4800, 127>> [] u = "turn" -> <<360, 1>> [] u = "grad" -> <<9, 10>> [] OTHER -> <<1, 1>>
(* a in the base unit of its class, as a "num" with the same unit tag *)
ToBase(a) == Num(a.n * Factor(a.u)[1], a.d * Factor(a.u)[2], a.u)
Convertible(a, b) == Compatible(a.u, b.u) /\ a.u # "rad" /\ b.u # "rad"

---------------------------------------------------------------------------
(* rounding functions *)
Round1(fn, a) ==
  IF a.k \in {"inf", "-inf", "nan"} THEN (IF fn = "abs" /\ a.k = "-inf" THEN Special("inf", a.u) ELSE a)
  ELSE CASE fn = "abs"   -> Num(Abs(a.n), a.d, a.u)
         [] fn = "floor" -> Num(FloorDiv(a.n, a.d), 1, a.u)
         [] fn = "ceil"  -> Num(-FloorDiv(-a.n, a.d), 1, a.u)
         [] fn = "round" -> (* ties away from zero: sign * floor(|x| + 1/2) *)
              LET m == FloorDiv(2 * Abs(a.n) + a.d, 2 * a.d) IN Num(IF a.n < 0 THEN -m ELSE m, 1, a.u)

Percentage(a) ==
  IF a.u # "" THEN Err
  ELSE IF ~IsNum(a) THEN Special(a.k, "%")
  ELSE IF Abs(a.n) > 20000000 THEN Undef           \* beyond this model's 32-bit integers
  ELSE Num(a.n * 100, a.d, "%")

Div(a, b) ==
  IF ~IsNum(a) \/ ~IsNum(b) THEN Undef
  ELSE IF b.n = 0 THEN
       (IF b.u # "" /\ a.u # b.u THEN Undef
        ELSE LET u == IF a.u = b.u THEN "" ELSE a.u IN
             IF a.n = 0 THEN Special("nan", u) ELSE IF a.n > 0 THEN Special("inf", u) ELSE Special("-inf", u))
  ELSE LET q(x, y, u) == Num((IF y.n < 0 THEN -1 ELSE 1) * x.n * y.d, x.d * Abs(y.n), u) IN
       IF b.u = "" THEN q(a, b, a.u)
       ELSE IF a.u = b.u THEN q(a, b, "")
       ELSE IF a.u # "" /\ Convertible(a, b) THEN q(ToBase(a), ToBase(b), "")
       ELSE Undef                                  \* compound unit (1/px, px/em): not constrained here

(* min / max / clamp: one of the arguments (with its own unit), decided on the converted values *)
Extreme(fn, args) ==
  IF \E i \in DOMAIN args : ~IsNum(args[i]) THEN Undef
  ELSE IF \E i, j \in DOMAIN args : (args[i].u = "") # (args[j].u = "") THEN Undef      \* unitless mixed with units
  ELSE IF \E i, j \in DOMAIN args : ~Compatible(args[i].u, args[j].u) THEN Undef          \* error or unsimplified: both fine
  ELSE IF \E i \in DOMAIN args : args[i].u = "rad" /\ \E j \in DOMAIN args : args[j].u # "rad" THEN Undef
  ELSE LET b(i) == ToBase(args[i])
           best == {i \in DOMAIN args : \A j \in DOMAIN args :
                       IF fn = "min" THEN ~Less(b(j), b(i)) ELSE ~Less(b(i), b(j))} IN
       (* a tie between different arguments (1in, 96px) leaves the choice open *)
       IF \E i, j \in best : args[i] # args[j] THEN Undef ELSE args[CHOOSE i \in best : TRUE]

Clamp(lo, x, hi) ==
  IF ~IsNum(lo) \/ ~IsNum(x) \/ ~IsNum(hi) THEN Undef
  ELSE IF (lo.u = "") # (x.u = "") \/ (lo.u = "") # (hi.u = "") THEN Undef
  ELSE IF ~Compatible(lo.u, x.u) \/ ~Compatible(lo.u, hi.u) THEN Undef
  ELSE IF "rad" \in {lo.u, x.u, hi.u} /\ {lo.u, x.u, hi.u} # {"rad"} THEN Undef
  ELSE LET l == ToBase(lo)
           v == ToBase(x)
           h == ToBase(hi) IN
       (* CSS: clamp(MIN, VAL, MAX) = max(MIN, min(VAL, MAX)): when MIN > MAX the lower bound wins *)
       IF Less(h, l) THEN lo
       ELSE IF Less(v, l) THEN lo
       ELSE IF Less(h, v) THEN hi
       ELSE IF (~Less(l, v) /\ lo # x) \/ (~Less(v, h) /\ hi # x) THEN Undef       \* tie between different arguments
       ELSE x

---------------------------------------------------------------------------
(* transcendental functions: units, and a table of exact values.              *)
R(n, d) == Num(n, d, "")
Deg(n, d) == Num(n, d, "deg")

(* the angle in degrees, for deg / turn / grad (rad: only 0) *)
InDegrees(a) == IF a.u = "rad" \/ a.u = "" THEN (IF a.n = 0 THEN Num(0, 1, "deg") ELSE Undef)
                ELSE LET b == ToBase(a) IN Num(b.n, b.d, "deg")

SinDeg(t) ==      \* t: integer degrees
  LET x == ((t % 360) + 360) % 360 IN
  CASE x \in {0, 180} -> R(0, 1) [] x = 30 \/ x = 150 -> R(1, 2) [] x = 90 -> R(1, 1)
    [] x = 210 \/ x = 330 -> R(-1, 2) [] x = 270 -> R(-1, 1) [] OTHER -> Undef
TanDeg(t) ==
  LET x == ((t % 180) + 180) % 180 IN
  CASE x = 0 -> R(0, 1) [] x = 45 -> R(1, 1) [] x = 135 -> R(-1, 1) [] OTHER -> Undef

Trig(fn, a) ==
  IF a.u # "" /\ a.u \notin Angles THEN Err
  ELSE IF ~IsNum(a) THEN Undef
  ELSE LET t == InDegrees(a) IN
       IF t.k # "num" \/ t.d # 1 THEN Undef
       ELSE CASE fn = "sin" -> SinDeg(t.n) [] fn = "cos" -> SinDeg(t.n + 90) [] fn = "tan" -> TanDeg(t.n)

Sqrt(a) ==
  IF a.u # "" THEN Err
  ELSE IF ~IsNum(a) \/ a.n < 0 THEN Undef
  ELSE LET rn == {i \in 0..50 : i * i = a.n}
           rd == {i \in 1..50 : i * i = a.d} IN
       IF rn = {} \/ rd = {} THEN Undef ELSE R(CHOOSE i \in rn : TRUE, CHOOSE i \in rd : TRUE)

RECURSIVE IPow(_, _)
IPow(b, e) == IF e = 0 THEN 1 ELSE b * IPow(b, e - 1)
Pow(b, e) ==
  IF b.u # "" \/ e.u # "" THEN Err
  ELSE IF ~IsNum(b) \/ ~IsNum(e) THEN Undef
  ELSE IF e.d = 1 /\ e.n >= 0 /\ e.n <= 10 /\ Abs(b.n) <= 8 /\ b.d <= 8 THEN R(IPow(b.n, e.n), IPow(b.d, e.n))
  ELSE IF e.d = 1 /\ e.n < 0 /\ e.n >= -10 /\ b.n > 0 /\ b.n <= 8 /\ b.d <= 8 THEN R(IPow(b.d, -e.n), IPow(b.n, -e.n))
  ELSE IF e.n = 1 /\ e.d = 2 THEN Sqrt(b)
  ELSE Undef

(* log_base(x) for x = base^k, |k| <= 9, base in 2..10; natural log only of 1 *)
Log(x, base) ==
  IF x.u # "" \/ base.u # "" THEN Err
  ELSE IF ~IsNum(x) \/ ~IsNum(base) \/ x.n <= 0 THEN Undef
  ELSE IF base.k = "num" /\ base.d = 1 /\ base.n >= 2 /\ base.n <= 10 THEN
       LET ks == {k \in 0..9 : (x.d = 1 /\ x.n = IPow(base.n, k)) \/ (x.n = 1 /\ x.d = IPow(base.n, k))} IN
       IF ks = {} THEN Undef ELSE LET k == CHOOSE k \in ks : TRUE IN R(IF x.d = 1 THEN k ELSE -k, 1)
  ELSE Undef
Ln(x) == IF x.u # "" THEN Err ELSE IF IsNum(x) /\ x.n = 1 /\ x.d = 1 THEN R(0, 1) ELSE Undef
Exp(x) == IF x.u # "" THEN Err ELSE IF IsNum(x) /\ x.n = 0 THEN R(1, 1) ELSE Undef

ArcTrig(fn, a) ==
  IF a.u # "" THEN Err
  ELSE IF ~IsNum(a) THEN Undef
  ELSE LET v == <<a.n, a.d>> IN
       CASE fn = "asin" -> (CASE v = <<0, 1>> -> Deg(0, 1) [] v = <<1, 2>> -> Deg(30, 1) [] v = <<-1, 2>> -> Deg(-30, 1)
                              [] v = <<1, 1>> -> Deg(90, 1) [] v = <<-1, 1>> -> Deg(-90, 1) [] OTHER -> Undef)
         [] fn = "acos" -> (CASE v = <<1, 1>> -> Deg(0, 1) [] v = <<1, 2>> -> Deg(60, 1) [] v = <<0, 1>> -> Deg(90, 1)
                              [] v = <<-1, 2>> -> Deg(120, 1) [] v = <<-1, 1>> -> Deg(180, 1) [] OTHER -> Undef)
         [] fn = "atan" -> (CASE v = <<0, 1>> -> Deg(0, 1) [] v = <<1, 1>> -> Deg(45, 1) [] v = <<-1, 1>> -> Deg(-45, 1)
                              [] OTHER -> Undef)

Atan2(y, x) ==
  IF ~IsNum(y) \/ ~IsNum(x) THEN Undef
  ELSE IF (y.u = "") # (x.u = "") THEN Undef
  ELSE IF ~Compatible(y.u, x.u) THEN Err
  ELSE IF ~Convertible(y, x) THEN Undef
  ELSE LET a == ToBase(y)
           b == ToBase(x)
           sy == IF a.n > 0 THEN 1 ELSE IF a.n < 0 THEN -1 ELSE 0
           sx == IF b.n > 0 THEN 1 ELSE IF b.n < 0 THEN -1 ELSE 0 IN
       IF sy = 0 /\ sx = 0 THEN Undef
       ELSE IF sy = 0 THEN Deg(IF sx > 0 THEN 0 ELSE 180, 1)
       ELSE IF sx = 0 THEN Deg(90 * sy, 1)
       ELSE IF Abs(a.n) * b.d = Abs(b.n) * a.d THEN Deg(sy * (IF sx > 0 THEN 45 ELSE 135), 1)
       ELSE Undef

(* hypot of a Pythagorean triple (3,4,5), (6,8,10), (5,12,13) in compatible units; result in the unit of the first *)
Hypot(a, b) ==
  IF ~IsNum(a) \/ ~IsNum(b) THEN Undef
  ELSE IF (a.u = "") # (b.u = "") THEN Undef
  ELSE IF ~Compatible(a.u, b.u) THEN Err
  ELSE IF a.u # b.u \/ a.u = "%" THEN Undef
  ELSE IF a.d # 1 \/ b.d # 1 THEN Undef
  ELSE LET s == a.n * a.n + b.n * b.n
           r == {i \in 0..50 : i * i = s} IN
       IF r = {} THEN Undef ELSE Num(CHOOSE i \in r : TRUE, 1, a.u)

---------------------------------------------------------------------------
(* CSS mod(), rem() and round(<strategy>, A, B): the second argument is converted into the unit of   *)
(* the first, the result has the unit of the first.                                                    *)
(*   mod(A, B) = A - B * floor(A / B)   (sign of B)     rem(A, B) = A - B * trunc(A / B)   (sign of A)  *)
(*   round(up | down | to-zero | nearest, A, B): the multiple of B next to A in that direction; only  *)
(*   B > 0 is constrained, and for `nearest` a tie is not (CSS rounds it up, Sass away from zero).    *)
(* k * (B in the unit of A), as n/d:  B * Factor(B.u) / Factor(A.u)                                    *)
Trunc(n, d) == IF n >= 0 THEN n \div d ELSE -((-n) \div d)
StepOp(fn, a, b) ==
  IF ~IsNum(a) \/ ~IsNum(b) THEN Undef
  ELSE IF (a.u = "") # (b.u = "") THEN Undef
  ELSE IF ~Convertible(a, b) THEN Undef             \* error or unsimplified calculation: both acceptable
  ELSE IF b.n = 0 THEN Undef
  ELSE IF fn \notin {"mod", "rem"} /\ b.n < 0 THEN Undef
  ELSE LET fa == Factor(a.u)
           fb == Factor(b.u)
           (* B in the unit of A *)
           bn == b.n * fb[1] * fa[2]
           bd == b.d * fb[2] * fa[1]
           (* A / B = (a.n * bd) / (a.d * bn) with a positive denominator *)
           sg == IF bn < 0 THEN -1 ELSE 1
           qn == sg * a.n * bd
           qd == sg * a.d * bn
           fl == FloorDiv(qn, qd)
           ce == -FloorDiv(-qn, qd)
           tie == 2 * (qn - fl * qd) = qd
           k  == CASE fn = "mod" -> fl
                   [] fn = "rem" -> Trunc(qn, qd)
                   [] fn = "round_up" -> ce
                   [] fn = "round_down" -> fl
                   [] fn = "round_to_zero" -> Trunc(qn, qd)
                   [] OTHER -> IF 2 * (qn - fl * qd) < qd THEN fl ELSE ce
           multiple == Num(k * bn, bd, a.u) IN
       (* A is a whole multiple of B but B has to be converted into the unit of A: every result function here is  *)
       (* discontinuous at exactly this point and the converted B is not a binary fraction, so 0 and +-B are both    *)
       (* correctly rounded answers - not constrained                                                                 *)
       IF a.u # b.u /\ qn % qd = 0 THEN Undef
       ELSE IF fn \in {"round_nearest", "round_step"} /\ tie THEN Undef
       ELSE IF fn \in {"mod", "rem"} THEN Num(a.n * multiple.d - multiple.n * a.d, a.d * multiple.d, a.u)
       ELSE multiple

StepFns == {"mod", "rem", "round_up", "round_down", "round_to_zero", "round_nearest", "round_step"}

---------------------------------------------------------------------------
(* the function table.  ns = "math": the sass:math module function; ns = "css": the global           *)
(* (CSS calculation) function of the same name, which must agree wherever both are constrained.       *)
CssFns == {"abs", "round", "min", "max", "clamp"} \cup StepFns
Apply(fn, args) ==
  CASE fn \in {"abs", "ceil", "floor", "round"} -> Round1(fn, args[1])
    [] fn = "percentage" -> Percentage(args[1])
    [] fn = "div" -> Div(args[1], args[2])
    [] fn \in {"min", "max"} -> Extreme(fn, args)
    [] fn = "clamp" -> Clamp(args[1], args[2], args[3])
    [] fn \in {"sin", "cos", "tan"} -> Trig(fn, args[1])
    [] fn \in {"asin", "acos", "atan"} -> ArcTrig(fn, args[1])
    [] fn = "atan2" -> Atan2(args[1], args[2])
    [] fn = "sqrt" -> Sqrt(args[1])
    [] fn = "pow" -> Pow(args[1], args[2])
    [] fn = "log" -> (IF Len(args) = 1 THEN Ln(args[1]) ELSE Log(args[1], args[2]))
    [] fn = "exp" -> Exp(args[1])
    [] fn = "hypot" -> Hypot(args[1], args[2])
    [] fn \in StepFns -> StepOp(fn, args[1], args[2])

(* The observable: [k, neg, ip, fp, u] with the value split into sign, integer part and the      *)
(* fraction in micro-units (rounded half up); fp = 1000000 never occurs (carried into ip).       *)
(* MulDiv as in Colors.tla, for a < c < 2^20 *)
FracMicro(r, c) ==           \* round(r * 10^6 / c), 0 <= r < c
  LET b  == 1000000
      bh == b \div 1024
      bl == b % 1024
      x  == r * bh
      n  == (x % c) * 1024 + r * bl
      q  == (x \div c) * 1024 + n \div c IN
  q + (IF 2 * (n % c) >= c THEN 1 ELSE 0)
Obs(v) ==
  IF v.k # "num" THEN [k |-> v.k, neg |-> 0, ip |-> 0, fp |-> 0, u |-> IF v.k \in {"err", "undef"} THEN "" ELSE v.u]
  ELSE LET an == Abs(v.n)
           ip == an \div v.d
           fp == FracMicro(an % v.d, v.d)
           ip2 == IF fp = 1000000 THEN ip + 1 ELSE ip
           fp2 == IF fp = 1000000 THEN 0 ELSE fp IN
       [k |-> "num", neg |-> IF v.n < 0 /\ (ip2 > 0 \/ fp2 > 0) THEN 1 ELSE 0, ip |-> ip2, fp |-> fp2, u |-> v.u]

Expect(ns, fn, args) ==
  IF (ns = "css" /\ fn \notin CssFns) \/ (ns = "math" /\ fn \in StepFns) THEN Obs(Undef) ELSE Obs(Apply(fn, args))

---------------------------------------------------------------------------
(* laws of the model *)
(* the rounding functions are idempotent, ordered floor <= round <= ceil and within one of the argument *)
RoundLaws(a) ==
  IsNum(a) =>
    LET f == Round1("floor", a)
        c == Round1("ceil", a)
        r == Round1("round", a) IN
    /\ Round1("floor", f) = f /\ Round1("ceil", c) = c /\ Round1("round", r) = r
    /\ ~Less(r, f) /\ ~Less(c, r) /\ ~Less(a, f) /\ ~Less(c, a)
    /\ c.n - f.n \in {0, 1}
    /\ Round1("round", Num(-a.n, a.d, a.u)) = Num(-r.n, r.d, r.u)          \* symmetric: ties away from zero
(* mod / rem: |result| < |B|, mod has the sign of B, rem the sign of A; stepped round: the result differs from A *)
(* by less than |B| in the direction of the strategy                                                            *)
StepLaws(fn, a, b) ==
  LET r == StepOp(fn, a, b) IN
  r.k = "num" =>
    LET fa == Factor(a.u)
        fb == Factor(b.u)
        bn == Abs(b.n) * fb[1] * fa[2]
        bd == b.d * fb[2] * fa[1]
        dn == Abs(a.n * r.d - r.n * a.d)          \* |A - r| = dn / (a.d * r.d)
        dd == a.d * r.d IN
    /\ r.u = a.u
    /\ (fn \notin {"mod", "rem"} => dn * bd < bn * dd)                 \* |A - r| < |B|
    /\ (fn \in {"mod", "rem"} => Abs(r.n) * bd < bn * r.d)              \* |r| < |B|
    /\ (fn = "mod" => r.n = 0 \/ (r.n > 0) = (b.n > 0))
    /\ (fn = "rem" => r.n = 0 \/ (r.n > 0) = (a.n > 0))
    /\ (fn = "round_up" => r.n * a.d >= a.n * r.d) /\ (fn = "round_down" => r.n * a.d <= a.n * r.d)
    /\ (fn = "round_to_zero" => Abs(r.n) * a.d <= Abs(a.n) * r.d)
(* clamp(a, v, b) = max(a, min(v, b)) whenever all three are decided *)
ClampLaw(args) ==
  LET c == Clamp(args[1], args[2], args[3])
      m == Extreme("min", <<args[2], args[3]>>)
      x == IF m.k = "num" THEN Extreme("max", <<args[1], m>>) ELSE Undef IN
  (c.k = "num" /\ x.k = "num") => ~Less(ToBase(c), ToBase(x)) /\ ~Less(ToBase(x), ToBase(c))
(* min/max/clamp return one of their arguments *)
SelectLaws(fn, args) ==
  LET v == Apply(fn, args) IN v.k = "num" => \E i \in DOMAIN args : args[i] = v
=============================================================================
