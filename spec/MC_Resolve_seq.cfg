SPECIFICATION Spec
CONSTANTS
  Mode = "spread"
  MaxFiles = 2
  GenKinds = {"use", "forward", "import"}
  GenPre = {"dir", "lp1", "lp2"}
  GenWhere = {"root"}
INVARIANTS Laws Emit
CHECK_DEADLOCK FALSE
