SPECIFICATION Spec
CONSTANTS
  Ops = {"+", "-", "<", "<=", ">", ">=", "==", "max", "min"}
  Lens = {"px", "in", "cm", "mm", "pt"}
  Times = {"s", "ms"}
  Mags <- Mags_q
INVARIANTS Laws Emit
CHECK_DEADLOCK FALSE
