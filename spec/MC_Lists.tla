------------------------------ MODULE MC_Lists ------------------------------
(* Bounded-exhaustive generator for C28: build the items of a list one by   *)
(* one, choose its form (separator, brackets; scalar / map / arglist),      *)
(* then a sequence of operations with every index in [-n-1, n+1]; one       *)
(* conformance vector per completed run, with the expected result of every  *)
(* step computed by Lists!Run.                                              *)
EXTENDS Lists, Json

CONSTANTS ItemToks,   \* ids of the values lists are built from
          MaxItems, MaxOps,
          Profile     \* "wide": every function once; "deep": update then probe

VARIABLES its, init, ops, phase
vars == <<its, init, ops, phase>>

P1a == List(<<Leaf("1"), Leaf("a")>>, "space", 0)
ItemVal(id) == IF id = "p1a" THEN P1a ELSE Leaf(id)

NoOp == [f |-> "none", n |-> 0, v |-> Nothing, o |-> Nothing, o2 |-> Nothing, sep |-> "auto", br |-> "auto", side |-> "l"]
Op(f) == [NoOp EXCEPT !.f = f]

B == Leaf("b")
C == Leaf("c")
KeyOf(p) == Leaf(<<"x", "y", "z">>[p])

(* ---- the forms a sequence of items can take as an initial value ---- *)
Forms(q) ==
  LET n == Len(q) IN
  (IF n = 0 THEN {List(q, "undecided", 0), List(q, "undecided", 1)} ELSE {})
  \cup (IF n = 1 THEN (IF q[1].t = "leaf" THEN {q[1]} ELSE {})
                      \cup {List(q, "undecided", 1), List(q, "comma", 0), List(q, "comma", 1)} ELSE {})
  \cup (IF n >= 2 THEN {List(q, "space", 0), List(q, "space", 1), List(q, "comma", 0), List(q, "comma", 1),
                        List(q, "slash", 0)} ELSE {})
  \cup (IF n >= 1 /\ n <= 2 THEN {Map([p \in 1..n |-> Pair(KeyOf(p), q[p])])} ELSE {})
  \cup {ArgList(q)}

(* ---- argument pools ---- *)
Others == IF Profile = "wide"
          THEN {List(<<>>, "undecided", 0), List(<<B>>, "undecided", 1), B, List(<<B, C>>, "comma", 1), List(<<B, C>>, "slash", 0)}
          ELSE {List(<<>>, "undecided", 1), B, List(<<B>>, "comma", 0), List(<<B, C>>, "space", 0), Map(<<Pair(KeyOf(1), B)>>)}
SepBr == IF Profile = "wide"
         THEN {<<"auto", "auto">>, <<"comma", "auto">>, <<"slash", "auto">>, <<"auto", "true">>, <<"space", "false">>}
         ELSE {<<"auto", "auto">>, <<"space", "auto">>, <<"auto", "false">>, <<"slash", "true">>}
Vals == {B, P1a}
Needles == {Leaf("1.0"), Leaf("a"), Leaf("qa"), B, P1a, Pair(KeyOf(1), Leaf("1"))}
ZipOthers == {List(<<>>, "undecided", 0), B, List(<<B, C>>, "space", 0), List(<<B, C, B>>, "comma", 1), Map(<<Pair(KeyOf(1), B), Pair(KeyOf(2), C)>>)}

IdxOf(cur) == (0 - Len(Items(cur)) - 1)..(Len(Items(cur)) + 1)

Queries(cur) ==
  {Op("length"), Op("separator"), Op("is-bracketed")}
  \cup {[Op("nth") EXCEPT !.n = n] : n \in IdxOf(cur)}
  \cup {[Op("index") EXCEPT !.v = v] : v \in Needles}

Updates(cur) ==
  {[Op("set-nth") EXCEPT !.n = n, !.v = v] : n \in IdxOf(cur), v \in Vals}
  \cup {[Op("append") EXCEPT !.v = v, !.sep = s] : v \in Vals, s \in {"auto", "space", "comma", "slash"}}
  \cup {[Op("join") EXCEPT !.o = o, !.side = sd, !.sep = sb[1], !.br = sb[2]] : o \in Others, sd \in {"l", "r"}, sb \in SepBr}
  \cup {[Op("zip") EXCEPT !.o = o, !.side = sd] : o \in ZipOthers, sd \in {"l", "r"}}
  \cup {Op("zip"), [Op("zip") EXCEPT !.o = List(<<B, C, B>>, "comma", 1), !.o2 = List(<<C, B>>, "space", 0), !.side = "r"]}

(* probes applied after an update: they expose the separator/brackets the  *)
(* result really carries (an undecided separator yields to the next list)  *)
Probes(cur) ==
  {Op("length"), Op("separator"), Op("is-bracketed")}
  \cup {[Op("nth") EXCEPT !.n = n] : n \in {1, -1}}
  \cup {[Op("append") EXCEPT !.v = B], [Op("set-nth") EXCEPT !.n = -1, !.v = C], [Op("index") EXCEPT !.v = B],
        [Op("join") EXCEPT !.o = List(<<B, C>>, "comma", 1)], [Op("join") EXCEPT !.o = List(<<B, C>>, "comma", 1), !.side = "r"],
        [Op("join") EXCEPT !.o = List(<<>>, "undecided", 0)], [Op("zip") EXCEPT !.o = List(<<B, C>>, "space", 0)]}

(* the value the next operation works on; an error or query ends the run *)
RECURSIVE CurAfter(_, _)
CurAfter(cur, os) ==
  IF os = <<>> THEN cur
  ELSE LET r == Apply(cur, Head(os), {}) IN
       IF r.t \in {"err", "undef"} \/ ~IsUpdate(Head(os)) THEN ErrVal
       ELSE CurAfter(r, Tail(os))

Init == its = <<>> /\ init = Nothing /\ ops = <<>> /\ phase = "items"

AddItem == /\ phase = "items" /\ Len(its) < MaxItems
           /\ \E id \in ItemToks : its' = Append(its, ItemVal(id))
           /\ UNCHANGED <<init, ops, phase>>

ChooseForm == /\ phase = "items"
              /\ \E f \in Forms(its) \cup (IF its = <<>> THEN {Leaf("null")} ELSE {}) : init' = f
              /\ phase' = "ops" /\ UNCHANGED <<its, ops>>

AddOp == /\ phase = "ops" /\ Len(ops) < MaxOps
         /\ LET cur == CurAfter(init, ops) IN
            /\ cur.t # "err"
            /\ \E o \in (IF Len(ops) = 0
                         THEN (IF Profile = "wide" THEN Queries(cur) \cup Updates(cur) ELSE Updates(cur))
                         ELSE Probes(cur)) : ops' = Append(ops, o)
         /\ UNCHANGED <<its, init, phase>>

Finish == /\ phase = "ops" /\ Len(ops) = MaxOps
          /\ phase' = "done" /\ UNCHANGED <<its, init, ops>>

(* shorter runs are emitted only when they cannot be extended (query/error) *)
FinishShort == /\ phase = "ops" /\ Len(ops) >= 1 /\ Len(ops) < MaxOps
               /\ CurAfter(init, ops).t = "err"
               /\ phase' = "done" /\ UNCHANGED <<its, init, ops>>

Next == AddItem \/ ChooseForm \/ AddOp \/ Finish \/ FinishShort
Spec == Init /\ [][Next]_vars

Done == phase = "done"

RECURSIVE LawsAlong(_, _)
LawsAlong(cur, os) ==
  IF os = <<>> THEN TRUE
  ELSE /\ LawOp(cur, Head(os))
       /\ LET r == Apply(cur, Head(os), {}) IN
          IF r.t \in {"err", "undef"} \/ ~IsUpdate(Head(os)) THEN TRUE ELSE LawsAlong(r, Tail(os))

Laws == Done => LawsAlong(init, ops)

Emit == (Done /\ Defined(init, ops)) =>
          PrintT(<<"VEC", ToJson([init |-> init, ops |-> ops, expect |-> Run(init, ops, {}), dev |-> DevMap(init, ops)])>>)
=============================================================================
