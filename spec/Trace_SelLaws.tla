--------------------------- MODULE Trace_SelLaws ---------------------------
(* Trace validation for the selector law engines (C23, C24).  The trace is   *)
(* the list of rsass's answers to the queries emitted by MC_SelLaws (and to  *)
(* random queries the specification did not choose):                         *)
(*   {k:"universe", n}                       first event: size of the table  *)
(*   {k:"super", a, b, ia, ib, fa, fb, r}    is-superselector(a, b) = r      *)
(*                                           (r: 1 true, 0 false, -1 error;  *)
(*                                           ia/ib: universe index or 0;     *)
(*                                           fa/fb: "str" | "list" = how the *)
(*                                           argument was passed)            *)
(*   {k:"unify", a, b, st, u, sa, sb}        u = members of unify(a,b),      *)
(*                                           sa[i] = is-superselector(a,u[i])*)
(*   {k:"extend"|"replace", s, x, y, st, ps, e}   ps = members of parse(s)   *)
(*   {k:"nest"|"append", a, b, sf, se, n, em}     n = function result,       *)
(*                                           em = emitted selector           *)
(* The monitors of SelLaws.tla evaluate the laws on these OBSERVED values;   *)
(* the state is the observed truth table R (kept out of the fingerprint by   *)
(* VIEW: the trace has exactly one behaviour).  An event that breaks a law   *)
(* is not consumed - unless an OPEN finding's deviation covers exactly that  *)
(* class of counterexample (scope predicates of SelLaws.tla), which is then  *)
(* reported.                                                                 *)
EXTENDS SelLaws, Json, IOUtils, TLCExt

Rec == ndJsonDeserialize(IOEnv.TRACE)

VARIABLES l, R
vars == <<l, R>>
View == l

Init == l = 1 /\ R = <<>>

SeqToSet(s) == {s[i] : i \in DOMAIN s}
Known(e, d) == d \in SeqToSet(e.devs) /\ PrintT(<<"MSG", "KNOWN", d, e.case>>)

Explained(e, R2) ==
  CASE e.k = "universe" -> e.n >= 0
    [] e.k = "super"   -> IF SuperOK(e, R2) THEN TRUE
                          ELSE (* only the must-be-true laws may fail this way, never transitivity of the str/str table *)
                               /\ ListFormScope(e) /\ ~InTable(e)
                               /\ Known(e, "list_form_combinator")
    [] e.k = "unify"   -> IF UnifyOK(e) THEN TRUE
                          ELSE LET A == IF "super_child_through_siblings" \in SeqToSet(e.devs) THEN UnifyChildSib(e) ELSE {}
                                   B == IF "unify_keeps_general_pseudo" \in SeqToSet(e.devs) THEN UnifyLostFn(e) ELSE {} IN
                               /\ UnifyBad(e) \subseteq (A \cup B)
                               /\ (A # {} => Known(e, "super_child_through_siblings"))
                               /\ (UnifyBad(e) \ A # {} => Known(e, "unify_keeps_general_pseudo"))
    [] e.k = "extend"  -> ExtendOK(e)
    [] e.k = "replace" -> ReplaceOK(e)
    [] e.k = "nest"    -> NestOK(e)
    [] e.k = "append"  -> IF AppendOK(e) THEN TRUE
                          ELSE AppendDev(e) /\ Known(e, "amp_via_unify")
    [] OTHER -> FALSE

NextR(e) == IF e.k = "universe" THEN EmptyR(e.n) ELSE IF e.k = "super" THEN Upd(R, e) ELSE R

Next == /\ l <= Len(Rec)
        /\ LET e == Rec[l]  R2 == NextR(e) IN
           /\ Explained(e, R2) = TRUE        \* evaluated as a value: no sub-action per disjunct
           /\ R' = R2
        /\ l' = l + 1
Spec == Init /\ [][Next]_vars

(* the whole observed table, once more, when the trace has been consumed *)
TableLaws == (l = Len(Rec) + 1 /\ Len(R) > 0) => Transitive(R)

Accepted == IF TLCGet("stats").diameter - 1 = Len(Rec) THEN TRUE
            ELSE PrintT(<<"UNMATCHED", TLCGet("stats").diameter>>) /\ FALSE
=============================================================================
