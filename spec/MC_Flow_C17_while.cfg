SPECIFICATION Spec
CONSTANTS
  Kind = "while"
  Ctxs = {"top", "mixin", "fn"}
  CondSet = {"true", "false", "null", "0", "str_empty", "()"}
  MaxConds = 4
  ElseSet = {}
  NCondSet = {}
  AVals = {}
  BVals = {}
  TVals = {}
  UnitsA = {}
  UnitsB = {}
  MaxOut = 100
  Shapes = {}
  NVars = {}
  ItemCodes = {}
  MaxItems = 0
  ISeps = {}
INVARIANTS LawHolds LawWellFormed Emit
CHECK_DEADLOCK FALSE
