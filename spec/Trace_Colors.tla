---------------------------- MODULE Trace_Colors ----------------------------
(* Monitor for the colour properties.  Every recorded event is one colour      *)
(* (constructor call) together with what rsass reported about it:               *)
(*   p = "c31": channel read-backs, rebuild-from-own-channels equalities,        *)
(*              equalities with the partner notations of Colors!Partners          *)
(*   p = "c32": both sides of the adjustment laws compared by rsass's ==,         *)
(*              channel read-backs after the adjustment functions                  *)
(*   p = "c33": the emitted colour token (code points) and the read-backs          *)
(* An event is explained iff every check of the ideal specification holds, or     *)
(* each failing check is covered by a deviation that is listed as an open          *)
(* finding (field devs) and whose model predicts the observation.                  *)
EXTENDS Colors, Json, IOUtils, TLCExt

Rec == ndJsonDeserialize(IOEnv.TRACE)

VARIABLE l
Init == l = 1

SeqToSet(s) == {s[i] : i \in DOMAIN s}
IfSet(p, S) == IF p THEN S ELSE {}

HslFamily(e) == Family(e.ctor) \in {"hsl", "hwb"}

(* the constructor provably denotes integer rgb channels *)
CertainlyInteger(e) ==
  LET id == Ideal(e.ctor, e.args, e.alpha) IN IdealDefined(e.ctor, e.args) /\ id.ex = 1 /\ IsIntegerRgb(id)

(* the observation the deviation hsl_of_red_eq_green predicts *)
YellowBug(e) == /\ e.obs.r = e.obs.g /\ e.obs.g > e.obs.b
                /\ e.obs.h = 0 /\ e.obs.s = 0 /\ Near(e.obs.l, e.obs.w, 1)

CreationFails(e) ==
  IF e.st = "err" THEN IfSet(ArgsInRange(e.ctor, e.args, e.alpha), {<<"create", "error">>})
  ELSE {<<"probe", e.st>>}          \* the colour exists but a channel function / law raised an error, or rsass crashed

---------------------------------------------------------------------------
(* C31 *)
RtNames == {"rgb", "hsl", "hwb", "self"}

Fails31(e) ==
  IF e.st # "ok" THEN CreationFails(e)
  ELSE LET ps == Partners(e.ctor, e.args, e.alpha) IN
       {<<"range", n>> : n \in RangeFails(e.obs)}
       \cup {<<"rt", n>> : n \in {n \in RtNames : e.rt[n][1] # 1}}
       \cup (IF e.hasp = 0 THEN {}
             ELSE IF Len(e.pe) # Len(ps) THEN {<<"probe", "partners">>}
             ELSE {<<"peq", ps[i].ctor>> : i \in {i \in DOMAIN ps : e.pe[i][1] # 1 \/ e.pe[i][2] # 1}})

AllPeq == {<<"peq", n>> : n \in {"rgb", "hex6", "name", "hsl", "hwb"}}
AllRt  == {<<"rt", n>> : n \in RtNames}

Covers31(d, e) ==
  IF e.st # "ok" THEN {}
  ELSE
  CASE d = "hsl_channels_unclamped" ->
         (* Hsla::new keeps saturation > 100% and any lightness: the colour is then not the clamped one *)
         IF e.ctor = "hsl" /\ (e.args[2] > PC \/ e.args[3] < 0 \/ e.args[3] > PC)
         THEN IfSet(e.args[2] > PC /\ Near(e.obs.s, e.args[2], 1), {<<"range", "s">>})
              \cup IfSet((e.args[3] < 0 \/ e.args[3] > PC) /\ Near(e.obs.l, e.args[3], 1), {<<"range", "l">>})
              \cup AllPeq \cup AllRt
         ELSE {}
    [] d = "hwb_channels_unclamped" ->
         (* Hwba::new keeps negative whiteness / blackness *)
         IF e.ctor = "hwb" /\ (e.args[2] < 0 \/ e.args[3] < 0)
         THEN {<<"range", n>> : n \in {"w", "k", "s", "l"}} \cup AllPeq \cup AllRt
         ELSE {}
    [] d = "rgb_channels_rounded" ->
         (* red()/green()/blue() round to integers, the colour keeps its fractions *)
         IfSet(~CertainlyInteger(e), {<<"rt", "rgb">>})
    [] d = "hue_360_for_negative_turns" ->
         (* deg_mod (value/colors/hsla.rs): -360 % 360 is -0.0, which is "negative", so 360 is added *)
         IfSet(e.ctor \in {"hsl", "hwb"} /\ e.args[1] < 0 /\ e.args[1] % DG = 0 /\ e.obs.h = DG, {<<"range", "h">>})
    [] d = "hsl_of_red_eq_green" ->
         (* convert.rs max_min_largest: when red = green > blue the maximum is taken to be blue, so an   *)
         (* rgb-stored colour reports hue 0deg, saturation 0%, lightness = blue/255 (= its whiteness) and *)
         (* rebuilds as that grey                                                                         *)
         IfSet(YellowBug(e), {<<"rt", "hsl">>, <<"rt", "hwb">>})
    [] d = "color_eq_hsl_space" ->
         (* == between two colours that are both stored as hsl/hwb compares hue, saturation, lightness   *)
         (* (exact floats, plus an internal format flag) instead of rgba: it may be false although the   *)
         (* same two colours compare equal once both are forced into rgb storage                         *)
         IF ~HslFamily(e) THEN {}
         ELSE LET ps == Partners(e.ctor, e.args, e.alpha) IN
              {<<"rt", n>> : n \in {n \in {"hsl", "hwb"} : e.rt[n][1] = 0 /\ e.rt[n][2] = 1}}
              \cup (IF e.hasp = 0 \/ Len(e.pe) # Len(ps) THEN {}
                    ELSE {<<"peq", ps[i].ctor>> : i \in {i \in DOMAIN ps : ps[i].ctor \in {"hsl", "hwb"} /\ e.pe[i][3] = 1}})
    [] OTHER -> {}

---------------------------------------------------------------------------
(* C32 *)
AlwaysLaws == {"mix", "inv", "comp", "ah360", "ahm360", "ah180x2", "adj0", "adj_rgb", "adj_hsl", "adj_hwb", "adj_a",
               "sc0", "sc_rgb", "sc_hsl", "sc_hwb", "sc_a", "ch0", "ch_rgb", "ch_hsl", "ch_hwb", "ch_a"}

(* undo laws with the condition "nothing was clamped" (one unit inside the range; the boundary zone is not constrained) *)
UndoLaws(e) ==
  LET o == e.obs
      m == e.amt
      ma == e.amt * 10 IN
     IfSet(o.l + m <= PC - 1, {"li_da"}) \cup IfSet(o.l - m >= 1, {"da_li"})
  \cup IfSet(o.s + m <= PC - 1, {"sa_de"}) \cup IfSet(o.s - m >= 1, {"de_sa"})
  \cup IfSet(o.a + ma <= A1 - 1, {"op_tr"}) \cup IfSet(o.a - ma >= 1, {"tr_op"})

(* the channel an adjustment function must produce: moved by exactly the amount, clamped *)
MoveExpect(e) ==
  LET o == e.obs
      m == e.amt
      ma == e.amt * 10 IN
  [l_li |-> Min2(PC, o.l + m), l_da |-> Max2(0, o.l - m), s_sa |-> Min2(PC, o.s + m), s_de |-> Max2(0, o.s - m),
   a_op |-> Min2(A1, o.a + ma), a_tr |-> Max2(0, o.a - ma), gs |-> 0, gl |-> o.l, ga |-> o.a]
MoveNames == {"l_li", "l_da", "s_sa", "s_de", "a_op", "a_tr", "gs", "gl", "ga"}

Fails32(e) ==
  IF e.st # "ok" THEN CreationFails(e)
  ELSE IF RangeFails(e.obs) # {} THEN {}            \* the laws are stated for colours with channels in range (C31)
  ELSE LET x == MoveExpect(e) IN
       {<<"eq", n>> : n \in {n \in AlwaysLaws \cup UndoLaws(e) : e.eq[n][1] # 1}}
       \cup {<<"mv", n>> : n \in {n \in MoveNames : ~Near(e.mv[n], x[n], 2)}}

Covers32(d, e) ==
  IF e.st # "ok" THEN {}
  ELSE
  CASE d = "lighten_darken_unclamped" ->
         IfSet(e.obs.l + e.amt > PC /\ Near(e.mv.l_li, e.obs.l + e.amt, 2), {<<"mv", "l_li">>})
         \cup IfSet(e.obs.l - e.amt < 0 /\ Near(e.mv.l_da, e.obs.l - e.amt, 2), {<<"mv", "l_da">>})
    [] d = "color_eq_hsl_space" ->
         IF ~HslFamily(e) THEN {}
         ELSE {<<"eq", n>> : n \in {n \in AlwaysLaws \cup UndoLaws(e) : e.eq[n][1] = 0 /\ e.eq[n][2] = 1}}
    [] d = "rgb_channels_rounded" ->
         IfSet(~CertainlyInteger(e), {<<"eq", "ch_rgb">>})
    [] d = "channel_float_above_range" ->
         (* saturation(c) can be 100.00000000000003% (printed 100%); color.change rejects it as out of range *)
         IfSet(e.eq.ch_hsl[1] = -2 /\ e.obs.s = PC, {<<"eq", "ch_hsl">>})
    [] d = "hsl_of_red_eq_green" ->
         (* every function that goes through the hsl form of such a colour works on black instead *)
         IfSet(YellowBug(e), {<<"eq", n>> : n \in AlwaysLaws \cup UndoLaws(e)} \cup {<<"mv", n>> : n \in MoveNames})
    [] OTHER -> {}

---------------------------------------------------------------------------
(* C33 *)
Tol33 == 2 * RefTol      \* reference colour from rounded read-backs + token decoded through HslToRgb

Fails33(e) ==
  IF e.st = "crash" THEN {<<"probe", "crash">>}
  ELSE IF e.st # "ok" THEN {}                        \* nothing was printed
  ELSE LET D == Denotes(e.tok)
           o == e.obs IN
       IF D.ok = 0 THEN {<<"c33", "notation">>}
       ELSE IF D.ok = 2 THEN {}
       ELSE IF {"h", "w", "k", "a"} \cap RangeFails(o) # {} THEN {}    \* no reference colour (C31's business)
       ELSE LET ref == HwbToRgb(o.h, o.w, o.k)
                (* the reference colour rebuilt from hue/whiteness/blackness is used only when it agrees    *)
                (* with the (rounded) red/green/blue read-backs; if rsass's channel functions contradict   *)
                (* each other that is C31's business and only the rounded channels are compared            *)
                (* (e.g. saturation 0% for a colour whose whiteness + blackness is below 100%), or if the    *)
                (* colour is outside the hsl gamut (saturation / lightness read-back out of range, C31)       *)
                refOk == /\ \A n \in {"r", "g", "b"} : Near(ref[n], o[n], 500 + RefTol)
                         /\ {"s", "l"} \cap RangeFails(o) = {}
                         /\ (o.s = 0 => o.w + o.k >= PC - 2) IN
            IfSet(~Near(D.a, o.a, 2), {<<"c33", "alpha">>})
            \cup {<<"c33", n>> : n \in {n \in {"r", "g", "b"} : (refOk /\ ~Near(D[n], ref[n], Tol33)) \/ ~Near(D[n], o[n], 500 + Tol33)}}

Covers33(d, e) == {}

---------------------------------------------------------------------------
Fails(e)     == CASE e.p = "c31" -> Fails31(e) [] e.p = "c32" -> Fails32(e) [] e.p = "c33" -> Fails33(e)
Covers(d, e) == CASE e.p = "c31" -> Covers31(d, e) [] e.p = "c32" -> Covers32(d, e) [] e.p = "c33" -> Covers33(d, e)

(* development aid: with LENIENT set in the environment every event is consumed and the          *)
(* unexplained checks are only printed (never used by ./check)                                    *)
Lenient == "LENIENT" \in DOMAIN IOEnv

Explained(e) ==
  LET fails == Fails(e) IN
  IF fails = {} THEN TRUE
  ELSE LET devs == SeqToSet(e.devs)
           used == {d \in devs : Covers(d, e) \cap fails # {}}
           left == fails \ UNION {Covers(d, e) : d \in used} IN
       IF left = {}
       THEN \A d \in used : PrintT(<<"MSG", "KNOWN", d, e.case>>)
       ELSE PrintT(<<"MSG", ToJson([unexplained |-> e.case, checks |-> left])>>) /\ Lenient

Next == /\ l <= Len(Rec)
        /\ Explained(Rec[l]) = TRUE
        /\ l' = l + 1
Spec == Init /\ [][Next]_l

Accepted == IF TLCGet("stats").diameter - 1 = Len(Rec) THEN TRUE
            ELSE PrintT(<<"UNMATCHED", TLCGet("stats").diameter>>) /\ FALSE
=============================================================================
