------------------------------- MODULE SelRT -------------------------------
(***************************************************************************)
(* C25: selector parsing and printing round-trip.                          *)
(*                                                                         *)
(* A selector list is a sequence of classified tokens [t |-> class,        *)
(* v |-> code points]:                                                     *)
(*   elem class id pseudo pe     names (v = the DECODED identifier; for    *)
(*                               elem also `*`, `ns|a`, `*|a`, `|a`)       *)
(*   aname aop aval amod aend    the parts of an attribute selector        *)
(*   comb comma sp               `>` `+` `~`, `,`, descendant whitespace   *)
(*   open close arg              a parenthesised pseudo argument; arg =    *)
(*                               one word of a non-selector argument       *)
(* The specification owns the grammar in the direction structure -> text:  *)
(* Render spells a token sequence as source code points, each character of *)
(* a name raw, as `\c`, as `\hex ` or as `\00hex` (Enc), so that TLC       *)
(* enumerates the spellings of the same selector.  In the other direction  *)
(* the observer (engines/sellaws.py) only splits rsass's printed text into *)
(* classified tokens with RAW code points; Decode / ValidIdent below turn  *)
(* them into the denotation.                                               *)
(*                                                                         *)
(* Laws (RoundTripOK), for a source S that selector.parse accepts, with    *)
(* P1 = print(parse(S)), P2 = print(parse(P1)), EM = selector emitted for  *)
(* `S {x: y}`:                                                             *)
(*   L1  P2 is produced and denotes the same token sequence as P1          *)
(*   L2  EM is produced and denotes the same token sequence as P1          *)
(*   L3  every identifier of P1 and EM is spelled as a valid CSS identifier*)
(*   L4  P1 denotes the token sequence S was rendered from                 *)
(* Escape spelling and the quote style of attribute values are not         *)
(* constrained (denotations are compared, not texts).                      *)
(*                                                                         *)
(* Named deviations:                                                       *)
(*   ident_start_unescaped  an identifier that starts with a digit (id,    *)
(*       type), with `-` and a digit, or is a lone `-` (any) is printed    *)
(*       unescaped (`#1a`, `.-1`, `.-`): not an identifier any more        *)
(*   nonascii_symbol_raw_rejected  a code point >= U+00A1 that is not      *)
(*       alphanumeric is accepted escaped, printed raw, and rejected raw   *)
(*   second_id_replaces_first  of two id selectors in one compound only    *)
(*       the last is kept (`#i#j` is read and printed as `#j`)             *)
(*   attr_universal_ns_rule_rejected  `[*|x]` is accepted by               *)
(*       selector.parse but `[*|x] {..}` is a parse error                  *)
(***************************************************************************)
EXTENDS Integers, Sequences, FiniteSets, TLC

Tok(t, v) == [t |-> t, v |-> v]
NameClasses == {"elem", "class", "id", "pseudo", "pe", "aname"}

IsDigit(c) == c >= 48 /\ c <= 57
IsHex(c)   == IsDigit(c) \/ (c >= 65 /\ c <= 70) \/ (c >= 97 /\ c <= 102)
HexVal(c)  == IF c <= 57 THEN c - 48 ELSE IF c <= 70 THEN c - 55 ELSE c - 87
IsWs(c)    == c \in {9, 10, 12, 13, 32}
IsLetter(c) == (c >= 65 /\ c <= 90) \/ (c >= 97 /\ c <= 122)
IsNameChar(c) == IsLetter(c) \/ IsDigit(c) \/ c = 45 \/ c = 95 \/ c >= 128

RECURSIVE Cat(_)
Cat(ss) == IF Len(ss) = 0 THEN <<>> ELSE Head(ss) \o Cat(Tail(ss))

---------------------------------------------------------------------------
(* structure -> text *)

RECURSIVE HexDigits(_)
HexDigits(n) == IF n < 16 THEN <<IF n < 10 THEN 48 + n ELSE 87 + n>> ELSE HexDigits(n \div 16) \o HexDigits(n % 16)
RECURSIVE Pad6(_)
Pad6(s) == IF Len(s) >= 6 THEN s ELSE Pad6(<<48>> \o s)

Spell(c, kind) ==
  CASE kind = "raw"  -> <<c>>
    [] kind = "bs"   -> <<92, c>>
    [] kind = "hex"  -> <<92>> \o HexDigits(c) \o <<32>>
    [] OTHER         -> <<92>> \o Pad6(HexDigits(c))                 \* "hex6"

(* may the character at position p of `name` be spelled this way in an identifier? *)
SpellAllowed(name, sp, p) ==
  LET c == name[p]  kind == sp[p] IN
  CASE kind = "raw" -> /\ IsNameChar(c)
                       /\ ~(p = 1 /\ IsDigit(c))
                       /\ ~(p = 2 /\ IsDigit(c) /\ name[1] = 45 /\ sp[1] = "raw")
    [] kind = "bs"  -> ~IsHex(c) /\ c \notin {10, 12, 13}
    [] OTHER        -> TRUE
SpellingOK(name, sp) == /\ Len(sp) = Len(name)
                        /\ \A p \in 1..Len(name) : SpellAllowed(name, sp, p)
                        /\ ~(Len(name) = 1 /\ name[1] = 45 /\ sp[1] = "raw")          \* a lone `-` is no identifier
Enc(name, sp) == Cat([p \in 1..Len(name) |-> Spell(name[p], sp[p])])
Raw(name) == [p \in 1..Len(name) |-> "raw"]
IdentLike(v) == Len(v) > 0 /\ SpellingOK(v, Raw(v))

(* `sp` spells the name of token number `at`; all other names are written raw *)
Render1(tok, sp) ==
  LET e == Enc(tok.v, sp) IN
  CASE tok.t = "elem"   -> e
    [] tok.t = "class"  -> <<46>> \o e
    [] tok.t = "id"     -> <<35>> \o e
    [] tok.t = "pseudo" -> <<58>> \o e
    [] tok.t = "pe"     -> <<58, 58>> \o e
    [] tok.t = "aname"  -> <<91>> \o e
    [] tok.t = "aop"    -> tok.v
    [] tok.t = "aval"   -> IF SpellingOK(tok.v, sp) /\ Len(tok.v) > 0 THEN e ELSE <<34>> \o tok.v \o <<34>>
    [] tok.t = "amod"   -> <<32>> \o tok.v
    [] tok.t = "aend"   -> <<93>>
    [] tok.t = "comb"   -> <<32>> \o tok.v \o <<32>>
    [] tok.t = "comma"  -> <<44, 32>>
    [] tok.t = "sp"     -> <<32>>
    [] tok.t = "open"   -> <<40>>
    [] tok.t = "close"  -> <<41>>
    [] OTHER            -> tok.v                                      \* "arg"

Render(toks, at, sp) ==
  Cat([k \in 1..Len(toks) |->
        (IF k > 1 /\ toks[k - 1].t = "arg" /\ toks[k].t \notin {"close"} THEN <<32>> ELSE <<>>)
        \o Render1(toks[k], IF k = at THEN sp ELSE Raw(toks[k].v))])

(* the same text without optional whitespace around combinators and commas *)
RenderTight(toks) ==
  Cat([k \in 1..Len(toks) |->
        IF toks[k].t = "comb" THEN toks[k].v ELSE IF toks[k].t = "comma" THEN <<44>>
        ELSE (IF k > 1 /\ toks[k - 1].t = "arg" /\ toks[k].t \notin {"close"} THEN <<32>> ELSE <<>>) \o Render1(toks[k], Raw(toks[k].v))])

---------------------------------------------------------------------------
(* text -> denotation: CSS escapes in an identifier / a string *)

RECURSIVE HexRun(_, _, _), HexNum(_, _, _, _), DecFrom(_, _, _)
HexRun(t, i, max) == IF max = 0 \/ i > Len(t) \/ ~IsHex(t[i]) THEN 0 ELSE 1 + HexRun(t, i + 1, max - 1)
HexNum(t, i, n, acc) == IF n = 0 THEN acc ELSE HexNum(t, i + 1, n - 1, acc * 16 + HexVal(t[i]))
DecFrom(t, i, acc) ==
  IF i > Len(t) THEN acc
  ELSE IF t[i] # 92 THEN DecFrom(t, i + 1, Append(acc, t[i]))
  ELSE IF i = Len(t) THEN Append(acc, 65533)                         \* a lone backslash at the end
  ELSE IF IsHex(t[i + 1]) THEN
       LET n == HexRun(t, i + 1, 6)  v == HexNum(t, i + 1, n, 0)  j == i + 1 + n IN
       DecFrom(t, IF j <= Len(t) /\ IsWs(t[j]) THEN j + 1 ELSE j, Append(acc, IF v = 0 \/ v > 1114111 THEN 65533 ELSE v))
  ELSE DecFrom(t, i + 2, Append(acc, t[i + 1]))
Decode(raw) == DecFrom(raw, 1, <<>>)

Quoted(raw) == Len(raw) >= 2 /\ raw[1] \in {34, 39} /\ raw[Len(raw)] = raw[1]
DecodeVal(raw) == IF Quoted(raw) THEN Decode(SubSeq(raw, 2, Len(raw) - 1)) ELSE Decode(raw)

(* is the raw spelling an identifier?  (escapes are fine anywhere) *)
ValidIdent(raw) ==
  /\ Len(raw) > 0
  /\ ~IsDigit(raw[1])
  /\ ~(raw[1] = 45 /\ (Len(raw) = 1 \/ IsDigit(raw[2])))

HasBar(v) == \E p \in 1..Len(v) : v[p] \in {124, 42}
(* the identifier parts of a (possibly namespaced) name: `ns|a` -> ns, a; `*` parts are skipped *)
RECURSIVE SplitBar(_, _, _)
SplitBar(v, i, cur) == IF i > Len(v) THEN <<cur>>
                       ELSE IF v[i] = 124 THEN <<cur>> \o SplitBar(v, i + 1, <<>>)
                       ELSE IF v[i] = 92 /\ i < Len(v) THEN SplitBar(v, i + 2, cur \o <<92, v[i + 1]>>)
                       ELSE SplitBar(v, i + 1, Append(cur, v[i]))
ValidName(raw) == \A part \in {SplitBar(raw, 1, <<>>)[k] : k \in 1..Len(SplitBar(raw, 1, <<>>))} :
                     part = <<>> \/ part = <<42>> \/ ValidIdent(part)

(* observed raw tokens -> denotation *)
Norm(toks) == [k \in 1..Len(toks) |->
                 IF toks[k].t \in NameClasses THEN Tok(toks[k].t, Decode(toks[k].v))
                 ELSE IF toks[k].t = "aval" THEN Tok("aval", DecodeVal(toks[k].v))
                 ELSE toks[k]]
InvalidAt(toks) == {k \in 1..Len(toks) : toks[k].t \in NameClasses /\ ~ValidName(toks[k].v)}
Valid(toks) == InvalidAt(toks) = {}

---------------------------------------------------------------------------
(* the laws, on one observation e = [den, p1, p2, em] (p1, p2, em = [st, toks]) *)

L1(e) == e.p2.st = "ok" /\ Norm(e.p2.toks) = Norm(e.p1.toks)
L2(e) == e.em.st = "ok" /\ Norm(e.em.toks) = Norm(e.p1.toks)
L3(e) == Valid(e.p1.toks) /\ (e.em.st = "ok" => Valid(e.em.toks))
L4(e) == Norm(e.p1.toks) = e.den
RoundTripOK(e) == e.p1.st # "ok" \/ (L1(e) /\ L2(e) /\ L3(e) /\ L4(e))

(* scope predicates of the deviations *)
StartsDigit(v)     == Len(v) > 0 /\ IsDigit(v[1])
StartsDashDigit(v) == Len(v) > 1 /\ v[1] = 45 /\ IsDigit(v[2])
DigitStartScope(toks) ==
  \A k \in InvalidAt(toks) : LET d == Decode(toks[k].v) IN
     StartsDashDigit(d) \/ d = <<45>> \/ (toks[k].t \in {"id", "elem"} /\ StartsDigit(d))
DevDigitStart(e) == /\ L1(e) /\ L2(e) /\ L4(e)
                    /\ DigitStartScope(e.p1.toks) /\ DigitStartScope(e.em.toks)

(* code points the pinned tree prints raw but does not read raw: >= U+00A1 and not alphanumeric (the generated ones) *)
NonAlnumHigh == {169, 215, 8594, 128512}
HasSymbol(den) == \E k \in 1..Len(den) : den[k].t \in NameClasses \cup {"aval"} /\ \E p \in 1..Len(den[k].v) : den[k].v[p] \in NonAlnumHigh
DevSymbol(e) == /\ HasSymbol(e.den) /\ L4(e) /\ Valid(e.p1.toks)
                /\ e.p2.st = "err" /\ e.em.st = "err"
(* both at once: a name with such a symbol that also starts like a number *)
DevSymbolDigit(e) == /\ HasSymbol(e.den) /\ L4(e) /\ ~Valid(e.p1.toks) /\ DigitStartScope(e.p1.toks)
                     /\ e.p2.st = "err" /\ e.em.st = "err"

(* two ids in one compound: only the last one is kept *)
TwoIdsAt(den) == {k \in 1..(Len(den) - 1) : den[k].t = "id" /\ den[k + 1].t = "id"}
DropAt(s, K) == LET keep == {k \in 1..Len(s) : k \notin K} IN
                [j \in 1..Cardinality(keep) |-> s[CHOOSE k \in keep : Cardinality({m \in keep : m < k}) = j - 1]]
DevTwoIds(e) == /\ TwoIdsAt(e.den) # {} /\ L1(e) /\ L2(e) /\ L3(e)
                /\ Norm(e.p1.toks) = DropAt(e.den, TwoIdsAt(e.den))

HasUniversalNsAttr(den) == \E k \in 1..Len(den) : den[k].t = "aname" /\ \E p \in 1..Len(den[k].v) : den[k].v[p] = 42
DevAttrNs(e) == /\ HasUniversalNsAttr(e.den) /\ L1(e) /\ L4(e) /\ Valid(e.p1.toks) /\ e.em.st = "err"
=============================================================================
