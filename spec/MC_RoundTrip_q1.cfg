SPECIFICATION Spec
CONSTANTS
  MaxItems = 1
  KS = {"r_class", "r_id", "r_attr", "r_pseudo", "r_desc", "d_ident", "d_str", "d_num", "d_hex", "d_urlq", "d_url", "d_call", "media", "supports", "fontface", "keyframes", "comment"}
  CS = {"ascii", "latin1", "latin1sym", "bmp", "bmpsym", "astral", "astralsym", "private", "privastral", "combining", "dquote", "squote", "quotes2", "backslash", "control", "newline", "tab", "space"}
  SH = {"solo", "mid", "dig", "two"}
  CT = {}
  FN = {}
INVARIANT Generated
INVARIANT EmitVec
CHECK_DEADLOCK FALSE
