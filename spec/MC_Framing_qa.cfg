SPECIFICATION Spec
CONSTANTS
  MaxLen = 4
  StepMode = FALSE
  DeclSet = {"id", "pna"}
  CpropSet = {}
  CmtSet = {}
  RuleSet = {"asc", "na"}
  AtAttr = {"-", "na", "name"}
  Extra = {"sup", "kf", "imp"}
INVARIANT DesignAccepted
INVARIANT Sensitive
INVARIANT EmitVec
CHECK_DEADLOCK FALSE
