SPECIFICATION SpecExplain
CONSTANTS
  Files = {"r", "a", "b"}
  Root = "r"
  SubFiles = {"b"}
  MaxDepth = 8
  FileSeq <- Seq3
  MaxStmts = 0
  GenKinds = {"use", "forward", "import", "loadcss"}
  GenSpellings = {"plain", "dot", "dd"}
  DevChoices <- DevIdeal
  MaxFaultAt = 0
INVARIANTS Emit
CHECK_DEADLOCK FALSE
