----------------------------- MODULE MC_Values -----------------------------
(* C12: all ordered pairs of a bounded universe of SassScript values.        *)
(* TLC checks the laws on the reference relations Eq/Lt for every pair (and   *)
(* transitivity over all triples once), and emits one vector per ordered      *)
(* pair with the reference observable (2 = not fixed).                        *)
EXTENDS Values, Json

CONSTANT USel     \* which universe ("q" | "t")

VARIABLES phase, ia, ib
vars == <<phase, ia, ib>>

Red   == 16711680
Blue  == 255
One2  == ListV("space", 0, <<NumV(1, 1, ""), NumV(2, 1, "")>>)

UBase == <<
  (* numbers: 0, -0, 1 and its neighbours, unit variants, specials *)
  NumV(0, 1, ""), NumSpecial("negzero", ""), NumV(1, 1, ""),
  NumStep(1, 1, 1, 0, ""), NumStep(1, 1, -1, 0, ""), NumStep(1, 1, -2, 0, ""),
  NumV(2, 1, ""), NumStep(2, 1, -2, 1, ""), NumV(1000001, 1000000, ""), NumV(3, 10, ""),
  NumV(1, 1, "px"), NumStep(1, 1, -1, 0, "px"), NumV(0, 1, "px"), NumV(96, 1, "px"), NumV(1, 1, "in"), NumV(254, 100, "cm"),
  NumV(1, 1, "s"), NumV(1000, 1, "ms"), NumV(360, 1, "deg"), NumV(1, 1, "turn"), NumV(1, 1, "em"), NumV(1, 1, "%"),
  NumSpecial("nan", ""), NumSpecial("inf", ""), NumSpecial("-inf", ""),
  (* strings *)
  StrV("a", 1), StrV("a", 2), StrV("a", 0), StrV("b", 1), StrV("A", 0), StrV("red", 1), StrV("red", 0), StrV("1", 1), StrV("", 1),
  (* colors *)
  ColorV("red", Red, 100), ColorV("#f00", Red, 100), ColorV("#ff0000", Red, 100), ColorV("rgb(255,0,0)", Red, 100),
  ColorV("hsl(0,100%,50%)", Red, 100), ColorV("blue", Blue, 100), ColorV("rgba(255,0,0,0.5)", Red, 50),
  ColorV("transparent", 0, 0), ColorV("rgba(0,0,0,0)", 0, 0),
  (* lists *)
  One2, ListV("comma", 0, <<NumV(1, 1, ""), NumV(2, 1, "")>>), ListV("space", 1, <<NumV(1, 1, ""), NumV(2, 1, "")>>),
  ListV("comma", 0, <<NumV(1, 1, "")>>), ListV("space", 0, <<NumV(1, 1, "in"), NumV(2, 1, "")>>),
  ListV("space", 0, <<NumV(96, 1, "px"), NumV(2, 1, "")>>), ListV("space", 0, <<NumStep(1, 1, -1, 0, ""), NumV(2, 1, "")>>),
  ListV("space", 0, <<One2, NumV(3, 1, "")>>), ListV("space", 0, <<StrV("a", 1), StrV("b", 1)>>), ListV("space", 0, <<StrV("a", 0), StrV("b", 0)>>),
  ListV("none", 0, <<>>), ListV("none", 1, <<>>),
  (* maps *)
  MapV(<<>>), MapV(<<PairV(StrV("a", 0), NumV(1, 1, ""))>>), MapV(<<PairV(StrV("a", 1), NumV(1, 1, ""))>>),
  MapV(<<PairV(StrV("a", 0), NumV(1, 1, "")), PairV(StrV("b", 0), NumV(2, 1, ""))>>),
  MapV(<<PairV(StrV("b", 0), NumV(2, 1, "")), PairV(StrV("a", 0), NumV(1, 1, ""))>>),
  MapV(<<PairV(StrV("a", 0), NumV(2, 1, ""))>>),
  (* maps of equal size that differ in keys, with null values: a missing key is not a null value *)
  MapV(<<PairV(StrV("x", 0), NullV), PairV(StrV("k", 0), NumV(1, 1, ""))>>),
  MapV(<<PairV(StrV("y", 0), NumV(2, 1, "")), PairV(StrV("k", 0), NumV(1, 1, ""))>>),
  MapV(<<PairV(StrV("k", 0), NumV(1, 1, "")), PairV(StrV("x", 0), NullV)>>),
  V("map", "merge", 0, 1, 0, 0, "", <<PairV(StrV("k", 0), NumV(1, 1, "")), PairV(StrV("z", 0), NullV)>>),
  MapV(<<PairV(StrV("k", 0), NumV(1, 1, "")), PairV(StrV("w", 0), NumV(3, 1, ""))>>),
  MapV(<<PairV(StrV("a", 0), NullV)>>), MapV(<<PairV(StrV("b", 0), NullV)>>),
  (* nested maps, maps with list keys, lists containing null *)
  MapV(<<PairV(StrV("a", 0), MapV(<<PairV(StrV("b", 0), NumV(1, 1, ""))>>))>>),
  MapV(<<PairV(StrV("a", 0), MapV(<<PairV(StrV("b", 0), NullV)>>))>>),
  MapV(<<PairV(StrV("a", 0), MapV(<<PairV(StrV("c", 0), NumV(1, 1, ""))>>))>>),
  MapV(<<PairV(One2, NumV(3, 1, ""))>>), MapV(<<PairV(ListV("comma", 0, <<NumV(1, 1, ""), NumV(2, 1, "")>>), NumV(3, 1, ""))>>),
  ListV("space", 0, <<NumV(1, 1, ""), NullV>>), ListV("space", 0, <<NullV, NumV(1, 1, "")>>), ListV("space", 0, <<NumV(1, 1, ""), BoolV(0)>>),
  (* booleans, null, functions *)
  BoolV(1), BoolV(0), NullV, FnV("red"), FnV("blue")
>>

U == UBase
N == Len(U)

Init == phase = "picka" /\ ia = 0 /\ ib = 0
PickA == phase = "picka" /\ \E i \in 1..N : ia' = i /\ phase' = "pickb" /\ UNCHANGED ib
PickB == phase = "pickb" /\ \E i \in 1..N : ib' = i /\ phase' = "done" /\ UNCHANGED ia
Next == PickA \/ PickB
Spec == Init /\ [][Next]_vars

Done == phase = "done"

(* state-independent checks are evaluated in one successor state: successor states are evaluated by *)
(* worker threads, which get the large stack (-Xss) the digit-sequence recursion needs; the initial   *)
(* state is evaluated on the main thread                                                              *)
Once == phase = "pickb" /\ ia = 1
WellFormedU == Once => \A i \in 1..N : U[i].t = "num" => StepOK(U[i])
Laws == Done => (LawsReference(U[ia], U[ib]) /\ LawsReference(U[ib], U[ia]))
(* equality is transitive wherever the reference is fixed (checked once) *)
EqM == [i \in 1..N, k \in 1..N |-> Eq(U[i], U[k], {})]      \* constant: evaluated once
Transitive == Once =>
   \A i \in 1..N, k \in 1..N, m \in 1..N : (EqM[i, k] = 1 /\ EqM[k, m] = 1) => EqM[i, m] # 0
(* the deviation breaks the symmetry law in the model: it is a real deviation *)
DevBreaksSymmetry == Once =>
   \E i \in 1..N, k \in 1..N : U[i].t = "num" /\ U[k].t = "num" /\ Eq(U[i], U[k], {"numeq_relative_to_lhs"}) # Eq(U[k], U[i], {"numeq_relative_to_lhs"})

Emit == Done => PrintT(<<"VEC", ToJson([a |-> U[ia], b |-> U[ib], ia |-> ia, ib |-> ib,
                                         expect |-> ObservePair(U[ia], U[ib], {}), dev |-> PairDevMap(U[ia], U[ib])])>>)
=============================================================================
