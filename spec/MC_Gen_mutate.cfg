SPECIFICATION Spec
CONSTANTS
  Mode = "mutate"
  MaxLen = 0
  MaxDepth = 64
  MaxMut = 3
  MinLen = 0
  Climb = 0
  Alphabet <- SoupAlphabet
INVARIANTS DepthOk EmitVec
CHECK_DEADLOCK FALSE
