------------------------------ MODULE StyleEq ------------------------------
(* C08 - expanded and compressed styles describe the same stylesheet.         *)
(*                                                                            *)
(* StyleEquiv(E, C) over STRUCTURE TREES read from the two outputs by the      *)
(* observer (engines/csstok.py: tokenizer + brace matcher, no normalisation):  *)
(*   node  = [k |-> "rule"|"atrule"|"atstmt"|"decl"|"import"|"comment"|"stmt",  *)
(*            p |-> prelude / property-name tokens, v |-> value tokens,        *)
(*            c |-> children]                                                  *)
(*   token = [c |-> class, t |-> code points of the raw token text]            *)
(*           classes: ws cmt bom str badstr num id at hash url d               *)
(* Equal node by node in order, token sequences compared by NORMAL FORM:       *)
(*   - blanks and comments are separators; a separator is dropped where it     *)
(*     cannot matter (next to , ; : ( ) [ ] { } > ~ + ! / = on the relevant     *)
(*     side, at the ends) and is otherwise ONE separator (so `a .b` # `a.b`);  *)
(*   - numbers by value: sign, integer digits without leading zeros, fraction  *)
(*     digits without trailing zeros; exponent and unit exactly;               *)
(*   - colors by decoded rgba: #rgb #rgba #rrggbb #rrggbbaa, the 148 names,    *)
(*     transparent, rgb(r, g, b) and rgba(r, g, b, a) with integer channels    *)
(*     (not in style-rule preludes: there # starts an id selector);            *)
(*   - everything else exactly (quotes, units, identifiers, commas, !important)*)
(*   - comment nodes and the leading @charset / BOM are not compared; a block   *)
(*     (rule / at-rule) that holds nothing but comments or nothing at all is    *)
(*     not compared either (compressed style drops the comments and with them   *)
(*     the rule).                                                               *)
(* Both compilations fail with the same message, or both succeed.             *)
EXTENDS Integers, Sequences, ColorNames

CP(tok) == tok.t
IsSep(tok) == tok.c \in {"ws", "cmt", "bom"}
IsD(tok, cp) == tok.c = "d" /\ tok.t = <<cp>>

(* delimiters after which a separator cannot matter:  ( [ { , ; : > ~ + ! / =        *)
AfterFree == {40, 91, 123, 44, 59, 58, 62, 126, 43, 33, 47, 61}
(* delimiters before which a separator cannot matter: ) ] } , ; > ~ + ! / =           *)
(* (not `:` - `a :hover` is not `a:hover` - and not `(` - `and (x)` is not `and(x)`)  *)
BeforeFree == {41, 93, 125, 44, 59, 62, 126, 43, 33, 47, 61}
FreeAfter(tok) == tok.c = "d" /\ tok.t[1] \in AfterFree
FreeBefore(tok) == tok.c = "d" /\ tok.t[1] \in BeforeFree

(* The non-separator tokens of ts are numbered 1..n; NonSep(ts) are their indices in ts.  Token  *)
(* k is "preceded by a separator that matters" iff something lies between it and token k-1 and *)
(* neither neighbour makes it irrelevant.  (Formulated with SelectSeq and function constructors: *)
(* TLC evaluates these iteratively; outputs with thousands of tokens in one value occur.)        *)
NonSep(ts) == SelectSeq([i \in 1..Len(ts) |-> i], LAMBDA i : ~IsSep(ts[i]))
SepBefore(ts, idx, k) == /\ k > 1
                         /\ idx[k] > idx[k - 1] + 1
                         /\ ~FreeAfter(ts[idx[k - 1]])
                         /\ ~FreeBefore(ts[idx[k]])

(* ---- numbers ---------------------------------------------------------------------- *)
IsDigit(cp) == cp >= 48 /\ cp <= 57
RECURSIVE DigitsEnd(_, _)
DigitsEnd(t, i) == IF i <= Len(t) /\ IsDigit(t[i]) THEN DigitsEnd(t, i + 1) ELSE i     \* first index that is not a digit
RECURSIVE StripLead(_)
StripLead(d) == IF d # <<>> /\ d[1] = 48 THEN StripLead(Tail(d)) ELSE d
RECURSIVE StripTrail(_)
StripTrail(d) == IF d # <<>> /\ d[Len(d)] = 48 THEN StripTrail(SubSeq(d, 1, Len(d) - 1)) ELSE d

(* <<sign, integer digits, fraction digits, rest (exponent / unit / %)>>, normalised by value *)
NumNorm(t) ==
  LET neg  == t # <<>> /\ t[1] = 45
      s0   == IF t # <<>> /\ t[1] \in {43, 45} THEN 2 ELSE 1
      ie   == DigitsEnd(t, s0)
      hasf == ie + 1 <= Len(t) /\ t[ie] = 46 /\ IsDigit(t[ie + 1])
      fe   == IF hasf THEN DigitsEnd(t, ie + 1) ELSE ie
      int  == StripLead(SubSeq(t, s0, ie - 1))
      frac == IF hasf THEN StripTrail(SubSeq(t, ie + 1, fe - 1)) ELSE <<>>
      rest == SubSeq(t, fe, Len(t))
      zero == int = <<>> /\ frac = <<>>
  IN <<IF neg /\ ~zero THEN "-" ELSE "", int, frac, rest>>

(* ---- colors ------------------------------------------------------------------------- *)
HexVal(cp) == IF cp >= 48 /\ cp <= 57 THEN cp - 48
              ELSE IF cp >= 97 /\ cp <= 102 THEN cp - 87
              ELSE IF cp >= 65 /\ cp <= 70 THEN cp - 55 ELSE -1
Lower(t) == [i \in DOMAIN t |-> IF t[i] >= 65 /\ t[i] <= 90 THEN t[i] + 32 ELSE t[i]]

Opaque == <<"d", <<49>>, <<>>>>     \* alpha as <<"d", integer digits, fraction digits>>: 1
Clear  == <<"d", <<>>, <<>>>>       \* 0
ByteAlpha(b) == IF b = 255 THEN Opaque ELSE IF b = 0 THEN Clear ELSE <<"b", <<b>>, <<>>>>    \* n/255 of a hex digit pair
None == <<"none">>

HashColor(t) ==       \* t = # followed by 3, 4, 6 or 8 hex digits
  LET n == Len(t) - 1
      h(i) == HexVal(t[i + 1]) IN
  IF n \notin {3, 4, 6, 8} \/ \E i \in 1..n : h(i) < 0 THEN None
  ELSE IF n <= 4 THEN <<"C", 17 * h(1), 17 * h(2), 17 * h(3), IF n = 4 THEN ByteAlpha(17 * h(4)) ELSE Opaque>>
  ELSE <<"C", 16 * h(1) + h(2), 16 * h(3) + h(4), 16 * h(5) + h(6), IF n = 8 THEN ByteAlpha(16 * h(7) + h(8)) ELSE Opaque>>

Transparent == <<116, 114, 97, 110, 115, 112, 97, 114, 101, 110, 116>>
NameSet == {NamedColors[i].n : i \in DOMAIN NamedColors}          \* constant: evaluated once
NameRgb == [nm \in NameSet |-> NamedColors[CHOOSE i \in DOMAIN NamedColors : NamedColors[i].n = nm].v]
NameColorL(lc) ==
  IF lc = Transparent THEN <<"C", 0, 0, 0, Clear>>
  ELSE IF lc \in NameSet THEN <<"C", NameRgb[lc][1], NameRgb[lc][2], NameRgb[lc][3], Opaque>>
  ELSE None
NameColor(t) == IF Len(t) < 3 \/ Len(t) > 20 THEN None ELSE NameColorL(Lower(t))

(* a channel: a plain unsigned integer token of at most 3 digits, value <= 255; -1 otherwise *)
Chan(tok) ==
  IF tok.c # "num" THEN -1
  ELSE LET n == NumNorm(tok.t) IN
       IF n[1] # "" \/ n[3] # <<>> \/ n[4] # <<>> \/ Len(n[2]) > 3 THEN -1
       ELSE LET d == n[2]
                v == IF d = <<>> THEN 0 ELSE IF Len(d) = 1 THEN d[1] - 48
                     ELSE IF Len(d) = 2 THEN 10 * (d[1] - 48) + d[2] - 48
                     ELSE 100 * (d[1] - 48) + 10 * (d[2] - 48) + d[3] - 48
            IN IF v <= 255 THEN v ELSE -1
AlphaOf(tok) ==      \* a plain unsigned decimal token: <<int, frac>>; None otherwise
  IF tok.c # "num" THEN None
  ELSE LET n == NumNorm(tok.t) IN IF n[1] # "" \/ n[4] # <<>> THEN None ELSE <<"d", n[2], n[3]>>

Rgb  == <<114, 103, 98>>
Rgba == <<114, 103, 98, 97>>
(* the non-separator tokens from position k on are  rgb ( N , N , N )  or  rgba ( N , N , N , A ):   *)
(* <<color key, number of tokens>> or None.  T(j) = the j-th non-separator token.                    *)
FnColor(ts, idx, k) ==
  LET T(j) == ts[idx[j]] IN
  IF ~(T(k).c = "id" /\ Lower(T(k).t) \in {Rgb, Rgba}) \/ k + 7 > Len(idx) THEN None
  ELSE IF ~(IsD(T(k + 1), 40) /\ IsD(T(k + 3), 44) /\ IsD(T(k + 5), 44)) THEN None
  ELSE LET r == Chan(T(k + 2))  g == Chan(T(k + 4))  b == Chan(T(k + 6)) IN
       IF r < 0 \/ g < 0 \/ b < 0 THEN None
       ELSE IF IsD(T(k + 7), 41) THEN <<<<"C", r, g, b, Opaque>>, 8>>
       ELSE IF k + 9 <= Len(idx) /\ IsD(T(k + 7), 44) /\ IsD(T(k + 9), 41) /\ AlphaOf(T(k + 8)) # None
            THEN <<<<"C", r, g, b, AlphaOf(T(k + 8))>>, 10>>
       ELSE None
(* token k lies inside (not at the start of) such a function notation *)
InsideFn(ts, idx, k) == \E j \in 1..9 : k - j >= 1 /\ FnColor(ts, idx, k - j) # None /\ FnColor(ts, idx, k - j)[2] > j

(* ---- named deviations (open findings) ------------------------------------------------------ *)
(* "interp_uses_output_style": #{..} formats the interpolated value with the OUTPUT style      *)
(*   (sass/string.rs SassString::evaluate), so the content of a quoted string depends on the     *)
(*   style: "1, 2 rgba(0, 0, 0, 0) 0.5" / "1,2 transparent .5".  Scope: string tokens; under   *)
(*   the deviation a string is compared by its quote and the normal form of its CONTENT read    *)
(*   as a value (tok.sub = the content tokenised by the observer), i.e. it may differ exactly   *)
(*   in what the value formatter changes.  Anything else in the string is still compared.       *)
(* "comment_not_evaluated_compressed": a /* */ comment is not evaluated in compressed style     *)
(*   (output/transform.rs), so an error or a side effect of an interpolation inside it exists   *)
(*   only in expanded style.  Scope (Trace_StyleEq): the compressed result equals the expanded  *)
(*   result of the same source without its comments.                                             *)
(* "plus_join_output_style": `1 + (0.5, 1)` is kept as a lazy join and printed operand by operand *)
(*   in the OUTPUT style (css/binop.rs Display): `10.5, 1` / `1.5,1`.  Scope: number tokens;      *)
(*   under the deviation a 0 directly before the decimal point does not count (the compressed    *)
(*   operand lost its leading zero before it was glued to the digits on its left).               *)
Deviations == {"interp_uses_output_style", "comment_not_evaluated_compressed", "plus_join_output_style"}
TokenDeviations == {"interp_uses_output_style", "plus_join_output_style"}

DropZeroBeforePoint(t) == SelectSeq([i \in 1..Len(t) |-> IF t[i] = 48 /\ i < Len(t) /\ t[i + 1] = 46 THEN -1 ELSE t[i]], LAMBDA c : c # -1)

(* ---- keys ------------------------------------------------------------------------------ *)
(* the normal form of a token sequence: one key per non-separator token, <<sep flag, key>>;    *)
(* the tokens inside an rgb()/rgba() notation are represented by the one colour key             *)
RECURSIVE NormToks(_, _, _)
TokKey(tok, colors, Dev) ==
  IF tok.c = "num" THEN <<"N">> \o NumNorm(IF "plus_join_output_style" \in Dev THEN DropZeroBeforePoint(tok.t) ELSE tok.t)
  ELSE IF colors /\ tok.c = "hash" /\ HashColor(tok.t) # None THEN HashColor(tok.t)
  ELSE IF colors /\ tok.c = "id" /\ NameColor(tok.t) # None THEN NameColor(tok.t)
  ELSE IF tok.c = "str" /\ "interp_uses_output_style" \in Dev /\ "sub" \in DOMAIN tok
       THEN <<"S", tok.t[1], NormToks(tok.sub, TRUE, Dev)>>
  ELSE <<"X", tok.c, tok.t>>

SKIP == <<"_">>
NormWith(ts, idx, colors, Dev) ==
  LET keys == [k \in 1..Len(idx) |->
                 IF colors /\ InsideFn(ts, idx, k) THEN SKIP
                 ELSE IF colors /\ FnColor(ts, idx, k) # None THEN <<IF SepBefore(ts, idx, k) THEN 1 ELSE 0, FnColor(ts, idx, k)[1]>>
                 ELSE <<IF SepBefore(ts, idx, k) THEN 1 ELSE 0, TokKey(ts[idx[k]], colors, Dev)>>]
  IN SelectSeq(keys, LAMBDA x : x # SKIP)
NormToks(ts, colors, Dev) == NormWith(ts, NonSep(ts), colors, Dev)

(* ---- trees -------------------------------------------------------------------------------- *)
Charset == <<64, 99, 104, 97, 114, 115, 101, 116>>
NoTok == [c |-> "none", t |-> <<>>]
FirstTok(ts) == LET idx == NonSep(ts) IN IF idx = <<>> THEN NoTok ELSE ts[idx[1]]

IsCharset(n) == n.k = "atstmt" /\ FirstTok(n.p).c = "at" /\ Lower(FirstTok(n.p).t) = Charset

(* a node is compared unless it is a comment or a block that holds nothing that is compared *)
RECURSIVE Keep(_)
Keep(n) == IF n.k = "comment" THEN FALSE
           ELSE IF n.k \in {"rule", "atrule"} THEN \E i \in DOMAIN n.c : Keep(n.c[i])
           ELSE TRUE

RECURSIVE NormNodes(_, _)
NormNode(n, Dev) == [k |-> n.k, p |-> NormToks(n.p, n.k # "rule", Dev), v |-> NormToks(n.v, TRUE, Dev), c |-> NormNodes(n.c, Dev)]
NormNodes(ns, Dev) == LET kept == SelectSeq(ns, Keep) IN [i \in 1..Len(kept) |-> NormNode(kept[i], Dev)]

NormTop(ns, Dev) == IF ns # <<>> /\ IsCharset(ns[1]) THEN NormNodes(SubSeq(ns, 2, Len(ns)), Dev) ELSE NormNodes(ns, Dev)

StyleEquivD(E, C, Dev) == NormTop(E, Dev) = NormTop(C, Dev)
StyleEquiv(E, C) == StyleEquivD(E, C, {})

(* a result: [st |-> "ok" | "err" | other, tree |-> nodes, msg |-> code points of the error message] *)
Judged(a, b) == a.st \in {"ok", "err"} /\ b.st \in {"ok", "err"}        \* panics, aborts, timeouts: C01, not compared
ResultEquivD(a, b, Dev) ==
  IF a.st = "ok" /\ b.st = "ok" THEN StyleEquivD(a.tree, b.tree, Dev)
  ELSE IF a.st = "err" /\ b.st = "err" THEN a.msg = b.msg
  ELSE FALSE
ResultEquiv(a, b) == ResultEquivD(a, b, {})
=============================================================================
