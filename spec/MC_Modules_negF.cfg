SPECIFICATION Spec
CONSTANTS
  MaxW = 3
  MaxRoot = 1
  MaxMid = 1
  RootTargets = {"m"}
  Spellings = {"plain"}
  CfgPool = "none"
  ListPool = "basic"
  AccNs = {"m"}
  LawDev = {"fwd_prefix_filter_swapped"}
  AccMembers <- AccMembersFwd
INVARIANTS InvFilterExact
CHECK_DEADLOCK FALSE
