SPECIFICATION Spec
CONSTANTS
  MaxW = 4
  MaxRoot = 2
  MaxMid = 1
  RootTargets = {"m", "w", "math"}
  MidTargets = {"math", "w"}
  Spellings = {"plain"}
  CfgPool = "pi"
  ListPool = "pi"
  AccNs = {"", "m", "w", "n", "math"}
  LawDev = {}
  AccMembers <- AccMembersPi
INVARIANTS InvNamespaceOnly InvConfigOnlyDefault InvShowHideComplement InvFilterExact InvBuiltin Emit
CHECK_DEADLOCK FALSE
