----------------------------- MODULE MC_StyleEq -----------------------------
(* C08: StyleEquiv checked on the design.  Abstract stylesheets (sequences of   *)
(* items over selector kinds and value kinds) are written by the abstract       *)
(* expanded and compressed writers as the observer's structure trees            *)
(* (StyleVocab.tla holds the token records of every selector / value text).     *)
(* Invariants: the two renderings of every stylesheet are StyleEquiv; every     *)
(* faulty compressed rendering that differs from the correct one is rejected.   *)
(* ASSUMEs: StyleEquiv is an equivalence on the renderings of the one-item      *)
(* universe and relates E(x) and C(y) exactly when x and y are the same          *)
(* stylesheet.  Every stylesheet is printed as a vector and compiled by rsass   *)
(* in both styles (Trace_StyleEq validates the real outputs).                   *)
EXTENDS StyleEq, StyleVocab, TLC, Json

CONSTANTS MaxItems, Sels, Vals, Kinds

VARIABLES prog, phase
vars == <<prog, phase>>

Item(k, s, a, b) == [k |-> k, s |-> s, a |-> a, b |-> b]

Init == prog = <<>> /\ phase = "build"
Add == /\ phase = "build" /\ Len(prog) < MaxItems
       /\ \/ "rule" \in Kinds /\ \E s \in Sels, a \in Vals : prog' = Append(prog, Item("rule", s, a, "-"))
          \/ "rule2" \in Kinds /\ \E a \in Vals, b \in Vals : prog' = Append(prog, Item("rule2", "t", a, b))
          \/ "media" \in Kinds /\ \E s \in Sels, a \in Vals : prog' = Append(prog, Item("media", s, a, "-"))
          \/ "import" \in Kinds /\ prog' = Append(prog, Item("import", "-", "-", "-"))
          \/ "cmt" \in Kinds /\ prog' = Append(prog, Item("cmt", "-", "-", "-"))
       /\ UNCHANGED phase
Finish == phase = "build" /\ prog # <<>> /\ phase' = "done" /\ UNCHANGED prog
Next == Add \/ Finish
Spec == Init /\ [][Next]_vars

(* ---- the abstract writers -------------------------------------------------------------- *)
Node(k, p, v, c) == [k |-> k, p |-> p, v |-> v, c |-> c]

(* sel / val: functions from kinds to token sequences (correct or faulty) *)
DeclE(name, val) == Node("decl", name, Blank \o val, <<>>)
DeclC(name, val) == Node("decl", name, val, <<>>)
RuleE(sel, decls) == Node("rule", sel \o Blank, <<>>, decls)
RuleC(sel, decls) == Node("rule", sel, <<>>, decls)

ItemE(it) ==
  CASE it.k = "rule"   -> <<RuleE(SelE[it.s], <<DeclE(PropP, ValE[it.a])>>)>>
    [] it.k = "rule2"  -> <<RuleE(SelE[it.s], <<DeclE(PropP, ValE[it.a]), DeclE(PropQ, ValE[it.b])>>)>>
    [] it.k = "media"  -> <<Node("atrule", MediaE, <<>>, <<RuleE(SelE[it.s], <<DeclE(PropP, ValE[it.a])>>)>>)>>
    [] it.k = "import" -> <<Node("import", ImportP, <<>>, <<>>)>>
    [] it.k = "cmt"    -> <<Node("comment", CmtTok, <<>>, <<>>)>>

(* the compressed writer, with the selector / value tables as parameters so that faulty writers are the same code *)
ItemCW(it, sel, val) ==
  CASE it.k = "rule"   -> <<RuleC(sel[it.s], <<DeclC(PropP, val[it.a])>>)>>
    [] it.k = "rule2"  -> <<RuleC(sel[it.s], <<DeclC(PropP, val[it.a]), DeclC(PropQ, val[it.b])>>)>>
    [] it.k = "media"  -> <<Node("atrule", MediaC, <<>>, <<RuleC(sel[it.s], <<DeclC(PropP, val[it.a])>>)>>)>>
    [] it.k = "import" -> <<Node("import", ImportP, <<>>, <<>>)>>
    [] it.k = "cmt"    -> <<>>                      \* compressed style drops comments

RECURSIVE Cat(_, _, _)
Cat(f(_), q, i) == IF i > Len(q) THEN <<>> ELSE f(q[i]) \o Cat(f, q, i + 1)

WE(p) == LET f(it) == ItemE(it) IN Cat(f, p, 1)
WCW(p, sel, val) == LET f(it) == ItemCW(it, sel, val) IN Cat(f, p, 1)
WC(p) == WCW(p, SelC, ValC)

(* faulty tables: the fault's text where it applies, the correct one elsewhere *)
Patch(base, patch) == [k \in DOMAIN base |-> IF k \in DOMAIN patch THEN patch[k] ELSE base[k]]
Reverse(q) == [i \in 1..Len(q) |-> q[Len(q) + 1 - i]]

FaultyRenderings(p) ==
     {WCW(p, SelC, Patch(ValC, ValFault[f])) : f \in ValFaults}
  \cup {WCW(p, Patch(SelC, SelFault[f]), ValC) : f \in SelFaults}
  \cup {Reverse(WC(p))}                                                        \* order of rules swapped
  \cup {SubSeq(WC(p), 1, Len(WC(p)) - 1)}                                       \* last item dropped
  \cup {WC(p) \o WC(<<p[1]>>)}                                                  \* an item emitted twice
  \cup (IF \E i \in DOMAIN p : p[i].k = "rule2"                                  \* second declaration dropped / order swapped
        THEN LET drop(it) == IF it.k = "rule2" THEN ItemCW(Item("rule", it.s, it.a, "-"), SelC, ValC) ELSE ItemCW(it, SelC, ValC)
                 swap(it) == IF it.k = "rule2" THEN ItemCW(Item("rule2", it.s, it.b, it.a), SelC, ValC) ELSE ItemCW(it, SelC, ValC)
             IN {Cat(drop, p, 1)} \cup (IF \E i \in DOMAIN p : p[i].k = "rule2" /\ ValCanon[p[i].a] # ValCanon[p[i].b] THEN {Cat(swap, p, 1)} ELSE {})
        ELSE {})

(* ---- invariants ---------------------------------------------------------------------------- *)
SameStylesheet == phase = "done" => StyleEquiv(WE(prog), WC(prog))

(* canonical form of the comparable content of an abstract stylesheet (comments do not count) *)
CanonItem(it) == [k |-> it.k, s |-> it.s, a |-> IF it.a = "-" THEN "-" ELSE ValCanon[it.a], b |-> IF it.b = "-" THEN "-" ELSE ValCanon[it.b]]
Canon(p) == LET q == SelectSeq(p, LAMBDA it : it.k # "cmt") IN [i \in 1..Len(q) |-> CanonItem(q[i])]

(* every faulty compressed rendering that is not literally the correct one is rejected *)
FaultsRejected == phase = "done" =>
  \A r \in FaultyRenderings(prog) : r # WC(prog) => ~StyleEquiv(WE(prog), r)

Vec == [prog |-> prog]
EmitVec == phase = "done" => PrintT(<<"VEC", ToJson(Vec)>>)

=============================================================================
