----------------------------- MODULE Trace_Expr -----------------------------
(* Trace validation for the expression engine: every recorded evaluation   *)
(* {toks, obs, devs, case} must be explained by Expr!Observe - the ideal   *)
(* grammar, or a deviation listed as an open finding (then it is reported).*)
EXTENDS Expr, Json, IOUtils, TLCExt

Rec == ndJsonDeserialize(IOEnv.TRACE)

VARIABLE l
Init == l = 1

SeqToSet(s) == {s[i] : i \in DOMAIN s}

Explained(e) ==
  LET ideal == Observe(e.toks, {}) IN
  IF ideal.val.k = "undef" THEN TRUE      \* outside the specified domain
  ELSE IF e.obs = ideal THEN TRUE
  ELSE \E S \in (SUBSET SeqToSet(e.devs)) \ {{}} :
         LET o == Observe(e.toks, S) IN
         /\ o # ideal
         /\ (o.val.k = "undef" \/ e.obs = o)
         /\ PrintT(<<"MSG", "KNOWN", S, e.case>>)

Next == /\ l <= Len(Rec)
        /\ Explained(Rec[l]) = TRUE     \* evaluated as a value: no sub-action per disjunct
        /\ l' = l + 1
Spec == Init /\ [][Next]_l

Accepted == IF TLCGet("stats").diameter - 1 = Len(Rec) THEN TRUE
            ELSE PrintT(<<"UNMATCHED", TLCGet("stats").diameter>>) /\ FALSE
=============================================================================
