----------------------------- MODULE RoundTrip -----------------------------
(* C09 - rsass's own CSS output reads back as the same stylesheet.             *)
(*                                                                            *)
(* A stylesheet of the construct subset is a sequence of ITEMS                 *)
(*   [k |-> kind, cls |-> content class, cps |-> content code points]           *)
(* each with one interesting content (a string or an identifier, see Slots).   *)
(* out1 = the stylesheet compiled as SCSS, expanded; out2 = out1 compiled as   *)
(* plain CSS.  Property: out2 and out1 are the same sequence of lines once     *)
(* blank lines are removed (lines = sequences of code points).                 *)
EXTENDS Integers, Sequences, FiniteSets

(* ---- the construct subset ---------------------------------------------------------------- *)
(* kind        SCSS text (ID = the content as an identifier, STR = as a quoted string)        *)
(* r_class     .ID { p: v }                                                                   *)
(* r_id        #ID { p: v }                                                                   *)
(* r_attr      a[t=STR] { p: v }                                                              *)
(* r_pseudo    a:not(.ID):hover::before { p: v }                                              *)
(* r_desc      a .ID > b + c ~ d, e { p: v }                                                  *)
(* d_ident     a { p: ID }                                                                    *)
(* d_str       a { p: STR }                                                                   *)
(* d_num       a { p: 1.5px -0.25em 10% }          (no content)                               *)
(* d_hex       a { p: #ff0000 #abc }               (no content)                               *)
(* d_urlq      a { p: url(STR) }                                                              *)
(* d_url       a { p: url(a/b.png) }               (no content)                               *)
(* d_call      a { p: f(STR, ID) }                                                            *)
(* d_callx     a { p: ID(10px) ID(1px, x) y }      the content is the function NAME            *)
(* m_callx     @media screen and (min-width: ID(1px)) { a { p: v } }                          *)
(* p_ident     a { ID: v }                         the content is the property name            *)
(* m_feat      @media (ID: 1px) { a { p: v } }     ... the media feature name                  *)
(* m_type      @media ID and (min-width: 1px) { a { p: v } }    ... the media type             *)
(* media       @media screen and (min-width: 1px) { .ID { p: STR } }                          *)
(* supports    @supports (display: grid) { a { p: STR } }                                     *)
(* fontface    @font-face { font-family: STR; src: url(a.woff) }                              *)
(* keyframes   @keyframes k { from { p: STR } 50% { p: 1px } to { p: 2px } }                  *)
(* comment     /* RAW */   (content class: the content between blanks)    at top level          *)
(*             /*TEXT*/    (class "cmt": cps is the whole comment text, possibly empty or        *)
(*                          multi-line, written exactly between the delimiters)                  *)
(* c_rule      a {\n  COMMENT\n  p: v;\n}              comment first in a rule                  *)
(* c_rule_end  a {\n  p: v;\n  COMMENT\n}              comment last in a rule                   *)
(* c_media     @media screen {\n  COMMENT\n  a { p: v }\n}                                      *)
(* c_mrule     @media screen {\n  a {\n    COMMENT\n    p: v;\n  }\n}                           *)
CommentKinds == {"comment", "c_rule", "c_rule_end", "c_media", "c_mrule"}
Kinds == {"r_class", "r_id", "r_attr", "r_pseudo", "r_desc", "d_ident", "d_str", "d_num", "d_hex", "d_urlq", "d_url",
          "d_call", "d_callx", "m_callx", "p_ident", "m_feat", "m_type", "media", "supports", "fontface", "keyframes"} \cup CommentKinds
IdSlot  == {"r_class", "r_id", "r_pseudo", "r_desc", "d_ident", "d_call", "media", "d_callx", "m_callx", "p_ident", "m_feat", "m_type"}
FnKinds == {"d_callx", "m_callx"}          \* the content is a function name: ASCII letters (both cases) and digits
StrSlot == {"r_attr", "d_str", "d_urlq", "d_call", "media", "supports", "fontface", "keyframes"}
NoSlot  == {"d_num", "d_hex", "d_url"}

(* ---- content classes: code-point ranges (alnum = Unicode alphanumeric, as the readers test it) *)
Ranges == [
  ascii      |-> {<<97, 122>>, <<65, 90>>},
  latin1     |-> {<<192, 214>>, <<216, 246>>, <<248, 255>>},
  latin1sym  |-> {<<161, 169>>, <<171, 172>>, <<174, 177>>, <<182, 184>>, <<187, 187>>, <<191, 191>>, <<215, 215>>, <<247, 247>>},
  bmp        |-> {<<913, 929>>, <<945, 969>>, <<1040, 1103>>, <<19968, 40000>>},
  bmpsym     |-> {<<8592, 8703>>, <<9728, 9983>>},
  astral     |-> {<<66560, 66639>>, <<131072, 173782>>},
  astralsym  |-> {<<128512, 128591>>},
  private    |-> {<<57344, 63743>>},
  privastral |-> {<<983040, 1048573>>},
  combining  |-> {<<768, 879>>},
  dquote     |-> {<<34, 34>>},
  squote     |-> {<<39, 39>>},
  quotes2    |-> {<<34, 34>>, <<39, 39>>},
  backslash  |-> {<<92, 92>>},
  control    |-> {<<1, 8>>, <<11, 12>>, <<14, 31>>, <<127, 127>>},
  newline    |-> {<<10, 10>>},
  tab        |-> {<<9, 9>>},
  space      |-> {<<32, 32>>},
  digit      |-> {<<48, 57>>},             \* an identifier may start with one (written as an escape)
  hyphen     |-> {<<45, 45>>},
  cmt        |-> {<<9, 10>>, <<13, 13>>, <<32, 32>>, <<42, 42>>, <<233, 233>>},     \* comment text: blanks, line breaks, *, a letter
  none       |-> {} ]
Classes == DOMAIN Ranges
NonAlnum == {"latin1sym", "bmpsym", "astralsym", "private", "privastral", "combining"}

InClass(cls, cp) == \E r \in Ranges[cls] : cp >= r[1] /\ cp <= r[2]
(* a content: the class's code points, optionally between / before plain ASCII letters and digits *)
Plain(cp) == (cp >= 97 /\ cp <= 122) \/ (cp >= 48 /\ cp <= 57)
ContentOK(cls, cps) == /\ \A i \in DOMAIN cps : InClass(cls, cps[i]) \/ Plain(cps[i])
                       /\ (cls # "none" => \E i \in DOMAIN cps : InClass(cls, cps[i]))
                       /\ (cls = "quotes2" => (\E i \in DOMAIN cps : cps[i] = 34) /\ (\E i \in DOMAIN cps : cps[i] = 39))
(* a comment text: any mix of the class's code points and plain letters / digits, also empty *)
CmtTextOK(cps) == \A i \in DOMAIN cps : InClass("cmt", cps[i]) \/ Plain(cps[i])
ItemOK(it) == /\ it.k \in Kinds /\ it.cls \in Classes
              /\ (it.k \in NoSlot => it.cls = "none" /\ it.cps = <<>>)
              /\ (it.cls = "cmt" => it.k \in CommentKinds /\ CmtTextOK(it.cps))
              /\ (it.k \notin NoSlot /\ it.cls # "cmt" => it.cls # "none" /\ it.cps # <<>> /\ ContentOK(it.cls, it.cps))
              /\ (it.k \in CommentKinds => it.cls \notin {"newline", "control"})
              /\ (it.k \in FnKinds => it.cls = "ascii")
InSubset(items) == items # <<>> /\ \A i \in DOMAIN items : ItemOK(items[i])

(* ---- the relation ------------------------------------------------------------------------------ *)
(* "Up to blank lines" is about the layout BETWEEN statements.  Inside a comment the text is the meaning: *)
(* a blank line there is content, and so is a line break before the closing delimiter.  So the outputs are *)
(* compared as the sequences of their lines without the blank lines that lie outside comments.            *)
IsBlank(line) == \A i \in DOMAIN line : line[i] \in {32, 9, 13}

(* scanning a line: st = "code" | "cmt" at position j; q = the quote of the string we are in (0: none) *)
RECURSIVE ScanLine(_, _, _, _)
ScanLine(line, j, st, q) ==
  IF j > Len(line) THEN st                                   \* a string does not continue on the next line
  ELSE LET c == line[j] IN
    IF st = "cmt" THEN (IF c = 42 /\ j < Len(line) /\ line[j + 1] = 47 THEN ScanLine(line, j + 2, "code", 0)
                        ELSE ScanLine(line, j + 1, "cmt", 0))
    ELSE IF c = 92 THEN ScanLine(line, j + 2, st, q)           \* an escape hides the next character
    ELSE IF q # 0 THEN ScanLine(line, j + 1, st, IF c = q THEN 0 ELSE q)
    ELSE IF c \in {34, 39} THEN ScanLine(line, j + 1, st, c)
    ELSE IF c = 47 /\ j < Len(line) /\ line[j + 1] = 42 THEN ScanLine(line, j + 2, "cmt", 0)
    ELSE ScanLine(line, j + 1, st, 0)

(* flag per line: 1 iff the line starts inside a comment *)
RECURSIVE Starts(_, _, _, _)
Starts(lines, i, st, acc) ==
  IF i > Len(lines) THEN acc
  ELSE Starts(lines, i + 1, ScanLine(lines[i], 1, st, 0), Append(acc, IF st = "cmt" THEN 1 ELSE 0))
InComment(lines) == Starts(lines, 1, "code", <<>>)

RECURSIVE DropLead(_)
DropLead(line) == IF line # <<>> /\ line[1] \in {32, 9} THEN DropLead(Tail(line)) ELSE line

(* A quoted string is compared by its content and by being quoted, not by WHICH quote character the       *)
(* printer chose: "\"" and '"' are the same string (the first output keeps the author's quotes inside       *)
(* url(..), the re-read output prefers the quote that needs no escape).  QM marks a string delimiter; an    *)
(* escaped quote inside a string becomes the bare quote; every other escape and all text outside strings   *)
(* (comments included) stays as it is.                                                                      *)
QM == -1
RECURSIVE NormLine(_, _, _, _, _)
NormLine(line, j, st, q, acc) ==
  IF j > Len(line) THEN acc
  ELSE LET c == line[j] IN
    IF st = "cmt" THEN (IF c = 42 /\ j < Len(line) /\ line[j + 1] = 47 THEN NormLine(line, j + 2, "code", 0, acc \o <<42, 47>>)
                        ELSE NormLine(line, j + 1, "cmt", 0, Append(acc, c)))
    ELSE IF q # 0 THEN
         IF c = 92 /\ j < Len(line)
            THEN (IF line[j + 1] \in {34, 39} THEN NormLine(line, j + 2, st, q, Append(acc, line[j + 1]))
                  ELSE NormLine(line, j + 2, st, q, acc \o <<92, line[j + 1]>>))
         ELSE IF c = q THEN NormLine(line, j + 1, st, 0, Append(acc, QM))
         ELSE NormLine(line, j + 1, st, q, Append(acc, c))
    ELSE IF c = 92 THEN NormLine(line, j + 2, st, 0, acc \o (IF j < Len(line) THEN <<92, line[j + 1]>> ELSE <<92>>))
    ELSE IF c \in {34, 39} THEN NormLine(line, j + 1, st, c, Append(acc, QM))
    ELSE IF c = 47 /\ j < Len(line) /\ line[j + 1] = 42 THEN NormLine(line, j + 2, "cmt", 0, acc \o <<47, 42>>)
    ELSE NormLine(line, j + 1, st, 0, Append(acc, c))

(* the compared form of an output; Dev: see the deviations below *)
Compared(lines, Dev) ==
  LET inc == InComment(lines)
      idx == SelectSeq([i \in 1..Len(lines) |-> i], LAMBDA i : inc[i] = 1 \/ ~IsBlank(lines[i]))
      nl(i) == NormLine(lines[i], 1, IF inc[i] = 1 THEN "cmt" ELSE "code", 0, <<>>)
  IN [k \in 1..Len(idx) |-> IF inc[idx[k]] = 1 /\ "comment_reindent_grows" \in Dev THEN DropLead(nl(idx[k])) ELSE nl(idx[k])]
SameLinesD(l1, l2, Dev) == Compared(l1, Dev) = Compared(l2, Dev)
SameLines(l1, l2) == SameLinesD(l1, l2, {})

(* r1, r2: [st |-> status, lines |-> lines of the output] *)
RoundTripOK(r1, r2) == r1.st = "ok" /\ r2.st = "ok" /\ SameLines(r1.lines, r2.lines)

(* ---- named deviations (open findings): scope predicate over the abstract input + prediction -------- *)
Has(it, cp) == \E i \in DOMAIN it.cps : it.cps[i] = cp
(* "css_reader_ident_nonalnum": the plain-CSS reader accepts only Unicode-alphanumeric characters, - and _ *)
(*   in identifiers (parser/css/strings.rs selector_plain_part); the printer writes any other non-ASCII    *)
(*   character of an identifier raw.  Scope: an identifier slot whose content class is not alphanumeric.   *)
(* "css_reader_escaped_quote": css_string_dq/_sq read `is_not(quote)` first, which swallows the backslash  *)
(*   of an escaped quote and ends the string there.  The printer emits an escaped quote when a string      *)
(*   holds both kinds of quotes, and inside url("..").  Scope: a string slot holding both quote            *)
(*   characters, or a d_urlq content holding a double quote.                                               *)
(* The first predicts that the re-read fails with an error; the second that it fails or - when the rest   *)
(* of the text happens to parse (inside call arguments) - prints different text.  Both require their       *)
(* trigger in out1 (a printer that stopped escaping quotes is a different defect and is reported).         *)
(* "comment_reindent_grows": Comment::write (css/comment.rs) re-indents the continuation lines of a       *)
(*   comment relative to what it guesses their indentation was; for lines that do not start with `*` the  *)
(*   guess is off by the block's indentation, so a multi-line comment nested in a block gets deeper on     *)
(*   every pass: `  /* a\n  b */` reads back as `  /* a\n    b */`.  Scope: the leading blanks of lines  *)
(*   that start inside a comment; under the deviation they are not compared.  Everything else is.          *)
Deviations == {"css_reader_ident_nonalnum", "css_reader_escaped_quote", "comment_reindent_grows"}
InScope(d, it) ==
  IF d = "css_reader_ident_nonalnum" THEN it.k \in IdSlot /\ it.cls \in NonAlnum
  ELSE IF d = "css_reader_escaped_quote" THEN \/ it.k = "d_urlq" /\ Has(it, 34)
                                              \/ it.k \in StrSlot /\ Has(it, 34) /\ Has(it, 39)
  ELSE FALSE
(* ... and the trigger must be visible in out1: the raw non-ASCII character / a backslash before a quote *)
Occurs(lines, cp) == \E n \in DOMAIN lines : \E j \in DOMAIN lines[n] : lines[n][j] = cp
HasEscapedQuote(lines) == \E n \in DOMAIN lines : \E j \in 1..(Len(lines[n]) - 1) : lines[n][j] = 92 /\ lines[n][j + 1] \in {34, 39}
Predicted(D, items, r1, r2) ==
  /\ r1.st = "ok"
  /\ \/ /\ "css_reader_ident_nonalnum" \in D /\ r2.st = "err"
        /\ \E i \in DOMAIN items : /\ InScope("css_reader_ident_nonalnum", items[i])
                                   /\ \E j \in DOMAIN items[i].cps : items[i].cps[j] >= 128 /\ Occurs(r1.lines, items[i].cps[j])
     \/ /\ "css_reader_escaped_quote" \in D /\ r2.st \in {"err", "ok"}
        /\ \E i \in DOMAIN items : InScope("css_reader_escaped_quote", items[i])
        /\ HasEscapedQuote(r1.lines)
=============================================================================
