----------------------------- MODULE RoundTrip -----------------------------
(* C09 - rsass's own CSS output reads back as the same stylesheet.             *)
(*                                                                            *)
(* A stylesheet of the construct subset is a sequence of ITEMS                 *)
(*   [k |-> kind, cls |-> content class, cps |-> content code points]           *)
(* each with one interesting content (a string or an identifier, see Slots).   *)
(* out1 = the stylesheet compiled as SCSS, expanded; out2 = out1 compiled as   *)
(* plain CSS.  Property: out2 and out1 are the same sequence of lines once     *)
(* blank lines are removed (lines = sequences of code points).                 *)
EXTENDS Integers, Sequences, FiniteSets

(* ---- the construct subset ---------------------------------------------------------------- *)
(* kind        SCSS text (ID = the content as an identifier, STR = as a quoted string)        *)
(* r_class     .ID { p: v }                                                                   *)
(* r_id        #ID { p: v }                                                                   *)
(* r_attr      a[t=STR] { p: v }                                                              *)
(* r_pseudo    a:not(.ID):hover::before { p: v }                                              *)
(* r_desc      a .ID > b + c ~ d, e { p: v }                                                  *)
(* d_ident     a { p: ID }                                                                    *)
(* d_str       a { p: STR }                                                                   *)
(* d_num       a { p: 1.5px -0.25em 10% }          (no content)                               *)
(* d_hex       a { p: #ff0000 #abc }               (no content)                               *)
(* d_urlq      a { p: url(STR) }                                                              *)
(* d_url       a { p: url(a/b.png) }               (no content)                               *)
(* d_call      a { p: f(STR, ID) }                                                            *)
(* media       @media screen and (min-width: 1px) { .ID { p: STR } }                          *)
(* supports    @supports (display: grid) { a { p: STR } }                                     *)
(* fontface    @font-face { font-family: STR; src: url(a.woff) }                              *)
(* keyframes   @keyframes k { from { p: STR } 50% { p: 1px } to { p: 2px } }                  *)
(* comment     /* RAW */                           (the content as it is)                      *)
Kinds == {"r_class", "r_id", "r_attr", "r_pseudo", "r_desc", "d_ident", "d_str", "d_num", "d_hex", "d_urlq", "d_url",
          "d_call", "media", "supports", "fontface", "keyframes", "comment"}
IdSlot  == {"r_class", "r_id", "r_pseudo", "r_desc", "d_ident", "d_call", "media"}
StrSlot == {"r_attr", "d_str", "d_urlq", "d_call", "media", "supports", "fontface", "keyframes"}
NoSlot  == {"d_num", "d_hex", "d_url"}

(* ---- content classes: code-point ranges (alnum = Unicode alphanumeric, as the readers test it) *)
Ranges == [
  ascii      |-> {<<97, 122>>, <<65, 90>>},
  latin1     |-> {<<192, 214>>, <<216, 246>>, <<248, 255>>},
  latin1sym  |-> {<<161, 169>>, <<171, 172>>, <<174, 177>>, <<182, 184>>, <<187, 187>>, <<191, 191>>, <<215, 215>>, <<247, 247>>},
  bmp        |-> {<<913, 929>>, <<945, 969>>, <<1040, 1103>>, <<19968, 40000>>},
  bmpsym     |-> {<<8592, 8703>>, <<9728, 9983>>},
  astral     |-> {<<66560, 66639>>, <<131072, 173782>>},
  astralsym  |-> {<<128512, 128591>>},
  private    |-> {<<57344, 63743>>},
  privastral |-> {<<983040, 1048573>>},
  combining  |-> {<<768, 879>>},
  dquote     |-> {<<34, 34>>},
  squote     |-> {<<39, 39>>},
  quotes2    |-> {<<34, 34>>, <<39, 39>>},
  backslash  |-> {<<92, 92>>},
  control    |-> {<<1, 8>>, <<11, 12>>, <<14, 31>>, <<127, 127>>},
  newline    |-> {<<10, 10>>},
  tab        |-> {<<9, 9>>},
  space      |-> {<<32, 32>>},
  none       |-> {} ]
Classes == DOMAIN Ranges
NonAlnum == {"latin1sym", "bmpsym", "astralsym", "private", "privastral", "combining"}

InClass(cls, cp) == \E r \in Ranges[cls] : cp >= r[1] /\ cp <= r[2]
(* a content: the class's code points, optionally between / before plain ASCII letters and digits *)
Plain(cp) == (cp >= 97 /\ cp <= 122) \/ (cp >= 48 /\ cp <= 57)
ContentOK(cls, cps) == /\ \A i \in DOMAIN cps : InClass(cls, cps[i]) \/ Plain(cps[i])
                       /\ (cls # "none" => \E i \in DOMAIN cps : InClass(cls, cps[i]))
                       /\ (cls = "quotes2" => (\E i \in DOMAIN cps : cps[i] = 34) /\ (\E i \in DOMAIN cps : cps[i] = 39))
ItemOK(it) == /\ it.k \in Kinds /\ it.cls \in Classes
              /\ (it.k \in NoSlot => it.cls = "none" /\ it.cps = <<>>)
              /\ (it.k \notin NoSlot => it.cls # "none" /\ it.cps # <<>> /\ ContentOK(it.cls, it.cps))
              /\ (it.k = "comment" => it.cls \notin {"newline", "control"})
InSubset(items) == items # <<>> /\ \A i \in DOMAIN items : ItemOK(items[i])

(* ---- the relation ------------------------------------------------------------------------------ *)
IsBlank(line) == \A i \in DOMAIN line : line[i] \in {32, 9, 13}
NonBlank(lines) == SelectSeq(lines, LAMBDA ln : ~IsBlank(ln))
SameLines(l1, l2) == NonBlank(l1) = NonBlank(l2)

(* r1, r2: [st |-> status, lines |-> lines of the output] *)
RoundTripOK(r1, r2) == r1.st = "ok" /\ r2.st = "ok" /\ SameLines(r1.lines, r2.lines)

(* ---- named deviations (open findings): scope predicate over the abstract input + prediction -------- *)
Has(it, cp) == \E i \in DOMAIN it.cps : it.cps[i] = cp
(* "css_reader_ident_nonalnum": the plain-CSS reader accepts only Unicode-alphanumeric characters, - and _ *)
(*   in identifiers (parser/css/strings.rs selector_plain_part); the printer writes any other non-ASCII    *)
(*   character of an identifier raw.  Scope: an identifier slot whose content class is not alphanumeric.   *)
(* "css_reader_escaped_quote": css_string_dq/_sq read `is_not(quote)` first, which swallows the backslash  *)
(*   of an escaped quote and ends the string there.  The printer emits an escaped quote when a string      *)
(*   holds both kinds of quotes, and inside url("..").  Scope: a string slot holding both quote            *)
(*   characters, or a d_urlq content holding a double quote.                                               *)
(* The first predicts that the re-read fails with an error; the second that it fails or - when the rest   *)
(* of the text happens to parse (inside call arguments) - prints different text.  Both require their       *)
(* trigger in out1 (a printer that stopped escaping quotes is a different defect and is reported).         *)
Deviations == {"css_reader_ident_nonalnum", "css_reader_escaped_quote"}
InScope(d, it) ==
  IF d = "css_reader_ident_nonalnum" THEN it.k \in IdSlot /\ it.cls \in NonAlnum
  ELSE IF d = "css_reader_escaped_quote" THEN \/ it.k = "d_urlq" /\ Has(it, 34)
                                              \/ it.k \in StrSlot /\ Has(it, 34) /\ Has(it, 39)
  ELSE FALSE
(* ... and the trigger must be visible in out1: the raw non-ASCII character / a backslash before a quote *)
Occurs(lines, cp) == \E n \in DOMAIN lines : \E j \in DOMAIN lines[n] : lines[n][j] = cp
HasEscapedQuote(lines) == \E n \in DOMAIN lines : \E j \in 1..(Len(lines[n]) - 1) : lines[n][j] = 92 /\ lines[n][j + 1] \in {34, 39}
Predicted(D, items, r1, r2) ==
  /\ r1.st = "ok"
  /\ \/ /\ "css_reader_ident_nonalnum" \in D /\ r2.st = "err"
        /\ \E i \in DOMAIN items : /\ InScope("css_reader_ident_nonalnum", items[i])
                                   /\ \E j \in DOMAIN items[i].cps : items[i].cps[j] >= 128 /\ Occurs(r1.lines, items[i].cps[j])
     \/ /\ "css_reader_escaped_quote" \in D /\ r2.st \in {"err", "ok"}
        /\ \E i \in DOMAIN items : InScope("css_reader_escaped_quote", items[i])
        /\ HasEscapedQuote(r1.lines)
=============================================================================
