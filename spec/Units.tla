-------------------------------- MODULE Units --------------------------------
(***************************************************************************)
(* C11 - arithmetic and comparison of numbers with units.  Abstracts        *)
(*   rsass/src/value/unit.rs      Unit::dimension, Unit::scale_factor        *)
(*   rsass/src/value/unitset.rs   UnitSet::scale_to / simplify / Mul / Div   *)
(*   rsass/src/value/operator.rs  Operator::eval Plus / Minus / comparisons  *)
(*   rsass/src/value/numeric.rs   Numeric::partial_cmp, Mul, Div             *)
(*                                                                         *)
(* A number is [n, d, u]: the exact rational n/d and a unit name ("" =      *)
(* unitless).  Units convert only inside the dimensions for which CSS       *)
(* fixes a ratio (absolute lengths, angles, times, frequencies,             *)
(* resolutions); every other known unit (em ex ch rem vw vh vmin vmax % fr) *)
(* and every unknown unit is its own dimension.  Ratios are exact           *)
(* rationals; pi appears only as an exponent tag (rad).                     *)
(*                                                                         *)
(* Results: [k, b, orerr, alts]                                             *)
(*   k = "num": alts = the acceptable presentations <<[us, v]>> of the one  *)
(*       result quantity (the property does not say in which of two         *)
(*       convertible units a result is expressed; alts[1] is Sass's         *)
(*       choice); us = set of [u, e] (unit, exponent), v = sequence of      *)
(*       terms [n, d, pi] denoting the sum of n/d * pi^pi                   *)
(*   k = "bool": b = 0/1; orerr = 1 when an error is acceptable as well     *)
(*   k = "err": the operation must be an error                              *)
(*   k = "uneval": (deviation only) the operation is left unevaluated        *)
(*   k = "undef": the property does not fix the result                      *)
(*                                                                         *)
(* Named deviations (what the pinned tree does instead):                    *)
(*   font_units_convertible    em/ex/ch share a dimension (5 : 3 : 2) and   *)
(*                             vmin/vmax share one (1 : 1)                  *)
(*   percent_fr_convertible    % and fr share a dimension (1% = 0.01fr)     *)
(*   incompatible_add_unevaluated  + and - on incompatible units are left   *)
(*                             unevaluated instead of raising an error       *)
(*   incompatible_cmp_false    < <= > >= on incompatible units are false    *)
(*   unitless_cmp_equal_false  <= and >= between a unitless number and an   *)
(*                             equal number with a unit are false            *)
(***************************************************************************)
EXTENDS Dec, FiniteSets, TLC

Named   == {"em", "ex", "ch", "rem", "vw", "vh", "vmin", "vmax", "cm", "mm", "Q", "in", "pt", "pc", "px",
            "deg", "grad", "rad", "turn", "s", "ms", "Hz", "kHz", "dpi", "dpcm", "dppx", "%", "fr"}
Unknown == {"foo", "bar"}
AllUnits == Named \cup Unknown \cup {""}

AllDevs == {"font_units_convertible", "percent_fr_convertible", "incompatible_add_unevaluated",
            "incompatible_cmp_false", "unitless_cmp_equal_false"}

---------------------------------------------------------------------------
(* rationals <<n, d>>, d > 0, in lowest terms *)
RECURSIVE Gcd(_, _)
Gcd(a, b) == IF b = 0 THEN a ELSE Gcd(b, a % b)
RNorm(n, d) == LET s == IF d < 0 THEN -1 ELSE 1
                   g == Gcd(DAbsI(n), DAbsI(d)) IN
               IF n = 0 THEN <<0, 1>> ELSE <<(s * n) \div g, (s * d) \div g>>
RMul(x, y) == LET g1 == Gcd(DAbsI(x[1]), y[2])      \* cross-reduce first: keeps the products inside 32 bits
                  g2 == Gcd(DAbsI(y[1]), x[2]) IN
              IF x[1] = 0 \/ y[1] = 0 THEN <<0, 1>>
              ELSE RNorm((x[1] \div g1) * (y[1] \div g2), (x[2] \div g2) * (y[2] \div g1))
RDiv(x, y) == IF y[1] < 0 THEN RMul(x, <<-y[2], -y[1]>>) ELSE RMul(x, <<y[2], y[1]>>)
RAdd(x, y) == RNorm(x[1] * y[2] + y[1] * x[2], x[2] * y[2])
RNeg(x)    == <<-x[1], x[2]>>
RSign(x)   == IF x[1] > 0 THEN 1 ELSE IF x[1] < 0 THEN -1 ELSE 0
RAbs(x)    == <<DAbsI(x[1]), x[2]>>
RCmp(x, y) == LET l == x[1] * y[2]
                  r == y[1] * x[2] IN IF l < r THEN -1 ELSE IF l > r THEN 1 ELSE 0

---------------------------------------------------------------------------
(* the unit table *)
Dim(u, Dev) ==
  CASE u \in {"cm", "mm", "Q", "in", "pt", "pc", "px"} -> "length"
    [] u \in {"deg", "grad", "rad", "turn"}            -> "angle"
    [] u \in {"s", "ms"}                               -> "time"
    [] u \in {"Hz", "kHz"}                             -> "frequency"
    [] u \in {"dpi", "dpcm", "dppx"}                   -> "resolution"
    [] u \in {"em", "ex", "ch"} /\ "font_units_convertible" \in Dev -> "font-relative (deviation)"
    [] u \in {"vmin", "vmax"} /\ "font_units_convertible" \in Dev   -> "viewport-minmax (deviation)"
    [] u \in {"%", "fr"} /\ "percent_fr_convertible" \in Dev        -> "none (deviation)"
    [] OTHER -> u

(* size of one unit in the base unit of its dimension (px, deg, s, Hz, dppx): *)
(* <<n, d, piexp>> meaning n/d * pi^piexp                                      *)
Ratio(u, Dev) ==
  CASE u = "in" -> <<96, 1, 0>>   [] u = "cm" -> <<4800, 127, 0>> [] u = "mm" -> <<480, 127, 0>>
    [] u = "Q"  -> <<120, 127, 0>> [] u = "pt" -> <<4, 3, 0>>      [] u = "pc" -> <<16, 1, 0>>
    [] u = "grad" -> <<9, 10, 0>> [] u = "turn" -> <<360, 1, 0>>  [] u = "rad" -> <<180, 1, -1>>
    [] u = "ms" -> <<1, 1000, 0>> [] u = "kHz" -> <<1000, 1, 0>>
    [] u = "dpi" -> <<1, 96, 0>>  [] u = "dpcm" -> <<127, 4800, 0>>
    [] u = "em" /\ "font_units_convertible" \in Dev -> <<5, 1, 0>>
    [] u = "ex" /\ "font_units_convertible" \in Dev -> <<3, 1, 0>>
    [] u = "ch" /\ "font_units_convertible" \in Dev -> <<2, 1, 0>>
    [] u = "%" /\ "percent_fr_convertible" \in Dev  -> <<1, 100, 0>>
    [] OTHER -> <<1, 1, 0>>

(* 1 `from` = Factor `to` *)
Factor(from, to, Dev) ==
  LET f == Ratio(from, Dev)
      t == Ratio(to, Dev)
      q == RDiv(<<f[1], f[2]>>, <<t[1], t[2]>>) IN
  [n |-> q[1], d |-> q[2], pi |-> f[3] - t[3]]

---------------------------------------------------------------------------
(* values: sequences of terms [n, d, pi] with distinct pi, non-zero, ascending pi *)
Term(q, pi) == [n |-> q[1], d |-> q[2], pi |-> IF q[1] = 0 THEN 0 ELSE pi]
TQ(t) == <<t.n, t.d>>
VRat(q) == IF q[1] = 0 THEN <<>> ELSE <<Term(q, 0)>>
VScale(v, f) == LET r == [i \in DOMAIN v |-> Term(RMul(TQ(v[i]), <<f.n, f.d>>), v[i].pi + f.pi)] IN
                IF \E i \in DOMAIN r : r[i].n = 0 THEN <<>> ELSE r
VNeg(v) == [i \in DOMAIN v |-> [v[i] EXCEPT !.n = -v[i].n]]
(* sum of two single-term (or empty) values *)
VAdd(x, y) ==
  IF x = <<>> THEN y ELSE IF y = <<>> THEN x
  ELSE IF x[1].pi = y[1].pi THEN (LET q == RAdd(TQ(x[1]), TQ(y[1])) IN IF q[1] = 0 THEN <<>> ELSE <<Term(q, x[1].pi)>>)
  ELSE IF x[1].pi < y[1].pi THEN <<x[1], y[1]>> ELSE <<y[1], x[1]>>

(* 333/106 < pi < 355/113 *)
PiLo == <<333, 106>>
PiHi == <<355, 113>>
(* sign of a value, or 2 when the rational bounds of pi do not decide it *)
VSign(v) ==
  IF v = <<>> THEN 0
  ELSE IF Len(v) = 1 THEN RSign(TQ(v[1]))
  ELSE LET lo == v[1]            \* smaller pi exponent
           hi == v[2]
           e  == hi.pi - lo.pi   \* 1 or 2: compare |lo| with |hi| * pi^e
           sl == RSign(TQ(lo))
           sh == RSign(TQ(hi)) IN
       IF sl = sh THEN sl
       ELSE IF e # 1 THEN 2
       ELSE LET al == RAbs(TQ(lo))
                ah == RAbs(TQ(hi)) IN
            IF RCmp(al, RMul(ah, PiHi)) >= 0 THEN sl
            ELSE IF RCmp(al, RMul(ah, PiLo)) <= 0 THEN sh
            ELSE 2

---------------------------------------------------------------------------
U0 == {}
U1(u) == IF u = "" THEN {} ELSE {[u |-> u, e |-> 1]}
UPow(u, e) == IF u = "" THEN {} ELSE {[u |-> u, e |-> e]}

Num(alts)   == [k |-> "num", b |-> 0, orerr |-> 0, alts |-> alts]
Alt(us, v)  == [us |-> us, v |-> v]
Bool(b)     == [k |-> "bool", b |-> IF b THEN 1 ELSE 0, orerr |-> 0, alts |-> <<>>]
FalseOrErr  == [k |-> "bool", b |-> 0, orerr |-> 1, alts |-> <<>>]
Err         == [k |-> "err", b |-> 0, orerr |-> 0, alts |-> <<>>]
Uneval      == [k |-> "uneval", b |-> 0, orerr |-> 0, alts |-> <<>>]
Undef       == [k |-> "undef", b |-> 0, orerr |-> 0, alts |-> <<>>]

Class(ua, ub, Dev) ==
  IF ua = ub THEN "same"
  ELSE IF ua = "" \/ ub = "" THEN "unitless"
  ELSE IF Dim(ua, Dev) = Dim(ub, Dev) THEN "conv"
  ELSE IF ua \in Unknown \/ ub \in Unknown THEN "unknown"
  ELSE "incompat"

One == [n |-> 1, d |-> 1, pi |-> 0]

RelHolds(op, s) == CASE op = "<" -> s < 0 [] op = "<=" -> s <= 0 [] op = ">" -> s > 0 [] op = ">=" -> s >= 0 [] op = "==" -> s = 0

Observe(x, Dev) ==
  LET a  == RNorm(x.a.n, x.a.d)
      b  == RNorm(x.b.n, x.b.d)
      ua == x.a.u
      ub == x.b.u
      c  == Class(ua, ub, Dev)
      op == x.op IN
  IF op \in {"+", "-"} THEN
      LET bb == IF op = "+" THEN b ELSE RNeg(b) IN
      CASE c = "same"     -> Num(<<Alt(U1(ua), VRat(RAdd(a, bb)))>>)
        [] c = "unitless" -> Num(<<Alt(U1(IF ua = "" THEN ub ELSE ua), VRat(RAdd(a, bb)))>>)
        [] c = "conv"     -> Num(<<Alt(U1(ua), VAdd(VRat(a), VScale(VRat(bb), Factor(ub, ua, Dev)))),
                                   Alt(U1(ub), VAdd(VScale(VRat(a), Factor(ua, ub, Dev)), VRat(bb)))>>)
        [] c = "unknown"  -> Undef
        [] c = "incompat" -> IF "incompatible_add_unevaluated" \in Dev THEN Uneval ELSE Err
  ELSE IF op \in {"<", "<=", ">", ">="} THEN
      CASE c = "same"     -> Bool(RelHolds(op, RCmp(a, b)))
        [] c = "unitless" -> IF "unitless_cmp_equal_false" \in Dev /\ RCmp(a, b) = 0 THEN Bool(FALSE)
                             ELSE Bool(RelHolds(op, RCmp(a, b)))
        [] c = "conv"     -> LET s == VSign(VAdd(VRat(a), VScale(VRat(RNeg(b)), Factor(ub, ua, Dev)))) IN
                             IF s = 2 THEN Undef ELSE Bool(RelHolds(op, s))
        [] c = "unknown"  -> Undef
        [] c = "incompat" -> IF "incompatible_cmp_false" \in Dev THEN Bool(FALSE) ELSE Err
  ELSE IF op = "==" THEN
      CASE c = "same"     -> Bool(RCmp(a, b) = 0)
           (* Sass: a unitless number never equals one with a unit; the property's *)
           (* "takes the other operand's unit" would make them equal: not fixed     *)
        [] c = "unitless" -> IF RCmp(a, b) # 0 THEN Bool(FALSE) ELSE Undef
        [] c = "conv"     -> LET s == VSign(VAdd(VRat(a), VScale(VRat(RNeg(b)), Factor(ub, ua, Dev)))) IN
                             IF s = 2 THEN Undef ELSE Bool(s = 0)
        [] c = "unknown"  -> Undef
           (* no conversion exists, so they are not equal (Sass); the property's    *)
           (* second sentence would also allow an error                             *)
        [] c = "incompat" -> FalseOrErr
  ELSE IF op = "*" THEN
      LET v == VRat(RMul(a, b)) IN
      CASE c = "same"     -> Num(<<Alt(UPow(ua, 2), v)>>)
        [] c = "unitless" -> Num(<<Alt(U1(IF ua = "" THEN ub ELSE ua), v)>>)
        [] c = "conv"     -> Num(<<Alt(U1(ua) \cup U1(ub), v),
                                   Alt(UPow(ua, 2), VScale(v, Factor(ub, ua, Dev))),
                                   Alt(UPow(ub, 2), VScale(v, Factor(ua, ub, Dev)))>>)
        [] OTHER          -> Num(<<Alt(U1(ua) \cup U1(ub), v)>>)
  ELSE IF op = "div" THEN
      IF b[1] = 0 THEN Undef
      ELSE LET v == VRat(RDiv(a, b)) IN
      CASE c = "same"     -> Num(<<Alt(U0, v)>>)
        [] c = "unitless" -> Num(<<Alt(IF ub = "" THEN U1(ua) ELSE UPow(ub, -1), v)>>)
        [] c = "conv"     -> Num(<<Alt(U0, VScale(v, Factor(ua, ub, Dev)))>>)
        [] OTHER          -> Num(<<Alt(U1(ua) \cup UPow(ub, -1), v)>>)
  ELSE Undef

DevMap(x) ==
  LET ideal == Observe(x, {}) IN
  [d \in {d \in AllDevs : Observe(x, {d}) # ideal} |-> Observe(x, {d})]

---------------------------------------------------------------------------
(* Compound units (areas, speeds, inverse lengths, ...).  An operand is      *)
(* [n, d, us] with us a sequence of [u, e] (unit, exponent # 0).  Two unit    *)
(* sets are compatible iff they have the same dimension vector; one b-unit    *)
(* set is then  CFactor = prod Ratio(u)^e over b / prod Ratio(u)^e over a     *)
(* a-unit sets - the product of the per-unit CSS ratios to their exponents.   *)
(* Observable for + and -: the result measured in a's own unit set            *)
(* (math.div($a + $b, <1 of a's units>)), a unitless number; for max / min:   *)
(* whether the result equals $a.                                              *)
RECURSIVE RPow(_, _)
RPow(q, e) == IF e = 0 THEN <<1, 1>> ELSE IF e > 0 THEN RMul(q, RPow(q, e - 1)) ELSE RDiv(RPow(q, e + 1), q)
RECURSIVE BaseF(_, _)
(* the unit set in base units: <<rational, pi exponent>> *)
BaseF(us, Dev) == IF us = <<>> THEN <<<<1, 1>>, 0>>
                  ELSE LET r    == Ratio(us[1].u, Dev)
                           rest == BaseF(Tail(us), Dev) IN
                       <<RMul(RPow(<<r[1], r[2]>>, us[1].e), rest[1]), r[3] * us[1].e + rest[2]>>
CFactor(from, to, Dev) == LET f == BaseF(from, Dev)
                              t == BaseF(to, Dev)
                              q == RDiv(f[1], t[1]) IN
                          [n |-> q[1], d |-> q[2], pi |-> f[2] - t[2]]
DimsOf(us, Dev) == {Dim(us[i].u, Dev) : i \in DOMAIN us}
DimExp(us, dm, Dev) == LET idx == {i \in DOMAIN us : Dim(us[i].u, Dev) = dm} IN
                       IF idx = {} THEN 0
                       ELSE LET RECURSIVE Sum(_)
                                Sum(S) == IF S = {} THEN 0 ELSE LET i == CHOOSE i \in S : TRUE IN us[i].e + Sum(S \ {i})
                            IN Sum(idx)
DimVec(us, Dev) == {<<dm, DimExp(us, dm, Dev)>> : dm \in {dm \in DimsOf(us, Dev) : DimExp(us, dm, Dev) # 0}}

ObserveC(x, Dev) ==
  LET a  == RNorm(x.a.n, x.a.d)
      b  == RNorm(x.b.n, x.b.d)
      op == x.op
      compat == DimVec(x.a.us, Dev) = DimVec(x.b.us, Dev) IN
  IF \E i \in DOMAIN x.a.us : x.a.us[i].u \in Unknown THEN Undef
  ELSE IF \E i \in DOMAIN x.b.us : x.b.us[i].u \in Unknown THEN Undef
  ELSE IF ~compat THEN
       (IF op \in {"+", "-"} THEN (IF "incompatible_add_unevaluated" \in Dev THEN Uneval ELSE Err)
        ELSE IF op \in {"<", "<=", ">", ">="} THEN (IF "incompatible_cmp_false" \in Dev THEN Bool(FALSE) ELSE Err)
        ELSE IF op = "==" THEN FalseOrErr
        ELSE IF op \in {"max", "min"} THEN Err
        ELSE Undef)
  ELSE LET f    == CFactor(x.b.us, x.a.us, Dev)
           bs   == VScale(VRat(b), f)                 \* b in a's unit set
           diff == VSign(VAdd(VRat(a), VNeg(bs))) IN
       IF op = "+" THEN Num(<<Alt(U0, VAdd(VRat(a), bs))>>)
       ELSE IF op = "-" THEN Num(<<Alt(U0, VAdd(VRat(a), VNeg(bs)))>>)
       ELSE IF diff = 2 THEN Undef
       ELSE IF op \in {"<", "<=", ">", ">=", "=="} THEN Bool(RelHolds(op, diff))
       ELSE IF op = "max" THEN Bool(diff >= 0)        \* max($a, $b) == $a
       ELSE IF op = "min" THEN Bool(diff <= 0)
       ELSE Undef

DevMapC(x) ==
  LET ideal == ObserveC(x, {}) IN
  [d \in {d \in AllDevs : ObserveC(x, {d}) # ideal} |-> ObserveC(x, {d})]

(* laws: compound conversion composes from the per-unit table, and is inverse to itself *)
LawsHoldC(x) ==
  LET f == CFactor(x.b.us, x.a.us, {})
      g == CFactor(x.a.us, x.b.us, {})
      r == ObserveC(x, {}) IN
  /\ (DimVec(x.a.us, {}) = DimVec(x.b.us, {}) => (RMul(<<f.n, f.d>>, <<g.n, g.d>>) = <<1, 1>> /\ f.pi + g.pi = 0))
  /\ (x.op \in {"<", "<=", ">", ">=", "=="} => r = ObserveC([op |-> (CASE x.op = "<" -> ">" [] x.op = "<=" -> ">=" [] x.op = ">" -> "<" [] x.op = ">=" -> "<=" [] OTHER -> x.op), a |-> x.b, b |-> x.a], {}))

---------------------------------------------------------------------------
(* Laws of the ideal table, checked by TLC on every generated input.        *)
ConvDims == {"length", "angle", "time", "frequency", "resolution"}
(* conversion is consistent: a -> b -> a is the identity, and going through *)
(* a third unit of the dimension gives the same factor                      *)
FMul(f, g) == LET q == RMul(<<f.n, f.d>>, <<g.n, g.d>>) IN [n |-> q[1], d |-> q[2], pi |-> f.pi + g.pi]
TableConsistent ==
  \A u \in Named, w \in Named :
     Dim(u, {}) = Dim(w, {}) =>
        /\ FMul(Factor(u, w, {}), Factor(w, u, {})) = One
        /\ \A t \in Named : Dim(t, {}) = Dim(u, {}) => FMul(Factor(u, t, {}), Factor(t, w, {})) = Factor(u, w, {})
(* only the five CSS dimensions convert *)
OnlyFixedRatios ==
  \A u \in Named, w \in Named : (u # w /\ Dim(u, {}) = Dim(w, {})) => Dim(u, {}) \in ConvDims

(* a + b and b + a denote the same quantity; a - b = -(b - a); a < b iff b > a; *)
(* a * b = b * a                                                                *)
Swap(x, op) == [op |-> op, a |-> x.b, b |-> x.a]
SameQuantity(r, s) == r.k = s.k /\ (r.k = "num" => \E i \in DOMAIN r.alts, j \in DOMAIN s.alts : r.alts[i] = s.alts[j])
Mirror(op) == CASE op = "<" -> ">" [] op = "<=" -> ">=" [] op = ">" -> "<" [] op = ">=" -> "<=" [] OTHER -> op
LawsHold(x) ==
  LET r == Observe(x, {}) IN
  /\ (x.op \in {"+", "*"} => SameQuantity(r, Observe(Swap(x, x.op), {})))
  /\ (x.op \in {"<", "<=", ">", ">=", "=="} => r = Observe(Swap(x, Mirror(x.op)), {}))
  /\ (x.op = "-" => LET s == Observe(Swap(x, "-"), {}) IN
                     r.k = s.k /\ (r.k = "num" => r.alts[1].us = s.alts[IF Len(s.alts) = 2 THEN 2 ELSE 1].us
                                                 /\ r.alts[1].v = VNeg(s.alts[IF Len(s.alts) = 2 THEN 2 ELSE 1].v)))
  (* trichotomy on comparable numbers *)
  /\ (x.op = "<" /\ r.k = "bool" =>
        LET e == Observe([x EXCEPT !.op = "=="], {})
            g == Observe([x EXCEPT !.op = ">"], {}) IN
        (e.k = "bool" /\ e.orerr = 0) => r.b + e.b + g.b = 1)

---------------------------------------------------------------------------
(* Acceptance of an observation (used by trace validation): the printed     *)
(* number o = [neg, ip, fp] (digit sequences) against a term sum, relative  *)
(* 1e-9 plus 1e-10 absolute (rsass's inspect() prints 10 decimals).         *)
Pi30  == Dec(0, <<3, 1,4,1,5,9,2,6,5,3,5,8,9,7,9,3,2,3,8,4,6,2,6,4,3,3,8,3,2,7,9>>, 30)
IPi30 == Dec(0, <<3,1,8,3,0,9,8,8,6,1,8,3,7,9,0,6,7,1,5,3,7,7,6,7,5,2,6,7,4,5>>, 30)
TermDec(t) == LET c == IF t.pi = 0 THEN Dec(0, <<1>>, 0) ELSE IF t.pi = 1 THEN Pi30 ELSE IPi30 IN
              DDivSmall(DMulSmall(c, t.n), t.d, 30).q
RECURSIVE ValDec(_)
ValDec(v) == IF v = <<>> THEN DZero ELSE DAdd(TermDec(v[1]), ValDec(Tail(v)))

Close(o, v) ==
  LET e    == ValDec(v)
      diff == DDiffMag(DAdd(DFromParts(o.neg, o.ip, o.fp), DNeg(e)), DZero) IN
  DCmpMag(diff, DAdd(DShift(DAbs(e), -9), Dec(0, <<1>>, 10))) <= 0

SeqToSet(s) == {s[i] : i \in DOMAIN s}
(* o: [k, b, neg, ip, fp, us (sequence of [u, e])] *)
Matches(r, o) ==
  CASE r.k = "num"  -> o.k = "num" /\ \E i \in DOMAIN r.alts :
                          r.alts[i].us = SeqToSet(o.us) /\ (\A t \in SeqToSet(r.alts[i].v) : t.pi \in {-1, 0, 1}) /\ Close(o, r.alts[i].v)
    [] r.k = "bool" -> (o.k = "bool" /\ o.b = r.b) \/ (r.orerr = 1 /\ o.k = "err")
    [] r.k = "err"  -> o.k = "err"
    [] r.k = "uneval" -> o.k = "uneval"
    [] OTHER -> TRUE
=============================================================================
