SPECIFICATION Spec
CONSTANTS
  Mode = "ref"
  Tier = "quick"
  RefN = 60
INVARIANTS RefLawsHold NeverRejects FinalTable Emit
CHECK_DEADLOCK FALSE
