SPECIFICATION Spec
CONSTANTS
  Mode = "ref"
  Tier = "quick"
  RefN = 40
INVARIANTS RefLawsHold NeverRejects FinalTable Emit
CHECK_DEADLOCK FALSE
