SPECIFICATION Spec
CONSTANTS
  MaxItems = 2
  Sels = {"t", "desc"}
  Vals = {"half", "imp", "red"}
  Kinds = {"rule", "import", "cmt"}
INVARIANT SameStylesheet
INVARIANT FaultsRejected
INVARIANT EmitVec
CHECK_DEADLOCK FALSE
