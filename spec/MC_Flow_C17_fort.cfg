SPECIFICATION Spec
CONSTANTS
  Kind = "for"
  Ctxs = {"top", "mixin", "fn"}
  CondSet = {}
  MaxConds = 0
  ElseSet = {}
  NCondSet = {}
  AVals <- Range12
  BVals <- Range12
  TVals <- Range12
  UnitsA = {"", "px", "pt", "pc", "in", "cm", "mm", "s", "ms", "%"}
  UnitsB = {"", "px", "pt", "pc", "in", "cm", "mm", "s", "ms", "%"}
  MaxOut = 26
  Shapes = {}
  NVars = {}
  ItemCodes = {}
  MaxItems = 0
  ISeps = {}
INVARIANTS LawHolds LawWellFormed Emit
CHECK_DEADLOCK FALSE
