---------------------------- MODULE Trace_StrEsc ----------------------------
(* Trace validation for C27.  An event {lit, obs, devs, case[, content]}     *)
(* records what rsass showed for the quoted literal `lit`:                   *)
(*   obs.emit    the raw token text emitted for the literal                 *)
(*   obs.len     string.length of it                                        *)
(*   obs.interp  the raw token emitted for "#{..}" around it                *)
(*   obs.qu      the raw token emitted for string.quote(string.unquote(..)) *)
(*   obs.eq      1 iff string.quote(string.unquote(s)) == s                 *)
(* The content is what CssDecode says the literal denotes (TLA+ decodes     *)
(* both the source and every emitted token).  The event is explained iff    *)
(* every observable satisfies the property, or is exactly what the          *)
(* deviation model StrEsc!RsObs predicts with the listed open deviations    *)
(* switched on (the responsible deviations are then reported).              *)
EXTENDS StrEsc, Json, IOUtils, TLCExt

Rec == ndJsonDeserialize(IOEnv.TRACE)

VARIABLE l
Init == l = 1

SeqToSet(q) == {q[i] : i \in DOMAIN q}

Explained(e) ==
  LET d == CssDecode(e.lit) IN
  /\ d.ok = 1
  /\ ("content" \in DOMAIN e => e.content = d.s)
  /\ LET bad == BadFields(e.obs, d.s) IN
     IF bad = {} THEN TRUE
     ELSE LET D  == SeqToSet(e.devs)
              rs == RsObs(e.lit, D) IN
          /\ \A f \in bad : KnownField(f, e.obs, rs)
          /\ \A dv \in UNION {Responsible(f, e.lit, D) : f \in bad} : PrintT(<<"MSG", "KNOWN", dv, e.case>>)

Next == /\ l <= Len(Rec)
        /\ Explained(Rec[l]) = TRUE
        /\ l' = l + 1
Spec == Init /\ [][Next]_l

Accepted == IF TLCGet("stats").diameter - 1 = Len(Rec) THEN TRUE
            ELSE PrintT(<<"UNMATCHED", TLCGet("stats").diameter>>) /\ FALSE
=============================================================================
