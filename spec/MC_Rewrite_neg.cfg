SPECIFICATION Spec
CONSTANTS
  Pool = {4, 9}
  MaxStmts = 2
  MaxRw = 1
  Kinds = {}
  Unguarded = TRUE
INVARIANTS InvPreserved
CHECK_DEADLOCK FALSE
