------------------------------ MODULE MC_Expr ------------------------------
(* Bounded-exhaustive generator of expression token strings (builder       *)
(* actions) + emission of one conformance vector per complete string.      *)
EXTENDS Expr, Json

CONSTANTS Operands,   \* operand tokens
          Ops,        \* binary operator tokens
          Uns,        \* unary operator tokens
          MaxOps, MaxUn, MaxPar

VARIABLES toks, phase, depth, nops, nun, npar
vars == <<toks, phase, depth, nops, nun, npar>>

Init == toks = <<>> /\ phase = "operand" /\ depth = 0 /\ nops = 0 /\ nun = 0 /\ npar = 0

AddOperand == /\ phase = "operand"
              /\ \E t \in Operands : toks' = Append(toks, t)
              /\ phase' = "operator"
              /\ UNCHANGED <<depth, nops, nun, npar>>

AddUnary == /\ phase = "operand" /\ nun < MaxUn
            /\ (IF toks = <<>> THEN TRUE ELSE toks[Len(toks)] \notin UnOps)   \* no stacked unaries
            /\ \E u \in Uns : toks' = Append(toks, u)
            /\ nun' = nun + 1
            /\ UNCHANGED <<phase, depth, nops, npar>>

OpenPar == /\ phase = "operand" /\ npar < MaxPar
           /\ toks' = Append(toks, "(")
           /\ depth' = depth + 1 /\ npar' = npar + 1
           /\ UNCHANGED <<phase, nops, nun>>

ClosePar == /\ phase = "operator" /\ depth > 0
            /\ toks' = Append(toks, ")")
            /\ depth' = depth - 1
            /\ UNCHANGED <<phase, nops, nun, npar>>

AddOp == /\ phase = "operator" /\ nops < MaxOps
         /\ \E o \in Ops : toks' = Append(toks, o)
         /\ phase' = "operand" /\ nops' = nops + 1
         /\ UNCHANGED <<depth, nun, npar>>

Finish == /\ phase = "operator" /\ depth = 0
          /\ phase' = "done"
          /\ UNCHANGED <<toks, depth, nops, nun, npar>>

Next == AddOperand \/ AddUnary \/ OpenPar \/ ClosePar \/ AddOp \/ Finish
Spec == Init /\ [][Next]_vars

Done == phase = "done"

(* properties of the ideal grammar, on every generated string *)
LawParenStable == Done => ParenStable(toks)
LawWellShaped  == Done => WellShaped(Parse(toks, {}))
(* and/or/not never raise or leave the domain on well-defined operands *)
LawTotal == Done => (LET o == Observe(toks, {}) IN o.fx >= 0)

Emit == (Done /\ Observe(toks, {}).val.k # "undef") => PrintT(<<"VEC", ToJson([toks |-> toks, expect |-> Observe(toks, {}), dev |-> DevMap(toks)])>>)
=============================================================================
