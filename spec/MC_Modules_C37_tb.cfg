SPECIFICATION Spec
CONSTANTS
  MaxW = 3
  MaxRoot = 1
  MaxMid = 2
  RootTargets = {"m"}
  MidTargets = {"a"}
  Spellings = {"plain"}
  CfgPool = "basic"
  ListPool = "full"
  AccNs = {"", "m", "n"}
  LawDev = {}
  AccMembers <- AccMembersFwd
INVARIANTS InvNamespaceOnly InvConfigOnlyDefault InvShowHideComplement InvFilterExact InvBuiltin Emit
CHECK_DEADLOCK FALSE
