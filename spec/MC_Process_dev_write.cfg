SPECIFICATION Spec
CONSTANTS
  Threads = {"t1", "t2"}
  Progs <- ProgTable
  Dev = {"builtin_write_allowed"}
  MaxJobs = 1
INVARIANTS Deterministic
CHECK_DEADLOCK FALSE
