SPECIFICATION Spec
CONSTANTS
  Threads = {"t1", "t2"}
  Progs <- ProgTable
  Dev = {"builtin_write_allowed"}
  ProgSel = {"rd", "wr", "df", "pu", "uid", "uid2"}
  MaxJobs = 1
INVARIANTS Deterministic
CHECK_DEADLOCK FALSE
