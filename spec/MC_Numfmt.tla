----------------------------- MODULE MC_Numfmt -----------------------------
(* Bounded-exhaustive generator for C10: every number (W*2^m + k) / 2^m     *)
(* with W from a set of integer parts, m from Ms and k < 2^m (odd, i.e.     *)
(* in lowest terms, stepping by KStep), both signs, every precision in Ps   *)
(* and both styles; plus the non-finite values.  All of these are exactly   *)
(* representable as f64, and their decimal expansion - computed here by     *)
(* long division - is finite: the expansion IS the value.                   *)
EXTENDS Numfmt, Json

CONSTANTS WMax,     \* integer parts 0..WMax ...
          BigWs,    \* ... and these (digit sequences)
          Ms,       \* denominators 2^m
          KStep,    \* k = 1, 1+KStep, 1+2*KStep, ... (KStep even: only odd k)
          Ps, Styles, Negs

VARIABLES phase, w, m, x
vars == <<phase, w, m, x>>

Pow2(n) == IF n = 0 THEN 1 ELSE 2 ^ n

(* the m fractional digits of k / 2^m *)
RECURSIVE FracDigits(_, _, _)
FracDigits(r, den, n) == IF n = 0 THEN <<>>
                         ELSE <<(r * 10) \div den>> \o FracDigits((r * 10) % den, den, n - 1)

Ws == {NatDigits(i) : i \in 0..WMax} \cup BigWs
Ks(mm) == IF mm = 0 THEN {0} ELSE {k \in 1..(Pow2(mm) - 1) : (k - 1) % KStep = 0}

NoX == [cls |-> "none", neg |-> 0, ip |-> <<>>, fp |-> <<>>, sticky |-> 0, p |-> 0, style |-> "expanded"]

Init == phase = "pickw" /\ w = <<>> /\ m = 0 /\ x = NoX

PickW == /\ phase = "pickw"
         /\ \E ww \in Ws, mm \in Ms : w' = ww /\ m' = mm
         /\ phase' = "pickk" /\ UNCHANGED x

PickK == /\ phase = "pickk"
         /\ \E k \in Ks(m), neg \in Negs, p \in Ps, style \in Styles :
              x' = [cls |-> "fin", neg |-> neg, ip |-> w, fp |-> FracDigits(k, Pow2(m), m),
                    sticky |-> 0, p |-> p, style |-> style]
         /\ phase' = "done" /\ UNCHANGED <<w, m>>

PickSpecial == /\ phase = "pickw"
               /\ \E c \in {"inf", "ninf", "nan"}, p \in Ps, style \in Styles :
                    x' = [cls |-> c, neg |-> IF c = "ninf" THEN 1 ELSE 0, ip |-> <<>>, fp |-> <<>>,
                          sticky |-> 0, p |-> p, style |-> style]
               /\ phase' = "done" /\ UNCHANGED <<w, m>>

Next == PickW \/ PickK \/ PickSpecial
Spec == Init /\ [][Next]_vars

Done == phase = "done"

(* the clauses of the property hold of the ideal numeral *)
Laws == Done => LawsHold(x)
(* the deviations are really deviations: whenever they change the numeral, the law fails *)
DevsBreakLaw == Done => \A d \in DOMAIN DevMap(x) :
                   LET o == Numeral(x, {d}) IN
                   ~(Len(o.fp) <= x.p /\ (o.fp # <<>> => SigDigits(o) <= 16))

Emit == Done => PrintT(<<"VEC", ToJson([cls |-> x.cls, neg |-> x.neg, ip |-> x.ip, fp |-> x.fp, sticky |-> x.sticky,
                                         p |-> x.p, style |-> x.style,
                                         expect |-> Numeral(x, {}), dev |-> DevMap(x)])>>)

(* integer parts for the cfg files (cfg syntax has no tuples) *)
BigWs_q   == {<<9>>, <<1,0>>, <<1,0,0>>}
BigWs_t    == {<<9,9>>, <<1,0,0>>, <<9,9,9>>, <<1,0,0,0>>, <<4,0,9,5>>}
BigWs_deep == {<<9>>, <<1,0>>, <<9,9>>, <<1,0,0>>, <<1,0,0,0,0,0>>}
(* long integer parts: the 16-significant-digit cap, powers of ten, 16-digit integer parts *)
Nines(n) == [i \in 1..n |-> 9]
P10(n)   == <<1>> \o Zeros(n)
BigWs_cap == {Nines(6), P10(6), <<1,2,3,4,5,6,7,8,9,0,1,2>>, Nines(13), P10(13), Nines(14), P10(14),
              <<1,2,3,4,5,6,7,8,9,0,1,2,3,4,5>>, Nines(15), P10(15), <<1,1,2,5,8,9,9,9,0,6,8,4,2,6,2,3>>}
=============================================================================
