SPECIFICATION SpecS
POSTCONDITION Accepted
CHECK_DEADLOCK FALSE
