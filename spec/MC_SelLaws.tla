---------------------------- MODULE MC_SelLaws ----------------------------
(* The universe of selector lists for C23 / C24, the query lists TLC emits  *)
(* (Flow A: rsass answers every query, the answers are the trace validated  *)
(* by Trace_SelLaws), and the vacuity guard: the reference relation         *)
(* SelLaws!RefSuper satisfies every law of the SuperMonitor on this         *)
(* universe (ASSUME, evaluated by TLC at start-up) and the monitor, fed     *)
(* with its answers, never rejects (mode "ref", exhaustive run).            *)
EXTENDS SelLaws, Json

CONSTANTS Mode,      \* "ref" | "c23" | "c24"
          Tier,      \* "small" (development) | "quick" | "thorough"
          RefN       \* size of the universe prefix the monitor is run on in mode "ref"

Singles == {<<"a">>, <<"*">>, <<".c">>, <<".d">>, <<"#i">>, <<"#j">>, <<"[x]">>, <<"[x=y]">>, <<":hover">>, <<"::before">>,
            <<":is(", ".c", ")">>, <<":not(", ".c", ")">>, <<":is(", ".c", ".d", ")">>, <<":not(", ".c", ",", ".d", ")">>,
            (* selector pseudo-classes beside what their arguments match: `:is(.c)` / `.c` / `.c:is(.d)`, also below :not() *)
            <<":is(", ".d", ")">>, <<":is(", ".c", ",", ".d", ")">>, <<":where(", ".c", ")">>,
            <<":not(", ".c", ":is(", ".d", ")", ")">>, <<":not(", ":is(", ".c", ")", ")">>}
(* in the storage order of the pinned tree (element, id, classes, attributes, pseudos), so that the open
   finding compound_reordered of C19 does not show in these laws *)
Pairs   == {<<"a", ".c">>, <<"a", "#i">>, <<".c", ".d">>, <<".c", ":hover">>, <<"a", "::before">>, <<".c", "[x]">>,
            <<"a", ":not(", ".c", ")">>, <<"#i", ".c">>, <<".c", "::before">>, <<"a", ":is(", ".c", ")">>,
            <<".d", ":not(", ".c", ")">>, <<"a", "[x=y]">>,
            <<".c", ":is(", ".d", ")">>, <<".c", ":not(", ".d", ")">>, <<".c", ":where(", ".d", ")">>, <<".c", ".d", ":is(", ".d", ")">>}
Compounds == Singles \cup Pairs

Core == IF Tier = "small" THEN {<<"a">>, <<"b">>, <<".c">>}
        ELSE IF Tier = "quick" THEN {<<"a">>, <<"b">>, <<".c">>, <<"a", ".c">>, <<":not(", ".c", ")">>, <<"*">>}
        ELSE {<<"a">>, <<"b">>, <<".c">>, <<"a", ".c">>, <<":not(", ".c", ")">>, <<"*">>, <<"::before">>}
Combs == {"sp", ">", "+", "~"}

Extras == {<<"a", "sp", "b", "sp", ".c">>, <<"a", ">", "b", "sp", ".c">>, <<"a", "sp", "b", ">", ".c">>,
           <<"a", "+", "b", "~", ".c">>, <<"a", "~", "b", "+", ".c">>, <<"a", ">", "b", "+", ".c">>,
           <<"a", "+", "b", ">", ".c">>, <<"a", "~", "b", "sp", ".c">>, <<".c", "sp", "a", "::before">>,
           <<"a", ">", ".c", "::before">>, <<"*", "sp", ".c">>, <<"*", ">", "a">>,
           <<"a", "sp", ":is(", ".c", ")">>, <<"a", "sp", ".c", ":is(", ".d", ")">>, <<"a", "sp", ":is(", ".c", ")", "sp", "b">>,
           <<"a", "sp", ".c", ":is(", ".d", ")", "sp", "b">>, <<"a", "sp", ".c", "sp", "b">>}
          \cup (IF Tier # "thorough" THEN {} ELSE
               {<<"a", ">", "b", ">", ".c">>, <<"a", "~", "b", "~", ".c">>, <<"a", "+", "b", "+", ".c">>, <<"a", "sp", "b", "~", ".c">>,
                <<"a", "sp", "b", "sp", ".c", "sp", ".d">>, <<"a", ">", "b", "~", ".c", "+", ".d">>})

ListMembers == IF Tier = "small" THEN {<<"a">>, <<".c">>, <<"a", ">", "b">>}
               ELSE IF Tier = "quick" THEN {<<"a">>, <<".c">>, <<"a", ".c">>, <<"a", ">", "b">>}
               ELSE {<<"a">>, <<".c">>, <<"a", ".c">>, <<"a", ">", "b">>, <<"a", "sp", "b">>, <<":not(", ".c", ")">>}

(* a second block of the table: selectors of up to 5 compounds with repeated names - a seed with an explicit *)
(* combinator above a descendant combinator, and ancestors added at that descendant combinator             *)
DeepSeeds == {<<"a", ">", "b">>, <<"a", "~", "b">>, <<"a", "+", "b">>, <<"e", "sp", "a", "+", "b">>, <<"a", "sp", "b">>}
DeepMids  == {<<>>, <<"e">>, <<"b">>, <<"e", "sp", "b">>, <<"b", "sp", "e">>, <<"e", ">", "b">>, <<"b", ">", "e">>}
            \cup (IF Tier = "thorough" THEN {<<"e", "sp", "b", "sp", "e">>, <<"b", "sp", "b">>, <<"a", ">", "b">>, <<"e", "~", "b">>} ELSE {})
Deep == {s \o (IF m = <<>> THEN <<>> ELSE <<"sp">> \o m) \o <<"sp", ".c">> : s \in DeepSeeds, m \in DeepMids}

Complexes == Compounds \cup {x \o <<c>> \o y : x \in Core, c \in Combs, y \in Core} \cup Extras
Lists     == {p[1] \o <<",">> \o p[2] : p \in {p \in ListMembers \X ListMembers : p[1] # p[2]}}
Main      == Complexes \cup Lists
Universe  == Main \cup Deep

SX == INSTANCE SequencesExt
USeq == SX!SetToSeq(Universe)      \* (TLC module override: the elements in TLC's normal order)
N    == Len(USeq)
P    == Sq([i \in 1..N |-> Parse(USeq[i])])
Idx(toks) == IF toks \in Universe THEN CHOOSE i \in 1..N : USeq[i] = toks ELSE 0

(* Derive, one step, from every member of a universe element *)
Adds     == {<<"a">>, <<"*">>, <<".c">>, <<".d">>, <<".e">>, <<"#i">>, <<"[x]">>, <<"[x=y]">>, <<":hover">>, <<":focus">>,
             <<":is(", ".c", ")">>, <<":is(", ".d", ")">>, <<":where(", ".d", ")">>, <<":not(", ".c", ")">>, <<":not(", ".d", ")">>}
Prefixes == {<<"e">>, <<".e">>, <<"a", ".c">>, <<"*">>, <<":not(", ".c", ")">>, <<"e", "sp", "f">>, <<"e", ">", "f">>, <<"e", "+", "f">>, <<"e", "~", "f">>}
Infixes  == {<<"e">>, <<"e", "sp", "b">>, <<"b", ">", "e">>}
DeriveOf(i) == UNION {DeriveComplexSet(P[i][m], Adds, Prefixes, Infixes) : m \in 1..Len(P[i])}
               \cup (IF Len(P[i]) > 1 THEN {P[i][m] : m \in 1..Len(P[i])} ELSE {})
DeriveToks(i) == {ToksComplex(d) : d \in DeriveOf(i)}

---------------------------------------------------------------------------
(* vacuity guard: the laws are jointly satisfiable on this universe.  RefTable has a parameter *)
(* because TLC evaluates every constant definition at start-up; it is only needed in mode "ref". *)
RefTable(m) == Sq([i \in 1..m |-> Sq([j \in 1..m |-> IF RefSuper(P[i], P[j]) THEN 1 ELSE 0])])

RefLaws(T) ==
  /\ N > 0
  /\ Reflexive(T)
  /\ Transitive(T)
  /\ \A i \in 1..Len(T) : \A j \in 1..Len(T) : MustTrue(P[i], P[j]) => T[i][j] = 1
  (* every Derive query the generator emits is one the monitor forces to be true, and the reference agrees *)
  /\ \A i \in 1..N : \A d \in DeriveOf(i) : MustTrue(P[i], <<d>>) /\ RefSuper(P[i], <<d>>)
  (* the relation is not trivial: it separates selectors *)
  /\ \E i \in 1..Len(T) : \E j \in 1..Len(T) : T[i][j] = 0

---------------------------------------------------------------------------
(* queries *)
Q(k, ia, ib, a, b, x, y, fa, fb) == [k |-> k, ia |-> ia, ib |-> ib, a |-> a, b |-> b, x |-> x, y |-> y, fa |-> fa, fb |-> fb]
E == <<>>

SelQ(z) == {Q("sel", i, 0, USeq[i], E, E, E, "str", "str") : i \in 1..N}

Forms == {<<"str", "list">>, <<"list", "str">>, <<"list", "list">>}
Q23(z) == SelQ(z)
  (* the table: every ordered pair inside the main block and inside the deep block *)
  \cup {Q("super", p[1], p[2], USeq[p[1]], USeq[p[2]], E, E, "str", "str") :
           p \in {p \in (1..N) \X (1..N) : (USeq[p[1]] \in Main /\ USeq[p[2]] \in Main) \/ (USeq[p[1]] \in Deep /\ USeq[p[2]] \in Deep)}}
  \cup {Q("super", i, i, USeq[i], USeq[i], E, E, f[1], f[2]) : i \in 1..N, f \in Forms}
  \cup UNION {{Q("super", i, Idx(d), USeq[i], d, E, E, "str", "str") : d \in DeriveToks(i)} : i \in 1..N}
  \cup UNION {{Q("super", i, Idx(d), USeq[i], d, E, E, "list", "list") : d \in DeriveToks(i)} : i \in {i \in 1..N : Tier = "thorough" \/ USeq[i] \in Compounds \cup Extras}}

XPool == IF Tier = "small" THEN {<<"a">>, <<".c">>, <<"#i">>, <<":hover">>, <<".e">>, <<"a", ".c">>, <<".c", ",", ".d">>}
         ELSE {<<"a">>, <<".c">>, <<".d">>, <<"#i">>, <<"[x]">>, <<":hover">>, <<".e">>, <<"a", ".c">>, <<".c", ",", ".d">>, <<"::before">>}
YPool == IF Tier = "small" THEN {<<".e">>, <<"e", ">", ".f">>, <<".e", ",", "f">>}
         ELSE {<<".e">>, <<"b">>, <<"e", "sp", "f">>, <<"e", ">", ".f">>, <<".c">>, <<".e", ",", "f">>}
AmpForms == {<<"&", ".c">>, <<"&", ">", "b">>, <<".c", "sp", "&">>, <<"&", ":hover">>, <<":not(", "&", ")">>, <<"&", "sp", "b", ",", ".e">>}
NestPool == Compounds \cup Extras \cup Lists \cup AmpForms
Suffixes == {<<".c">>, <<".d">>, <<"#i">>, <<"[x]">>, <<":hover">>, <<"::before">>, <<":not(", ".c", ")">>, <<":is(", ".c", ")">>,
             <<"-x">>, <<".c", ".d">>, <<".c", ":hover">>}

MainIdx == {i \in 1..N : USeq[i] \in Main}        \* C24 takes its operands from the main block
Q24(z) == SelQ(z)
  (* the unify law is symmetric in its operands: unordered pairs *)
  \cup {Q("unify", p[1], p[2], USeq[p[1]], USeq[p[2]], E, E, "str", "str") : p \in {p \in MainIdx \X MainIdx : p[1] <= p[2]}}
  \cup {Q("extend", i, 0, USeq[i], E, x, y, "str", "str") : i \in MainIdx, x \in XPool, y \in YPool}
  \cup {Q("replace", i, 0, USeq[i], E, x, y, "str", "str") : i \in MainIdx, x \in XPool, y \in YPool}
  \cup {Q("nest", i, 0, USeq[i], b, E, E, "str", "str") : i \in MainIdx, b \in NestPool}
  \cup {Q("append", i, 0, USeq[i], b, E, E, "str", "str") : i \in MainIdx, b \in Suffixes}

(* operators with a parameter: TLC evaluates every constant definition at start-up, whatever the mode *)
Queries(z) == IF Mode = "c23" THEN Q23(z) ELSE IF Mode = "c24" THEN Q24(z) ELSE {Q("ref", 0, 0, E, E, E, E, "str", "str")}

---------------------------------------------------------------------------
VARIABLES q, R, T, l, rej
vars == <<q, R, T, l, rej>>

M == IF RefN < N THEN RefN ELSE N

Init == /\ q \in Queries(0)
        /\ R = IF Mode = "ref" THEN EmptyR(M) ELSE <<>>
        /\ T = IF Mode = "ref" THEN RefTable(M) ELSE <<>>
        /\ l = 1 /\ rej = FALSE

(* mode "ref": the SuperMonitor consumes the reference answers for the pairs of the first M universe elements, row by row *)
RefEvent(k) == LET i == ((k - 1) \div M) + 1  j == ((k - 1) % M) + 1 IN
               [k |-> "super", ia |-> i, ib |-> j, a |-> USeq[i], b |-> USeq[j], r |-> T[i][j], fa |-> "str", fb |-> "str"]
ObserveRef ==
  /\ Mode = "ref" /\ ~rej /\ l <= M * M
  /\ LET e == RefEvent(l)  R2 == Upd(R, e) IN
     IF SuperOK(e, R2) THEN R' = R2 /\ rej' = FALSE ELSE R' = R /\ rej' = TRUE
  /\ l' = l + 1 /\ UNCHANGED <<q, T>>
Next == ObserveRef
Spec == Init /\ [][Next]_vars

RefLawsHold  == (Mode = "ref" /\ l = 1) => RefLaws(T)
NeverRejects == ~rej
FinalTable   == (Mode = "ref" /\ l > M * M) => (Reflexive(R) /\ Transitive(R) /\ \A i \in 1..M : \A j \in 1..M : R[i][j] = T[i][j])

Emit == (Mode # "ref") => PrintT(<<"VEC", ToJson(q)>>)
=============================================================================
