SPECIFICATION Spec
CONSTANTS
  MaxItems = 1
  KS = {"d_ident", "p_ident", "m_feat", "m_type", "d_call", "r_class", "d_callx", "m_callx"}
  CS = {"digit", "hyphen", "ascii", "latin1", "dquote", "space", "backslash"}
  SH = {"solo", "mid", "dig", "two", "lead", "leadhex"}
  CT = {}
  FN = {"translate", "translateX", "rotateZ", "scaleY", "Foo", "X", "aB1"}
INVARIANT Generated
INVARIANT EmitVec
CHECK_DEADLOCK FALSE
