---------------------------- MODULE Trace_Rewrite ----------------------------
(* Trace validation for the law C35.  One event = one pair                   *)
(*   {kind, rws, triv, o, c, expect, shape, devs, case}                       *)
(* o / c: the outcome [k |-> "ok" | "err" | other, v |-> output text] of the   *)
(* original and of the rewritten source.  The event is explained iff the two  *)
(* outputs are byte-equal (errors: equal as a class), the rewrites applied    *)
(* are rewrites of the property, and - for pairs generated from the model -   *)
(* the structure read back from the original's output equals Rewrite!Result   *)
(* as computed by TLC (`expect`), which binds the mini-language evaluator     *)
(* that the model-level law was checked against.                              *)
EXTENDS Rewrite, Json, IOUtils, TLCExt

Rec == ndJsonDeserialize(IOEnv.TRACE)

VARIABLE l
Init == l = 1

RewriteNames == {"InsertWs", "InsertCmt", "RenameVar", "RenameFn", "RenameMixin", "SwapSep", "Hoist",
                 "InsertDebug", "InsertWarn", "MoveToPartial"}
TokenLevel == {"InsertWs", "InsertCmt"}

SameOutput(o, c) == \/ (o.k = "ok" /\ c.k = "ok" /\ o.v = c.v)
                    \/ (o.k = "err" /\ c.k = "err")

(* a pair made from a token program of Rewrite!Snippets *)
ExplainedSnippet(e) ==
  /\ e.snip \in SnipIds
  /\ Len(e.triv) >= 1
  /\ LET s == SnipById(e.snip) IN
     /\ \A i \in DOMAIN e.triv : SnipTrivOK(s, e.triv[i])
     /\ e.o.k = "ok"                      \* the original of every snippet compiles
     /\ \/ SameOutput(e.o, e.c)
        \/ \E d \in {e.devs[j] : j \in DOMAIN e.devs} :
              /\ \E i \in DOMAIN e.triv : SnipDevScope(d, s, e.triv[i])
              /\ SnipDevClass(d, e.c)
              /\ PrintT(<<"MSG", "KNOWN", d, e.case>>)

Explained(e) ==
  IF e.kind = "snippet" THEN ExplainedSnippet(e) ELSE
  /\ Len(e.rws) >= 1
  /\ \A i \in DOMAIN e.rws : e.rws[i] \in RewriteNames
  /\ (e.kind = "corpus" => \A i \in DOMAIN e.rws : e.rws[i] \in TokenLevel)     \* corpus inputs: token-level rewrites only
  /\ \A i \in DOMAIN e.triv : e.triv[i].k \in {"ws", "cmt"}
  /\ SameOutput(e.o, e.c)
  /\ (e.kind = "model" => e.shape = e.expect)

Next == /\ l <= Len(Rec)
        /\ Explained(Rec[l]) = TRUE     \* evaluated as a value: no sub-action per disjunct
        /\ l' = l + 1
Spec == Init /\ [][Next]_l

Accepted == IF TLCGet("stats").diameter - 1 = Len(Rec) THEN TRUE
            ELSE PrintT(<<"UNMATCHED", TLCGet("stats").diameter>>) /\ FALSE
=============================================================================
