SPECIFICATION Spec
CONSTANTS
  MaxItems = 0
  Sels = {"t"}
  Vals = {"half"}
  Kinds = {"rule"}
INVARIANT LawsChecked
CHECK_DEADLOCK FALSE
