SPECIFICATION Spec
CONSTANTS
  Leaves = {"loud", "l_sph", "l_h", "l_star", "l_slash", "l_i0", "l_ih", "l_ihd", "l_nl", "l_nlh", "decl"}
  Conts = {"rule", "media", "atrule", "mixin", "each2"}
  MaxStmts = 3
  MaxDepth = 2
  Strict = TRUE
  Styles = {"expanded", "compressed"}
  Need = {"l_sph", "l_h", "l_star", "l_slash", "l_i0", "l_ih", "l_ihd", "l_nl", "l_nlh"}
  MaxOf <- LimC36
INVARIANTS InvLaws Emit36
CHECK_DEADLOCK FALSE
