SPECIFICATION Spec
CONSTANTS
  Kind = "if"
  Ctxs = {"top", "mixin", "fn"}
  CondSet = {"true", "false", "null", "0", "1", "str_empty", "str_x", "()", "(1 2)", "(a: 1)", "red"}
  MaxConds = 3
  ElseSet = {0, 1}
  NCondSet = {}
  AVals = {}
  BVals = {}
  TVals = {}
  UnitsA = {}
  UnitsB = {}
  MaxOut = 100
  Shapes = {}
  NVars = {}
  ItemCodes = {}
  MaxItems = 0
  ISeps = {}
INVARIANTS LawHolds LawWellFormed Emit
CHECK_DEADLOCK FALSE
