----------------------------- MODULE Trace_Entry -----------------------------
(* Trace validation for C38: the recorded history of entry-point calls must  *)
(* be a behaviour of the Entry machine in which Agreement holds after every   *)
(* call.  Events: {ev: "Begin", inp: [kind, style, prec], case} and           *)
(* {ev: "Call", entry, res: [k, v], case}.                                    *)
EXTENDS Entry, Json, IOUtils, TLCExt

Rec == ndJsonDeserialize(IOEnv.TRACE)

VARIABLE l
Init == l = 1 /\ EInit

Explained(e) ==
  IF e.ev = "Begin" THEN Begin([kind |-> e.inp.kind, style |-> e.inp.style, prec |-> e.inp.prec, bytes |-> e.inp.bytes])
  ELSE /\ e.ev = "Call"
       /\ Call(e.entry, e.res)
       /\ Agreement(inp, outs')          \* the property, after every call

Next == /\ l <= Len(Rec)
        /\ Explained(Rec[l])
        /\ l' = l + 1
Spec == Init /\ [][Next]_<<l, inp, outs>>

Accepted == IF TLCGet("stats").diameter - 1 = Len(Rec) THEN TRUE
            ELSE PrintT(<<"UNMATCHED", TLCGet("stats").diameter>>) /\ FALSE
=============================================================================
