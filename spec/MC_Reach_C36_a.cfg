SPECIFICATION Spec
CONSTANTS
  Leaves = {"loud", "loudi", "bang", "silent", "decl"}
  Conts = {"rule", "nsprop", "media", "atrule", "mixin", "content", "if1", "if0", "else", "each2", "for2", "while2"}
  MaxStmts = 4
  MaxDepth = 3
  Strict = TRUE
  Styles = {"expanded", "compressed"}
  Need = {"loud", "loudi", "bang", "silent"}
  MaxOf <- LimC36
INVARIANTS InvLaws Emit36
CHECK_DEADLOCK FALSE
