------------------------------ MODULE Trace_Cli ------------------------------
(* Each event is one invocation of the real binary together with what the   *)
(* LIBRARY gave for every input file on the same disk layout:               *)
(*   {ev:"Run", files:[kind], layout, lib:[{ok:0/1, out:string}],           *)
(*    obs:{exit, stdout, err_prefix:0/1}}                                   *)
(* The Cli machine is started on (files, layout) and stepped (CompileOk /   *)
(* CompileFail / Finish are silent steps); when it has terminated the event *)
(* is consumed if the exit status is the machine's, stdout is the           *)
(* concatenation of the library outputs of the files the machine emitted    *)
(* (on success), stderr starts with `Error:` on failure, and the library    *)
(* agreed with the machine about every file it reached.                     *)
EXTENDS Cli, Json, IOUtils, TLCExt

Rec == ndJsonDeserialize(IOEnv.TRACE)
VARIABLES l, busy
tvars == <<cvars, l, busy>>
Ev == Rec[l]

Init == l = 1 /\ busy = FALSE /\ files = <<>> /\ layout = "none" /\ i = 1 /\ exit = -1 /\ emitted = <<>>

Begin == /\ ~busy /\ l <= Len(Rec) /\ Ev.ev = "Run"
         /\ files' = Ev.files /\ layout' = Ev.layout /\ i' = 1 /\ exit' = -1 /\ emitted' = <<>>
         /\ busy' = TRUE /\ UNCHANGED l

Step == busy /\ exit = -1 /\ CNext /\ UNCHANGED <<l, busy>>

RECURSIVE ConcatOf(_, _, _)
ConcatOf(lib, idx, k) == IF k > Len(idx) THEN "" ELSE lib[idx[k]].out \o ConcatOf(lib, idx, k + 1)

Check == /\ busy /\ exit # -1
         /\ \A k \in DOMAIN emitted : Ev.lib[emitted[k]].ok = 1           \* the library compiled what the machine emitted
         /\ (exit = 1 => Ev.lib[i].ok = 0)                                 \* and failed where the machine failed
         /\ IF exit = 0
            THEN Ev.obs.exit = 0 /\ Ev.obs.stdout = ConcatOf(Ev.lib, emitted, 1)
            ELSE Ev.obs.exit # 0 /\ Ev.obs.err_prefix = 1
         /\ l' = l + 1 /\ busy' = FALSE /\ UNCHANGED cvars

Next == Begin \/ Step \/ Check
Spec == Init /\ [][Next]_tvars

TraceExitOk  == ExitOk
TraceExitErr == ExitErr

ASSUME TLCSet(1, 0)
Track == (IF l > TLCGet(1) THEN TLCSet(1, l) ELSE TRUE)
Accepted == IF TLCGet(1) = Len(Rec) + 1 THEN TRUE
            ELSE PrintT(<<"UNMATCHED", TLCGet(1)>>) /\ FALSE
=============================================================================
