SPECIFICATION Spec
CONSTANTS
  Mode = "dir"
  MaxFiles = 0
  GenKinds = {"use", "forward", "import"}
  GenPre = {"none"}
  GenWhere = {"root", "sub"}
INVARIANTS Laws Emit
CHECK_DEADLOCK FALSE
