SPECIFICATION Spec
CONSTANTS
  Simples = {"a", "%p", "%q"}
  Sfx = {"-x"}
  Combs = {"sp"}
  LeadCombs = {}
  Fns = {":not(", ":is("}
  MaxLevels = 2
  MaxList = 2
  MaxArgList = 2
  MaxComps = 2
  MaxSimp = 2
  MaxTotal = 4
  MaxFn = 2
  MaxDepth = 2
  Amp = {"top", "arg"}
  MaxAmp = 1
INVARIANTS InvLaws Emit
CHECK_DEADLOCK FALSE
