---------------------------- MODULE MC_Modules ----------------------------
(* Bounded-exhaustive generator of module graphs for Modules.tla: builder  *)
(* steps pick the root's load statements, then (when the root loads it)    *)
(* the middle file's statements, then one access.  Every non-default       *)
(* feature (spelling, `as`, each configured variable, filter, prefix)      *)
(* costs one unit of weight; the total weight is bounded.                  *)
EXTENDS Modules, Json

CONSTANTS MaxW,        \* total feature weight
          MaxRoot,     \* load statements in the root
          MaxMid,      \* load statements in the middle file
          RootTargets, \* targets the root may load
          MidTargets,  \* targets the middle file may load
          Spellings, CfgPool, ListPool, AccNs, AccMembers,
          LawDev       \* the deviations under which the laws are evaluated ({} = the ideal rules)

VARIABLES r, m, acc, phase, w
vars == <<r, m, acc, phase, w>>

C(n, v) == [n |-> n, v |-> v]
E(c, pre, n) == [c |-> c, pre |-> pre, n |-> n]

(* configuration pools (CfgPool names one) *)
CfgsBasic == {<<>>, <<C("d", "c1")>>, <<C("p", "c1")>>, <<C("q", "c1")>>}
CfgsFull  == CfgsBasic \cup {<<C("d", "c1"), C("d", "c2")>>, <<C("d", "c1"), C("p", "c2")>>,
                             <<C("q", "c1"), C("q", "c2")>>, <<C("p", "c1"), C("d", "c2")>>}
CfgsPi == {<<>>, <<C("pi", "c1")>>}
Cfgs == IF CfgPool = "full" THEN CfgsFull ELSE IF CfgPool = "none" THEN {<<>>} ELSE IF CfgPool = "pi" THEN CfgsPi ELSE CfgsBasic

(* show/hide lists *)
Singles(pre) == {<<E("var", pre, "d")>>, <<E("var", pre, "p")>>, <<E("fun", pre, "f")>>, <<E("fun", pre, "m")>>}
ListsBasic == Singles(0) \cup Singles(1)
ListsFull  == ListsBasic \cup {<<E("fun", 0, "f"), E("var", 0, "d")>>, <<E("fun", 1, "f"), E("var", 1, "d")>>,
                               <<E("var", 1, "f")>>, <<E("fun", 1, "d")>>, <<E("var", 0, "f")>>,
                               <<E("fun", 0, "m"), E("var", 0, "p")>>, <<E("fun", 1, "m"), E("fun", 1, "f")>>}
ListsPi == {<<E("var", 0, "pi")>>, <<E("var", 1, "pi")>>, <<E("var", 0, "e")>>, <<E("var", 1, "e")>>, <<E("fun", 0, "pi")>>}
Lists == IF ListPool = "full" THEN ListsFull ELSE IF ListPool = "pi" THEN ListsPi ELSE ListsBasic

UseStmts(targets) ==
  {[k |-> "use", t |-> t, sp |-> sp, as |-> as, cfg |-> c] :
      t \in targets, sp \in Spellings, as \in {"def", "n", "star"}, c \in Cfgs}
FwdStmts(targets) ==
  {[k |-> "fwd", t |-> t, sp |-> "plain", vis |-> "all", list |-> <<>>, pre |-> pre, cfg |-> c] :
      t \in targets, pre \in {0, 1}, c \in Cfgs}
  \cup
  {[k |-> "fwd", t |-> t, sp |-> "plain", vis |-> vis, list |-> l, pre |-> pre, cfg |-> c] :
      t \in targets, vis \in {"show", "hide"}, l \in Lists, pre \in {0, 1}, c \in Cfgs}

Weight(st) ==
  (IF st.sp # "plain" THEN 1 ELSE 0) + Len(st.cfg)
  + (IF st.k = "use" THEN (IF st.as # "def" THEN 1 ELSE 0)
     ELSE (IF st.vis # "all" THEN Len(st.list) ELSE 0) + st.pre)

SaneStmt(st) == (st.sp # "plain" => st.t \in LibFiles)

Accesses ==
  {[k |-> "get", ns |-> ns, kind |-> km[1], pre |-> pre, n |-> km[2]] : ns \in AccNs, km \in AccMembers, pre \in {0, 1}}
  \cup {[k |-> "set", ns |-> ns, kind |-> "var", pre |-> pre, n |-> "pi"] : ns \in AccNs, pre \in {0, 1}}

AccMembersAll == {<<"var", "d">>, <<"var", "p">>, <<"var", "o">>, <<"var", "q">>, <<"var", "pi">>, <<"fn", "f">>, <<"mix", "m">>}
AccMembersPi  == {<<"var", "pi">>, <<"var", "o">>}
AccMembersFwd == {<<"var", "d">>, <<"var", "p">>, <<"var", "o">>, <<"fn", "f">>, <<"mix", "m">>}

Init == r = <<>> /\ m = <<>> /\ acc = [k |-> "none"] /\ phase = "root" /\ w = 0

AddRoot == /\ phase = "root" /\ Len(r) < MaxRoot
           /\ \E st \in UseStmts(RootTargets) \cup FwdStmts(RootTargets \cap Builtins) :
                /\ SaneStmt(st) /\ w + Weight(st) <= MaxW
                /\ r' = Append(r, st) /\ w' = w + Weight(st)
           /\ UNCHANGED <<m, acc, phase>>

RootDone == /\ phase = "root" /\ Len(r) >= 1
            /\ phase' = IF \E i \in DOMAIN r : r[i].t = "m" THEN "mid" ELSE "acc"
            /\ UNCHANGED <<r, m, acc, w>>

AddMid == /\ phase = "mid" /\ Len(m) < MaxMid
          /\ \E st \in UseStmts(MidTargets \ Builtins) \cup FwdStmts(MidTargets) :
               /\ SaneStmt(st) /\ st.sp = "plain" /\ (st.k = "use" => st.as = "def") /\ w + Weight(st) <= MaxW
               /\ m' = Append(m, st) /\ w' = w + Weight(st)
          /\ UNCHANGED <<r, acc, phase>>

MidDone == /\ phase = "mid"
           /\ phase' = "acc"
           /\ UNCHANGED <<r, m, acc, w>>

PickAcc == /\ phase = "acc"
           /\ \E a \in Accesses : acc' = a
           /\ phase' = "done"
           /\ UNCHANGED <<r, m, w>>

Next == AddRoot \/ RootDone \/ AddMid \/ MidDone \/ PickAcc
Spec == Init /\ [][Next]_vars

Done == phase = "done"
Prog == [r |-> r, m |-> m, acc |-> acc]

InvNamespaceOnly       == Done => LawNamespaceOnly(Prog, LawDev)
InvConfigOnlyDefault   == Done => LawConfigOnlyDefault(Prog, LawDev)
InvShowHideComplement  == Done => LawShowHideComplement(Prog, LawDev)
InvFilterExact         == (Done /\ Len(m) = 1) => LawFilterExact(Prog, LawDev)
InvBuiltin             == Done => LawBuiltin(Prog, LawDev)

Emit == (Done /\ ~NotModelled(Prog)) =>
          PrintT(<<"VEC", ToJson([r |-> r, m |-> m, acc |-> acc, expect |-> ObserveM(Prog, {}), dev |-> DevMap(Prog)])>>)
=============================================================================
