------------------------------ MODULE MC_Calc ------------------------------
(* Bounded-exhaustive generator of calculations (builder actions over a      *)
(* token string with a stack of open parentheses / function calls) and the   *)
(* laws of the calc model, checked by TLC on every generated calculation.     *)
EXTENDS Calc, Json

CONSTANTS Leaves,     \* leaf tokens
          Ops,        \* binary operators
          Tops,       \* outermost function: subset of {"calc(", "min(", "max(", "clamp("}
          Fns,        \* functions usable as operands
          MaxOps,     \* bound on binary operators + inner function calls
          MaxPar      \* bound on parentheses pairs

VARIABLES toks, stack, phase, nops, npar
vars == <<toks, stack, phase, nops, npar>>

(* stack frames: [k: "par" | "calc" | "min" | "max" | "clamp", args: completed arguments, ops: operators in the current argument] *)
Frame(k) == [k |-> k, args |-> 0, ops |-> 0]
Top == stack[Len(stack)]
Pop == SubSeq(stack, 1, Len(stack) - 1)
SetTop(f) == [stack EXCEPT ![Len(stack)] = f]
Name(t) == CASE t = "calc(" -> "calc" [] t = "min(" -> "min" [] t = "max(" -> "max" [] OTHER -> "clamp"

Init == /\ \E t \in Tops : toks = <<t>> /\ stack = <<Frame(Name(t))>>
        /\ phase = "operand" /\ nops = 0 /\ npar = 0

AddLeaf == /\ phase = "operand"
           /\ \E l \in Leaves : toks' = Append(toks, l)
           /\ phase' = "operator"
           /\ UNCHANGED <<stack, nops, npar>>

OpenPar == /\ phase = "operand" /\ npar < MaxPar /\ nops < MaxOps     \* a group must contain an operator
           /\ toks' = Append(toks, "(")
           /\ stack' = Append(stack, Frame("par"))
           /\ npar' = npar + 1
           /\ UNCHANGED <<phase, nops>>

OpenFn == /\ phase = "operand" /\ nops < MaxOps /\ Len(stack) < 3
          /\ \E f \in Fns : toks' = Append(toks, f) /\ stack' = Append(stack, Frame(Name(f)))
          /\ nops' = nops + 1
          /\ UNCHANGED <<phase, npar>>

AddOp == /\ phase = "operator" /\ nops < MaxOps
         /\ \E o \in Ops : toks' = Append(toks, o)
         /\ stack' = SetTop([Top EXCEPT !.ops = @ + 1])
         /\ phase' = "operand" /\ nops' = nops + 1
         /\ UNCHANGED npar

Comma == /\ phase = "operator" /\ Len(stack) > 0
         /\ \/ (Top.k \in {"min", "max"} /\ Top.args < 2)
            \/ (Top.k = "clamp" /\ Top.args < 2)
         /\ toks' = Append(toks, ",")
         /\ stack' = SetTop([Top EXCEPT !.args = @ + 1, !.ops = 0])
         /\ phase' = "operand"
         /\ UNCHANGED <<nops, npar>>

Close == /\ phase = "operator" /\ Len(stack) > 1
         /\ \/ (Top.k = "par" /\ Top.ops >= 1)
            \/ (Top.k \in {"min", "max"} /\ Top.args >= 1)
            \/ (Top.k = "clamp" /\ Top.args = 2)
         /\ toks' = Append(toks, ")")
         /\ stack' = Pop
         /\ UNCHANGED <<phase, nops, npar>>

Finish == /\ phase = "operator" /\ Len(stack) = 1
          /\ \/ Top.k = "calc"
             \/ (Top.k \in {"min", "max"} /\ Top.args >= 1)
             \/ (Top.k = "clamp" /\ Top.args = 2)
          /\ toks' = Append(toks, ")")
          /\ stack' = <<>>
          /\ phase' = "done"
          /\ UNCHANGED <<nops, npar>>

Next == AddLeaf \/ OpenPar \/ OpenFn \/ AddOp \/ Comma \/ Close \/ Finish
Spec == Init /\ [][Next]_vars

Done == phase = "done"
Tree == ParseValue(InToks(toks))

---------------------------------------------------------------------------
(* Laws of the model on every generated calculation *)

(* the grammar accepts every generated string *)
LawParses == Done => Tree.t # "fail"

(* printing with full knowledge of the grammar (parentheses wherever the child binds weaker, or equally on the *)
(* right) and parsing again gives the same tree: the parser implements the precedence it claims               *)
RECURSIVE PrintFull(_)
PrintFull(tr) ==
  CASE tr.t = "num" -> <<Tok("num", tr.n, tr.d, tr.u)>>
    [] tr.t = "atom" -> <<Tok("atom", 0, 1, tr.u)>>
    [] tr.t = "fn" ->
         LET RECURSIVE Args(_)
             Args(i) == IF i > Len(tr.kids) THEN <<>>
                        ELSE (IF i > 1 THEN <<Tok("comma", 0, 1, "")>> ELSE <<>>) \o PrintFull(tr.kids[i]) \o Args(i + 1) IN
         <<Tok("fn", 0, 1, tr.op)>> \o Args(1) \o <<Tok("rp", 0, 1, "")>>
    [] tr.t = "bin" ->
         LET lvl(op) == IF op \in {"+", "-"} THEN 1 ELSE 2
             wrap(k, need) == IF need THEN <<Tok("lp", 0, 1, "")>> \o PrintFull(k) \o <<Tok("rp", 0, 1, "")>> ELSE PrintFull(k)
             a == tr.kids[1]
             b == tr.kids[2] IN
         wrap(a, a.t = "bin" /\ lvl(a.op) < lvl(tr.op)) \o <<Tok("op", 0, 1, tr.op)>>
         \o wrap(b, b.t = "bin" /\ lvl(b.op) <= lvl(tr.op))
    [] OTHER -> <<Tok("bad", 0, 1, "")>>
LawPrintParse == Done => ParseValue(Wrap(PrintFull(Tree))) = Tree

(* the faithful printing is sound by the model's own verdict, the css/binop.rs printing is not always *)
LawFaithfulSound == Done => Checks(InToks(toks), "ok", Wrap(PrintFull(Tree))) \subseteq {"not_simplified"}

(* a value that must be a number really is one number: Simplify turns it into a num node *)
LawNumber == Done => LET n == Norm(Tree) IN MustBeNumber(Tree, n) => Simplify(Tree).t = "num"

(* a calculation that must be a number also must not fail *)
LawNumberNoFail == Done => LET n == Norm(Tree) IN MustBeNumber(Tree, n) /\ ~HasUnit(Tree, {"x"}) => MustNotFail(Tree, n)

Emit == Done => PrintT(<<"VEC", ToJson([toks |-> toks])>>)
=============================================================================
