SPECIFICATION Spec
CONSTANTS
  WMax = 0
  BigWs <- BigWs_cap
  Ms = {0, 1, 3}
  KStep = 2
  Ps = {0, 1, 2, 3, 4, 5, 10, 15, 16, 17, 20}
  Styles = {"expanded", "compressed"}
  Negs = {0, 1}
INVARIANTS Laws DevsBreakLaw Emit
CHECK_DEADLOCK FALSE
