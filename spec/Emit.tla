------------------------------- MODULE Emit -------------------------------
(***************************************************************************)
(* Bubbling of nested at-rules, @at-root and @keyframes (C20), and the      *)
(* order / selector association of declarations (C19, last clause).         *)
(*                                                                         *)
(* A program is a flat sequence of statements [k, s] with open/close:       *)
(*   decl      s = <<name>>                a declaration  name: v           *)
(*   rule      s = selector tokens         style rule (Selectors grammar)   *)
(*   media / supports / unknown   s = <<q>>   @media q / @supports (q: v)   *)
(*                                            / @foo q  with a block         *)
(*   atroot    s = <<>> or selector tokens (may contain &)                   *)
(*   keyframes s = <<name>>, its children are kf blocks s = <<"from">>      *)
(*   fontface  s = <<>>                                                     *)
(*   close                                                                  *)
(*                                                                         *)
(* Two formulations:                                                       *)
(*  - Expected(prog): declaratively, every declaration in source order with *)
(*    the path of blocks it must sit in: the enclosing at-rules outermost   *)
(*    first (bubbled to the top), then the resolved selector of the          *)
(*    enclosing style rule (a copy of it inside every bubbled at-rule);     *)
(*    @at-root drops (or replaces, with & resolved) the selector;           *)
(*    @keyframes / @font-face drop it.                                      *)
(*  - Machine(prog, Dev): the destination stack of output/cssdest.rs        *)
(*    (CssData / RuleDest / AtMediaDest / AtRuleDest with start_rule,       *)
(*    start_atmedia, start_atrule, push_property, push_item, Drop) driven   *)
(*    like output/transform.rs::handle_item; its output tree is flattened   *)
(*    to the same observable.                                               *)
(* TLC checks  Flatten(Machine(prog, {})) = Expected(prog)  on all small     *)
(* programs.  The observable demands order and association only: rules      *)
(* split / merged differently or empty rules make no difference.            *)
(*                                                                         *)
(* Named deviation (what the pinned tree does instead):                     *)
(*   atrule_decls_hoisted   AtMediaDest/AtRuleDest collect all direct       *)
(*       declarations of a bubbled at-rule in ONE rule that is inserted at  *)
(*       the front of the at-rule's body (body.insert(0, rule) in Drop):    *)
(*       `a{@media m{b{p1:v} p2:v}}` emits a{p2} before a b{p1}.            *)
(***************************************************************************)
EXTENDS Selectors

Stmt(k, s) == [k |-> k, s |-> s]
Opens == {"rule", "media", "supports", "unknown", "atroot", "keyframes", "kf", "fontface"}

AtHead(st) ==
  CASE st.k = "media"     -> "@media " \o st.s[1]
    [] st.k = "supports"  -> "@supports (" \o st.s[1] \o ": v)"
    [] st.k = "unknown"   -> "@foo " \o st.s[1]
    [] st.k = "keyframes" -> "@keyframes " \o st.s[1]
    [] st.k = "fontface"  -> "@font-face"
    [] OTHER              -> ""

SelText(L) == JoinStr(PrintRuleSel(NoPlaceholder(L)), ", ")

(* selector context of the scope after entering statement st: the list of   *)
(* the enclosing style rule, <<>> when there is none                        *)
EnterSel(sel, st) ==
  CASE st.k \in {"rule", "kf"} -> Nest(sel, ParseListFrom(st.s, 1, <<>>).v, {})
    [] st.k = "atroot" -> (IF Len(st.s) = 0 THEN <<>>
                           ELSE LET L == ParseListFrom(st.s, 1, <<>>).v IN
                                IF Len(sel) = 0 THEN L ELSE ResolveList(L, sel, FALSE, {}))
    [] st.k \in {"keyframes", "fontface"} -> <<>>
    [] OTHER -> sel

---------------------------------------------------------------------------
(* Declarative expectation                                                  *)

(* ctx = [frames |-> at-rule heads outermost first, sel |-> selector list]  *)
EnterCtx(c, st) ==
  [frames |-> IF AtHead(st) # "" THEN Append(c.frames, AtHead(st)) ELSE c.frames,
   sel    |-> EnterSel(c.sel, st)]

Label(c, name) ==
  [path |-> c.frames \o (IF Len(c.sel) > 0 THEN <<SelText(c.sel)>> ELSE <<>>), d |-> name]

RECURSIVE Walk(_, _, _, _)
Walk(prog, j, stack, acc) ==
  IF j > Len(prog) THEN acc
  ELSE LET st == prog[j] IN
       IF st.k = "close" THEN Walk(prog, j + 1, Front(stack), acc)
       ELSE IF st.k = "decl" THEN Walk(prog, j + 1, stack, Append(acc, Label(stack[Len(stack)], st.s[1])))
       ELSE Walk(prog, j + 1, Append(stack, EnterCtx(stack[Len(stack)], st)), acc)

Expected(prog) == Walk(prog, 1, <<[frames |-> <<>>, sel |-> <<>>]>>, <<>>)

---------------------------------------------------------------------------
(* The destination stack machine (output/cssdest.rs)                        *)

(* output items: uniform records                                            *)
RuleItem(sel, decls) == [t |-> "rule", head |-> sel, decls |-> decls, kids |-> <<>>]
BlockItem(head, kids) == [t |-> "block", head |-> head, decls |-> <<>>, kids |-> kids]
DeclItem(name)        == [t |-> "decl", head |-> name, decls |-> <<>>, kids |-> <<>>]

(* a destination: kind root/rule/media/at; rsel = selector text of the rule  *)
(* it owns ("" = none), rdecl = that rule's pending declarations            *)
Dest(kind, head, rsel) == [kind |-> kind, head |-> head, rsel |-> rsel, rdecl |-> <<>>, body |-> <<>>]

RECURSIVE PushItemAt(_, _, _, _)
(* dest[idx].push_item(item) *)
PushItemAt(ds, idx, item, Dev) ==
  LET d == ds[idx] IN
  IF d.kind = "rule" THEN
       \* RuleDest::push_item: commit_rule(), then parent.push_item(item)
       LET ds1 == IF Len(d.rdecl) > 0
                  THEN [PushItemAt(ds, idx - 1, RuleItem(d.rsel, d.rdecl), Dev) EXCEPT ![idx].rdecl = <<>>]
                  ELSE ds
       IN PushItemAt(ds1, idx - 1, item, Dev)
  ELSE IF d.kind \in {"media", "at"} /\ "atrule_decls_hoisted" \notin Dev /\ Len(d.rdecl) > 0 THEN
       \* ideal: the declarations seen so far stay in front of the nested item
       [ds EXCEPT ![idx].body = d.body \o <<RuleItem(d.rsel, d.rdecl), item>>, ![idx].rdecl = <<>>]
  ELSE [ds EXCEPT ![idx].body = Append(d.body, item)]

Top(ds) == ds[Len(ds)]

MStartRule(ds, seltext) == Append(ds, Dest("rule", "", seltext))
(* start_atmedia / start_atrule: the new destination owns a copy of the      *)
(* selector of the rule around it (flat at-rules: @keyframes, @font-face not) *)
MStartAt(ds, kind, head, flat) == Append(ds, Dest(kind, head, IF flat THEN "" ELSE Top(ds).rsel))

MPushProp(ds, name) ==
  LET d == Top(ds) IN
  IF d.rsel # "" THEN [ds EXCEPT ![Len(ds)].rdecl = Append(d.rdecl, name)]
  ELSE [ds EXCEPT ![Len(ds)].body = Append(d.body, DeclItem(name))]

(* Drop of the top destination *)
MEnd(ds, Dev) ==
  LET d == Top(ds)  rest == Front(ds) IN
  IF d.kind = "rule" THEN
       IF Len(d.rdecl) > 0 THEN PushItemAt(rest, Len(rest), RuleItem(d.rsel, d.rdecl), Dev) ELSE rest
  ELSE LET own  == IF Len(d.rdecl) > 0 THEN <<RuleItem(d.rsel, d.rdecl)>> ELSE <<>>
           body == IF "atrule_decls_hoisted" \in Dev THEN own \o d.body ELSE d.body \o own
       IN PushItemAt(rest, Len(rest), BlockItem(d.head, body), Dev)

(* handle_item: the selector context of the scope travels next to the stack; *)
(* marks says for every open statement whether it opened a destination      *)
RECURSIVE Drive(_, _, _, _, _, _)
Drive(prog, j, ds, sels, marks, Dev) ==
  IF j > Len(prog) THEN ds
  ELSE LET st == prog[j]  sel == sels[Len(sels)] IN
       IF st.k = "close" THEN
            \* @at-root without a selector opened no destination
            Drive(prog, j + 1, IF marks[Len(marks)] = "dest" THEN MEnd(ds, Dev) ELSE ds, Front(sels), Front(marks), Dev)
       ELSE IF st.k = "decl" THEN Drive(prog, j + 1, MPushProp(ds, st.s[1]), sels, marks, Dev)
       ELSE LET nsel == EnterSel(sel, st) IN
            IF st.k \in {"rule", "kf"} \/ (st.k = "atroot" /\ Len(nsel) > 0)
            THEN Drive(prog, j + 1, MStartRule(ds, SelText(nsel)), Append(sels, nsel), Append(marks, "dest"), Dev)
            ELSE IF st.k = "atroot"
            THEN Drive(prog, j + 1, ds, Append(sels, nsel), Append(marks, "noop"), Dev)
            ELSE Drive(prog, j + 1,
                       MStartAt(ds, IF st.k = "media" THEN "media" ELSE "at", AtHead(st), st.k \in {"keyframes", "fontface"}),
                       Append(sels, nsel), Append(marks, "dest"), Dev)

Machine(prog, Dev) == Drive(prog, 1, <<Dest("root", "", "")>>, << <<>> >>, <<"root">>, Dev)[1].body

RECURSIVE Flatten(_, _)
Flatten(items, path) ==
  IF Len(items) = 0 THEN <<>>
  ELSE LET it == items[1] IN
       (CASE it.t = "rule"  -> Sq([i \in 1..Len(it.decls) |-> [path |-> Append(path, it.head), d |-> it.decls[i]]])
          [] it.t = "block" -> Flatten(it.kids, Append(path, it.head))
          [] OTHER          -> <<[path |-> path, d |-> it.head]>>)
       \o Flatten(Tail(items), path)

Observe20(prog, Dev) == Flatten(Machine(prog, Dev), <<>>)

AllDevs20 == {"atrule_decls_hoisted"}
DevMap20(prog, ideal) ==
  LET o == Observe20(prog, AllDevs20) IN
  IF o = ideal THEN <<>> ELSE [d \in AllDevs20 |-> o]

(* the design check: the stack machine realises the declarative tree *)
MachineMatchesTree(prog) == Observe20(prog, {}) = Expected(prog)
=============================================================================
