------------------------------- MODULE UidInd -------------------------------
(* The unique-id counter protocol of Process.tla (Acquire / Incr / Release  *)
(* under the CALL_ID mutex) for an UNBOUNDED number of calls, with an       *)
(* inductive invariant discharged by Apalache:                              *)
(*   apalache-mc check --init=Init    --inv=IndInv --length=0 UidInd.tla    *)
(*   apalache-mc check --init=IndInit --inv=IndInv --length=1 UidInd.tla    *)
(*   apalache-mc check --init=IndInit --inv=FreshId --length=0 UidInd.tla   *)
EXTENDS Integers, FiniteSets

Threads == {"t1", "t2", "t3"}

VARIABLES
  \* @type: Int;
  callId,
  \* @type: Set(Int);
  issued,
  \* @type: Str;
  holder,
  \* @type: Str -> Str;
  phase

Init == /\ callId = 0 /\ issued = {} /\ holder = "none"
        /\ phase = [t \in Threads |-> "idle"]

Acquire(t) == /\ phase[t] = "idle" /\ holder = "none"
              /\ holder' = t /\ phase' = [phase EXCEPT ![t] = "inc"]
              /\ UNCHANGED <<callId, issued>>
Incr(t)    == /\ phase[t] = "inc" /\ holder = t
              /\ callId' = callId + 1 /\ issued' = issued \union {callId + 1}
              /\ phase' = [phase EXCEPT ![t] = "rel"] /\ UNCHANGED holder
Release(t) == /\ phase[t] = "rel" /\ holder = t
              /\ holder' = "none" /\ phase' = [phase EXCEPT ![t] = "idle"]
              /\ UNCHANGED <<callId, issued>>
Stutter    == UNCHANGED <<callId, issued, holder, phase>>
Next == Stutter \/ \E t \in Threads : Acquire(t) \/ Incr(t) \/ Release(t)

TypeOK == /\ holder \in Threads \union {"none"}
          /\ phase \in [Threads -> {"idle", "inc", "rel"}]

IndInv == /\ TypeOK
          /\ callId >= 0
          /\ \A i \in issued : i >= 1 /\ i <= callId
          /\ \A t \in Threads : (phase[t] # "idle") <=> (holder = t)

(* an arbitrary state satisfying the invariant *)
IndInit == /\ callId \in Int /\ issued \in SUBSET Int
           /\ holder \in Threads \union {"none"}
           /\ phase \in [Threads -> {"idle", "inc", "rel"}]
           /\ IndInv

(* the identifier about to be handed out has never been issued *)
FreshId == \A t \in Threads : (phase[t] = "inc" /\ holder = t) => (callId + 1) \notin issued
=============================================================================
