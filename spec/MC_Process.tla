----------------------------- MODULE MC_Process -----------------------------
(* All interleavings of a few threads running a few jobs each.              *)
EXTENDS Process, Json

CONSTANTS MaxJobs,     \* jobs per thread
          ProgSel      \* the programs jobs are drawn from in this configuration

ProgTable == [ rd   |-> <<"read">>,
               wr   |-> <<"read", "write", "read">>,
               wg   |-> <<"writeg", "read">>,
               wd   |-> <<"writed", "read">>,
               uw   |-> <<"usewith", "read">>,
               fc   |-> <<"failcall">>,
               dp   |-> <<"deepcall", "read">>,
               df   |-> <<"def", "read">>,
               pu   |-> <<"pure", "read">>,
               uid  |-> <<"uid">>,
               uid2 |-> <<"uid", "uid">> ]
ProgIds == ProgSel

RECURSIVE SeqsUpTo(_)
SeqsUpTo(n) == IF n = 0 THEN {<<>>} ELSE SeqsUpTo(n - 1) \cup {Append(s, p) : s \in {x \in SeqsUpTo(n - 1) : Len(x) = n - 1}, p \in ProgIds}

Init == \E q \in [Threads -> SeqsUpTo(MaxJobs)] : PInit(q)
Spec == Init /\ [][PNext]_pvars

AllDone == \A t \in Threads : queue[t] = <<>> /\ pc[t] = 0
Fresh   == done = {} /\ \A t \in Threads : pc[t] = 0

(* one vector per history (the assignment of jobs to threads), emitted in  *)
(* its initial state, with the output the model assigns to every program    *)
RECURSIVE RunAlone(_, _, _, _)
RunAlone(steps, i, loc, acc) ==
  IF i > Len(steps) THEN acc
  ELSE LET k == steps[i] IN
       IF k = "read" THEN RunAlone(steps, i + 1, loc, Append(acc, IF loc # 0 THEN loc ELSE BuiltinInit))
       ELSE IF k \in WriteKinds \/ k = "failcall" THEN Append(acc, -1)
       ELSE IF k = "deepcall" THEN RunAlone(steps, i + 1, loc, Append(acc, 2))
       ELSE IF k = "def" THEN RunAlone(steps, i + 1, 7, acc)
       ELSE IF k = "pure" THEN RunAlone(steps, i + 1, loc, Append(acc, 1))
       ELSE RunAlone(steps, i + 1, loc, acc)
Alone(p) == RunAlone(ProgTable[p], 1, 0, <<>>)

(* the design: whatever the interleaving, a job's output is its output alone *)
MatchesAlone == \A d \in done : ~HasUid(d.prog) => d.out = Alone(d.prog)

Emit == Fresh => PrintT(<<"VEC", ToJson([threads |-> [t \in Threads |-> queue[t]],
                                         expect |-> [p \in DOMAIN ProgTable |-> Alone(p)]])>>)
=============================================================================
