------------------------------ MODULE MC_Entry ------------------------------
(* Generator for C38 and model check of the entry-point machine.  Inputs:   *)
(* (a program = a sequence of <= MaxItems statement ids from ProgPool | a    *)
(* value id from ValuePool) x style x precision.  The model's entry points   *)
(* are all the ONE abstract compilation function Comp (an uninterpreted      *)
(* injective naming of the input), so TLC checks that the machine with       *)
(* agreeing entry points satisfies InvAgreement in every interleaving of     *)
(* calls, and prints one vector per input for the binding.                   *)
EXTENDS Entry, Json

CONSTANTS ProgPool, ValuePool, MaxItems,
          BytePool      \* the byte-level variants enumerated by this configuration

VARIABLES items, phase
vars == <<inp, outs, items, phase>>

Init == EInit /\ items = <<>> /\ phase = "build"

AddItem == /\ phase = "build" /\ Len(items) < MaxItems
           /\ \E s \in ProgPool : items' = Append(items, s)
           /\ UNCHANGED <<inp, outs, phase>>

StartProg == /\ phase = "build" /\ Len(items) >= 1
             /\ \E st \in Styles, p \in Precisions, b \in BytePool \cap ByteVariants :
                    Begin([kind |-> "prog", items |-> items, style |-> st, prec |-> p, bytes |-> b])
             /\ phase' = "run" /\ UNCHANGED items

StartValue == /\ phase = "build" /\ items = <<>>
              /\ \E v \in ValuePool, st \in Styles, p \in Precisions, b \in BytePool \cap ContentPreserving :
                    Begin([kind |-> "value", v |-> v, style |-> st, prec |-> p, bytes |-> b])
              /\ phase' = "run" /\ UNCHANGED items

(* the abstract compiler: one function of the input, whatever the entry point *)
ModelOut(i) == [k |-> "ok", v |-> IF i.kind = "value" THEN Framed(i.style, "V") ELSE "CSS"]
ModelValue(i) == [k |-> "ok", v |-> "V"]

RunEntry == /\ phase = "run" /\ inp.bytes = "plain"      \* the interleavings do not depend on the spelling: explored once per input
            /\ \E e \in AllEntries :
                 IF e = "value" THEN CompileValue(ModelValue(inp)) ELSE Call(e, ModelOut(inp))
            /\ UNCHANGED <<items, phase>>

Next == AddItem \/ StartProg \/ StartValue \/ RunEntry
Spec == Init /\ [][Next]_vars

Emit == (phase = "run" /\ outs = <<>>) => PrintT(<<"VEC", ToJson(inp)>>)
=============================================================================
