------------------------------- MODULE Maps -------------------------------
(***************************************************************************)
(* Sass maps as a state machine (property C13).                            *)
(*                                                                         *)
(* Abstracts rsass/src/ordermap.rs (OrderMap: Vec-backed, `==` lookups),   *)
(* the map arm of css::Value's PartialEq, sass/functions/map.rs (get,      *)
(* has-key, remove, set, merge) and the duplicate-key check of             *)
(* sass::Value::Map evaluation.                                            *)
(*                                                                         *)
(* State: m = a sequence of entries [k |-> key token, v |-> value] whose   *)
(* keys are pairwise not `==`.  Key tokens are spellings; KeyClass gives   *)
(* the `==` class of a spelling (1 and 1.0; "a", a and 'a'; red, #f00 and  *)
(* #ff0000 ...).  Values are small integers.                               *)
(*                                                                         *)
(* Named deviation (what the pinned tree does instead):                    *)
(*   mapeq_ordered   map equality compares the entries in order (derived   *)
(*                   PartialEq on the backing Vec): (a:1,b:2) == (b:2,a:1) *)
(*                   is false                                              *)
(***************************************************************************)
EXTENDS Integers, Sequences, FiniteSets, TLC

KeyClass(tok) ==
  CASE tok \in {"1", "1.0"}                   -> "n:1"
    [] tok \in {"2", "2.0"}                   -> "n:2"
    [] tok = "1px"                            -> "n:1px"
    [] tok = "2px"                            -> "n:2px"
    [] tok \in {"1in", "96px"}                -> "n:1in"    \* compatible units: equal after conversion
    [] tok \in {"qa", "a", "sa"}              -> "s:a"
    [] tok \in {"qb", "b", "sb"}              -> "s:b"
    [] tok \in {"qc", "c", "sc"}              -> "s:c"
    [] tok \in {"qd", "d", "sd"}              -> "s:d"
    [] tok \in {"q1", "s1"}                   -> "s:1"      \* the string "1" is not the number 1
    [] tok \in {"red", "#f00", "#ff0000"}     -> "c:red"
    [] tok \in {"blue", "#00f", "#0000ff"}    -> "c:blue"
    [] tok \in {"true"}                       -> "b:true"
    [] tok \in {"null"}                       -> "null"
    [] OTHER                                  -> tok

KeyEq(k1, k2) == KeyClass(k1) = KeyClass(k2)

Entry(k, v) == [k |-> k, v |-> v]

(* position of the entry whose key is == k, 0 if there is none *)
Find(m, k) ==
  LET P == {p \in 1..Len(m) : KeyEq(m[p].k, k)} IN
  IF P = {} THEN 0 ELSE CHOOSE p \in P : \A q \in P : p <= q

KeysUnique(m) == \A p, q \in 1..Len(m) : p # q => ~KeyEq(m[p].k, m[q].k)

---------------------------------------------------------------------------
(* reference semantics *)
HasKey(m, k) == Find(m, k) # 0

MSet(m, k, v) ==
  LET p == Find(m, k) IN
  IF p = 0 THEN Append(m, Entry(k, v)) ELSE [m EXCEPT ![p].v = v]

MRemove(m, k) ==
  LET p == Find(m, k) IN
  IF p = 0 THEN m ELSE SubSeq(m, 1, p - 1) \o SubSeq(m, p + 1, Len(m))

RECURSIVE MRemoveAll(_, _)
(* map.remove with several keys: one after the other *)
MRemoveAll(m, ks) == IF ks = <<>> THEN m ELSE MRemoveAll(MRemove(m, Head(ks)), Tail(ks))

RECURSIVE MMerge(_, _)
(* m1's entries in m1's order with m2's values winning, then m2's new keys *)
MMerge(m1, m2) == IF m2 = <<>> THEN m1 ELSE MMerge(MSet(m1, m2[1].k, m2[1].v), Tail(m2))

(* order-free equality *)
MapEq(m1, m2) ==
  /\ Len(m1) = Len(m2)
  /\ \A p \in 1..Len(m1) : \E q \in 1..Len(m2) : KeyEq(m1[p].k, m2[q].k) /\ m1[p].v = m2[q].v

(* mapeq_ordered: entry by entry, in order *)
MapEqOrdered(m1, m2) ==
  /\ Len(m1) = Len(m2)
  /\ \A p \in 1..Len(m1) : KeyEq(m1[p].k, m2[p].k) /\ m1[p].v = m2[p].v

---------------------------------------------------------------------------
(* results: [k |-> "none" | "num" | "null" | "bool" | "err", n |-> int]      *)
RNone    == [k |-> "none", n |-> 0]
RNum(n)  == [k |-> "num",  n |-> n]
RNull    == [k |-> "null", n |-> 0]
RBool(b) == [k |-> "bool", n |-> IF b THEN 1 ELSE 0]
RErr     == [k |-> "err",  n |-> 0]

(* One action.  op = [f, k, v, m2, ks]:                                    *)
(*   get k / has-key k / remove k / remove-all ks (map.remove with several  *)
(*   keys) / set k v / merge m2 / literal m2 / eq m2                        *)
(* Returns [m |-> next state, r |-> result].  `literal` evaluates a map    *)
(* literal (an error when two of its keys are ==) and makes it the state.  *)
Step(m, op, Dev) ==
  CASE op.f = "get"     -> [m |-> m, r |-> (LET p == Find(m, op.k) IN IF p = 0 THEN RNull ELSE RNum(m[p].v))]
    [] op.f = "has-key" -> [m |-> m, r |-> RBool(HasKey(m, op.k))]
    [] op.f = "remove"  -> [m |-> MRemove(m, op.k), r |-> RNone]
    [] op.f = "remove-all" -> [m |-> MRemoveAll(m, op.ks), r |-> RNone]
    [] op.f = "set"     -> [m |-> MSet(m, op.k, op.v), r |-> RNone]
    [] op.f = "merge"   -> [m |-> MMerge(m, op.m2), r |-> RNone]
    [] op.f = "literal" -> IF KeysUnique(op.m2) THEN [m |-> op.m2, r |-> RNone] ELSE [m |-> m, r |-> RErr]
    [] op.f = "eq"      -> [m |-> m, r |-> RBool(IF "mapeq_ordered" \in Dev THEN MapEqOrdered(m, op.m2) ELSE MapEq(m, op.m2))]

(* what is observed of a state: the `==` class of every key, in order,     *)
(* with its value (the spelling a key keeps after an overwrite is not      *)
(* constrained by the property)                                            *)
ObsState(m) == [p \in 1..Len(m) |-> [k |-> KeyClass(m[p].k), v |-> m[p].v]]

ObsStep(s) == [r |-> s.r, st |-> ObsState(s.m)]

(* Run a sequence of actions from the empty map: observation after EVERY   *)
(* action.  A failing action fails the whole stylesheet: the run is then   *)
(* observed as one error.                                                  *)
RECURSIVE Trail(_, _, _)
Trail(m, ops, Dev) ==
  IF ops = <<>> THEN <<>>
  ELSE LET s == Step(m, Head(ops), Dev) IN
       IF s.r.k = "err" THEN <<ObsStep(s)>> ELSE <<ObsStep(s)>> \o Trail(s.m, Tail(ops), Dev)

ErrRun == <<[r |-> RErr, st |-> <<>>]>>

Run(ops, Dev) ==
  LET t == Trail(<<>>, ops, Dev) IN
  IF \E p \in 1..Len(t) : t[p].r.k = "err" THEN ErrRun ELSE t

AllDevs == {"mapeq_ordered"}
DevMap(ops) ==
  LET ideal == Run(ops, {}) IN
  [d \in {d \in AllDevs : Run(ops, {d}) # ideal} |-> Run(ops, {d})]

---------------------------------------------------------------------------
(* Invariants and action laws of the ideal machine.                        *)

(* Get after Set; frame condition: every other key keeps entry and order   *)
LawSet(m, k, v) ==
  LET m2 == MSet(m, k, v) IN
  /\ Find(m2, k) # 0 /\ m2[Find(m2, k)].v = v
  /\ \A p \in 1..Len(m) : m2[p].k = m[p].k /\ (~KeyEq(m[p].k, k) => m2[p].v = m[p].v)
  /\ Len(m2) = IF HasKey(m, k) THEN Len(m) ELSE Len(m) + 1
  /\ KeysUnique(m) => KeysUnique(m2)

LawRemove(m, k) ==
  LET m2 == MRemove(m, k) IN
  /\ ~HasKey(m2, k)
  /\ (KeysUnique(m) => \A p \in 1..Len(m) : ~KeyEq(m[p].k, k) => (Find(m2, m[p].k) # 0 /\ m2[Find(m2, m[p].k)].v = m[p].v))
  /\ \A p, q \in 1..Len(m2) : p < q => Find(m, m2[p].k) < Find(m, m2[q].k)       \* order kept

(* removing several keys: exactly the entries whose key is == to none of *)
(* them stay, in order, whatever the order in which the keys are given   *)
SeqRev(q) == [p \in 1..Len(q) |-> q[Len(q) + 1 - p]]
LawRemoveAll(m, ks) ==
  LET r == MRemoveAll(m, ks)
      Keep(e) == \A p \in 1..Len(ks) : ~KeyEq(e.k, ks[p]) IN
  KeysUnique(m) =>
    /\ r = SelectSeq(m, Keep)
    /\ r = MRemoveAll(m, SeqRev(ks))
    /\ \A p \in 1..Len(ks) : ~HasKey(r, ks[p])

LawMerge(m1, m2) ==
  LET r == MMerge(m1, m2) IN
  (KeysUnique(m1) /\ KeysUnique(m2)) =>
    /\ KeysUnique(r)
    /\ \A p \in 1..Len(m1) : KeyEq(r[p].k, m1[p].k)                                 \* m1's key order first
    /\ \A q \in 1..Len(m2) : HasKey(r, m2[q].k) /\ r[Find(r, m2[q].k)].v = m2[q].v   \* m2 wins
    /\ \A p \in 1..Len(m1) : ~HasKey(m2, m1[p].k) => r[p].v = m1[p].v
    /\ Len(r) = Len(m1) + Cardinality({q \in 1..Len(m2) : ~HasKey(m1, m2[q].k)})
    /\ \A p, q \in (Len(m1) + 1)..Len(r) : p < q => Find(m2, r[p].k) < Find(m2, r[q].k)   \* then m2's new keys in m2's order

(* MapEq is an equivalence that ignores order *)
Reverse(m) == [p \in 1..Len(m) |-> m[Len(m) + 1 - p]]
LawEq(m1, m2) ==
  (KeysUnique(m1) /\ KeysUnique(m2)) =>
    /\ MapEq(m1, m1)
    /\ MapEq(m1, Reverse(m1))
    /\ MapEq(m1, m2) = MapEq(m2, m1)
    /\ MapEq(m1, m2) = MapEq(Reverse(m1), m2)
=============================================================================
