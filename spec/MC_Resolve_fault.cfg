SPECIFICATION Spec
CONSTANTS
  Mode = "fault"
  MaxFiles = 0
  GenKinds = {"use", "forward", "import"}
  GenPre = {"none"}
  GenWhere = {"root"}
INVARIANTS EmitFault
CHECK_DEADLOCK FALSE
