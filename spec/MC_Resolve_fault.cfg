SPECIFICATION Spec
CONSTANTS
  Mode = "fault"
  MaxFiles = 0
  GenKinds = {"use", "forward", "import"}
  GenWhere = {"root"}
INVARIANTS EmitFault
CHECK_DEADLOCK FALSE
