---------------------------- MODULE Trace_StyleEq ----------------------------
(* C08, Flow B: one event per input compiled in both styles:                   *)
(*   {case, e: result, c: result, n: result, devs}                              *)
(*   n = the expanded result of the source without its comments when the source  *)
(*   has a comment with an interpolation (st = "none" otherwise)                *)
(*   result = [st |-> status, tree |-> structure tree, msg |-> error message]   *)
(* The event is explained iff StyleEq!ResultEquiv holds (or the pair is not     *)
(* judged: a panic / abort / timeout or an output the observer cannot read).    *)
EXTENDS StyleEq, Json, IOUtils, TLC, TLCExt

Rec == ndJsonDeserialize(IOEnv.TRACE)

VARIABLE l
Init == l = 1

SeqToSet(q) == {q[i] : i \in DOMAIN q}

(* ideal relation first; then the deviations that are OPEN findings (ev.devs), reported as KNOWN:   *)
(* each token-level deviation alone, then together, then the comment deviation (prediction ev.n)   *)
Explained(ev) ==
  LET D  == SeqToSet(ev.devs) \cap Deviations
      DT == D \cap TokenDeviations
      hasn == "comment_not_evaluated_compressed" \in D /\ ev.n.st \in {"ok", "err"} IN
  IF ~Judged(ev.e, ev.c) THEN PrintT(<<"MSG", "SKIP", "not_judged", ev.case>>)
  ELSE IF ResultEquiv(ev.e, ev.c) THEN TRUE
  ELSE IF \E d \in DT : ResultEquivD(ev.e, ev.c, {d})
       THEN PrintT(<<"MSG", "KNOWN", CHOOSE d \in DT : ResultEquivD(ev.e, ev.c, {d}), ev.case>>)
  ELSE IF DT # {} /\ ResultEquivD(ev.e, ev.c, DT) THEN PrintT(<<"MSG", "KNOWN", DT, ev.case>>)
  ELSE IF hasn /\ ResultEquiv(ev.n, ev.c) THEN PrintT(<<"MSG", "KNOWN", "comment_not_evaluated_compressed", ev.case>>)
  ELSE IF hasn /\ DT # {} /\ ResultEquivD(ev.n, ev.c, DT) THEN PrintT(<<"MSG", "KNOWN", D, ev.case>>)
  ELSE PrintT(<<"MSG", "REJECT", ev.case, ev.e.st, ev.c.st>>) /\ FALSE

Next == /\ l <= Len(Rec)
        /\ Explained(Rec[l]) = TRUE
        /\ l' = l + 1
Spec == Init /\ [][Next]_l

Accepted == IF TLCGet("stats").diameter - 1 = Len(Rec) THEN TRUE
            ELSE PrintT(<<"UNMATCHED", TLCGet("stats").diameter>>) /\ FALSE
=============================================================================
