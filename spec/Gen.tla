-------------------------------- MODULE Gen --------------------------------
(***************************************************************************)
(* Input generators for property C01 (and a source of programs for the law  *)
(* engines), as TLA+ actions over token sequences:                          *)
(*                                                                         *)
(*  Mode "soup"    every token string of length <= MaxLen over Alphabet     *)
(*                 (no grammar: this is where minimal panics such as        *)
(*                 `*{&b{x:y}}` live)                                       *)
(*  Mode "derive"  a push-down derivation machine for SCSS: a stack of open *)
(*                 constructs (block, paren, call, interp, bracket), one     *)
(*                 action per production; the nesting depth is part of the  *)
(*                 state and bounded by MaxDepth (= 64, the precondition of *)
(*                 the property, so no input outside it is ever generated)  *)
(*  Mode "mutate"  token-level mutations (Delete, Dup, Swap, Splice,        *)
(*                 InsertOpen) of corpus inputs read from a file            *)
(*                                                                         *)
(* Tokens are opaque strings; the renderer (Python) maps them to bytes,     *)
(* including raw byte tokens (<00>, <80>, <ff>, <c3>).                       *)
(***************************************************************************)
EXTENDS Integers, Sequences, FiniteSets, TLC

CONSTANTS Mode, MaxLen, MaxDepth, Alphabet

VARIABLES toks, stack, done
gvars == <<toks, stack, done>>

Depth == Len(stack)
Push(k) == stack' = Append(stack, k)
Pop     == stack' = SubSeq(stack, 1, Len(stack) - 1)
Top     == IF stack = <<>> THEN "top" ELSE stack[Len(stack)]
Emit(ts) == toks' = toks \o ts

GInit == toks = <<>> /\ stack = <<>> /\ done = FALSE

---------------------------------------------------------------------------
(* soup *)
SoupAdd == /\ Mode = "soup" /\ ~done /\ Len(toks) < MaxLen
           /\ \E t \in Alphabet : toks' = Append(toks, t)
           /\ UNCHANGED <<stack, done>>

---------------------------------------------------------------------------
(* derivation machine *)
Selectors == {<<"a">>, <<"*">>, <<".c">>, <<"#i">>, <<"%p">>, <<"&">>, <<"&", "-x">>, <<"&", ".c">>, <<"a", " ", ">", " ", "b">>,
              <<"a", ",", " ", "b">>, <<"[x]">>, <<":hover">>, <<":not(", ".c", ")">>, <<"&", ":is(", "&", ")">>, <<"a", "b">>, <<"*", "&">>}
Values    == {<<"1">>, <<"1px">>, <<"50%">>, <<"#f00">>, <<"red">>, <<"\"s\"">>, <<"$v">>, <<"x">>, <<"1", " ", "+", " ", "2">>, <<"1px", "/", "2">>,
              <<"-", "$v">>, <<"not", " ", "x">>, <<"a", " ", "b">>, <<"a", ",", "b">>, <<"!important">>, <<"&">>, <<"null">>, <<"<80>">>, <<"<00>">>}
AtBlocks  == {<<"@media", " ", "screen">>, <<"@media", " ", "(", "min-width", ":", "1px", ")">>, <<"@supports", " ", "(", "x", ":", "y", ")">>,
              <<"@keyframes", " ", "k">>, <<"@font-face">>, <<"@at-root">>, <<"@at-root", " ", "b">>, <<"@foo", " ", "bar">>,
              <<"@if", " ", "true">>, <<"@else">>, <<"@each", " ", "$i", " ", "in", " ", "1", " ", "2">>,
              <<"@for", " ", "$i", " ", "from", " ", "1", " ", "through", " ", "2">>, <<"@while", " ", "false">>,
              <<"@mixin", " ", "m">>, <<"@include", " ", "m">>, <<"@function", " ", "f", "(", ")">>, <<"font", ":">>}
Stmts     == {<<"@include", " ", "m", ";">>, <<"@content", ";">>, <<"@return", " ", "1", ";">>, <<"@extend", " ", "a", ";">>,
              <<"@error", " ", "x", ";">>, <<"@debug", " ", "x", ";">>, <<"@import", " ", "\"x\"", ";">>, <<"@use", " ", "\"sass:math\"", ";">>,
              <<"/*", "c", "*/">>, <<"//", "c", "\n">>, <<"$v", ":", " ", "1", ";">>, <<"$v", ":", " ", "2", " ", "!global", ";">>, <<"--x", ":", " ", "{", "a", "}", ";">>}

InBlockCtx == Top \in {"top", "block"}

OpenRule  == /\ InBlockCtx /\ Depth < MaxDepth
             /\ \E s \in Selectors : Emit(s \o <<"{">>)
             /\ Push("block") /\ UNCHANGED done
OpenAt    == /\ InBlockCtx /\ Depth < MaxDepth
             /\ \E a \in AtBlocks : Emit(a \o <<"{">>)
             /\ Push("block") /\ UNCHANGED done
CloseBlock == /\ Top = "block" /\ Emit(<<"}">>) /\ Pop /\ UNCHANGED done
Decl      == /\ InBlockCtx
             /\ \E v \in Values : Emit(<<"p", ":", " ">> \o v \o <<";">>)
             /\ UNCHANGED <<stack, done>>
Stmt      == /\ InBlockCtx
             /\ \E s \in Stmts : Emit(s)
             /\ UNCHANGED <<stack, done>>
(* a declaration whose value opens nested parentheses / calls / interpolation / brackets *)
OpenValue == /\ InBlockCtx /\ Depth < MaxDepth
             /\ Emit(<<"p", ":", " ">>) /\ Push("value") /\ UNCHANGED done
OpenNest  == /\ Top \in {"value", "paren", "call", "interp", "bracket"} /\ Depth < MaxDepth
             /\ \E k \in {"paren", "call", "interp", "bracket"} :
                  /\ Emit(CASE k = "paren" -> <<"(">> [] k = "call" -> <<"calc(">> [] k = "interp" -> <<"#{">> [] k = "bracket" -> <<"[">>)
                  /\ Push(k)
             /\ UNCHANGED done
Atom      == /\ Top \in {"value", "paren", "call", "interp", "bracket"}
             /\ \E v \in Values : Emit(v \o <<" ">>)
             /\ UNCHANGED <<stack, done>>
CloseNest == /\ Top \in {"paren", "call", "interp", "bracket"}
             /\ Emit(CASE Top \in {"paren", "call"} -> <<")">> [] Top = "interp" -> <<"}">> [] Top = "bracket" -> <<"]">>)
             /\ Pop /\ UNCHANGED done
CloseValue == /\ Top = "value" /\ Emit(<<";">>) /\ Pop /\ UNCHANGED done

Derive == Mode = "derive" /\ ~done /\ Len(toks) < MaxLen /\
          (OpenRule \/ OpenAt \/ CloseBlock \/ Decl \/ Stmt \/ OpenValue \/ OpenNest \/ Atom \/ CloseNest \/ CloseValue)

(* stop anywhere: truncated inputs are inputs too; the end of input is where *)
(* error positions are computed, so a few unusual last bytes are appended    *)
Tails == {<<>>, <<"<cr>">>, <<"<c3>">>, <<"<00>">>, <<"\n", "<cr>">>, <<"\\">>}
Finish == /\ ~done /\ done' = TRUE
          /\ \E t \in (IF Mode = "soup" THEN {<<>>} ELSE Tails) : toks' = toks \o t
          /\ UNCHANGED stack

(* the precondition of C01 is an invariant of the generator *)
DepthOk == Depth <= MaxDepth
=============================================================================
