----------------------------- MODULE MC_Loader -----------------------------
(* Bounded-exhaustive generator of file graphs (builder actions in one      *)
(* canonical order, bounded by the TOTAL number of load statements), then   *)
(* the Loader state machine runs the compilation.                           *)
EXTENDS Loader, Json, IOUtils

CONSTANTS FileSeq,      \* the files in build order, FileSeq[1] = Root
          MaxStmts,     \* total number of load statements in the graph
          GenKinds, GenSpellings,
          DevChoices,   \* set of deviation sets to run (ideal: {{}})
          MaxFaultAt    \* faults are armed on loader call 1..MaxFaultAt (0: no fault injection)

VARIABLES phase, cur, nst
vars == <<lvars, phase, cur, nst>>

(* constant values that a cfg file cannot express *)
Seq2 == <<"r", "b">>
Seq3 == <<"r", "a", "b">>
Seq4 == <<"r", "a", "b", "c">>
DevIdeal    == {{}}
DevLockKey  == {{"lock_key_textual"}}
DevCacheKey == {{"modcache_key_textual"}}
DevLoadCss  == {{"loadcss_unlock_early"}}
DevAllThree == {{"lock_key_textual", "modcache_key_textual", "loadcss_unlock_early"}}
DevEach     == {{"lock_key_textual"}, {"modcache_key_textual"}, {"loadcss_unlock_early"},
                {"lock_key_textual", "modcache_key_textual", "loadcss_unlock_early"}}

NoFault == [at |-> 0, kind |-> "find"]
Faults  == {NoFault} \cup [at : 1..MaxFaultAt, kind : {"find", "read"}]

Empty == [f \in Files |-> <<>>]

Init == /\ phase = "build" /\ cur = 1 /\ nst = 0
        /\ Dev \in DevChoices
        /\ prog = Empty
        /\ stack = <<>> /\ loading = {} /\ modcache = {} /\ result = "build"
        /\ execs = [f \in Files |-> 0] /\ modinits = [f \in Files |-> 0]
        /\ calls = 0 /\ fault = NoFault

(* @use/@forward must precede other rules in a Sass file *)
OrderOk(sq, k) == IF sq = <<>> THEN TRUE
                  ELSE IsModuleKind(k) => IsModuleKind(sq[Len(sq)].kind)

AddStmt == /\ phase = "build" /\ nst < MaxStmts
           /\ \E k \in GenKinds, t \in Files, sp \in GenSpellings :
                /\ OrderOk(prog[FileSeq[cur]], k)
                /\ prog' = [prog EXCEPT ![FileSeq[cur]] = Append(@, [kind |-> k, target |-> t, sp |-> sp])]
           /\ nst' = nst + 1
           /\ UNCHANGED <<Dev, stack, loading, modcache, result, execs, modinits, calls, fault, phase, cur>>

NextFile == /\ phase = "build" /\ cur < Len(FileSeq)
            /\ cur' = cur + 1
            /\ UNCHANGED <<lvars, phase, nst>>

(* files that nothing loads are not part of the graph: keep them empty      *)
Start == /\ phase = "build"
         /\ \A i \in (cur + 1)..Len(FileSeq) : prog[FileSeq[i]] = <<>>
         /\ phase' = "run"
         /\ stack' = <<Frame(Root, <<Root>>, "root", TRUE)>>
         /\ loading' = {LockKey(<<Root>>)}
         /\ result' = "run"
         /\ execs' = [f \in Files |-> IF f = Root THEN 1 ELSE 0]
         /\ fault' \in (IF MaxFaultAt = 0 THEN {fault} ELSE Faults)
         /\ UNCHANGED <<Dev, prog, modcache, modinits, calls, cur, nst>>

Run == /\ phase = "run" /\ result = "run"
       /\ RunNext
       /\ UNCHANGED <<phase, cur, nst>>

Finish == /\ phase = "run" /\ result # "run"
          /\ phase' = "done"
          /\ UNCHANGED <<lvars, cur, nst>>

(* "explain" mode: the graphs come from a file (the cases where the         *)
(* implementation disagreed with the ideal machine) and are run under      *)
(* every combination of named deviations.                                   *)
AllDevs    == {"lock_key_textual", "modcache_key_textual", "loadcss_unlock_early"}
DevSubsets == SUBSET AllDevs
ProgRecs   == ndJsonDeserialize(IOEnv.PROGS)
InitExplain == /\ phase = "build" /\ cur = Len(FileSeq) /\ nst = MaxStmts
               /\ Dev \in DevSubsets
               /\ \E i \in DOMAIN ProgRecs : prog = ProgRecs[i].files /\ fault = ProgRecs[i].fault
               /\ stack = <<>> /\ loading = {} /\ modcache = {} /\ result = "build"
               /\ execs = [f \in Files |-> 0] /\ modinits = [f \in Files |-> 0]
               /\ calls = 0

Next == AddStmt \/ NextFile \/ Start \/ Run \/ Finish
SpecExplain == InitExplain /\ [][Next]_vars
Spec == Init /\ [][Next]_vars /\ WF_vars(Run) /\ WF_vars(Finish)

Done == phase = "done"

(* every compilation terminates (checked without a state constraint)       *)
Termination == (phase = "run") ~> (phase = "done")

(* only graphs whose every file is reachable are emitted (others are the   *)
(* same compilation as a smaller graph)                                     *)
AllUsed == \A f \in Files : prog[f] # <<>> => f \in Reachable(prog)

Emit == (Done /\ AllUsed) =>
          PrintT(<<"VEC", ToJson([files |-> prog, dev |-> Dev, fault |-> fault,
                                  expect |-> [result |-> result, execs |-> execs, modinits |-> modinits, calls |-> calls]])>>)
=============================================================================
