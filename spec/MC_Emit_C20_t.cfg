SPECIFICATION Spec
CONSTANTS
  Kinds = {"rule", "media", "supports", "unknown", "atroot0", "atroot", "keyframes", "fontface"}
  TopSels <- TopPlain
  NestSels <- NestAmp
  AtRootSels <- RootAmp
  MaxNodes = 8
  MaxDepth = 3
  MaxDecl = 4
INVARIANTS InvMachine Emit
CHECK_DEADLOCK FALSE
