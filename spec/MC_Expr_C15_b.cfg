SPECIFICATION Spec
CONSTANTS
  Operands = {"1", "2", "true"}
  Ops = {"*", "%", "+", "-", "<", ">=", "==", "!=", "and", "or"}
  Uns = {"not", "neg"}
  MaxOps = 2
  MaxUn = 1
  MaxPar = 1
INVARIANTS LawParenStable LawWellShaped LawTotal Emit
CHECK_DEADLOCK FALSE
