SPECIFICATION Spec
CONSTANTS
  MaxW = 1
  MaxRoot = 1
  MaxMid = 0
  RootTargets = {"a"}
  MidTargets = {"a"}
  Spellings = {"plain"}
  CfgPool = "basic"
  ListPool = "basic"
  AccNs = {"a"}
  LawDev = {"with_unchecked"}
  AccMembers <- AccMembersFwd
INVARIANTS InvConfigOnlyDefault
CHECK_DEADLOCK FALSE
