SPECIFICATION Spec
CONSTANTS
  Threads = {"t1", "t2"}
  Progs <- ProgTable
  Dev = {"callid_unlocked"}
  MaxJobs = 1
INVARIANTS Unique
CHECK_DEADLOCK FALSE
