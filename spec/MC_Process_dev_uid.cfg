SPECIFICATION Spec
CONSTANTS
  Threads = {"t1", "t2"}
  Progs <- ProgTable
  Dev = {"callid_unlocked"}
  ProgSel = {"rd", "wr", "df", "pu", "uid", "uid2"}
  MaxJobs = 1
INVARIANTS Unique
CHECK_DEADLOCK FALSE
