SPECIFICATION Spec
INVARIANT InvKeysUnique
POSTCONDITION Accepted
CHECK_DEADLOCK FALSE
