------------------------------- MODULE Numfmt -------------------------------
(***************************************************************************)
(* C10 - how a number is printed.  Abstracts                               *)
(*   rsass/src/value/number.rs   impl Display for Formatted<Number>        *)
(*   rsass/src/css/valueformat.rs  calc() wrapping of non-finite numbers    *)
(*                                                                         *)
(* Input (one number, one output format):                                  *)
(*   cls   "fin" | "inf" | "ninf" | "nan"                                   *)
(*   neg   0/1     sign bit of the f64                                      *)
(*   ip    digits of the integer part of |x| (no leading zeros, <<>> = 0)   *)
(*   fp    leading digits of the fraction of |x| (the exact expansion, or   *)
(*         its first 40 digits)                                             *)
(*   sticky 1 iff non-zero digits follow fp in the exact expansion          *)
(*   p     precision 0..20,  style "expanded" | "compressed"                *)
(* Output: [k, neg, ip, fp]: k = "num" with the printed digits (ip = <<>>   *)
(* when the leading zero is dropped), or k = "inf" / "ninf" / "nan".        *)
(*                                                                         *)
(* The definition (property C10): plain decimal, no exponent, no trailing   *)
(* fractional zeros; D = min(p, max(0, 16 - #integer digits)) fractional    *)
(* places (so at most 16 significant digits); the numeral is the value      *)
(* rounded to D places, ties away from zero; leading zero dropped only in   *)
(* compressed style; no negative zero.                                      *)
(*                                                                         *)
(* Named deviations (what the pinned tree does instead):                    *)
(*   min_one_decimal  the final rounding step always produces one decimal:  *)
(*                    D = max(1, D) (precision 0; 16-digit integer parts)   *)
(*   pow10_digit_cap  the cap is 16 - ceil(log10(integer part)): one place   *)
(*                    too many when the integer part is 1, 10, 100, ...     *)
(*   fp_digit_noise   digits are extracted by repeated f64 multiplication   *)
(*                    by 10, which is inexact for |x| < 4 with more than 40 *)
(*                    fractional digits: the numeral is the rounding of a   *)
(*                    value within 1e-16 of x (a relation, see NoisyAccept) *)
(***************************************************************************)
EXTENDS Dec, FiniteSets, TLC

AllDevs == {"min_one_decimal", "pow10_digit_cap", "fp_digit_noise"}

IsPow10(ip) == ip # <<>> /\ ip[1] = 1 /\ \A i \in 2..Len(ip) : ip[i] = 0

(* number of fractional places the numeral is rounded to *)
Places(ip, p, Dev) ==
  LET cap0 == DMax(0, 16 - Len(ip))
      cap  == IF "pow10_digit_cap" \in Dev /\ IsPow10(ip) THEN cap0 + 1 ELSE cap0
      d    == DMin(p, cap) IN
  IF "min_one_decimal" \in Dev THEN DMax(1, d) ELSE d

RECURSIVE Incr(_)
(* digit string + 1 (may grow by one digit) *)
Incr(s) == IF s = <<>> THEN <<1>>
           ELSE IF s[Len(s)] = 9 THEN Append(Incr(SubSeq(s, 1, Len(s) - 1)), 0)
           ELSE [s EXCEPT ![Len(s)] = s[Len(s)] + 1]

(* |x| rounded half away from zero to D places: <<integer digits, D fraction digits>> *)
RoundAt(ip, fp, D) ==
  LET fpad == IF Len(fp) >= D + 1 THEN fp ELSE fp \o Zeros(D + 1 - Len(fp))
      kept == SubSeq(fpad, 1, D)
      up   == fpad[D + 1] >= 5 IN
  IF ~up THEN <<ip, kept>>
  ELSE LET all == Incr(ip \o kept)
           n   == Len(all) IN
       <<StripLead(SubSeq(all, 1, n - D)), SubSeq(all, n - D + 1, n)>>

Special(k) == [k |-> k, neg |-> 0, ip |-> <<>>, fp |-> <<>>]

NumeralAt(x, D) ==
  LET r    == RoundAt(x.ip, x.fp, D)
      rfp  == StripTrail(r[2])
      zero == r[1] = <<>> /\ rfp = <<>> IN
  [k |-> "num",
   neg |-> IF zero THEN 0 ELSE x.neg,
   ip |-> IF r[1] # <<>> THEN r[1]
          ELSE IF x.style = "compressed" /\ rfp # <<>> THEN <<>> ELSE <<0>>,
   fp |-> rfp]

Numeral(x, Dev) ==
  IF x.cls = "inf" THEN Special("inf")
  ELSE IF x.cls = "ninf" THEN Special("ninf")
  ELSE IF x.cls = "nan" THEN Special("nan")
  ELSE NumeralAt(x, Places(x.ip, x.p, Dev))

(* deviations with a functional prediction that differs from the ideal one *)
DevMap(x) ==
  LET ideal == Numeral(x, {}) IN
  [d \in {d \in {"min_one_decimal", "pow10_digit_cap"} : Numeral(x, {d}) # ideal} |-> Numeral(x, {d})]

---------------------------------------------------------------------------
(* The clauses of the property, stated declaratively (not through RoundAt). *)
(* TLC checks them on the ideal Numeral for every generated input, and the  *)
(* trace spec reuses them for the relational deviations.                    *)

IsDigits(s) == \A i \in DOMAIN s : s[i] \in 0..9

(* (a) lexical form for the given style *)
WellFormed(o, style) ==
  /\ o.k = "num" /\ o.neg \in {0, 1} /\ IsDigits(o.ip) /\ IsDigits(o.fp)
  /\ (o.fp # <<>> => o.fp[Len(o.fp)] # 0)                       \* no trailing fractional zeros
  /\ (o.ip # <<>> /\ o.ip # <<0>> => o.ip[1] # 0)                \* no superfluous leading zeros
  /\ (o.ip = <<>> => style = "compressed" /\ o.fp # <<>>)       \* leading zero dropped only when compressed
  /\ (o.ip = <<0>> /\ o.fp # <<>> => style = "expanded")
  /\ (o.neg = 1 => ~(AllZero(o.ip) /\ o.fp = <<>>))             \* no negative zero

ValOf(o) == DFromParts(o.neg, o.ip, o.fp)
XVal(x)  == DFromParts(x.neg, x.ip, x.fp)      \* the exact value, or its truncation when sticky

SigDigits(o) == Len(StripLead(o.ip \o o.fp))

(* (d) the numeral is a nearest multiple of 10^-D to x, ties away from zero *)
NearestAt(o, x, D) ==
  LET diff == DDiffMag(ValOf(o), XVal(x))
      half == Dec(0, <<5>>, D + 1)
      c    == DCmpMag(diff, half) IN
  /\ Len(o.fp) <= D
  /\ (c < 0 \/ (c = 0 /\ x.sticky = 0 /\ DCmpMag(ValOf(o), XVal(x)) > 0)
      \/ (x.sticky = 1 /\ c = 0 /\ DCmpMag(ValOf(o), XVal(x)) > 0))
  /\ (DIsZero(ValOf(o)) \/ o.neg = x.neg)

LawsHold(x) ==
  LET o == Numeral(x, {})
      D == Places(x.ip, x.p, {}) IN
  x.cls = "fin" =>
    /\ WellFormed(o, x.style)
    /\ Len(o.fp) <= x.p
    /\ (o.fp # <<>> => SigDigits(o) <= 16)
    /\ NearestAt(o, x, D)

---------------------------------------------------------------------------
(* Relational acceptance used by trace validation.                          *)

(* integers of more than 16 digits: "at most 16 significant digits" and     *)
(* "the value rounded to 0 places" cannot both hold; any digit string       *)
(* within 1.2 units of the 16th significant digit of x is accepted          *)
(* (the exact integer, its rounding to 16 digits, the shortest repr).       *)
Huge(x) == x.cls = "fin" /\ Len(x.ip) >= 17
HugeAccept(x, o) ==
  /\ WellFormed(o, x.style) /\ o.fp = <<>> /\ o.neg = x.neg
  /\ DCmpMag(DDiffMag(ValOf(o), XVal(x)), Dec(0, <<1, 2>> \o Zeros(Len(x.ip) - 17), 0)) <= 0

(* f64 digit extraction is inexact only when |x| < 4 and the fraction has   *)
(* more than 40 digits (more than 40 fractional bits)                       *)
NoisePossible(x) == x.cls = "fin" /\ x.sticky = 1 /\ (x.ip = <<>> \/ (Len(x.ip) = 1 /\ x.ip[1] < 4))

(* the numeral is the rounding to D places of some value within 1e-16 of x: *)
(* |o - x| <= 0.5 * 10^-D + 10^-16  (+ 10^-40 for the truncation of x)      *)
NoisyAccept(x, o, D) ==
  /\ WellFormed(o, x.style) /\ Len(o.fp) <= D
  /\ (DIsZero(ValOf(o)) \/ o.neg = x.neg)
  /\ LET bound == DAdd(DAdd(Dec(0, <<5>>, D + 1), Dec(0, <<1>>, 16)), Dec(0, <<1>>, 40)) IN
     DCmpMag(DDiffMag(ValOf(o), XVal(x)), bound) <= 0

(* does the set of deviations S explain the observation? *)
Predicts(x, S, o) ==
  IF "fp_digit_noise" \in S
  THEN NoisePossible(x) /\ o.k = "num" /\ NoisyAccept(x, o, Places(x.ip, x.p, S))
  ELSE o = Numeral(x, S)
=============================================================================
