SPECIFICATION Spec
CONSTANTS
  Pool = {1,3,4,5,7,9,11,12}
  MaxStmts = 3
  MaxRw = 1
  Kinds = {"RenameVar", "RenameFn", "RenameMixin", "SwapSep", "Hoist", "InsertDebug", "InsertWarn", "MoveToPartial"}
  Unguarded = FALSE
INVARIANTS InvPreserved InvShape Emit
CHECK_DEADLOCK FALSE
