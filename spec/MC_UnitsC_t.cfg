SPECIFICATION Spec
CONSTANTS
  Ops = {"+", "-", "<", "<=", ">", ">=", "==", "max", "min"}
  Lens = {"px", "in", "cm", "mm", "pt", "pc", "Q"}
  Times = {"s", "ms"}
  Mags <- Mags_t
INVARIANTS Laws Emit
CHECK_DEADLOCK FALSE
