SPECIFICATION Spec
CONSTANTS
  Kind = "bind"
  CtxSet = {"mixin", "function", "content"}
  MaxParams = 2
  DefSet = {"req", "const", "next"}
  RestSet = {0, 1}
  MaxPos = 2
  NamedPool = {"a", "b-x", "y", "z"}
  MaxNamed = 2
  MapPool = {"a", "b-x", "z"}
  MaxMap = 2
  PSplats = {"none", "fwd"}
  ItemSet = {}
  MaxItems = 0
INVARIANTS LawHolds LawWellFormed Emit
CHECK_DEADLOCK FALSE
