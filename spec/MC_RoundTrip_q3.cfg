SPECIFICATION Spec
CONSTANTS
  MaxItems = 3
  KS = {"r_class", "d_str", "keyframes", "comment"}
  CS = {"bmp", "private", "dquote"}
  SH = {"dig"}
  CT = {}
  FN = {}
INVARIANT Generated
INVARIANT EmitVec
CHECK_DEADLOCK FALSE
