SPECIFICATION Spec
CONSTANTS
  Mode = "derive"
  MaxLen = 3000
  MaxDepth = 64
  MaxMut = 0
  MinLen = 1500
  Climb = 60
  Alphabet <- SoupAlphabet
INVARIANTS DepthOk EmitVec
CHECK_DEADLOCK FALSE
