------------------------------ MODULE Rewrite ------------------------------
(***************************************************************************)
(* Property C35: meaning-preserving source rewrites do not change the      *)
(* output.                                                                  *)
(*                                                                         *)
(* A mini statement language (global and local variable declarations,      *)
(* style rules with declarations, one-parameter functions, parameterless   *)
(* mixins, @include, @debug/@warn, @import of one partial), its evaluator  *)
(* Eval, its token sequence Toks, and the rewrites of the property as      *)
(* operators from a program to the set of rewritten programs:              *)
(*   InsertWs / InsertCmt     extra whitespace / a silent comment in a gap *)
(*                            between two tokens                            *)
(*   RenameVar/Fn/Mixin       consistent renaming to a fresh name          *)
(*   SwapSep                  `-` <-> `_` in the declaration sites or in   *)
(*                            the use sites of one name                     *)
(*   Hoist                    a value -> a fresh variable declared just    *)
(*                            before, in the same block                     *)
(*   InsertDebug / InsertWarn at any statement position                    *)
(*   MoveToPartial            a top-level statement -> _p.scss + @import   *)
(* The law checked by TLC: Result(Eval(q)) = Result(Eval(p)) for every q   *)
(* in Rewrites(p) (and for chains of rewrites).  The same programs are     *)
(* compiled by rsass and the two outputs must be byte-equal.               *)
(*                                                                         *)
(* Abstracts rsass/src/parser/util.rs (ignore_comments, opt_spacelike),    *)
(* sass/name.rs (Name normalisation of - and _), output/transform.rs       *)
(* (Item::Debug / Warn / Import), input/context.rs (find_file for import). *)
(*                                                                         *)
(* Names are [id, us]: us = 1 renders the separator as `_`, else `-`       *)
(* (`$x-1` / `$x_1`); identity is `id` alone, as Sass defines.             *)
(* Values are sequences of atoms: [t |-> "lit", s], [t |-> "var", n],      *)
(* [t |-> "call", n, a] (a: a lit or var atom).                             *)
(* Items (in rule / mixin / function bodies):                               *)
(*   [t |-> "decl", p, v]  [t |-> "var", n, v]  [t |-> "inc", n]           *)
(*   [t |-> "debug", v]  [t |-> "warn", v]                                  *)
(* Top-level statements: var, debug, warn as above and                      *)
(*   [t |-> "rule", sel, body]  [t |-> "fn", n, p, pre, ret]               *)
(*   [t |-> "mixin", n, body]   [t |-> "import"]                            *)
(* Program: [main |-> statements, part |-> statements of _p.scss,          *)
(*           triv |-> sequence of [g |-> gap, k |-> "ws" | "cmt"]]          *)
(***************************************************************************)
EXTENDS Integers, Sequences, FiniteSets, TLC

N(id, us) == [id |-> id, us |-> us]
Lit(s)    == [t |-> "lit", s |-> s]
Var(n)    == [t |-> "var", n |-> n]
Call(n, a) == [t |-> "call", n |-> n, a |-> a]

Range(s) == {s[i] : i \in DOMAIN s}
RECURSIVE Flat(_)
Flat(ss) == IF ss = <<>> THEN <<>> ELSE Head(ss) \o Flat(Tail(ss))
InsertAt(s, i, x) == SubSeq(s, 1, i - 1) \o <<x>> \o SubSeq(s, i, Len(s))     \* x becomes element i

---------------------------------------------------------------------------
(* Evaluation.  st = [G: global variables (function id -> token sequence), *)
(* F: functions, M: mixins, out: rules emitted, err: BOOLEAN]               *)
UNDEF == "!undef"
Bad(val) == \E i \in DOMAIN val : val[i] = UNDEF

LookupVar(id, L, st) ==
  IF id \in DOMAIN L THEN L[id] ELSE IF id \in DOMAIN st.G THEN st.G[id] ELSE <<UNDEF>>

Put(f, k, v) == [x \in DOMAIN f \cup {k} |-> IF x = k THEN v ELSE f[x]]

(* simple atoms: literals and variables *)
Atom0(a, L, st) == IF a.t = "lit" THEN <<a.s>> ELSE IF a.t = "var" THEN LookupVar(a.n.id, L, st) ELSE <<UNDEF>>
Val0(v, L, st) == Flat([i \in DOMAIN v |-> Atom0(v[i], L, st)])

(* the body of a function: pre items (variable declarations, @debug/@warn) then @return *)
RECURSIVE FnBody(_, _, _, _)
FnBody(pre, ret, L, st) ==
  IF pre = <<>> THEN Val0(ret, L, st)
  ELSE LET it == Head(pre)
           v  == Val0(it.v, L, st) IN
       IF Bad(v) THEN <<UNDEF>>
       ELSE IF it.t = "var" THEN FnBody(Tail(pre), ret, Put(L, it.n.id, v), st)
       ELSE FnBody(Tail(pre), ret, L, st)

(* a function that is not (yet) declared is a plain CSS function: its text is the result *)
NameS(n) == n.id \o (IF n.us = 1 THEN "_" ELSE "-") \o "1"
(* the text `name(v1 v2 .. vn)` as the space-separated tokens the observer reads back *)
CssCallToks(name, val) ==
  IF Len(val) = 1 THEN <<name \o "(" \o val[1] \o ")">>
  ELSE <<name \o "(" \o val[1]>> \o SubSeq(val, 2, Len(val) - 1) \o <<val[Len(val)] \o ")">>
AtomVal(a, L, st) ==
  IF a.t # "call" THEN Atom0(a, L, st)
  ELSE LET arg == Atom0(a.a, L, st) IN
       IF Bad(arg) THEN <<UNDEF>>
       ELSE IF a.n.id \in DOMAIN st.F
            THEN LET f == st.F[a.n.id] IN FnBody(f.pre, f.ret, (f.p.id :> arg), st)
            ELSE CssCallToks(NameS(a.n), arg)
ValOf(v, L, st) == Flat([i \in DOMAIN v |-> AtomVal(v[i], L, st)])

(* items of a rule or mixin body: result [L, decls, err] *)
RECURSIVE Items(_, _, _, _)
Items(items, L, st, acc) ==
  IF items = <<>> \/ acc.err THEN acc
  ELSE LET it == Head(items) IN
       IF it.t = "inc" THEN
            (IF it.n.id \notin DOMAIN st.M THEN [acc EXCEPT !.err = TRUE]
             ELSE LET r == Items(st.M[it.n.id].body, <<>>, st, acc) IN      \* the mixin body has its own local scope
                  Items(Tail(items), L, st, r))
       ELSE LET v == ValOf(it.v, L, st) IN
            IF Bad(v) THEN [acc EXCEPT !.err = TRUE]
            ELSE IF it.t = "decl" THEN Items(Tail(items), L, st, [acc EXCEPT !.decls = Append(@, [p |-> it.p, v |-> v])])
            ELSE IF it.t = "var" THEN Items(Tail(items), Put(L, it.n.id, v), st, acc)
            ELSE Items(Tail(items), L, st, acc)                                  \* @debug / @warn: no effect on the output

RECURSIVE Stmts(_, _, _)
Step(s, part, st) ==
  CASE s.t = "var"   -> LET v == ValOf(s.v, <<>>, st) IN IF Bad(v) THEN [st EXCEPT !.err = TRUE] ELSE [st EXCEPT !.G = Put(@, s.n.id, v)]
    [] s.t \in {"debug", "warn"} -> IF Bad(ValOf(s.v, <<>>, st)) THEN [st EXCEPT !.err = TRUE] ELSE st
    [] s.t = "fn"    -> [st EXCEPT !.F = Put(@, s.n.id, s)]
    [] s.t = "mixin" -> [st EXCEPT !.M = Put(@, s.n.id, s)]
    [] s.t = "rule"  -> LET r == Items(s.body, <<>>, st, [decls |-> <<>>, err |-> FALSE]) IN
                        IF r.err THEN [st EXCEPT !.err = TRUE]
                        ELSE IF r.decls = <<>> THEN st
                        ELSE [st EXCEPT !.out = Append(@, [sel |-> s.sel, decls |-> r.decls])]
    [] s.t = "import" -> Stmts(part, <<>>, st)          \* the partial is evaluated in place, in the same global scope
Stmts(ss, part, st) ==
  IF ss = <<>> \/ st.err THEN st ELSE Stmts(Tail(ss), part, Step(Head(ss), part, st))

Eval(p) == Stmts(p.main, p.part, [G |-> <<>>, F |-> <<>>, M |-> <<>>, out |-> <<>>, err |-> FALSE])
Result(p) == LET st == Eval(p) IN IF st.err THEN [err |-> 1, out |-> <<>>] ELSE [err |-> 0, out |-> st.out]

---------------------------------------------------------------------------
(* Tokens.  Joining them with single spaces (the renderer glues `:` `;` `)`*)
(* `,` to the left and text after `(`) gives the source text; a gap g is   *)
(* the position after token g (0 = before the first token).                *)
AtomToks(a) ==
  CASE a.t = "lit" -> <<a.s>>
    [] a.t = "var" -> <<"$" \o NameS(a.n)>>
    [] a.t = "call" -> <<NameS(a.n) \o "(">> \o (IF a.a.t = "lit" THEN <<a.a.s>> ELSE <<"$" \o NameS(a.a.n)>>) \o <<")">>
ValToks(v) == Flat([i \in DOMAIN v |-> AtomToks(v[i])])
ItemToks(it) ==
  CASE it.t = "decl"  -> <<it.p, ":">> \o ValToks(it.v) \o <<";">>
    [] it.t = "var"   -> <<"$" \o NameS(it.n), ":">> \o ValToks(it.v) \o <<";">>
    [] it.t = "inc"   -> <<"@include", NameS(it.n), ";">>
    [] it.t = "debug" -> <<"@debug">> \o ValToks(it.v) \o <<";">>
    [] it.t = "warn"  -> <<"@warn">> \o ValToks(it.v) \o <<";">>
BodyToks(b) == Flat([i \in DOMAIN b |-> ItemToks(b[i])])
StmtToks(s) ==
  CASE s.t \in {"var", "debug", "warn"} -> ItemToks(s)
    [] s.t = "rule"   -> <<s.sel, "{">> \o BodyToks(s.body) \o <<"}">>
    [] s.t = "fn"     -> <<"@function", NameS(s.n) \o "(", "$" \o NameS(s.p), ")", "{">> \o BodyToks(s.pre)
                         \o <<"@return">> \o ValToks(s.ret) \o <<";", "}">>
    [] s.t = "mixin"  -> <<"@mixin", NameS(s.n), "{">> \o BodyToks(s.body) \o <<"}">>
    [] s.t = "import" -> <<"@import", "'p'", ";">>
Toks(ss) == Flat([i \in DOMAIN ss |-> StmtToks(ss[i])])

Selectors == {"a", "b", ".k"}
(* a gap where a silent comment would sit inside a selector: not used *)
SelGap(toks, g) == g >= 1 /\ g < Len(toks) /\ toks[g + 1] = "{" /\ toks[g] \in Selectors

---------------------------------------------------------------------------
(* Generic map over every name occurrence: F(kind, site, name) -> name,    *)
(* kind in {"var","fn","mix"}, site in {"decl","use"}                       *)
MapAtom(a, F(_, _, _)) ==
  CASE a.t = "lit"  -> a
    [] a.t = "var"  -> [a EXCEPT !.n = F("var", "use", a.n)]
    [] a.t = "call" -> [a EXCEPT !.n = F("fn", "use", a.n),
                                 !.a = IF a.a.t = "var" THEN [a.a EXCEPT !.n = F("var", "use", a.a.n)] ELSE a.a]
MapVal(v, F(_, _, _)) == [i \in DOMAIN v |-> MapAtom(v[i], F)]
MapItem(it, F(_, _, _)) ==
  CASE it.t = "decl" -> [it EXCEPT !.v = MapVal(it.v, F)]
    [] it.t = "var"  -> [it EXCEPT !.n = F("var", "decl", it.n), !.v = MapVal(it.v, F)]
    [] it.t = "inc"  -> [it EXCEPT !.n = F("mix", "use", it.n)]
    [] it.t \in {"debug", "warn"} -> [it EXCEPT !.v = MapVal(it.v, F)]
MapBody(b, F(_, _, _)) == [i \in DOMAIN b |-> MapItem(b[i], F)]
MapStmt(s, F(_, _, _)) ==
  CASE s.t \in {"var", "debug", "warn"} -> MapItem(s, F)
    [] s.t = "rule"   -> [s EXCEPT !.body = MapBody(s.body, F)]
    [] s.t = "fn"     -> [s EXCEPT !.n = F("fn", "decl", s.n), !.p = F("var", "decl", s.p),
                                   !.pre = MapBody(s.pre, F), !.ret = MapVal(s.ret, F)]
    [] s.t = "mixin"  -> [s EXCEPT !.n = F("mix", "decl", s.n), !.body = MapBody(s.body, F)]
    [] s.t = "import" -> s
MapProg(p, F(_, _, _)) ==
  [p EXCEPT !.main = [i \in DOMAIN p.main |-> MapStmt(p.main[i], F)],
            !.part = [i \in DOMAIN p.part |-> MapStmt(p.part[i], F)]]

(* the ids of a kind that occur in p (collected with the same traversal: map every name to  *)
(* itself and look at the tokens would be indirect; a direct collector is clearer)           *)
AtomIds(a, kind) ==
  CASE a.t = "lit"  -> {}
    [] a.t = "var"  -> IF kind = "var" THEN {a.n.id} ELSE {}
    [] a.t = "call" -> (IF kind = "fn" THEN {a.n.id} ELSE {}) \cup (IF kind = "var" /\ a.a.t = "var" THEN {a.a.n.id} ELSE {})
ValIds(v, kind) == UNION {AtomIds(v[i], kind) : i \in DOMAIN v}
ItemIds(it, kind) ==
  CASE it.t = "decl" -> ValIds(it.v, kind)
    [] it.t = "var"  -> (IF kind = "var" THEN {it.n.id} ELSE {}) \cup ValIds(it.v, kind)
    [] it.t = "inc"  -> IF kind = "mix" THEN {it.n.id} ELSE {}
    [] it.t \in {"debug", "warn"} -> ValIds(it.v, kind)
BodyIds(b, kind) == UNION {ItemIds(b[i], kind) : i \in DOMAIN b}
StmtIds(s, kind) ==
  CASE s.t \in {"var", "debug", "warn"} -> ItemIds(s, kind)
    [] s.t = "rule"   -> BodyIds(s.body, kind)
    [] s.t = "fn"     -> (IF kind = "fn" THEN {s.n.id} ELSE {}) \cup (IF kind = "var" THEN {s.p.id} ELSE {})
                         \cup BodyIds(s.pre, kind) \cup ValIds(s.ret, kind)
    [] s.t = "mixin"  -> (IF kind = "mix" THEN {s.n.id} ELSE {}) \cup BodyIds(s.body, kind)
    [] s.t = "import" -> {}
Ids(p, kind) == UNION {StmtIds(p.main[i], kind) : i \in DOMAIN p.main} \cup UNION {StmtIds(p.part[i], kind) : i \in DOMAIN p.part}

(* declared function ids, and whether some call of id can run before its declaration:      *)
(* a call evaluated while the function is undeclared is a plain CSS function whose text     *)
(* contains the name, so renaming (or re-spelling) such a function is NOT meaning-preserving *)
DeclaredFns(p) == {p.main[i].n.id : i \in {j \in DOMAIN p.main : p.main[j].t = "fn"}}
                  \cup {p.part[i].n.id : i \in {j \in DOMAIN p.part : p.part[j].t = "fn"}}
CallAlwaysDeclared(p, id) ==
  \* conservative: the function is the first statement that mentions the id, in the flattened order
  LET flatp == Flat([i \in DOMAIN p.main |-> IF p.main[i].t = "import" THEN p.part ELSE <<p.main[i]>>])
      firstMention == {i \in DOMAIN flatp : id \in StmtIds(flatp[i], "fn")} IN
  firstMention # {} /\ LET i == CHOOSE i \in firstMention : \A j \in firstMention : i <= j IN flatp[i].t = "fn" /\ flatp[i].n.id = id

FreshVar == {"z", "h"}
FreshFn  == {"g"}
FreshMix == {"k"}

Rename(p, kind, from, to) ==
  MapProg(p, LAMBDA k, s, n : IF k = kind /\ n.id = from THEN [n EXCEPT !.id = to] ELSE n)
SwapSep(p, kind, id, site) ==
  MapProg(p, LAMBDA k, s, n : IF k = kind /\ n.id = id /\ s = site THEN [n EXCEPT !.us = 1 - @] ELSE n)

RwRename(p) ==
  {[rw |-> "RenameVar", p |-> Rename(p, "var", f, "z")] : f \in IF "z" \in Ids(p, "var") THEN {} ELSE Ids(p, "var")}
  \cup {[rw |-> "RenameFn", p |-> Rename(p, "fn", f, "g")] :
          f \in IF "g" \in Ids(p, "fn") THEN {} ELSE {x \in DeclaredFns(p) : CallAlwaysDeclared(p, x)}}
  \cup {[rw |-> "RenameMixin", p |-> Rename(p, "mix", f, "k")] : f \in IF "k" \in Ids(p, "mix") THEN {} ELSE Ids(p, "mix")}

RwSwap(p) ==
  {[rw |-> "SwapSep", p |-> SwapSep(p, "var", id, site)] : id \in Ids(p, "var"), site \in {"decl", "use"}}
  \cup {[rw |-> "SwapSep", p |-> SwapSep(p, "mix", id, site)] : id \in Ids(p, "mix"), site \in {"decl", "use"}}
  \cup {[rw |-> "SwapSep", p |-> SwapSep(p, "fn", id, site)] :
      id \in {x \in DeclaredFns(p) : CallAlwaysDeclared(p, x)}, site \in {"decl", "use"}}

(* Hoist: the value of item j of rule i, of top-level variable i, or a function's @return *)
HVar == Var(N("h", 0))
HDecl(v) == [t |-> "var", n |-> N("h", 0), v |-> v]
RwHoist(p) ==
  IF "h" \in Ids(p, "var") THEN {}
  ELSE
  {[rw |-> "Hoist", p |-> [p EXCEPT !.main = InsertAt([p.main EXCEPT ![i].v = <<HVar>>], i, HDecl(p.main[i].v))]] :
      i \in {j \in DOMAIN p.main : p.main[j].t = "var"}}
  \cup
  {[rw |-> "Hoist", p |-> [p EXCEPT !.main[ij[1]].body = InsertAt([p.main[ij[1]].body EXCEPT ![ij[2]].v = <<HVar>>], ij[2],
                                                                  HDecl(p.main[ij[1]].body[ij[2]].v))]] :
      ij \in {x \in (DOMAIN p.main) \X (1..4) : p.main[x[1]].t \in {"rule", "mixin"} /\ x[2] \in DOMAIN p.main[x[1]].body
                                                 /\ p.main[x[1]].body[x[2]].t \in {"decl", "var"}}}
  \cup
  {[rw |-> "Hoist", p |-> [p EXCEPT !.main[i].pre = Append(@, HDecl(p.main[i].ret)), !.main[i].ret = <<HVar>>]] :
      i \in {j \in DOMAIN p.main : p.main[j].t = "fn"}}

DbgItem(k) == [t |-> k, v |-> <<Lit("dbg")>>]
RwDebug(p) ==
  {[rw |-> IF k = "debug" THEN "InsertDebug" ELSE "InsertWarn", p |-> [p EXCEPT !.main = InsertAt(p.main, i, DbgItem(k))]] :
      i \in 1..(Len(p.main) + 1), k \in {"debug", "warn"}}
  \cup
  {[rw |-> IF k = "debug" THEN "InsertDebug" ELSE "InsertWarn",
    p |-> [p EXCEPT !.main[ij[1]].body = InsertAt(@, ij[2], DbgItem(k))]] :
      ij \in {x \in (DOMAIN p.main) \X (1..5) : p.main[x[1]].t \in {"rule", "mixin"} /\ x[2] <= Len(p.main[x[1]].body) + 1},
      k \in {"debug", "warn"}}
  \cup
  {[rw |-> IF k = "debug" THEN "InsertDebug" ELSE "InsertWarn", p |-> [p EXCEPT !.main[i].pre = Append(@, DbgItem(k))]] :
      i \in {j \in DOMAIN p.main : p.main[j].t = "fn"}, k \in {"debug", "warn"}}

RwPartial(p) ==
  IF p.part # <<>> THEN {}
  ELSE {[rw |-> "MoveToPartial", p |-> [p EXCEPT !.part = <<p.main[i]>>, !.main[i] = [t |-> "import"]]] : i \in DOMAIN p.main}

RwTrivia(p) ==
  LET toks == Toks(p.main) IN
  {[rw |-> "InsertWs", p |-> [p EXCEPT !.triv = Append(@, [g |-> g, k |-> "ws"])]] : g \in 0..Len(toks)}
  \cup {[rw |-> "InsertCmt", p |-> [p EXCEPT !.triv = Append(@, [g |-> g, k |-> "cmt"])]] :
          g \in {x \in 0..Len(toks) : ~SelGap(toks, x)}}

(* structural rewrites change the token sequence: trivia recorded before them would move; *)
(* a chain applies trivia last                                                              *)
Structural(p) == RwRename(p) \cup RwSwap(p) \cup RwHoist(p) \cup RwDebug(p) \cup RwPartial(p)
Rewrites(p) == IF p.triv = <<>> THEN Structural(p) \cup RwTrivia(p) ELSE RwTrivia(p)

---------------------------------------------------------------------------
(* Token programs.  The token-level rewrites (InsertWs / InsertCmt) are      *)
(* meaning-preserving BY DEFINITION at every gap between two tokens - that   *)
(* is what "between tokens" means - so they need no evaluator, only a token  *)
(* sequence whose gaps are exactly the places where Sass allows whitespace   *)
(* and comments.  The snippets below cover the syntax the mini language      *)
(* above does not have: modules (@use .. as / with, @forward .. show),       *)
(* namespaced variables, functions and mixins, @include with positional and  *)
(* named arguments, content blocks and `using`, @mixin/@function parameter   *)
(* lists with defaults, control flow, maps, flags, interpolation, &.         *)
(* Conventions: a token starting with `~` is written tight against the       *)
(* previous token in the ORIGINAL (`lib.box` `~(` -> `lib.box(`) although    *)
(* Sass allows whitespace there; where Sass does not allow whitespace the    *)
(* text is ONE token (`lib.dbl(`, `lib.$d`, `.e-#{$k}`, `!default`).         *)
(* cmt = 0: only whitespace is inserted (gaps inside selectors, @at-root     *)
(* preludes, interpolation and calc(), where the property does not say that  *)
(* a silent comment is skipped).                                             *)
Snip(id, cmt, main, lib, mid) == [id |-> id, cmt |-> cmt, main |-> main, lib |-> lib, mid |-> mid]

LibStd == <<"$d", ":", "10px", "!default", ";", "$e", ":", "2", ";",
            "@function", "dbl", "~(", "$n", ")", "{", "@return", "$n", "*", "2", ";", "}",
            "@mixin", "box", "~(", "$w", ",", "$h", ":", "2px", ")", "{", "width", ":", "$w", ";", "height", ":", "$h", ";", "}",
            "@mixin", "wrap", "~(", "$p", ":", "1", ")", "{", ".w", "{", "@content", "~(", "$p", ")", ";", "}", "}",
            "@mixin", "plain", "{", "c", ":", "$d", ";", "}",
            "@mixin", "blk", "{", ".i", "{", "@content", ";", "}", "}">>
UseLib == <<"@use", "'lib'", ";">>

Snippets == <<
  Snip("inc_q", 1, UseLib \o <<".a", "{", "@include", "lib.box", "~(", "1px", ",", "3px", ")", ";", "}">>, LibStd, <<>>),
  Snip("inc_q_named", 1, UseLib \o <<".a", "{", "@include", "lib.box", "~(", "$w", ":", "1px", ",", "$h", ":", "4px", ")", ";", "}">>, LibStd, <<>>),
  Snip("inc_q_noargs", 1, UseLib \o <<".a", "{", "@include", "lib.plain", ";", "@include", "lib.box", "~(", "4px", ")", "}">>, LibStd, <<>>),
  Snip("inc_q_using", 1, UseLib \o <<"@include", "lib.wrap", "~(", "3", ")", "using", "(", "$x", ")", "{", "v", ":", "$x", ";", "}">>, LibStd, <<>>),
  Snip("inc_q_block", 1, UseLib \o <<"@include", "lib.blk", "{", "v", ":", "1", ";", "}", "@include", "lib.wrap", "using", "(", "$y", ")", "{", "u", ":", "$y", "}">>, LibStd, <<>>),
  Snip("var_q", 1, UseLib \o <<".a", "{", "w", ":", "lib.$d", ";", "x", ":", "lib.$e", "+", "1", ";", "}">>, LibStd, <<>>),
  Snip("fn_q", 1, UseLib \o <<".a", "{", "w", ":", "lib.dbl(", "lib.$e", ")", ";", "x", ":", "lib.dbl(", "$n", ":", "4", ")", ";", "}">>, LibStd, <<>>),
  Snip("use_with", 1, <<"@use", "'lib'", "with", "(", "$d", ":", "3px", ")", ";", ".a", "{", "w", ":", "lib.$d", ";", "@include", "lib.plain", ";", "}">>, LibStd, <<>>),
  Snip("use_as", 1, <<"@use", "'lib'", "as", "l", ";", ".a", "{", "w", ":", "l.$d", ";", "@include", "l.box", "~(", "1px", ")", ";", "}">>, LibStd, <<>>),
  Snip("use_as_with", 1, <<"@use", "'lib'", "as", "l", "with", "(", "$d", ":", "7px", ")", ";", ".a", "{", "@include", "l.plain", ";", "}">>, LibStd, <<>>),
  Snip("use_star", 1, <<"@use", "'lib'", "as", "*", ";", ".a", "{", "w", ":", "$d", ";", "@include", "box", "~(", "5px", ")", ";", "x", ":", "dbl(", "2", ")", ";", "}">>, LibStd, <<>>),
  Snip("math", 1, <<"@use", "'sass:math'", ";", ".a", "{", "w", ":", "math.div(", "10px", ",", "4", ")", ";", "m", ":", "math.max(", "1", ",", "2", ")", ";",
                    "f", ":", "math.floor(", "$number", ":", "1.5", ")", ";", "}">>, <<>>, <<>>),
  Snip("forward", 1, <<"@use", "'mid'", ";", ".a", "{", "@include", "mid.box", "~(", "1px", ")", ";", "w", ":", "mid.$d", ";", "}">>, LibStd,
                     <<"@forward", "'lib'", "show", "box", ",", "$d", ";">>),
  Snip("forward_as", 1, <<"@use", "'mid'", ";", ".a", "{", "@include", "mid.p-box", "~(", "1px", ")", ";", "w", ":", "mid.$p-e", ";", "}">>, LibStd,
                     <<"@forward", "'lib'", "as", "p-*", "hide", "dbl", ",", "$d", ";">>),
  Snip("import", 1, <<"@import", "'lib'", ";", ".a", "{", "@include", "box", "~(", "1px", ")", ";", "w", ":", "$d", ";", "}">>, LibStd, <<>>),
  Snip("mixin_args", 1, <<"@mixin", "m", "~(", "$a", ",", "$b", ":", "2", ")", "{", "p", ":", "$a", "$b", ";", "}",
                          ".a", "{", "@include", "m", "~(", "1", ")", ";", "@include", "m", "~(", "1", ",", "$b", ":", "3", ")", ";", "}">>, <<>>, <<>>),
  Snip("content_using", 1, <<"@mixin", "c", "~(", "$a", ")", "{", ".w", "{", "@content", "~(", "$a", ")", ";", "}", "}",
                             "@include", "c", "~(", "7", ")", "using", "(", "$v", ")", "{", "q", ":", "$v", ";", "}">>, <<>>, <<>>),
  Snip("fn_named", 1, <<"@function", "f", "~(", "$a", ",", "$b", ":", "1", ")", "{", "@return", "$a", "+", "$b", ";", "}",
                        ".a", "{", "p", ":", "f(", "1", ")", ";", "q", ":", "f(", "$b", ":", "2", ",", "$a", ":", "3", ")", ";", "}">>, <<>>, <<>>),
  Snip("if_else", 1, <<"$x", ":", "2", ";", ".a", "{", "@if", "$x", "==", "1", "{", "p", ":", "a", ";", "}", "@else", "if", "$x", "==", "2", "{", "p", ":", "b", ";", "}",
                       "@else", "{", "p", ":", "c", ";", "}", "}">>, <<>>, <<>>),
  Snip("each_map", 1, <<"@each", "$k", ",", "$v", "in", "(", "a", ":", "1", ",", "b", ":", "2", ")", "{", ".e-#{$k}", "{", "p", ":", "$v", ";", "}", "}">>, <<>>, <<>>),
  Snip("for_loop", 1, <<"@for", "$i", "from", "1", "through", "2", "{", ".f-#{$i}", "{", "p", ":", "$i", "*", "2", ";", "}", "}">>, <<>>, <<>>),
  Snip("while_loop", 1, <<"$i", ":", "2", ";", "@while", "$i", ">", "0", "{", ".w-#{$i}", "{", "p", ":", "$i", ";", "}", "$i", ":", "$i", "-", "1", ";", "}">>, <<>>, <<>>),
  Snip("flags", 1, <<"$g", ":", "1", ";", ".a", "{", "$g", ":", "2", "!global", ";", "$l", ":", "3", "!default", ";", "p", ":", "$g", "$l", ";", "}", ".b", "{", "q", ":", "$g", "}">>, <<>>, <<>>),
  Snip("maps_lists", 1, <<"$m", ":", "(", "a", ":", "1", ",", "b", ":", "(", "c", ":", "2", ")", ")", ";", ".a", "{", "p", ":", "map-get(", "$m", ",", "a", ")", ";",
                          "q", ":", "nth(", "(", "1", ",", "2", ",", "3", ")", ",", "2", ")", ";", "r", ":", "[", "~a", "b", "]", ";", "}">>, <<>>, <<>>),
  Snip("nesting", 0, <<".a", "{", "p", ":", "q", ";", "&", ".b", "{", "r", ":", "s", ";", "}", "&:hover", "{", "t", ":", "u", ";", "}", ".c", "&", "{", "v", ":", "w", ";", "}",
                       ".d", ",", ".e", ">", ".f", "{", "x", ":", "y", ";", "}", "}">>, <<>>, <<>>),
  Snip("interp", 0, <<"$n", ":", "x", ";", ".a-#{", "~$n", "}", "{", "p-#{", "~$n", "}", ":", "v#{", "~1", "+", "1", "}", ";", "}">>, <<>>, <<>>),
  Snip("at_root_calc", 0, <<".a", "{", "@at-root", ".b", "{", "p", ":", "q", ";", "}", "w", ":", "calc(", "1px", "+", "2%", ")", ";", "c", ":", "rgba(", "1", ",", "2", ",", "3", ",", "0.5", ")", ";", "}">>, <<>>, <<>>)
>>

SnipSelectors == {".a", ".b", ".w", ".i", ".e-#{$k}", ".f-#{$i}", ".w-#{$i}"}
SnipFile(s, f) == IF f = "main" THEN s.main ELSE IF f = "lib" THEN s.lib ELSE s.mid
SnipFiles(s) == {f \in {"main", "lib", "mid"} : SnipFile(s, f) # <<>>}
(* the gaps of one file of a snippet where trivia of kind k may go *)
SnipGaps(s, f, k) ==
  LET toks == SnipFile(s, f) IN
  IF k = "ws" THEN 0..Len(toks)
  ELSE IF s.cmt = 0 THEN {}
  ELSE {g \in 0..Len(toks) : ~(g >= 1 /\ g < Len(toks) /\ toks[g + 1] = "{" /\ toks[g] \in SnipSelectors)}
SnipTrivOK(s, t) == t.f \in SnipFiles(s) /\ t.k \in {"ws", "cmt"} /\ t.g \in SnipGaps(s, t.f, t.k)
SnipById(id) == Snippets[CHOOSE i \in DOMAIN Snippets : Snippets[i].id = id]
SnipIds == {Snippets[i].id : i \in DOMAIN Snippets}

(* Named deviations of the pinned tree, as scope predicates over one insertion t *)
(* into snippet s, with the class the rewritten source then shows:              *)
(*   ws_after_open_bracket   whitespace / a comment right after the `[` of a    *)
(*        bracketed list is a parse error (parser/value.rs bracket_list)        *)
(*   ws_after_interp_open    whitespace / a comment right after `#{` is a parse *)
(*        error (parser/strings.rs string_part_interpolation)                   *)
(*   comment_at_comparison   a comment next to == != < > <= >= (and / or) ends  *)
(*        the expression: `$x // c` newline `== 1` becomes the LIST `$x == 1`,  *)
(*        which is truthy - @if takes the wrong branch, @while never ends       *)
(*        (parser/value.rs: multispace0 instead of ignore_comments)             *)
RelOps == {"==", "!=", "<", ">", "<=", ">="}
InterpOpen == {".a-#{", "p-#{", "v#{"}
PrevTok(s, t) == IF t.g >= 1 THEN SnipFile(s, t.f)[t.g] ELSE ""
NextTok(s, t) == IF t.g < Len(SnipFile(s, t.f)) THEN SnipFile(s, t.f)[t.g + 1] ELSE ""
SnipDevScope(d, s, t) ==
  CASE d = "ws_after_open_bracket" -> PrevTok(s, t) = "["
    [] d = "ws_after_interp_open"  -> PrevTok(s, t) \in InterpOpen
    [] d = "comment_at_comparison" -> t.k = "cmt" /\ (PrevTok(s, t) \in RelOps \/ NextTok(s, t) \in RelOps)
    [] OTHER -> FALSE
SnipDevClass(d, c) ==
  CASE d \in {"ws_after_open_bracket", "ws_after_interp_open"} -> c.k = "err"
    [] d = "comment_at_comparison" -> c.k \in {"ok", "other:timeout"}
    [] OTHER -> FALSE

(* The law *)
Preserved(p, q) == Result(q) = Result(p)
LawAllRewrites(p) == \A r \in Rewrites(p) : Preserved(p, r.p)
=============================================================================
