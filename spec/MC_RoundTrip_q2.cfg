SPECIFICATION Spec
CONSTANTS
  MaxItems = 2
  KS = {"r_class", "r_attr", "d_ident", "d_str", "d_num", "d_urlq", "media", "fontface", "comment"}
  CS = {"latin1", "private", "quotes2", "newline"}
  SH = {"mid"}
  CT = {}
  FN = {}
INVARIANT Generated
INVARIANT EmitVec
CHECK_DEADLOCK FALSE
