SPECIFICATION Spec
CONSTANTS
  Leaves = {"loud", "bangi"}
  Conts = {"rule", "mixin", "content", "else", "each2", "while2"}
  MaxStmts = 5
  MaxDepth = 4
  Strict = TRUE
  Styles = {"expanded", "compressed"}
  Need = {"loud", "bangi"}
  MaxOf <- LimC36b
INVARIANTS InvLaws Emit36
CHECK_DEADLOCK FALSE
