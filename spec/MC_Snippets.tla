----------------------------- MODULE MC_Snippets -----------------------------
(* Generator for the token programs of Rewrite.tla: every snippet x every    *)
(* file x every gap x {whitespace, silent comment} (MaxTriv = 1), and pairs   *)
(* of insertions (MaxTriv = 2, thorough).  The law is definitional here (a    *)
(* gap is a place between two tokens); TLC checks that every generated        *)
(* insertion is one Rewrite!SnipTrivOK allows and prints the pair.            *)
EXTENDS Rewrite, Json

CONSTANTS MaxTriv

VARIABLES sn, triv
vars == <<sn, triv>>

Init == sn = 0 /\ triv = <<>>
Pick == /\ sn = 0 /\ \E i \in DOMAIN Snippets : sn' = i
        /\ UNCHANGED triv
Insert == /\ sn # 0 /\ Len(triv) < MaxTriv
          /\ \E f \in SnipFiles(Snippets[sn]), k \in {"ws", "cmt"} :
               \E g \in SnipGaps(Snippets[sn], f, k) :
                  /\ (triv # <<>> => (triv[Len(triv)].f = f /\ triv[Len(triv)].g < g))      \* canonical order: one file, ascending gaps
                  /\ triv' = Append(triv, [f |-> f, g |-> g, k |-> k])
          /\ UNCHANGED sn
Next == Pick \/ Insert
Spec == Init /\ [][Next]_vars

InvTrivOK == sn # 0 => \A i \in DOMAIN triv : SnipTrivOK(Snippets[sn], triv[i])
InvIds == \A i, j \in DOMAIN Snippets : i # j => Snippets[i].id # Snippets[j].id

Emit == (sn # 0 /\ triv # <<>>) =>
  PrintT(<<"VEC", ToJson([snip |-> Snippets[sn].id, main |-> Snippets[sn].main, lib |-> Snippets[sn].lib, mid |-> Snippets[sn].mid, triv |-> triv])>>)
=============================================================================
