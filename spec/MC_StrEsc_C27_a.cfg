SPECIFICATION Spec
CONSTANTS
  Cps = {34, 39, 92, 1, 10, 9, 127, 32, 97, 49, 120, 233, 57344, 128512, 45, 35, 160}
  KindSet = {"raw", "bs", "hex", "hexsp", "hextab", "HEXsp", "hex6", "hex6sp"}
  Quotes = {34, 39}
  MaxLen = 1
  MaxCont = 1
INVARIANTS LawDecode LawLen Emit
CHECK_DEADLOCK FALSE
