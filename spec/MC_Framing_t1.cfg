SPECIFICATION Spec
CONSTANTS
  MaxLen = 5
  StepMode = FALSE
  DeclSet = {"id", "idna", "str", "strna", "url", "urlna", "urlq", "list", "call"}
  CpropSet = {"plain", "nl", "na"}
  CmtSet = {"one", "multi", "na"}
  RuleSet = {"asc", "na"}
  AtAttr = {"-"}
  Extra = {}
INVARIANT DesignAccepted
INVARIANT Sensitive
INVARIANT EmitVec
CHECK_DEADLOCK FALSE
