----------------------------- MODULE Trace_Reach -----------------------------
(* Trace validation for the reach engine.  Every recorded compilation       *)
(* {prog, style, mode, obs, devs, case} must be explained by Reach:          *)
(*  mode "c36": obs = the comment sequence Observe36 computes for the style; *)
(*  mode "c21": obs = [st, present] satisfies Accept21 (error, or every      *)
(*              reached marker present and no @error reached);              *)
(* or by a deviation listed as an open finding (then it is reported).       *)
EXTENDS Reach, Json, IOUtils, TLCExt

Rec == ndJsonDeserialize(IOEnv.TRACE)

VARIABLE l
Init == l = 1

SeqToSet(s) == {s[i] : i \in DOMAIN s}

Explained(e) ==
  IF ~LawsReach(e.prog) THEN FALSE
  ELSE IF e.mode = "c36" THEN
       IF e.obs = Observe36(e.prog, e.style, {}) THEN TRUE
       ELSE \E S \in (SUBSET (SeqToSet(e.devs) \cap AllDevs36)) \ {{}} :
              /\ Observe36(e.prog, e.style, S) = e.obs
              /\ \A d \in S : Observe36(e.prog, e.style, S \ {d}) # e.obs      \* a minimal explanation
              /\ \A d \in S : PrintT(<<"MSG", "KNOWN", d, e.case>>)
  ELSE IF Accept21(e.prog, e.obs) THEN TRUE
       ELSE /\ "nsrule_atrule_swallowed" \in SeqToSet(e.devs)
            /\ Swallow21(e.prog, e.obs)
            /\ PrintT(<<"MSG", "KNOWN", "nsrule_atrule_swallowed", e.case>>)

Next == /\ l <= Len(Rec)
        /\ Explained(Rec[l]) = TRUE
        /\ l' = l + 1
Spec == Init /\ [][Next]_l

Accepted == IF TLCGet("stats").diameter - 1 = Len(Rec) THEN TRUE
            ELSE PrintT(<<"UNMATCHED", TLCGet("stats").diameter>>) /\ FALSE
=============================================================================
