-------------------------------- MODULE Cli --------------------------------
(***************************************************************************)
(* The rsass command line tool (rsass-cli/src/main.rs) as a state machine   *)
(* over its input files: each file is compiled with the library in the      *)
(* format given by --style/--precision, loads resolved against the input    *)
(* file's directory and then --load-path; output is written as it is        *)
(* produced; the first failure ends the run with exit code 1 and an         *)
(* `Error:` message on stderr.                                              *)
(*                                                                         *)
(* A file kind says what the file does:                                     *)
(*   "plain"  a stylesheet that compiles            "bad"  one that does not *)
(*   "dep"    a stylesheet that loads `dep`; where dep.scss exists is the   *)
(*            layout: "dir" (next to the input), "lp" (in the load path),   *)
(*            "both" (the input's directory wins), "none" (load fails)      *)
(*   "dep2"   like "dep", after a load of `w`, which exists only in the     *)
(*            load path: an earlier load never changes how `dep` resolves   *)
(***************************************************************************)
EXTENDS Integers, Sequences, TLC

Kinds   == {"plain", "bad", "dep", "dep2"}      \* "dep2": loads `w` (only in the load path) and then `dep`
Layouts == {"dir", "lp", "both", "none"}

(* does a file of this kind compile under this layout, and which copy of    *)
(* dep does it see ("-" none, "D" the one next to the input, "L" load path) *)
Compiles(kind, layout) == kind = "plain" \/ (kind \in {"dep", "dep2"} /\ layout # "none")
DepSeen(kind, layout)  == IF kind \notin {"dep", "dep2"} \/ layout = "none" THEN "-"
                          ELSE IF layout \in {"dir", "both"} THEN "D" ELSE "L"

VARIABLES files, layout, i, exit, emitted
cvars == <<files, layout, i, exit, emitted>>

CInit(fs, lay) == files = fs /\ layout = lay /\ i = 1 /\ exit = -1 /\ emitted = <<>>

CompileOk   == /\ exit = -1 /\ i <= Len(files) /\ Compiles(files[i], layout)
               /\ emitted' = Append(emitted, i) /\ i' = i + 1
               /\ UNCHANGED <<files, layout, exit>>
CompileFail == /\ exit = -1 /\ i <= Len(files) /\ ~Compiles(files[i], layout)
               /\ exit' = 1
               /\ UNCHANGED <<files, layout, i, emitted>>
Finish      == /\ exit = -1 /\ i > Len(files) /\ exit' = 0
               /\ UNCHANGED <<files, layout, i, emitted>>
CNext == CompileOk \/ CompileFail \/ Finish

(* exit 0 exactly when every file compiles, and then all of them were emitted in order *)
ExitOk == exit = 0 => (\A k \in DOMAIN files : Compiles(files[k], layout)) /\ emitted = [k \in DOMAIN files |-> k]
ExitErr == exit = 1 => \E k \in DOMAIN files : ~Compiles(files[k], layout)
=============================================================================
