----------------------------- MODULE Trace_Math -----------------------------
(* Trace validation for C29: every recorded call {fn, args, obs, case, devs}   *)
(* must be explained by Math!Expect, unless the specification does not          *)
(* constrain the call (Undef).                                                  *)
EXTENDS Math, Json, IOUtils, TLCExt

Rec == ndJsonDeserialize(IOEnv.TRACE)

VARIABLE l
Init == l = 1

Lenient == "LENIENT" \in DOMAIN IOEnv

Explained(e) ==
  LET x == Expect(e.ns, e.fn, e.args) IN
  IF x.k = "undef" THEN TRUE
  ELSE IF e.obs = x THEN TRUE
  ELSE PrintT(<<"MSG", ToJson([unexplained |-> e.case, checks |-> x])>>) /\ Lenient

Next == /\ l <= Len(Rec)
        /\ Explained(Rec[l]) = TRUE
        /\ l' = l + 1
Spec == Init /\ [][Next]_l

Accepted == IF TLCGet("stats").diameter - 1 = Len(Rec) THEN TRUE
            ELSE PrintT(<<"UNMATCHED", TLCGet("stats").diameter>>) /\ FALSE
=============================================================================
