------------------------------ MODULE Process ------------------------------
(***************************************************************************)
(* Process-wide state of rsass shared by all compilations and threads:      *)
(*   - the built-in modules (sass:math, sass:string ...): LazyLock statics   *)
(*     in sass/functions/mod.rs, read by every compilation; set_variable     *)
(*     refuses to modify them (variablescope.rs, ScopeError::ModifiedBuiltin)*)
(*   - the unique-id counter CALL_ID (sass/functions/string.rs), a           *)
(*     Mutex<u64> incremented under the lock                                  *)
(* and, per compilation, a private scope.                                    *)
(*                                                                          *)
(* Threads run jobs (compilations); each job is a sequence of steps that    *)
(* interleave freely with the steps of other threads:                       *)
(*   "read"   read a built-in module variable into the job's output         *)
(*   "write"  try to assign a built-in module variable (must fail)          *)
(*   "def"    define a user variable/function named like a built-in         *)
(*   "writeg" / "writed" / "usewith"  the same attempt spelled with         *)
(*            !global, with !default, or as `@use "sass:math" with (...)`   *)
(*   "failcall"  an @error raised deep inside nested user function calls     *)
(*            (the compilation fails; nothing may be left behind)           *)
(*   "deepcall"  a valid deep recursion of user functions                    *)
(*   "uid"    call unique-id(): Acquire; Incr; Release as separate steps    *)
(*   "pure"   a step that touches only the job's own scope                  *)
(*                                                                          *)
(* Named deviations (demonstrations: TLC finds the property violation       *)
(* when one is switched on):                                                *)
(*   builtin_write_allowed  an assignment to a built-in variable succeeds   *)
(*   user_def_leaks         a user definition named like a built-in leaks   *)
(*                          into the process-wide table                     *)
(*   callid_unlocked        unique-id reads and writes the counter without  *)
(*                          holding the lock (split load / store)           *)
(***************************************************************************)
EXTENDS Integers, Sequences, FiniteSets, TLC

CONSTANTS Threads,     \* thread ids
          Progs,       \* [prog id -> sequence of step kinds]
          Dev

VARIABLES
  builtin,    \* value of the built-in variable every compilation can read (process-wide)
  callId,     \* the unique-id counter (process-wide)
  holder,     \* thread holding the CALL_ID mutex, or "none"
  queue,      \* [thread -> sequence of prog ids still to run]
  pc,         \* [thread -> index of the next step in its current job, 0 = between jobs]
  phase,      \* [thread -> "idle" | "acq" | "inc" | "rel"]  position inside a uid step
  tmp,        \* [thread -> the counter value a thread read (callid_unlocked) / got]
  local,      \* [thread -> the job's private value of the user definition, 0 = none]
  out,        \* [thread -> sequence of observations of the current job]
  done,       \* set of finished jobs: [prog, out]
  issued      \* sequence of identifiers handed out, in issue order

pvars == <<builtin, callId, holder, queue, pc, phase, tmp, local, out, done, issued>>

BuiltinInit == 3      \* stands for math.$pi

PInit(q) ==
  /\ builtin = BuiltinInit /\ callId = 0 /\ holder = "none"
  /\ queue = q
  /\ pc = [t \in Threads |-> 0] /\ phase = [t \in Threads |-> "idle"]
  /\ tmp = [t \in Threads |-> 0] /\ local = [t \in Threads |-> 0]
  /\ out = [t \in Threads |-> <<>>]
  /\ done = {} /\ issued = <<>>

Cur(t)  == Progs[Head(queue[t])]
Step(t) == Cur(t)[pc[t]]

StartJob(t) == /\ pc[t] = 0 /\ queue[t] # <<>>
               /\ pc' = [pc EXCEPT ![t] = 1]
               /\ out' = [out EXCEPT ![t] = <<>>]
               /\ local' = [local EXCEPT ![t] = 0]
               /\ UNCHANGED <<builtin, callId, holder, queue, phase, tmp, done, issued>>

EndJob(t) == /\ pc[t] > 0 /\ pc[t] > Len(Cur(t)) /\ phase[t] = "idle"
             /\ done' = done \cup {[prog |-> Head(queue[t]), out |-> out[t]]}
             /\ queue' = [queue EXCEPT ![t] = Tail(@)]
             /\ pc' = [pc EXCEPT ![t] = 0]
             /\ UNCHANGED <<builtin, callId, holder, phase, tmp, local, out, issued>>

InStep(t, k) == pc[t] > 0 /\ pc[t] <= Len(Cur(t)) /\ Step(t) = k /\ phase[t] = "idle"
Advance(t)   == pc' = [pc EXCEPT ![t] = @ + 1]

(* a user definition shadows the built-in for this job only *)
ReadVal(t) == IF local[t] # 0 THEN local[t] ELSE builtin

DoRead(t) == /\ InStep(t, "read")
             /\ out' = [out EXCEPT ![t] = Append(@, ReadVal(t))]
             /\ Advance(t)
             /\ UNCHANGED <<builtin, callId, holder, queue, phase, tmp, local, done, issued>>

(* math.$pi: 4  -  ScopeError::ModifiedBuiltin: the compilation fails (-1   *)
(* in the output, rest of the job skipped)                                   *)
WriteKinds == {"write", "writeg", "writed", "usewith"}
DoWrite(t) == /\ \E k \in WriteKinds : InStep(t, k)
              /\ IF "builtin_write_allowed" \in Dev
                 THEN /\ builtin' = 4 /\ out' = [out EXCEPT ![t] = Append(@, 0)]
                      /\ Advance(t)
                 ELSE /\ builtin' = builtin /\ out' = [out EXCEPT ![t] = Append(@, -1)]
                      /\ pc' = [pc EXCEPT ![t] = Len(Cur(t)) + 1]
              /\ UNCHANGED <<callId, holder, queue, phase, tmp, local, done, issued>>

DoDef(t) == /\ InStep(t, "def")
            /\ local' = [local EXCEPT ![t] = 7]
            /\ builtin' = IF "user_def_leaks" \in Dev THEN 7 ELSE builtin
            /\ Advance(t)
            /\ UNCHANGED <<callId, holder, queue, phase, tmp, out, done, issued>>

(* an error raised inside nested function calls ends the job; shared state  *)
(* and the thread are exactly as before                                      *)
DoFailCall(t) == /\ InStep(t, "failcall")
                 /\ out' = [out EXCEPT ![t] = Append(@, -1)]
                 /\ pc' = [pc EXCEPT ![t] = Len(Cur(t)) + 1]
                 /\ UNCHANGED <<builtin, callId, holder, queue, phase, tmp, local, done, issued>>

DoDeepCall(t) == /\ InStep(t, "deepcall")
                 /\ out' = [out EXCEPT ![t] = Append(@, 2)]
                 /\ Advance(t)
                 /\ UNCHANGED <<builtin, callId, holder, queue, phase, tmp, local, done, issued>>

DoPure(t) == /\ InStep(t, "pure")
             /\ out' = [out EXCEPT ![t] = Append(@, 1)]
             /\ Advance(t)
             /\ UNCHANGED <<builtin, callId, holder, queue, phase, tmp, local, done, issued>>

(* unique-id(): CALL_ID.lock(); *v += 1; *v; unlock *)
UidAcquire(t) == /\ InStep(t, "uid")
                 /\ IF "callid_unlocked" \in Dev
                    THEN /\ tmp' = [tmp EXCEPT ![t] = callId]      \* plain load, no lock
                         /\ UNCHANGED holder
                    ELSE /\ holder = "none" /\ holder' = t
                         /\ UNCHANGED tmp
                 /\ phase' = [phase EXCEPT ![t] = "inc"]
                 /\ UNCHANGED <<builtin, callId, queue, pc, local, out, done, issued>>

UidIncr(t) == /\ phase[t] = "inc"
              /\ IF "callid_unlocked" \in Dev
                 THEN /\ callId' = tmp[t] + 1                      \* plain store
                      /\ tmp' = [tmp EXCEPT ![t] = tmp[t] + 1]
                 ELSE /\ holder = t
                      /\ callId' = callId + 1
                      /\ tmp' = [tmp EXCEPT ![t] = callId + 1]
              /\ phase' = [phase EXCEPT ![t] = "rel"]
              /\ issued' = Append(issued, IF "callid_unlocked" \in Dev THEN tmp[t] + 1 ELSE callId + 1)
              /\ UNCHANGED <<builtin, holder, queue, pc, local, out, done>>

UidRelease(t) == /\ phase[t] = "rel"
                 /\ holder' = IF holder = t THEN "none" ELSE holder
                 /\ phase' = [phase EXCEPT ![t] = "idle"]
                 /\ Advance(t)
                 /\ UNCHANGED <<builtin, callId, queue, tmp, local, out, done, issued>>

PNext == \E t \in Threads :
           StartJob(t) \/ EndJob(t) \/ DoRead(t) \/ DoWrite(t) \/ DoDef(t) \/ DoPure(t)
           \/ DoFailCall(t) \/ DoDeepCall(t)
           \/ UidAcquire(t) \/ UidIncr(t) \/ UidRelease(t)

---------------------------------------------------------------------------
(* C05: compiling the same program gives the same output whatever ran       *)
(* before or runs concurrently (programs without uid steps)                  *)
HasUid(p) == \E i \in DOMAIN Progs[p] : Progs[p][i] = "uid"
Deterministic == \A a, b \in done : (a.prog = b.prog /\ ~HasUid(a.prog)) => a.out = b.out
BuiltinImmutable == builtin = BuiltinInit

(* C06: every unique-id() call of the process gets a distinct identifier     *)
SeqToSet(s) == {s[i] : i \in DOMAIN s}
Unique == Cardinality(SeqToSet(issued)) = Len(issued)
(* the inductive core of Unique: the counter is the number of ids issued     *)
CounterMatches == ("callid_unlocked" \notin Dev) =>
                     /\ callId = Len(issued)
                     /\ \A i \in DOMAIN issued : issued[i] = i
MutexOk == holder \in Threads \cup {"none"}
=============================================================================
